/-
C04 support, part 5: what one call of (instrumented) `stepInstrs` / `stepConfigs` does with each
validated instruction: it is executed (the back-stepped configuration is in the output), or it is
recorded as an indefinite step, or it is pruned against a kept blank tape, or the call fails.
-/
import BB.Lemmas.ReasonInstr

namespace BB.Reason

open BB

theorem descendant_state_tape (st : Nat) (tp : Backstepper) (prev : Config) :
    (Config.descendant st tp prev).state = st ∧ (Config.descendant st tp prev).tape = tp := by
  simp only [Config.descendant]
  split <;> exact ⟨rfl, rfl⟩

/-- what happened to the instruction `(r, sh, q)` on tape `t` -/
def Handled (t : Backstepper) (stepped : Configs) (kept' : Kept) (flag : Bool)
    (r : Nat) (sh : Bool) (q : Nat) : Prop :=
  ¬ ((t.backstep sh r).blank = true ∧ q = 0) ∧
  ((∃ Z ∈ stepped, Z.state = q ∧ Z.tape = t.backstep sh r) ∨
   ((t.backstep sh r).blank = true ∧
      (flag = true → ∃ w ∈ kept', w.1 = q ∧ blankSub w.2 (t.backstep sh r) = true)))

theorem Handled.mono {t : Backstepper} {stepped stepped' : Configs} {kept' kept'' : Kept}
    {flag flag' : Bool} {r : Nat} {sh : Bool} {q : Nat}
    (h : Handled t stepped kept' flag r sh q) (hs : ∀ Z ∈ stepped, Z ∈ stepped')
    (hk : ∀ w ∈ kept', w ∈ kept'') (hf : flag' = true → flag = true) :
    Handled t stepped' kept'' flag' r sh q := by
  refine ⟨h.1, ?_⟩
  rcases h.2 with ⟨Z, hZ, h1, h2⟩ | ⟨hb, hw⟩
  · exact Or.inl ⟨Z, hs Z hZ, h1, h2⟩
  · refine Or.inr ⟨hb, fun hf' => ?_⟩
    obtain ⟨w, hw1, hw2⟩ := hw (hf hf')
    exact ⟨w, hk w hw1, hw2⟩

/-- the kept list only grows, and new members are blank tapes of output configurations -/
def KeptStep (kept kept' : Kept) (stepped : Configs) : Prop :=
  (∀ w ∈ kept, w ∈ kept') ∧
  (∀ w ∈ kept', w ∈ kept ∨ (w.2.blank = true ∧ ∃ Z ∈ stepped, Z.state = w.1 ∧ Z.tape = w.2))

def NoInit (stepped : Configs) : Prop := ∀ Z ∈ stepped, ¬ (Z.state = 0 ∧ Z.tape.blank = true)

theorem stepInstrsI_spec (config : Config) : ∀ (instrs : List Instr) (kept : Kept)
    (stepped : Configs) (kept' : Kept) (flag : Bool),
    stepInstrsI config instrs kept = .ok (stepped, kept', flag) →
    KeptStep kept kept' stepped ∧ NoInit stepped ∧
    (∀ r sh q, (r, sh, q) ∈ instrs → Handled config.tape stepped kept' flag r sh q) := by
  intro instrs
  induction instrs with
  | nil =>
    intro kept stepped kept' flag h
    simp only [stepInstrsI, Except.ok.injEq, Prod.mk.injEq] at h
    obtain ⟨rfl, rfl, rfl⟩ := h
    refine ⟨⟨fun _ h => h, fun _ h => Or.inl h⟩, ?_, ?_⟩
    · intro Z hZ; cases hZ
    · intro r sh q hm; cases hm
  | cons i rest ih =>
    intro kept stepped kept' flag h
    obtain ⟨color, shift, state⟩ := i
    simp only [stepInstrsI] at h
    split at h
    · cases h
    · rename_i hinit
      have hinit' : ¬ ((config.tape.backstep shift color).blank = true ∧ state = 0) := by
        simpa using hinit
      split at h
      · -- pruned
        rename_i hprune
        simp only [Bool.and_eq_true] at hprune
        cases hr : stepInstrsI config rest kept with
        | error e => simp only [hr] at h; cases h
        | ok res =>
          obtain ⟨s, k, f⟩ := res
          simp only [hr, Except.ok.injEq, Prod.mk.injEq] at h
          obtain ⟨rfl, rfl, rfl⟩ := h
          obtain ⟨hk, hn, hh⟩ := ih kept s k f hr
          refine ⟨hk, hn, ?_⟩
          intro r sh q hm
          rcases List.mem_cons.1 hm with he | hm'
          · simp only [Prod.mk.injEq] at he
            obtain ⟨rfl, rfl, rfl⟩ := he
            refine ⟨hinit', Or.inr ⟨hprune.1, fun hf => ?_⟩⟩
            simp only [Bool.and_eq_true] at hf
            have hp := hf.1
            simp only [pruneOk, List.any_eq_true, Bool.and_eq_true, beq_iff_eq] at hp
            obtain ⟨w, hw, hw1, hw2⟩ := hp
            exact ⟨w, hk.1 w hw, hw1, hw2⟩
          · exact (hh r sh q hm').mono (fun _ h => h) (fun _ h => h)
              (fun hf => by simp only [Bool.and_eq_true] at hf; exact hf.2)
      · -- kept
        split at h
        · cases h
        · cases hr : stepInstrsI config rest
              (if (config.tape.backstep shift color).blank = true then
                (state, config.tape.backstep shift color) :: kept else kept) with
          | error e => simp only [hr] at h; cases h
          | ok res =>
            obtain ⟨s, k, f⟩ := res
            simp only [hr, Except.ok.injEq, Prod.mk.injEq] at h
            obtain ⟨rfl, rfl, rfl⟩ := h
            obtain ⟨hk, hn, hh⟩ := ih _ s k f hr
            have hd := descendant_state_tape state (config.tape.backstep shift color) config
            refine ⟨⟨?_, ?_⟩, ?_, ?_⟩
            · intro w hw
              apply hk.1
              split
              · exact List.mem_cons_of_mem _ hw
              · exact hw
            · intro w hw
              rcases hk.2 w hw with h1 | ⟨hb, Z, hZ, h2⟩
              · split at h1
                · rename_i hbl
                  rcases List.mem_cons.1 h1 with rfl | h1'
                  · exact Or.inr ⟨hbl, _, List.mem_cons_self, hd.1, hd.2⟩
                  · exact Or.inl h1'
                · exact Or.inl h1
              · exact Or.inr ⟨hb, Z, List.mem_cons_of_mem _ hZ, h2⟩
            · intro Z hZ
              rcases List.mem_cons.1 hZ with rfl | hZ'
              · rw [hd.1, hd.2]
                exact fun ⟨a, b⟩ => hinit' ⟨b, a⟩
              · exact hn Z hZ'
            · intro r sh q hm
              rcases List.mem_cons.1 hm with he | hm'
              · simp only [Prod.mk.injEq] at he
                obtain ⟨rfl, rfl, rfl⟩ := he
                exact ⟨hinit', Or.inl ⟨_, List.mem_cons_self, hd.1, hd.2⟩⟩
              · exact (hh r sh q hm').mono (fun _ h => List.mem_cons_of_mem _ h) (fun _ h => h)
                  (fun hf => hf)

theorem KeptStep.trans {k1 k2 k3 : Kept} {s1 s2 : Configs} (h1 : KeptStep k1 k2 s1)
    (h2 : KeptStep k2 k3 s2) : KeptStep k1 k3 (s1 ++ s2) := by
  refine ⟨fun w hw => h2.1 w (h1.1 w hw), fun w hw => ?_⟩
  rcases h2.2 w hw with h | ⟨hb, Z, hZ, hz⟩
  · rcases h1.2 w h with h' | ⟨hb, Z, hZ, hz⟩
    · exact Or.inl h'
    · exact Or.inr ⟨hb, Z, List.mem_append_left _ hZ, hz⟩
  · exact Or.inr ⟨hb, Z, List.mem_append_right _ hZ, hz⟩

theorem stepConfigsI_spec : ∀ (vs : ValidatedSteps) (kept : Kept)
    (stepped : Configs) (indefs : ValidatedSteps) (kept' : Kept) (flag : Bool),
    stepConfigsI vs kept = .ok (stepped, indefs, kept', flag) →
    KeptStep kept kept' stepped ∧ NoInit stepped ∧
    (∀ instrs Y, (instrs, Y) ∈ vs → ∀ r sh q, (r, sh, q) ∈ instrs →
      if Y.tape.pullsIndef sh = true then indefs ≠ []
      else Handled Y.tape stepped kept' flag r sh q) := by
  intro vs
  induction vs with
  | nil =>
    intro kept stepped indefs kept' flag h
    simp only [stepConfigsI, Except.ok.injEq, Prod.mk.injEq] at h
    obtain ⟨rfl, rfl, rfl, rfl⟩ := h
    refine ⟨⟨fun _ h => h, fun _ h => Or.inl h⟩, ?_, ?_⟩
    · intro Z hZ; cases hZ
    · intro instrs Y hY; cases hY
  | cons v rest ih =>
    intro kept stepped indefs kept' flag h
    obtain ⟨instrs0, config⟩ := v
    simp only [stepConfigsI] at h
    cases h1 : stepInstrsI config (instrs0.filter fun i => !config.tape.pullsIndef i.2.1) kept with
    | error e => simp only [h1] at h; cases h
    | ok res1 =>
      obtain ⟨s1, k1, f1⟩ := res1
      simp only [h1] at h
      cases h2 : stepConfigsI rest k1 with
      | error e => simp only [h2] at h; cases h
      | ok res2 =>
        obtain ⟨s2, i2, k2, f2⟩ := res2
        simp only [h2, Except.ok.injEq, Prod.mk.injEq] at h
        obtain ⟨rfl, rfl, rfl, rfl⟩ := h
        obtain ⟨hk1, hn1, hh1⟩ := stepInstrsI_spec config _ kept s1 k1 f1 h1
        obtain ⟨hk2, hn2, hh2⟩ := ih k1 s2 i2 k2 f2 h2
        refine ⟨hk1.trans hk2, ?_, ?_⟩
        · intro Z hZ
          rcases List.mem_append.1 hZ with h | h
          · exact hn1 Z h
          · exact hn2 Z h
        · intro instrs Y hY r sh q hm
          rcases List.mem_cons.1 hY with he | hY'
          · simp only [Prod.mk.injEq] at he
            obtain ⟨rfl, rfl⟩ := he
            by_cases hp : Y.tape.pullsIndef sh = true
            · simp only [hp, if_true]
              have : (r, sh, q) ∈ instrs.filter fun i => Y.tape.pullsIndef i.2.1 := by
                rw [List.mem_filter]; exact ⟨hm, hp⟩
              have hne : (instrs.filter fun i => Y.tape.pullsIndef i.2.1).isEmpty = false := by
                cases hl : instrs.filter fun i => Y.tape.pullsIndef i.2.1 with
                | nil => rw [hl] at this; cases this
                | cons a l => rfl
              simp only [hne, Bool.false_eq_true, if_false]
              exact List.cons_ne_nil _ _
            · simp only [hp]
              have : (r, sh, q) ∈ instrs.filter fun i => !Y.tape.pullsIndef i.2.1 := by
                rw [List.mem_filter]; exact ⟨hm, by simpa using hp⟩
              exact (hh1 r sh q this).mono (fun _ h => List.mem_append_left _ h) hk2.1
                (fun hf => by simp only [Bool.and_eq_true] at hf; exact hf.1)
          · have := hh2 instrs Y hY' r sh q hm
            by_cases hp : Y.tape.pullsIndef sh = true
            · simp only [hp, if_true] at this ⊢
              split
              · exact this
              · exact List.cons_ne_nil _ _
            · simp only [hp] at this ⊢
              exact this.mono (fun _ h => List.mem_append_right _ h) (fun _ h => h)
                (fun hf => by simp only [Bool.and_eq_true] at hf; exact hf.2)


/-! ### the only failures are `init` and `linRec` -/

theorem stepInstrsI_error (config : Config) : ∀ (instrs : List Instr) (kept : Kept)
    (e : BackwardResult), stepInstrsI config instrs kept = .error e → e = .init ∨ e = .linRec := by
  intro instrs
  induction instrs with
  | nil => intro kept e h; simp [stepInstrsI] at h
  | cons i rest ih =>
    intro kept e h
    obtain ⟨color, shift, state⟩ := i
    simp only [stepInstrsI] at h
    split at h
    · simp only [Except.error.injEq] at h; exact Or.inl h.symm
    · split at h
      · cases hr : stepInstrsI config rest kept with
        | error e' =>
          simp only [hr, Except.error.injEq] at h
          subst h; exact ih _ _ hr
        | ok res => simp only [hr] at h; cases h
      · split at h
        · simp only [Except.error.injEq] at h; exact Or.inr h.symm
        · cases hr : stepInstrsI config rest
              (if (config.tape.backstep shift color).blank = true then
                (state, config.tape.backstep shift color) :: kept else kept) with
          | error e' =>
            simp only [hr, Except.error.injEq] at h
            subst h; exact ih _ _ hr
          | ok res => simp only [hr] at h; cases h

theorem stepConfigsI_error : ∀ (vs : ValidatedSteps) (kept : Kept) (e : BackwardResult),
    stepConfigsI vs kept = .error e → e = .init ∨ e = .linRec := by
  intro vs
  induction vs with
  | nil => intro kept e h; simp [stepConfigsI] at h
  | cons v rest ih =>
    intro kept e h
    obtain ⟨instrs0, config⟩ := v
    simp only [stepConfigsI] at h
    cases h1 : stepInstrsI config (instrs0.filter fun i => !config.tape.pullsIndef i.2.1) kept with
    | error e' =>
      simp only [h1, Except.error.injEq] at h
      subst h; exact stepInstrsI_error _ _ _ _ h1
    | ok res1 =>
      obtain ⟨s1, k1, f1⟩ := res1
      simp only [h1] at h
      cases h2 : stepConfigsI rest k1 with
      | error e' =>
        simp only [h2, Except.error.injEq] at h
        subst h; exact ih _ _ h2
      | ok res2 => simp only [h2] at h; cases h

end BB.Reason
