/-
Shared by the C15 files: decidable equality of `Except` values, so that the concrete examples and
witnesses can be closed by `decide`, and the example programs used there.
-/
import BB.Model.Instrs

namespace BB

/-- decidable equality of outcomes `Except ε α` (core has none) -/
instance (priority := low) instDecidableEqExceptMono {ε α : Type} [DecidableEq ε] [DecidableEq α] :
    DecidableEq (Except ε α) := fun a b =>
  match a, b with
  | .ok x, .ok y =>
    if h : x = y then isTrue (by rw [h]) else isFalse (by intro h'; cases h'; exact h rfl)
  | .error x, .error y =>
    if h : x = y then isTrue (by rw [h]) else isFalse (by intro h'; cases h'; exact h rfl)
  | .ok _, .error _ => isFalse (by intro h; cases h)
  | .error _, .ok _ => isFalse (by intro h; cases h)

/-! ### example programs of the C15 statements (non-vacuity examples and witnesses) -/

namespace C15

/-- `1RB 0RC  1LB 1RC  0LA ...` -/
def progA : Prog :=
  [((0,0),(1,true,1)), ((0,1),(0,true,2)), ((1,0),(1,false,1)), ((1,1),(1,true,2)),
   ((2,0),(0,false,0))]

/-- `1RB ...  1LB 1LC  1RC 0RB` -/
def progB : Prog :=
  [((0,0),(1,true,1)), ((1,0),(1,false,1)), ((1,1),(1,false,2)), ((2,0),(1,true,2)),
   ((2,1),(0,true,1))]

/-- `1RB ...  1LB 0RB` -/
def progC : Prog := [((0,0),(1,true,1)), ((1,0),(1,false,1)), ((1,1),(0,true,1))]

/-- `1RB 0RA  1LA 1RB` -/
def progD : Prog :=
  [((0,0),(1,true,1)), ((0,1),(0,true,0)), ((1,0),(1,false,0)), ((1,1),(1,true,1))]

/-- `1RB 1LA  0RC 1RC  1LA ...` (the program of finding F1) -/
def progH : Prog :=
  [((0,0),(1,true,1)), ((0,1),(1,false,0)), ((1,0),(0,true,2)), ((1,1),(1,true,2)),
   ((2,0),(1,false,0))]

/-- `1RA ...  1LA 1LA`: state B is never entered; the backward reasoner reaches the
    `assert!(*state == 0)` of `get_valid_steps` at depth 2. -/
def progP : Prog := [((0,0),(1,true,0)), ((1,0),(1,false,0)), ((1,1),(1,false,0))]

/-- `1RB ...  0RC 0LC  ... ...`: state C has no defined slot, so `get_comp` (finding F2) leaves it
    out of the analysed table and `all_segments_reached` panics on the missing `branches` entry. -/
def progQ : Prog := [((0,0),(1,true,1)), ((1,0),(0,true,2)), ((1,1),(0,false,2))]

end C15

end BB
