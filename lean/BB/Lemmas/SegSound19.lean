/-
C05 — segment analysis.  Part 19: tools for the goal `blank`: bounds on the recorded positions,
the size of the union of the `blanks` sets, order of the initial positions, and the fact that a
step leaving a blank window printed a blank.
-/
import BB.Lemmas.SegSound18

namespace BB.Segment

open BB

/-! ### positions are below `seg` -/

theorem Good.pos_lt {seg : Nat} {t : Tape} (hseg : 4 ≤ seg) (hg : Good seg t) : Tape.pos t < seg := by
  have hc := hg.2
  unfold Tape.cells at hc
  unfold Tape.pos
  cases hs : t.scan with
  | some s =>
    simp only [hs, Option.isSome_some, if_true, Bool.true_or] at hc ⊢
    omega
  | none =>
    simp only [hs, Option.isSome_none, Bool.false_eq_true, if_false, Bool.false_or] at hc ⊢
    split <;> omega

/-- every position stored in any entry of the dictionary is below `n` -/
def RawBound (n : Nat) (d : List (Nat × List Nat)) : Prop := ∀ kv ∈ d, ∀ pos ∈ kv.2, pos < n

theorem mem_dictSet {α : Type} {d : List (Nat × α)} {k : Nat} {v : α} {e : Nat × α}
    (h : e ∈ dictSet d k v) : e ∈ d ∨ e = (k, v) := by
  induction d with
  | nil => simp [dictSet] at h; exact Or.inr h
  | cons x rest ih =>
    obtain ⟨k0, v0⟩ := x
    simp only [dictSet] at h
    split at h
    · simp only [List.mem_cons] at h ⊢
      rcases h with h | h
      · exact Or.inr h
      · exact Or.inl (Or.inr h)
    · split at h
      · simp only [List.mem_cons] at h ⊢
        rcases h with h | h | h
        · exact Or.inr h
        · exact Or.inl (Or.inl h)
        · exact Or.inl (Or.inr h)
      · simp only [List.mem_cons] at h ⊢
        rcases h with h | h
        · exact Or.inl (Or.inl h)
        · rcases ih h with h' | h'
          · exact Or.inl (Or.inr h')
          · exact Or.inr h'

theorem rawBound_insert {n : Nat} {d : List (Nat × List Nat)} (h : RawBound n d) (k : Nat)
    {x : Nat} (hx : x < n) : RawBound n (dictSetInsert d k x) := by
  intro kv hkv pos hpos
  unfold dictSetInsert at hkv
  cases hg : dictGet d k with
  | none =>
    rw [hg] at hkv
    rcases mem_dictSet hkv with h' | rfl
    · exact h kv h' pos hpos
    · simp only [List.mem_singleton] at hpos
      rw [hpos]; exact hx
  | some s =>
    rw [hg] at hkv
    rcases mem_dictSet hkv with h' | rfl
    · exact h kv h' pos hpos
    · simp only at hpos
      rw [mem_setInsert] at hpos
      rcases hpos with rfl | hpos
      · exact hx
      · exact h (k, s) (dictGet_mem hg) pos hpos

theorem rawBound_ensure {n : Nat} {d : List (Nat × List Nat)} (h : RawBound n d) (k : Nat) :
    RawBound n (dictEnsure d k) := by
  intro kv hkv pos hpos
  unfold dictEnsure at hkv
  cases hg : dictGet d k with
  | none =>
    rw [hg] at hkv
    rcases mem_dictSet hkv with h' | rfl
    · exact h kv h' pos hpos
    · cases hpos
  | some s =>
    rw [hg] at hkv
    exact h kv hkv pos hpos

/-! ### the size of the union -/

theorem nodup_setInsert {s : List Nat} (h : s.Nodup) (x : Nat) : (setInsert s x).Nodup := by
  unfold setInsert
  by_cases hc : s.contains x = true
  · rw [if_pos hc]; exact h
  · rw [if_neg hc]
    exact List.nodup_cons.2 ⟨by simpa using hc, h⟩

theorem fold_setInsert_spec (s acc : List Nat) (h : acc.Nodup) :
    (s.foldl setInsert acc).Nodup ∧ ∀ y, y ∈ s.foldl setInsert acc ↔ y ∈ acc ∨ y ∈ s := by
  induction s generalizing acc with
  | nil => exact ⟨h, fun y => by simp⟩
  | cons x xs ih =>
    rw [List.foldl_cons]
    obtain ⟨h1, h2⟩ := ih (setInsert acc x) (nodup_setInsert h x)
    refine ⟨h1, fun y => ?_⟩
    rw [h2, mem_setInsert]
    simp only [List.mem_cons]
    constructor
    · rintro ((h | h) | h)
      · exact Or.inr (Or.inl h)
      · exact Or.inl h
      · exact Or.inr (Or.inr h)
    · rintro (h | h | h)
      · exact Or.inl (Or.inr h)
      · exact Or.inl (Or.inl h)
      · exact Or.inr h

theorem union_spec (d : List (Nat × List Nat)) (acc : List Nat) (h : acc.Nodup) :
    (d.foldl (fun acc kv => kv.2.foldl setInsert acc) acc).Nodup ∧
    ∀ y, y ∈ d.foldl (fun acc kv => kv.2.foldl setInsert acc) acc ↔
      y ∈ acc ∨ ∃ kv ∈ d, y ∈ kv.2 := by
  induction d generalizing acc with
  | nil => exact ⟨h, fun y => by simp⟩
  | cons e rest ih =>
    rw [List.foldl_cons]
    obtain ⟨f1, f2⟩ := fold_setInsert_spec e.2 acc h
    obtain ⟨h1, h2⟩ := ih (e.2.foldl setInsert acc) f1
    refine ⟨h1, fun y => ?_⟩
    rw [h2, f2]
    constructor
    · rintro ((h | h) | ⟨kv, hkv, hy⟩)
      · exact Or.inl h
      · exact Or.inr ⟨e, List.mem_cons_self, h⟩
      · exact Or.inr ⟨kv, List.mem_cons_of_mem _ hkv, hy⟩
    · rintro (h | ⟨kv, hkv, hy⟩)
      · exact Or.inl (Or.inl h)
      · simp only [List.mem_cons] at hkv
        rcases hkv with rfl | hkv
        · exact Or.inl (Or.inr hy)
        · exact Or.inr ⟨kv, hkv, hy⟩

theorem length_le_of_nodup_bound : ∀ (n : Nat) (l : List Nat), l.Nodup → (∀ x ∈ l, x < n) →
    l.length ≤ n := by
  intro n
  induction n with
  | zero =>
    intro l _ h
    cases l with
    | nil => exact Nat.le_refl _
    | cons x xs => exact absurd (h x List.mem_cons_self) (Nat.not_lt_zero _)
  | succ n ih =>
    intro l hnd h
    have h' : ∀ x ∈ l.erase n, x < n := by
      intro x hx
      have hx' := (List.Nodup.mem_erase_iff hnd).1 hx
      have := h x hx'.2
      omega
    have := ih (l.erase n) (hnd.erase n) h'
    have hl := List.length_erase_le (a := n) (l := l)
    by_cases hm : n ∈ l
    · rw [List.length_erase_of_mem hm] at this
      omega
    · rw [List.erase_of_not_mem hm] at this
      omega

/-- if every stored position is below `n` and some entry holds all of `0 … n-1`, the union of all
    entries has exactly `n` elements -/
theorem unionSize_eq {n : Nat} {d : List (Nat × List Nat)} (hb : RawBound n d) {k : Nat}
    (hall : ∀ j, j < n → DHas d k j) : unionSize d = n := by
  unfold unionSize
  obtain ⟨h1, h2⟩ := union_spec d [] List.nodup_nil
  apply Nat.le_antisymm
  · apply length_le_of_nodup_bound n _ h1
    intro x hx
    rw [h2] at hx
    rcases hx with hx | ⟨kv, hkv, hy⟩
    · cases hx
    · exact hb kv hkv x hy
  · apply length_ge_of_all_mem
    intro o ho
    obtain ⟨s, hs, hos⟩ := hall o ho
    rw [h2]
    exact Or.inr ⟨(k, s), dictGet_mem hs, hos⟩

/-! ### the order of the initial positions -/

theorem find?_range_min (p : Nat → Bool) : ∀ (n k : Nat), (List.range n).find? p = some k →
    k < n ∧ p k = true ∧ ∀ j, j < k → p j = false := by
  intro n
  induction n with
  | zero => intro k h; simp at h
  | succ n ih =>
    intro k h
    rw [List.range_succ, List.find?_append] at h
    cases hf : (List.range n).find? p with
    | some k' =>
      rw [hf] at h
      simp only [Option.some_or, Option.some.injEq] at h
      subst h
      obtain ⟨h1, h2, h3⟩ := ih k' hf
      exact ⟨by omega, h2, h3⟩
    | none =>
      rw [hf] at h
      simp only [Option.none_or, List.find?_cons, List.find?_nil] at h
      rw [List.find?_eq_none] at hf
      by_cases hp : p n = true
      · simp only [hp] at h
        simp only [Option.some.injEq] at h
        subst h
        refine ⟨by omega, hp, fun j hj => ?_⟩
        have := hf j (List.mem_range.2 hj)
        simpa using this
      · simp [hp] at h

/-! ### a step that leaves a blank window printed a blank -/

theorem Span.blank_push {U : Span} {pr k : Nat} (h : Span.blank (Span.push U pr k) = true) :
    pr = 0 := by
  unfold Span.push at h
  cases U with
  | nil =>
    simp only [Span.pushBlock, Span.blank, List.all_cons, Bool.and_eq_true, beq_iff_eq] at h
    exact h.1
  | cons b rest =>
    simp only at h
    by_cases hb : (b.color == pr) = true
    · rw [if_pos hb] at h
      simp only [Span.blank, List.all_cons, Bool.and_eq_true, beq_iff_eq] at h
      simp only [beq_iff_eq] at hb
      rw [← hb]; exact h.1
    · rw [if_neg hb] at h
      simp only [Span.pushBlock, Span.blank, List.all_cons, Bool.and_eq_true, beq_iff_eq] at h
      exact h.1

theorem Tape.step_blank_print {t t' : Tape} {sh : Bool} {pr : Nat} {skip : Bool}
    (h : Tape.step t sh pr skip = some t') (hb : Tape.blank t' = true) : pr = 0 := by
  unfold Tape.step at h
  cases hs : t.scan with
  | none => rw [hs] at h; cases h
  | some s =>
    rw [hs] at h
    simp only at h
    unfold Tape.blank at hb
    simp only [Bool.and_eq_true] at hb
    cases sh with
    | true =>
      simp only [if_true, Option.some.injEq] at h
      subst h
      exact Span.blank_push hb.1.2
    | false =>
      simp only [Bool.false_eq_true, if_false, Option.some.injEq] at h
      subst h
      exact Span.blank_push hb.2

end BB.Segment
