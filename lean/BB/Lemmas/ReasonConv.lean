/-
C04 support, part 10: converse membership lemmas — everything in the entry points comes from the
table, and everything `getValidSteps` outputs comes from a configuration and a checked entry.
-/
import BB.Lemmas.ReasonEntry

namespace BB.Reason

open BB

/-- every entry listed under `st` is an instruction of the table with next state `st` -/
def AllReal (p : Prog) (ep : Entrypoints) : Prop :=
  ∀ st same diff, ep.get st = some (same, diff) →
    ∀ e ∈ same ++ diff, (e.1, (e.2.1, e.2.2, st)) ∈ p

theorem AllReal_push {p : Prog} {ep : Entrypoints} (h : AllReal p ep) (hs : ESorted ep)
    (st : Nat) (b : Bool) (en : Entry) (hen : (en.1, (en.2.1, en.2.2, st)) ∈ p) :
    AllReal p (ep.push st b en) := by
  intro st' same diff hg e he
  rw [Entrypoints.get_push _ _ _ _ _ hs] at hg
  by_cases hst : st = st'
  · subst hst
    simp only [beq_self_eq_true, if_true, Option.some.injEq] at hg
    cases hget : ep.get st with
    | none =>
      rw [hget] at hg
      cases b <;> simp only [addEntry, Option.getD_none, List.nil_append, Bool.false_eq_true,
        if_false, if_true, Prod.mk.injEq] at hg <;> obtain ⟨rfl, rfl⟩ := hg <;>
        simp only [List.append_nil, List.nil_append, List.mem_singleton] at he <;>
        (subst he; exact hen)
    | some sd =>
      obtain ⟨s0, d0⟩ := sd
      rw [hget] at hg
      have hold := h st s0 d0 hget
      cases b <;> simp only [addEntry, Option.getD_some, Bool.false_eq_true,
        if_false, if_true, Prod.mk.injEq] at hg <;> obtain ⟨rfl, rfl⟩ := hg
      · rcases List.mem_append.1 he with h1 | h1
        · exact hold e (List.mem_append_left _ h1)
        · rcases List.mem_append.1 h1 with h2 | h2
          · exact hold e (List.mem_append_right _ h2)
          · simp only [List.mem_singleton] at h2; subst h2; exact hen
      · rcases List.mem_append.1 he with h1 | h1
        · rcases List.mem_append.1 h1 with h2 | h2
          · exact hold e (List.mem_append_left _ h2)
          · simp only [List.mem_singleton] at h2; subst h2; exact hen
        · exact hold e (List.mem_append_right _ h1)
  · have : (st == st') = false := by simpa using hst
    simp only [this, Bool.false_eq_true, if_false] at hg
    exact h st' same diff hg e he

theorem getEntrypoints_foldl_real (p : Prog) (l : List (Slot × Instr)) (hl : ∀ kv ∈ l, kv ∈ p) :
    ∀ (acc : Entrypoints), ESorted acc → AllReal p acc →
    AllReal p (l.foldl (fun acc kv =>
      let slot := kv.1
      let (color, shift, state) := kv.2
      Entrypoints.push acc state (slot.1 == state) (slot, (color, shift))) acc) := by
  induction l with
  | nil => intro acc _ h; exact h
  | cons kv rest ih =>
    intro acc hs h
    simp only [List.foldl_cons]
    obtain ⟨slot, color, shift, state⟩ := kv
    apply ih (fun kv hkv => hl kv (List.mem_cons_of_mem _ hkv))
    · exact Entrypoints.push_sorted acc state _ _ hs
    · exact AllReal_push h hs state _ _ (hl _ List.mem_cons_self)

theorem getEntrypoints_real (p : Prog) : AllReal p (getEntrypoints p) :=
  getEntrypoints_foldl_real p p (fun _ h => h) [] trivial
    (fun st same diff hg => by simp [Entrypoints.get] at hg)

/-! ### valid steps, conversely -/

theorem checkedSteps_conv {tape : Backstepper} {entries : Entries} {i : Instr}
    (h : i ∈ checkedSteps tape entries) :
    ∃ pr, ((i.2.2, i.1), (pr, i.2.1)) ∈ entries ∧ tape.checkStep i.2.1 pr = true := by
  simp only [checkedSteps, List.mem_filterMap] at h
  obtain ⟨⟨⟨st, co⟩, pr, sh⟩, hm, hi⟩ := h
  simp only at hi
  split at hi
  · rename_i hc
    simp only [Option.some.injEq] at hi
    subst hi
    exact ⟨pr, hm, hc⟩
  · cases hi

theorem getIndef_conv {push : Bool} {X : Config} {diff same : Entries} {steps : List Instr}
    {cfg : Config} (h : getIndef push X diff same = some (steps, cfg)) :
    cfg = Config.new X.state (X.tape.pushIndef push) ∧
    ∀ i ∈ steps, ∃ pr, ((i.2.2, i.1), (pr, i.2.1)) ∈ diff ++ same ∧
      (X.tape.pushIndef push).checkStep i.2.1 pr = true := by
  simp only [getIndef] at h
  split at h
  · cases h
  · split at h
    · cases h
    · simp only [Option.some.injEq, Prod.mk.injEq] at h
      obtain ⟨rfl, rfl⟩ := h
      refine ⟨rfl, fun i hi => ?_⟩
      obtain ⟨pr, hm, hc⟩ := checkedSteps_conv hi
      exact ⟨pr, (List.mem_filter.1 hm).1, hc⟩

theorem sameSteps_conv (f : Bool) (X : Config) (diff same : Entries) : ∀ (l : Entries),
    (∀ i ∈ (sameSteps f X diff same l).1, ∃ pr, ((i.2.2, i.1), (pr, i.2.1)) ∈ l ∧
      X.tape.checkStep i.2.1 pr = true) ∧
    (∀ y ∈ (sameSteps f X diff same l).2, ∃ sh r, X.tape.checkSpinout sh r = some true ∧
      getIndef sh X diff same = some y) := by
  intro l
  induction l with
  | nil =>
    refine ⟨?_, ?_⟩
    · intro i hi; cases hi
    · intro y hy; cases hy
  | cons e rest ih =>
    obtain ⟨⟨state, color⟩, print, shift⟩ := e
    obtain ⟨ih1, ih2⟩ := ih
    have lift : ∀ i ∈ (sameSteps f X diff same rest).1, ∃ pr,
        ((i.2.2, i.1), (pr, i.2.1)) ∈ ((state, color), (print, shift)) :: rest ∧
        X.tape.checkStep i.2.1 pr = true := fun i hi => by
      obtain ⟨pr, hm, hc⟩ := ih1 i hi
      exact ⟨pr, List.mem_cons_of_mem _ hm, hc⟩
    simp only [sameSteps]
    split
    · exact ⟨lift, ih2⟩
    · rename_i hck
      have hck' : X.tape.checkStep shift print = true := by simpa using hck
      have new : ∀ i ∈ (color, shift, state) :: (sameSteps f X diff same rest).1, ∃ pr,
          ((i.2.2, i.1), (pr, i.2.1)) ∈ ((state, color), (print, shift)) :: rest ∧
          X.tape.checkStep i.2.1 pr = true := fun i hi => by
        rcases List.mem_cons.1 hi with rfl | hi'
        · exact ⟨print, List.mem_cons_self, hck'⟩
        · exact lift i hi'
      split
      · exact ⟨new, ih2⟩
      · split
        · exact ⟨new, ih2⟩
        · exact ⟨lift, ih2⟩
      · rename_i hcs
        split
        · rename_i indef hgi
          refine ⟨lift, fun y hy => ?_⟩
          rcases List.mem_cons.1 hy with rfl | hy'
          · exact ⟨shift, color, hcs, hgi⟩
          · exact ih2 y hy'
        · exact ⟨lift, ih2⟩

theorem getValidSteps_conv (f : Bool) (ep : Entrypoints) : ∀ (configs : Configs)
    (vs : ValidatedSteps), getValidSteps f ep configs = .ok vs →
    ∀ v ∈ vs, ∃ X ∈ configs, ∃ same diff, ep.get X.state = some (same, diff) ∧
      ((v.2 = X ∧ ∀ i ∈ v.1, ∃ pr, ((i.2.2, i.1), (pr, i.2.1)) ∈ same ++ diff ∧
          X.tape.checkStep i.2.1 pr = true) ∨
       (∃ sh r, X.tape.checkSpinout sh r = some true ∧ getIndef sh X diff same = some v)) := by
  intro configs
  induction configs with
  | nil =>
    intro vs h v hv
    simp only [getValidSteps, Except.ok.injEq] at h
    subst h; cases hv
  | cons c rest ih =>
    intro vs h v hv
    simp only [getValidSteps] at h
    have lift : ∀ vs', getValidSteps f ep rest = .ok vs' → v ∈ vs' →
        ∃ X ∈ c :: rest, ∃ same diff, ep.get X.state = some (same, diff) ∧
        ((v.2 = X ∧ ∀ i ∈ v.1, ∃ pr, ((i.2.2, i.1), (pr, i.2.1)) ∈ same ++ diff ∧
            X.tape.checkStep i.2.1 pr = true) ∨
         (∃ sh r, X.tape.checkSpinout sh r = some true ∧ getIndef sh X diff same = some v)) :=
      fun vs' h' hv' => by
        obtain ⟨X, hX, rest'⟩ := ih vs' h' v hv'
        exact ⟨X, List.mem_cons_of_mem _ hX, rest'⟩
    cases hgc : ep.get c.state with
    | none =>
      simp only [hgc] at h
      split at h
      · exact lift vs h hv
      · cases h
    | some sd =>
      obtain ⟨same, diff⟩ := sd
      simp only [hgc] at h
      cases hr : getValidSteps f ep rest with
      | error e => simp only [hr] at h; cases h
      | ok checked =>
        simp only [hr, Except.ok.injEq] at h
        subst h
        obtain ⟨c1, c2⟩ := sameSteps_conv f c diff same same
        rcases List.mem_append.1 hv with h1 | h1
        · exact ⟨c, List.mem_cons_self, same, diff, hgc, Or.inr (c2 v h1)⟩
        · split at h1
          · exact lift checked hr h1
          · rcases List.mem_cons.1 h1 with rfl | h2
            · refine ⟨c, List.mem_cons_self, same, diff, hgc, Or.inl ⟨rfl, fun i hi => ?_⟩⟩
              rcases List.mem_append.1 hi with h3 | h3
              · obtain ⟨pr, hm, hc⟩ := checkedSteps_conv h3
                exact ⟨pr, List.mem_append_right _ hm, hc⟩
              · obtain ⟨pr, hm, hc⟩ := c1 i h3
                exact ⟨pr, List.mem_append_left _ hm, hc⟩
            · exact lift checked hr h2

end BB.Reason
