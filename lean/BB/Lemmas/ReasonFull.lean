/-
C04 support, part 12: the halt and spin-out targets are coherent, so for a functional table the
instrumented flag is `true` and `refuted` is sound without side condition.
-/
import BB.Lemmas.ReasonFlag

namespace BB.Reason

open BB

theorem haltConfigs_mem {p : Prog} {f : Bool} {T : Config} (h : T ∈ haltConfigs p f) :
    ∃ st co, T = Config.initHalt st co ∧ p.get (st, co) = none := by
  simp only [haltConfigs, List.mem_map] at h
  obtain ⟨⟨st, co⟩, hm, rfl⟩ := h
  exact ⟨st, co, rfl, haltSlots_none hm⟩

theorem halt_coherent (p : Prog) (f : Bool) : TargetsCoherent p (haltConfigs p f) := by
  constructor
  · intro T1 h1 T2 h2 c g1 g2
    obtain ⟨s1, c1, rfl, _⟩ := haltConfigs_mem h1
    obtain ⟨s2, c2, rfl, _⟩ := haltConfigs_mem h2
    have e1 : c.scan = c1 := g1.2.1
    have e2 : c.scan = c2 := g2.2.1
    have : c1 = c2 := by rw [← e1, ← e2]
    subst this
    exact SameSpans.refl _
  · intro T hT c g pr sh s hget
    obtain ⟨st, co, rfl, hnone⟩ := haltConfigs_mem hT
    have e1 : c.state = st := g.1
    have e2 : c.scan = co := g.2.1
    rw [e1, e2, hnone] at hget
    cases hget

theorem haltConfigs_J (p : Prog) (f : Bool) : ∀ X ∈ haltConfigs p f, J X.tape := by
  intro X hX
  obtain ⟨st, co, rfl, _⟩ := haltConfigs_mem hX
  exact ⟨trivial, trivial⟩

theorem zeroReflexiveConfigs_mem {p : Prog} (hf : p.Functional) {T : Config}
    (h : T ∈ zeroReflexiveConfigs p) :
    ∃ st sh pr, T = Config.initSpinout st sh ∧ p.get (st, 0) = some (pr, sh, st) := by
  simp only [zeroReflexiveConfigs, List.mem_map] at h
  obtain ⟨⟨st, sh⟩, hm, rfl⟩ := h
  obtain ⟨pr, hmem⟩ := zrShifts_mem hm
  exact ⟨st, sh, pr, rfl, hf _ hmem⟩

theorem initSpinout_scan (sh : Bool) : (Backstepper.initSpinout sh).scan = 0 := by
  cases sh <;> rfl

theorem spinout_coherent (p : Prog) (hf : p.Functional) :
    TargetsCoherent p (zeroReflexiveConfigs p) := by
  constructor
  · intro T1 h1 T2 h2 c g1 g2
    obtain ⟨s1, sh1, pr1, rfl, hg1⟩ := zeroReflexiveConfigs_mem hf h1
    obtain ⟨s2, sh2, pr2, rfl, hg2⟩ := zeroReflexiveConfigs_mem hf h2
    have e1 : c.state = s1 := g1.1
    have e2 : c.state = s2 := g2.1
    have : s1 = s2 := by rw [← e1, ← e2]
    subst this
    rw [hg1] at hg2
    simp only [Option.some.injEq, Prod.mk.injEq, and_true] at hg2
    obtain ⟨_, rfl⟩ := hg2
    exact SameSpans.refl _
  · intro T hT c g pr sh s hget
    obtain ⟨st, sh0, pr0, rfl, hg0⟩ := zeroReflexiveConfigs_mem hf hT
    have e1 : c.state = st := g.1
    have e2 : c.scan = 0 := by
      have := g.2.1
      simp only [Config.initSpinout, Config.new, initSpinout_scan] at this
      exact this
    rw [e1, e2, hg0] at hget
    simp only [Option.some.injEq, Prod.mk.injEq] at hget
    obtain ⟨rfl, rfl, rfl⟩ := hget
    refine ⟨rfl, ?_, ?_⟩
    · obtain ⟨_, _, hl, hr⟩ := g
      cases sh0 with
      | true =>
        simp only [Config.initSpinout, Config.new, Backstepper.initSpinout, if_true] at hl hr
        cases hr with
        | nilBlanks hz =>
          refine ⟨rfl, ?_, SpanMatch.nilUnknown, SpanMatch.nilBlanks (fun i => ?_)⟩
          · show c.right.headD 0 = 0
            rw [← cellAt_zero_eq_headD]; exact hz 0
          · show cellAt c.right.tail i = 0
            rw [cellAt_tail]; exact hz _
      | false =>
        simp only [Config.initSpinout, Config.new, Backstepper.initSpinout, Bool.false_eq_true,
          if_false] at hl hr
        cases hl with
        | nilBlanks hz =>
          refine ⟨rfl, ?_, SpanMatch.nilBlanks (fun i => ?_), SpanMatch.nilUnknown⟩
          · show c.left.headD 0 = 0
            rw [← cellAt_zero_eq_headD]; exact hz 0
          · show cellAt c.left.tail i = 0
            rw [cellAt_tail]; exact hz _
    · intro t' hs
      obtain ⟨h1, h2, h3⟩ := hs
      rw [e2]
      cases sh0 with
      | true =>
        simp only [Config.initSpinout, Config.new, Backstepper.initSpinout, if_true] at h1 h2 h3
        simp only [SameSpans, Config.initSpinout, Config.new, Backstepper.initSpinout, if_true,
          Backstepper.backstep, h1, h2, h3]
        exact ⟨trivial, rfl, rfl⟩
      | false =>
        simp only [Config.initSpinout, Config.new, Backstepper.initSpinout, Bool.false_eq_true,
          if_false] at h1 h2 h3
        simp only [SameSpans, Config.initSpinout, Config.new, Backstepper.initSpinout,
          Bool.false_eq_true, if_false, Backstepper.backstep, h1, h2, h3]
        exact ⟨trivial, rfl, rfl⟩

theorem zeroReflexiveConfigs_J (p : Prog) : ∀ X ∈ zeroReflexiveConfigs p, J X.tape := by
  intro X hX
  simp only [zeroReflexiveConfigs, List.mem_map] at hX
  obtain ⟨⟨st, sh⟩, _, rfl⟩ := hX
  cases sh <;> exact ⟨trivial, trivial⟩

/-- for a functional table the halt search never prunes unjustifiably -/
theorem halt_flag (p : Prog) (hf : p.functionalB = true) (f1 f2 : Bool) (depth : Nat) :
    (cantReachI f1 p depth (haltConfigs p f2)).2 = true :=
  cantReachI_flag (Prog.functional_of_B hf) (halt_coherent p f2) (haltConfigs_J p f2) f1 depth

/-- for a functional table the spin-out search never prunes unjustifiably -/
theorem spinout_flag (p : Prog) (hf : p.functionalB = true) (f1 : Bool) (depth : Nat) :
    (cantReachI f1 p depth (zeroReflexiveConfigs p)).2 = true :=
  cantReachI_flag (Prog.functional_of_B hf) (spinout_coherent p (Prog.functional_of_B hf))
    (zeroReflexiveConfigs_J p) f1 depth

theorem cant_halt_sound_functional (p : Prog) (hf : p.functionalB = true) (depth k : Nat)
    (h0 : (p.get (0, 0)).isSome) (h : cantHalt p depth true true = .ok (.refuted k)) :
    ¬ Halts p.toF :=
  cant_halt_sound' p depth k h0 h (halt_flag p hf true true depth)

theorem cant_spin_out_sound_functional (p : Prog) (hf : p.functionalB = true) (depth k : Nat)
    (h : cantSpinOut p depth true = .ok (.refuted k)) : ¬ SpinsOut p.toF :=
  cant_spin_out_sound' p depth k h (spinout_flag p hf true depth)


/-- a strictly sorted table (the `BTreeMap` invariant) is functional -/
theorem functionalB_of_sorted' (p : Prog)
    (h : List.Pairwise (fun a b => slotLt a.1 b.1 = true) p) : p.functionalB = true := by
  simp only [Prog.functionalB, List.all_eq_true, beq_iff_eq]
  induction p with
  | nil => intro kv hkv; cases hkv
  | cons kv0 rest ih =>
    obtain ⟨k, v⟩ := kv0
    rw [List.pairwise_cons] at h
    intro kv hkv
    rcases List.mem_cons.1 hkv with rfl | hm
    · simp [Prog.get]
    · have hlt := h.1 kv hm
      simp only [slotLt, Bool.or_eq_true, decide_eq_true_eq, Bool.and_eq_true, beq_iff_eq] at hlt
      have hne : (k.1 == kv.1.1 && k.2 == kv.1.2) = false := by
        simp only [Bool.and_eq_false_iff, beq_eq_false_iff_ne, ne_eq]
        rcases hlt with h1 | ⟨h1, h2⟩
        · exact Or.inl (by omega)
        · exact Or.inr (by omega)
      simp only [Prog.get, hne, Bool.false_eq_true, if_false]
      have := ih h.2 kv hm
      exact this

end BB.Reason
