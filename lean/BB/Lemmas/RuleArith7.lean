/-
C11 (rule arithmetic is exact), part 7: exactly when `apply_rule` panics.
-/
import BB.Lemmas.RuleArith6

namespace BB.RuleArith

open BB

/-! ### the loop of count_apps -/

theorem loop_error_fwd (t : Tape) (rule : Rule) (apps : Option Apps) (e : PErr)
    (h : countAppsLoop t rule apps = .error e) :
    ∃ pre pos op post, rule = pre ++ (pos, op) :: post ∧ (∀ x ∈ pre, Passes t x) ∧
      PanicsAt t (pos, op) e := by
  induction rule generalizing apps with
  | nil => simp only [countAppsLoop] at h; cases h
  | cons e0 rest ih =>
    obtain ⟨pos0, op0⟩ := e0
    cases op0 with
    | mult q r =>
      simp only [countAppsLoop] at h
      injection h with h
      exact ⟨[], pos0, Op.mult q r, rest, rfl, fun x hx => (by cases hx),
        Or.inl ⟨q, r, rfl, h.symm⟩⟩
    | plus diff =>
      simp only [countAppsLoop] at h
      split at h
      · next hnn =>
        obtain ⟨pre, pos, op, post, hr, hpre, hpan⟩ := ih apps h
        refine ⟨(pos0, Op.plus diff) :: pre, pos, op, post, by rw [hr]; rfl, ?_, hpan⟩
        intro x hx
        rcases List.mem_cons.mp hx with hx | hx
        · subst hx; exact ⟨diff, rfl, Or.inl (by omega)⟩
        · exact hpre x hx
      · next hneg =>
        split at h
        · next e' he' =>
          injection h with h
          subst h
          have hnr : ¬ InRange t pos0 := by
            intro hin
            obtain ⟨c, hc⟩ := getCount_inRange hin
            rw [hc] at he'; cases he'
          rw [getCount_not_inRange hnr] at he'
          injection he' with he'
          exact ⟨[], pos0, Op.plus diff, rest, rfl, fun x hx => (by cases hx),
            Or.inr ⟨diff, rfl, by omega, hnr, he'.symm⟩⟩
        · next count hcount =>
          split at h
          · cases h
          · next hge =>
            rw [timesMinRes_eq (by omega) (by omega)] at h
            simp only at h
            obtain ⟨pre, pos, op, post, hr, hpre, hpan⟩ := ih _ h
            refine ⟨(pos0, Op.plus diff) :: pre, pos, op, post, by rw [hr]; rfl, ?_, hpan⟩
            intro x hx
            rcases List.mem_cons.mp hx with hx | hx
            · subst hx; exact ⟨diff, rfl, Or.inr ⟨count, hcount, by omega⟩⟩
            · exact hpre x hx

theorem loop_error_bwd (t : Tape) (pre : Rule) (pos : Index) (op : Op) (post : Rule)
    (apps : Option Apps) (e : PErr) (hpre : ∀ x ∈ pre, Passes t x)
    (hpan : PanicsAt t (pos, op) e) :
    countAppsLoop t (pre ++ (pos, op) :: post) apps = .error e := by
  induction pre generalizing apps with
  | nil =>
    simp only [List.nil_append]
    rcases hpan with ⟨q, r, hop, he⟩ | ⟨δ, hop, hneg, hnr, he⟩
    · simp only at hop; subst hop; subst he
      simp only [countAppsLoop]
    · simp only at hop hnr; subst hop; subst he
      simp only [countAppsLoop]
      rw [if_neg (by omega), getCount_not_inRange hnr]
  | cons x pre ih =>
    obtain ⟨pos0, op0⟩ := x
    have ih' := fun apps => ih apps (fun x hx => hpre x (List.mem_cons_of_mem _ hx))
    obtain ⟨δ, hop, hcase⟩ := hpre _ List.mem_cons_self
    simp only at hop hcase
    subst hop
    simp only [List.cons_append, countAppsLoop]
    by_cases hnn : δ ≥ 0
    · rw [if_pos hnn]; exact ih' apps
    · rw [if_neg hnn]
      rcases hcase with h0 | ⟨c, hc, hlt⟩
      · omega
      · rw [hc]
        simp only
        rw [if_neg (by omega), timesMinRes_eq (by omega) hlt]
        exact ih' _

/-! ### the first loop of apply_rule -/

/-- the hypotheses hold whenever `count_apps` returned `(T, P, M)` for a rule with distinct keys
    on a tape whose counts are `u64`s (`results_error_hyps`) -/
theorem results_error_iff (t : Tape) (T : Nat) (P : Index) (M : Nat) (rule : Rule) (e : PErr)
    (hp : AllPlus rule) (hmin : ∀ δ, (P, Op.plus δ) ∈ rule → δ < 0)
    (hdec : ∀ idx δ, (idx, Op.plus δ) ∈ rule → δ < 0 → idx ≠ P →
      ∃ c r, t.getCount idx = .ok c ∧ applyPlus c δ T = some r) :
    applyRuleResults t T P M rule = .error e ↔
      ∃ pre pos δ post, rule = pre ++ (pos, Op.plus δ) :: post ∧ 0 ≤ δ ∧ ¬ InRange t pos ∧
        e = .panic "index out of bounds" ∧
        ∀ idx δ', (idx, Op.plus δ') ∈ pre → 0 ≤ δ' →
          ∃ c, t.getCount idx = .ok c ∧ (c : Int) + δ' * T ≤ countMax := by
  induction rule with
  | nil =>
    simp only [applyRuleResults]
    constructor
    · intro h; cases h
    · rintro ⟨pre, _, _, _, hr, _⟩
      cases pre <;> cases hr
  | cons e0 rest ih =>
    obtain ⟨pos0, op0⟩ := e0
    have ih' := ih (fun x hx => hp x (List.mem_cons_of_mem _ hx))
      (fun δ hm => hmin δ (List.mem_cons_of_mem _ hm))
      (fun idx δ hm => hdec idx δ (List.mem_cons_of_mem _ hm))
    obtain ⟨δ0, hop⟩ := hp _ List.mem_cons_self
    simp only at hop
    subst hop
    -- the statement for `rest` lifts to `(pos0, Plus δ0) :: rest` when the head entry is passed
    have lift : (δ0 < 0 ∨ ∃ c, t.getCount pos0 = .ok c ∧ (c : Int) + δ0 * T ≤ countMax) →
        ((∃ pre pos δ post, rest = pre ++ (pos, Op.plus δ) :: post ∧ 0 ≤ δ ∧ ¬ InRange t pos ∧
          e = .panic "index out of bounds" ∧
          ∀ idx δ', (idx, Op.plus δ') ∈ pre → 0 ≤ δ' →
            ∃ c, t.getCount idx = .ok c ∧ (c : Int) + δ' * T ≤ countMax) ↔
        (∃ pre pos δ post, (pos0, Op.plus δ0) :: rest = pre ++ (pos, Op.plus δ) :: post ∧ 0 ≤ δ ∧
          ¬ InRange t pos ∧ e = .panic "index out of bounds" ∧
          ∀ idx δ', (idx, Op.plus δ') ∈ pre → 0 ≤ δ' →
            ∃ c, t.getCount idx = .ok c ∧ (c : Int) + δ' * T ≤ countMax)) := by
      intro hhead
      constructor
      · rintro ⟨pre, pos, δ, post, hr, hnn, hnr, he, hall⟩
        refine ⟨(pos0, Op.plus δ0) :: pre, pos, δ, post, by rw [hr]; rfl, hnn, hnr, he, ?_⟩
        intro idx δ' hm hδ'
        rcases List.mem_cons.mp hm with hm | hm
        · simp only [Prod.mk.injEq, Op.plus.injEq] at hm
          obtain ⟨hi, hd⟩ := hm
          subst hi; subst hd
          rcases hhead with h | h
          · omega
          · exact h
        · exact hall idx δ' hm hδ'
      · rintro ⟨pre, pos, δ, post, hr, hnn, hnr, he, hall⟩
        cases pre with
        | nil =>
          exfalso
          simp only [List.nil_append, List.cons.injEq, Prod.mk.injEq, Op.plus.injEq] at hr
          obtain ⟨⟨hi, hd⟩, _⟩ := hr
          subst hi; subst hd
          rcases hhead with h | ⟨c, hc, _⟩
          · omega
          · exact hnr (inRange_of_getCount hc)
        | cons x pre =>
          simp only [List.cons_append, List.cons.injEq] at hr
          obtain ⟨hx, hr⟩ := hr
          exact ⟨pre, pos, δ, post, hr, hnn, hnr, he,
            fun idx δ' hm => hall idx δ' (List.mem_cons_of_mem _ hm)⟩
    simp only [applyRuleResults]
    by_cases hP : pos0 = P
    · -- the minimal entry: no read
      have hneg : δ0 < 0 := hmin δ0 (hP ▸ List.mem_cons_self)
      have hbeq : (pos0 == P) = true := by simpa using hP
      rw [hbeq]
      simp only [if_true, if_pos hneg]
      rw [← lift (Or.inl hneg), ← ih']
      cases applyRuleResults t T P M rest with
      | error e' => simp
      | ok res => cases res <;> simp
    · have hbeq : (pos0 == P) = false := by simpa using hP
      rw [hbeq]
      simp only [Bool.false_eq_true, if_false]
      by_cases hin : InRange t pos0
      · obtain ⟨c, hc⟩ := getCount_inRange hin
        rw [hc]
        simp only
        cases hap : applyPlus c δ0 T with
        | none =>
          simp only
          constructor
          · intro h; cases h
          · rintro ⟨pre, pos, δ, post, hr, hnn, hnr, he, hall⟩
            exfalso
            cases pre with
            | nil =>
              simp only [List.nil_append, List.cons.injEq, Prod.mk.injEq, Op.plus.injEq] at hr
              obtain ⟨⟨hi, hd⟩, _⟩ := hr
              subst hi
              exact hnr hin
            | cons x pre =>
              simp only [List.cons_append, List.cons.injEq] at hr
              obtain ⟨hx, hr⟩ := hr
              subst hx
              by_cases hδ0 : 0 ≤ δ0
              · obtain ⟨c', hc', hfit⟩ := hall pos0 δ0 List.mem_cons_self hδ0
                rw [hc] at hc'
                injection hc' with hc'
                subst hc'
                have := (applyPlus_inc_none_iff hδ0).mp hap
                omega
              · obtain ⟨c', r, hc', hr'⟩ := hdec pos0 δ0 List.mem_cons_self (by omega) hP
                rw [hc] at hc'
                injection hc' with hc'
                subst hc'
                rw [hap] at hr'
                cases hr'
        | some r =>
          simp only
          have hhead : δ0 < 0 ∨ ∃ c, t.getCount pos0 = .ok c ∧ (c : Int) + δ0 * T ≤ countMax := by
            by_cases hδ0 : 0 ≤ δ0
            · refine Or.inr ⟨c, hc, ?_⟩
              have hne : ¬ (applyPlus c δ0 T = none) := by rw [hap]; simp
              rw [applyPlus_inc_none_iff hδ0] at hne
              omega
            · exact Or.inl (by omega)
          rw [← lift hhead, ← ih']
          cases applyRuleResults t T P M rest with
          | error e' => simp
          | ok res => cases res <;> simp
      · rw [getCount_not_inRange hin]
        simp only
        have hδ0 : 0 ≤ δ0 := by
          by_cases hδ0 : 0 ≤ δ0
          · exact hδ0
          · exfalso
            obtain ⟨c', r, hc', _⟩ := hdec pos0 δ0 List.mem_cons_self (by omega) hP
            exact hin (inRange_of_getCount hc')
        constructor
        · intro h
          injection h with h
          exact ⟨[], pos0, δ0, rest, rfl, hδ0, hin, h.symm, fun _ _ hm => (by cases hm)⟩
        · rintro ⟨pre, pos, δ, post, hr, hnn, hnr, he, hall⟩
          rw [he]

/-! ### apply_rule -/

theorem results_error_hyps {t : Tape} {rule : Rule} {T : Nat} {P : Index} {M : Nat}
    (hnd : (keys rule).Nodup) (hc : CountsInRange t)
    (hca : countApps t rule = .ok (some (T, P, M))) :
    AllPlus rule ∧ (∀ δ, (P, Op.plus δ) ∈ rule → δ < 0) ∧
      (∀ idx δ, (idx, Op.plus δ) ∈ rule → δ < 0 → idx ≠ P →
        ∃ c r, t.getCount idx = .ok c ∧ applyPlus c δ T = some r) := by
  obtain ⟨hp, _, hdec, _⟩ := countApps_some_nat hca
  refine ⟨hp, min_entry_neg hnd hca, ?_⟩
  intro idx δ hm hneg _
  obtain ⟨c, hcnt, hge⟩ := hdec idx δ hm hneg
  exact ⟨c, _, hcnt, applyPlus_dec hneg (count_le_max hc hcnt) (by omega)⟩

theorem apply_error_iff' (t : Tape) (rule : Rule) (hnd : (keys rule).Nodup)
    (hc : CountsInRange t) (e : PErr) :
    applyRule t rule = .error e ↔
      (∃ pre pos op post, rule = pre ++ (pos, op) :: post ∧ (∀ x ∈ pre, Passes t x) ∧
        PanicsAt t (pos, op) e) ∨
      (∃ times minPos minRes, countApps t rule = .ok (some (times, minPos, minRes)) ∧
        ∃ pre pos δ post, rule = pre ++ (pos, Op.plus δ) :: post ∧ 0 ≤ δ ∧ ¬ InRange t pos ∧
          e = .panic "index out of bounds" ∧
          ∀ idx δ', (idx, Op.plus δ') ∈ pre → 0 ≤ δ' →
            ∃ c, t.getCount idx = .ok c ∧ (c : Int) + δ' * times ≤ countMax) := by
  constructor
  · intro h
    unfold applyRule at h
    split at h
    · next e' hca =>
      injection h with h
      subst h
      exact Or.inl (loop_error_fwd t rule none e' hca)
    · cases h
    · next T P M hca =>
      obtain ⟨hp, hmin, hdec⟩ := results_error_hyps hnd hc hca
      split at h
      · next e' hres =>
        injection h with h
        subst h
        exact Or.inr ⟨T, P, M, hca, (results_error_iff t T P M rule e' hp hmin hdec).mp hres⟩
      · cases h
      · next results hres =>
        exfalso
        obtain ⟨hk, hro⟩ := results_some hres
        obtain ⟨_, _, _, _, _, _, cP, _, _, hcP, _⟩ := countApps_some_nat hca
        obtain ⟨t1, ht1⟩ := setCounts_exists (t := t) (results := results) (by
          intro e0 he0
          have hk0 : e0.1 ∈ keys rule := by rw [← hk]; exact List.mem_map.mpr ⟨e0, he0, rfl⟩
          obtain ⟨x, hx, hxk⟩ := List.mem_map.mp hk0
          obtain ⟨idx, op⟩ := x
          simp only at hxk
          rw [← hxk]
          obtain ⟨δ, hδ⟩ := hp _ hx
          simp only at hδ
          subst hδ
          obtain ⟨r, _, hres⟩ := hro idx δ hx
          rcases hres with ⟨hi, _, _⟩ | ⟨_, c, hcnt, _⟩
          · rw [hi]; exact inRange_of_getCount hcP
          · exact inRange_of_getCount hcnt)
        rw [ht1] at h
        cases h
  · intro h
    rcases h with ⟨pre, pos, op, post, hr, hpre, hpan⟩ | ⟨T, P, M, hca, hrest⟩
    · have := loop_error_bwd t pre pos op post none e hpre hpan
      rw [← hr] at this
      unfold applyRule countApps
      rw [this]
    · obtain ⟨hp, hmin, hdec⟩ := results_error_hyps hnd hc hca
      have := (results_error_iff t T P M rule e hp hmin hdec).mpr hrest
      unfold applyRule
      rw [hca]
      simp only
      rw [this]

end BB.RuleArith
