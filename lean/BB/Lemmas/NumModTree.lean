/-
C18 helper lemmas for `BB/Model/NumModTree.lean` (the model `modE` of the whole `%` operator of
tm/num.py): each node kind's `__mod__` returns the residue of the node's value provided the
recursive `%` calls do; assembled by induction on the tree into `modE_correct'`.
Core Lean only.  Reuses BB/Lemmas/NumMod.lean (integer exponent), BB/Lemmas/PowMod.lean
(periodicity) and the generated BB/Generated/NumTables.lean (`specialTables_sound`: every entry of
the literal tables of `exp_mod_special_cases`, as re-read from the source, is a true residue).
-/
import BB.Model.NumModTree
import BB.Lemmas.NumMod
import BB.Generated.NumTables

namespace BB.NumModTree

open BB.NumEval BB.NumMod BB.PowMod

/-! ### integer arithmetic -/

theorem add_res (va vb m : Int) : (va % m + vb % m) % m = (va + vb) % m :=
  (Int.add_emod va vb m).symm

theorem mul_res (va vb m : Int) : (va % m * (vb % m)) % m = (va * vb) % m :=
  (Int.mul_emod va vb m).symm

theorem mul_res_zero_left (va vb m : Int) (h : va % m = 0) : (va * vb) % m = 0 := by
  rw [Int.mul_emod, h, Int.zero_mul, Int.zero_emod]

theorem mul_res_zero_right (va vb m : Int) (h : vb % m = 0) : (va * vb) % m = 0 := by
  rw [Int.mul_emod, h, Int.mul_zero, Int.zero_emod]

/-- `Div.__mod__`: `(a / d) % m` from `x = a % (m * d)` when `d` divides `a` -/
theorem div_res (a d m : Int) (hd : 0 < d) (ha : a % d = 0) :
    (a % (m * d)) % d = 0 ∧ (a / d) % m = ((a % (m * d)) / d) % m := by
  have hdvd : d ∣ m * d := Int.dvd_mul_left m d
  have h1 : (a % (m * d)) % d = 0 := by rw [Int.emod_emod_of_dvd a hdvd, ha]
  refine ⟨h1, ?_⟩
  have hdec : a = a % (m * d) + d * (m * (a / (m * d))) := by
    have := Int.emod_add_mul_ediv a (m * d)
    rw [show d * (m * (a / (m * d))) = m * d * (a / (m * d)) by
      rw [← Int.mul_assoc, Int.mul_comm d m]]
    exact this.symm
  have hq : a / d = a % (m * d) / d + m * (a / (m * d)) := by
    conv => lhs; rw [hdec]
    exact Int.add_mul_ediv_left _ _ (by omega)
  rw [hq, Int.add_mul_emod_self_left]

/-- `b ^ k % m` only depends on `b % m` -/
theorem pow_emod (b : Int) (k : Nat) (m : Int) : b ^ k % m = (b % m) ^ k % m := by
  induction k with
  | zero => simp
  | succ k ih =>
    rw [Int.pow_succ, Int.pow_succ, Int.mul_emod, ih, Int.mul_emod ((b % m) ^ k), Int.emod_emod]

/-- the residue of a power of a non-negative base, computed in `Nat` -/
theorem pow_cast (B k m : Nat) : ((B ^ k % m : Nat) : Int) = (B : Int) ^ k % (m : Int) := by
  rw [Int.natCast_emod, Int.natCast_pow]

/-- the residue of a power of any base through the residue of the base -/
theorem pow_cast_neg (b : Int) (k m : Nat) (hm : 0 < m) :
    (((b % (m : Int)).toNat ^ k % m : Nat) : Int) = b ^ k % (m : Int) := by
  have hnn : 0 ≤ b % (m : Int) := Int.emod_nonneg b (by omega)
  rw [pow_cast, Int.toNat_of_nonneg hnn, ← pow_emod]

/-! ### the tail of `Exp.__mod__` -/

theorem finish_correct (B m e : Nat) (hm : 2 ≤ m) : finish B m e = B ^ e % m := by
  unfold finish
  split
  · rename_i h0
    have h0' : e = 0 := by simpa using h0
    subst h0'
    rw [Nat.pow_zero, Nat.mod_eq_of_lt (by omega)]
  · have hlt : e < 2 ^ (e + 1) := Nat.lt_trans (Nat.lt_succ_self _) Nat.lt_two_pow_self
    rw [sqMul_spec m (by omega) (e + 1) B e 1 hlt (by omega), Nat.one_mul]

theorem reduce_by_period (B m p e : Nat) (hm : 2 ≤ m) (hp : 0 < p → B ^ p % m = 1) :
    B ^ (if p > 0 then e % p else e) % m = B ^ e % m := by
  by_cases h : p > 0
  · rw [if_pos h]
    have h2 : B ^ p % m = 1 % m := by rw [hp h, Nat.mod_eq_of_lt (by omega)]
    exact (period_sound B m p h h2 e).symm
  · rw [if_neg h]

theorem intTail_correct (B m e r : Nat) (per : Option Nat) (hm : 2 ≤ m)
    (hp : ∀ p, per = some p → 0 < p → B ^ p % m = 1)
    (h : intTail B m per e = some r) : r = B ^ e % m := by
  unfold intTail at h
  split at h
  · exact absurd h (by simp)
  · rename_i p
    injection h with h
    rw [← h, finish_correct B m _ hm]
    exact reduce_by_period B m p e hm (hp p rfl)

theorem findPeriod_one (B m p : Nat) (h : findPeriod B m = some p) (hp : 0 < p) :
    B ^ p % m = 1 := (findPeriod_order' B m p h hp).1

theorem findPeriodRaw_one (B m p : Nat) (hm : 2 ≤ m) (h : findPeriodRaw B m = some p) (hp : 0 < p) :
    B ^ p % m = 1 := by
  unfold findPeriodRaw at h
  split at h
  · exact absurd h (by simp)
  · injection h with h
    have hval : (1 : Nat) = B ^ (1 - 1) % m := by
      rw [Nat.sub_self, Nat.pow_zero, Nat.mod_eq_of_lt (by omega)]
    rcases findPeriodGo_spec B m (m - 1) 1 1 p (by omega) hval h with ⟨h0, _⟩ | ⟨_, _, hone, _⟩
    · omega
    · exact hone

/-! ### table lookups -/

theorem lookupNat_mem {α : Type} (k : Nat) : ∀ (l : List (Nat × α)) (v : α),
    lookupNat k l = some v → (k, v) ∈ l := by
  intro l
  induction l with
  | nil => intro v h; simp [lookupNat] at h
  | cons hd tl ih =>
    intro v h
    obtain ⟨k', v'⟩ := hd
    unfold lookupNat at h
    split at h
    · rename_i hk
      have hk' : k' = k := by simpa using hk
      injection h with h
      subst hk' h
      exact List.mem_cons_self
    · exact List.mem_cons_of_mem _ (ih v h)

/-- an entry found in the generated data is a true statement about every exponent `≥ 2` -/
theorem table_entry (m per idx v : Nat) (tbl : List (Nat × Nat))
    (h1 : lookupNat m BB.NumTablesData.specialTables = some (per, tbl))
    (h2 : lookupNat idx tbl = some v) :
    0 < per ∧ ∀ e : Nat, 1 < e → e % per = idx → BB.NumTablesData.specialBase ^ e % m = v := by
  have hm := lookupNat_mem m _ _ h1
  have hi := lookupNat_mem idx _ _ h2
  refine ⟨BB.NumTables.specialTables_per_pos _ hm, ?_⟩
  have hflat : (m, per, idx, v) ∈ BB.NumTablesData.specialFlat := by
    unfold BB.NumTablesData.specialFlat
    rw [List.mem_flatMap]
    exact ⟨(m, per, tbl), hm, List.mem_map.mpr ⟨(idx, v), hi, rfl⟩⟩
  exact BB.NumTables.specialTables_sound _ hflat

/-! ### a symbolic exponent: the recursive `%` calls -/

/-- the recursive `%` calls on the exponent tree return residues of the exponent's value `k` -/
def RecOk (rec : Nat → Option Int) (k : Nat) : Prop :=
  ∀ K ρ, 0 < K → rec K = some ρ → ρ = (k : Int) % (K : Int)

theorem map_some {α β : Type} (o : Option α) (f : α → β) (r : β)
    (h : some (o.map f) = some (some r)) : ∃ a, o = some a ∧ f a = r := by
  cases o with
  | none => simp at h
  | some a => exact ⟨a, rfl, by simpa using h⟩

theorem RecOk.toNat {rec : Nat → Option Int} {k : Nat} (hrec : RecOk rec k) (K : Nat) (ρ : Int)
    (hK : 0 < K) (h : rec K = some ρ) : ρ.toNat = k % K := by
  have := hrec K ρ hK h
  rw [this, ← Int.natCast_emod, Int.toNat_natCast]

/-- the literal `match base:` block with recursive `exp % 2`, `exp % 4` agrees with the
    integer-exponent version at the exponent's value -/
theorem specialSym_special (B m k r : Nat) (rec : Nat → Option Int) (hrec : RecOk rec k)
    (h : specialSym B m rec = some (some r)) : special B m k = some r := by
  unfold specialSym at h
  unfold special
  split at h
  · rename_i hb
    rw [if_pos hb]
    split at h
    · rename_i hm
      rw [if_pos hm]
      simpa using h
    · rename_i hm
      rw [if_neg hm]
      split at h
      · rename_i hm6
        rw [if_pos hm6]
        obtain ⟨ρ, hρ, hf⟩ := map_some _ _ _ h
        have h2 := hrec.toNat 2 ρ (by omega) hρ
        have h3 := hrec 2 ρ (by omega) hρ
        have e : (ρ == 0) = (k % 2 == 0) := by
          rw [Bool.eq_iff_iff, beq_iff_eq, beq_iff_eq]
          omega
        rw [← hf, e]
      · rename_i hm6
        rw [if_neg hm6]
        split at h
        · rename_i hm12
          rw [if_pos hm12]
          obtain ⟨ρ, hρ, hf⟩ := map_some _ _ _ h
          have h3 := hrec 2 ρ (by omega) hρ
          have e : (ρ == 0) = (k % 2 == 0) := by
            rw [Bool.eq_iff_iff, beq_iff_eq, beq_iff_eq]
            omega
          rw [← hf, e]
        · rename_i hm12
          rw [if_neg hm12]
          split at h
          · rename_i hm30
            rw [if_pos hm30]
            obtain ⟨ρ, hρ, hf⟩ := map_some _ _ _ h
            have h2 := hrec.toNat 4 ρ (by omega) hρ
            rw [h2] at hf
            rw [← hf]
            generalize k % 4 = j
            match j with
            | 0 => rfl
            | 1 => rfl
            | 2 => rfl
            | 3 => rfl
            | _ + 4 => rfl
          · exact absurd h (by simp)
  · rename_i hb
    rw [if_neg hb]
    split at h
    · rename_i hb3
      rw [if_pos hb3]
      split at h
      · rename_i hm
        rw [if_pos hm]
        simpa using h
      · exact absurd h (by simp)
    · rename_i hb3
      rw [if_neg hb3]
      split at h
      · rename_i hb6
        rw [if_pos hb6]
        split at h
        · rename_i hm
          rw [if_pos hm]
          simpa using h
        · exact absurd h (by simp)
      · rename_i hb6
        rw [if_neg hb6]
        split at h
        · rename_i hb7
          rw [if_pos hb7]
          split at h
          · rename_i hm
            rw [if_pos hm]
            obtain ⟨ρ, hρ, hf⟩ := map_some _ _ _ h
            have h3 := hrec 2 ρ (by omega) hρ
            have e : (ρ == 0) = (k % 2 == 0) := by
              rw [Bool.eq_iff_iff, beq_iff_eq, beq_iff_eq]
              omega
            rw [← hf, e]
          · exact absurd h (by simp)
        · exact absurd h (by simp)

/-- `exp_mod_special_cases` returns only true residues (for an exponent `≥ 2`) -/
theorem expModSpecial_correct (B m k r : Nat) (rec : Nat → Option Int) (hrec : RecOk rec k)
    (hk : 2 ≤ k) (h : expModSpecial B m rec = some r) : r = B ^ k % m := by
  unfold expModSpecial at h
  split at h
  · exact absurd h (by simp)
  · rename_i hg
    have hB : B = BB.NumTablesData.specialBase := by
      simp only [Bool.or_eq_true, bne_iff_ne, ne_eq, not_or, Decidable.not_not] at hg
      exact hg.1
    split at h
    · exact absurd h (by simp)
    · rename_i per tbl hl
      split at h
      · exact absurd h (by simp)
      · rename_i idx hidx
        obtain ⟨hpos, hall⟩ := table_entry m per idx.toNat r tbl hl h
        rw [hB]
        exact (hall k (by omega) (hrec.toNat per idx hpos hidx).symm).symm

/-- `Exp.__mod__` for a base `≥ 0` and a symbolic exponent of value `k ≥ 2` -/
theorem expSymNat_correct (B m k r : Nat) (gt1 : Option Bool) (rec : Nat → Option Int)
    (hrec : RecOk rec k) (hk : 2 ≤ k) (h : expSymNat B m gt1 rec = some r) : r = B ^ k % m := by
  unfold expSymNat at h
  split at h
  · rename_i h1
    have h1' : m = 1 := by simpa using h1
    subst h1'
    injection h with h
    subst h
    exact (Nat.mod_one _).symm
  · rename_i h1
    have h1' : m ≠ 1 := by simpa using h1
    split at h
    · rename_i h2
      have h2' : m = B := by simpa using h2
      subst h2'
      injection h with h
      subst h
      exact (pow_mod_self m k (by omega)).symm
    · split at h
      · rename_i h3
        have h3' : m = 2 := by simpa using h3
        subst h3'
        injection h with h
        subst h
        exact (pow_mod_two B k (by omega)).symm
      · rename_i h3
        have h3' : m ≠ 2 := by simpa using h3
        split at h
        · exact absurd h (by simp)
        · rename_i h4
          have h4' : m ≠ 0 := by simpa using h4
          split at h
          · exact absurd h (by simp)
          · have hm : 3 ≤ m := by omega
            split at h
            · exact absurd h (by simp)
            · exact absurd h (by simp)
            · split at h
              · rename_i r' hs
                subst h
                exact special_sound B m k r hk (specialSym_special B m k r rec hrec hs)
              · split at h
                · rename_i n hn
                  split at h
                  · exact absurd h (by simp)
                  · rename_i e he
                    have hr := intTail_correct B m e.toNat r (findPeriod B m) (by omega)
                      (fun p hp hpos => findPeriod_one B m p hp hpos) h
                    have hb3 : B = 3 ∧ log2Exact (m + 1) m = some n := by
                      split at hn
                      · rename_i hb
                        exact ⟨by simpa using hb, hn⟩
                      · exact absurd hn (by simp)
                    obtain ⟨hb, hlog⟩ := hb3
                    subst hb
                    have hmod := log2Exact_sound _ _ _ hlog
                    have hn2 : 2 ≤ n := by
                      rcases n with _ | _ | n
                      · simp at hmod; omega
                      · simp at hmod; omega
                      · omega
                    have he' := hrec.toNat _ e (Nat.two_pow_pos _) he
                    rw [hr, he', hmod]
                    exact reduce3_sound' k n hn2
                · split at h
                  · exact absurd h (by simp)
                  · rename_i p hp
                    split at h
                    · rename_i hpos
                      split at h
                      · exact absurd h (by simp)
                      · rename_i e he
                        injection h with h
                        have he' := hrec.toNat p e hpos he
                        rw [← h, finish_correct B m _ (by omega), he']
                        have := reduce_by_period B m p k (by omega) (fun hp0 => findPeriod_one B m p hp hp0)
                        rw [if_pos hpos] at this
                        exact this
                    · exact expModSpecial_correct B m k r rec hrec hk h

/-! ### a negative base -/

theorem neg_mod_two (b : Int) (k : Nat) (hk : 1 ≤ k) :
    (((b % 2).toNat : Nat) : Int) = b ^ k % ((2 : Nat) : Int) := by
  have h := pow_cast_neg b k 2 (by omega)
  rw [← h, pow_mod_two _ k (by omega)]
  have : (b % ((2 : Nat) : Int)).toNat < 2 := by omega
  rw [Nat.mod_eq_of_lt this]
  rfl

theorem expNegInt_correct (b n : Int) (m r : Nat) (hn : 1 ≤ n) (hm : 0 < m)
    (h : expNegInt b n m = some r) : (r : Int) = b ^ n.toNat % (m : Int) := by
  unfold expNegInt at h
  split at h
  · rename_i h1
    have h1' : m = 1 := by simpa using h1
    subst h1'
    injection h with h
    subst h
    omega
  · split at h
    · rename_i h2
      have h2' : m = 2 := by simpa using h2
      subst h2'
      injection h with h
      subst h
      exact neg_mod_two b n.toNat (by omega)
    · rename_i h1 h2
      have h1' : m ≠ 1 := by simpa using h1
      have h2' : m ≠ 2 := by simpa using h2
      split at h
      · exact absurd h (by simp)
      · dsimp only at h
        split at h
        · exact absurd h (by simp)
        · split at h
          · exact absurd h (by simp)
          · have hr := intTail_correct _ m n.toNat r _ (by omega)
              (fun p hp hpos => findPeriodRaw_one _ m p (by omega) hp hpos) h
            rw [hr]
            exact pow_cast_neg b n.toNat m hm

theorem expNegSym_correct (b : Int) (m k r : Nat) (gt1 : Option Bool) (rec : Nat → Option Int)
    (hrec : RecOk rec k) (hk : 1 ≤ k) (hm : 0 < m)
    (h : expNegSym b m gt1 rec = some r) : (r : Int) = b ^ k % (m : Int) := by
  unfold expNegSym at h
  split at h
  · rename_i h1
    have h1' : m = 1 := by simpa using h1
    subst h1'
    injection h with h
    subst h
    omega
  · split at h
    · rename_i h2
      have h2' : m = 2 := by simpa using h2
      subst h2'
      injection h with h
      subst h
      exact neg_mod_two b k hk
    · rename_i h1 h2
      have h1' : m ≠ 1 := by simpa using h1
      have h2' : m ≠ 2 := by simpa using h2
      split at h
      · exact absurd h (by simp)
      · dsimp only at h
        split at h
        · exact absurd h (by simp)
        · split at h
          · exact absurd h (by simp)
          · exact absurd h (by simp)
          · split at h
            · exact absurd h (by simp)
            · rename_i p hp
              split at h
              · rename_i hpos
                split at h
                · exact absurd h (by simp)
                · rename_i e he
                  injection h with h
                  have he' := hrec.toNat p e hpos he
                  rw [← h, finish_correct _ m _ (by omega), he']
                  have := reduce_by_period (b % (m : Int)).toNat m p k (by omega)
                    (fun hp0 => findPeriodRaw_one _ m p (by omega) hp hp0)
                  rw [if_pos hpos] at this
                  rw [this]
                  exact pow_cast_neg b k m hm
              · exact absurd h (by simp)

/-! ### `Exp.__mod__` -/

theorem natRes_some (o : Option Nat) (res : Int) (h : natRes o = some res) :
    ∃ r : Nat, o = some r ∧ res = (r : Int) := by
  cases o with
  | none => simp [natRes] at h
  | some r => exact ⟨r, rfl, by simpa [natRes] using h.symm⟩

theorem expLit_correct (b n : Int) (m : Nat) (res : Int) (hn : 1 ≤ n) (hm : 0 < m)
    (h : natRes (expLit b n m) = some res) : res = b ^ n.toNat % (m : Int) := by
  obtain ⟨r, hr, rfl⟩ := natRes_some _ _ h
  unfold expLit at hr
  split at hr
  · rename_i hb
    have := expModInt_correct_partial' b.toNat n.toNat m r (by omega) hr
    rw [this, pow_cast, Int.toNat_of_nonneg hb]
  · exact expNegInt_correct b n m r hn hm hr

theorem expSym_correct (b : Int) (m k : Nat) (res : Int) (gt1 : Option Bool)
    (rec : Nat → Option Int) (hrec : RecOk rec k) (hk : 2 ≤ k) (hm : 0 < m)
    (h : natRes (expSym b m gt1 rec) = some res) : res = b ^ k % (m : Int) := by
  obtain ⟨r, hr, rfl⟩ := natRes_some _ _ h
  unfold expSym at hr
  split at hr
  · rename_i hb
    have := expSymNat_correct b.toNat m k r gt1 rec hrec hk hr
    rw [this, pow_cast, Int.toNat_of_nonneg hb]
  · exact expNegSym_correct b m k r gt1 rec hrec (by omega) hm hr

/-! ### the whole operator -/

theorem asInt_some (x : NExpr) (n : Int) (h : asInt x = some n) : x = .int n := by
  cases x <;> simp [asInt] at h
  subst h
  rfl

theorem modE_correct' (e : NExpr) : ∀ (m : Nat) (r v : Int), expsOk e = true →
    modE e m = some r → eval e = some v → 0 < m → r = v % (m : Int) := by
  induction e with
  | int n =>
    intro m r v _ h hv hm
    unfold modE at h
    unfold eval at hv
    injection hv with hv
    subst hv
    split at h
    · exact absurd h (by simp)
    · injection h with h
      exact h.symm
  | add l r ihl ihr =>
    intro m res v hok h hv hm
    simp only [expsOk, Bool.and_eq_true] at hok
    unfold modE at h
    unfold eval at hv
    split at hv
    · rename_i a b ha hb
      injection hv with hv
      split at h
      · rename_i h1
        have h1' : m = 1 := by simpa using h1
        subst h1'
        injection h with h
        omega
      · split at h
        · rename_i x y hx hy
          split at h
          · exact absurd h (by simp)
          · injection h with h
            have h1 := ihl m x a hok.1 hx ha hm
            have h2 := ihr m y b hok.2 hy hb hm
            rw [← h, ← hv, h1, h2]
            exact add_res a b m
        · exact absurd h (by simp)
    · exact absurd hv (by simp)
  | mul l r ihl ihr =>
    intro m res v hok h hv hm
    simp only [expsOk, Bool.and_eq_true] at hok
    unfold modE at h
    unfold eval at hv
    split at hv
    · rename_i a b ha hb
      injection hv with hv
      split at h
      · rename_i h1
        have h1' : m = 1 := by simpa using h1
        subst h1'
        injection h with h
        omega
      · split at h
        · exact absurd h (by simp)
        · rename_i x hx
          have h1 := ihl m x a hok.1 hx ha hm
          split at h
          · rename_i hx0
            have hx0' : x = 0 := by simpa using hx0
            injection h with h
            rw [← h, ← hv, mul_res_zero_left a b m (by rw [← h1]; exact hx0')]
          · split at h
            · exact absurd h (by simp)
            · rename_i y hy
              have h2 := ihr m y b hok.2 hy hb hm
              split at h
              · rename_i hy0
                have hy0' : y = 0 := by simpa using hy0
                injection h with h
                rw [← h, ← hv, mul_res_zero_right a b m (by rw [← h2]; exact hy0')]
              · split at h
                · exact absurd h (by simp)
                · injection h with h
                  rw [← h, ← hv, h1, h2]
                  exact mul_res a b m
    · exact absurd hv (by simp)
  | div n d ih =>
    intro m res v hok h hv hm
    simp only [expsOk] at hok
    unfold modE at h
    unfold eval at hv
    split at hv
    · rename_i a ha
      split at hv
      · exact absurd hv (by simp)
      · split at hv
        · rename_i hd0 hrem
          injection hv with hv
          split at h
          · rename_i h1
            have h1' : m = 1 := by simpa using h1
            subst h1'
            injection h with h
            omega
          · split at h
            · exact absurd h (by simp)
            · split at h
              · exact absurd h (by simp)
              · split at h
                · exact absurd h (by simp)
                · rename_i hdpos
                  split at h
                  · exact absurd h (by simp)
                  · rename_i x hx
                    split at h
                    · exact absurd h (by simp)
                    · split at h
                      · exact absurd h (by simp)
                      · injection h with h
                        have hx' := ih (m * d.toNat) x a hok hx ha (Nat.mul_pos hm (by omega))
                        have hcast : ((m * d.toNat : Nat) : Int) = (m : Int) * d := by
                          rw [Int.natCast_mul, Int.toNat_of_nonneg (by omega)]
                        rw [hcast] at hx'
                        obtain ⟨_, hq⟩ := div_res a d m (by omega) hrem
                        rw [← h, ← hv, hx', hq]
        · exact absurd hv (by simp)
    · exact absurd hv (by simp)
  | exp b x ih =>
    intro m res v hok h hv hm
    unfold modE at h
    unfold expsOk at hok
    unfold eval at hv
    split at hv
    · rename_i kx hkx
      split at hv
      · exact absurd hv (by simp)
      · rename_i hnn
        injection hv with hv
        split at h
        · rename_i n hn
          have hx := asInt_some x n hn
          subst hx
          simp only [asInt, decide_eq_true_eq] at hok
          simp only [eval, Option.some.injEq] at hkx
          subst hkx
          rw [← hv]
          exact expLit_correct b n m res hok hm h
        · rename_i hn
          rw [hn, hkx] at hok
          simp only [Bool.and_eq_true, decide_eq_true_eq] at hok
          have hrec : RecOk (fun K => modE x K) kx.toNat := by
            intro K ρ hK hρ
            have := ih K ρ kx hok.1 hρ hkx hK
            rw [this, Int.toNat_of_nonneg (by omega)]
          rw [← hv]
          exact expSym_correct b m kx.toNat res _ _ hrec (by omega) hm h
    · exact absurd hv (by simp)

/-! ### definedness on the simple trees -/

theorem modE_defined_simple' (e : NExpr) (m : Nat) (hm : 1 ≤ m) (hlim : m < 2 ^ 24)
    (hs : simpleOk m e = true) : (modE e m).isSome = true := by
  induction e with
  | int n =>
    unfold modE
    have : (m == 0) = false := by simp; omega
    rw [this]
    rfl
  | add l r ihl ihr =>
    simp only [simpleOk, Bool.and_eq_true] at hs
    have h1 := ihl hs.1
    have h2 := ihr hs.2
    unfold modE
    split
    · rfl
    · obtain ⟨a, ha⟩ := Option.isSome_iff_exists.mp h1
      obtain ⟨b, hb⟩ := Option.isSome_iff_exists.mp h2
      rw [ha, hb]
      have : (m == 0) = false := by simp; omega
      simp [this]
  | mul l r ihl ihr =>
    simp only [simpleOk, Bool.and_eq_true] at hs
    have h1 := ihl hs.1
    have h2 := ihr hs.2
    unfold modE
    split
    · rfl
    · obtain ⟨a, ha⟩ := Option.isSome_iff_exists.mp h1
      obtain ⟨b, hb⟩ := Option.isSome_iff_exists.mp h2
      rw [ha, hb]
      have : (m == 0) = false := by simp; omega
      dsimp only
      split
      · rfl
      · split
        · rfl
        · simp [this]
  | div n d _ => simp [simpleOk] at hs
  | exp b x _ =>
    unfold simpleOk at hs
    unfold modE
    split at hs
    · rename_i k hk
      simp only [Bool.and_eq_true, decide_eq_true_eq, bne_iff_ne, ne_eq] at hs
      obtain ⟨⟨hb, hk2⟩, hdiv⟩ := hs
      unfold natRes expLit
      rw [if_pos hb]
      have := expModInt_defined' b.toNat k.toNat m hm hlim (Or.inl hdiv) (Or.inl (by omega))
      obtain ⟨r, hr⟩ := Option.isSome_iff_exists.mp this
      rw [hr]
      rfl
    · exact absurd hs (by simp)

end BB.NumModTree
