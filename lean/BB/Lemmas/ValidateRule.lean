/-
C03, the part about `applyRule` (BB/Model/Rules.lean): no block is driven to zero, and the tape
stays canonical.  Restated from C11 (`apply_keeps_positive'`, `apply_exact'`) in the vocabulary of
C01 (`Tape.Pos`, `Tape.Canon`).
-/
import BB.Lemmas.Validate
import BB.Lemmas.RuleArith6

namespace BB

open BB.RuleArith

theorem Tape.pos_iff_allPositive (t : Tape) : t.Pos ↔ AllPositive t := Iff.rfl

/-- canonicity only depends on the colours and on the counts being positive -/
theorem Span.Canon.of_colors {s s' : Span} (h : Span.Canon s)
    (hc : s'.map (·.color) = s.map (·.color)) (hp : Span.Pos s') : Span.Canon s' := by
  induction s generalizing s' with
  | nil =>
    cases s' with
    | nil => trivial
    | cons b r => simp at hc
  | cons a rest ih =>
    cases s' with
    | nil => simp at hc
    | cons b r =>
      simp only [List.map_cons, List.cons.injEq] at hc
      obtain ⟨hab, hrest⟩ := hc
      have hr := ih h.tail hrest hp.tail
      cases rest with
      | nil =>
        cases r with
        | nil => exact ⟨hp.head, by rw [hab]; exact h.2⟩
        | cons c r' => simp at hrest
      | cons a2 rest' =>
        cases r with
        | nil => simp at hrest
        | cons c r' =>
          simp only [List.map_cons, List.cons.injEq] at hrest
          exact ⟨hp.head, by rw [hab, hrest.1]; exact h.2.1, hr⟩

theorem apply_rule_positive' (t t' : Tape) (rule : Rule) (times : Nat)
    (hnd : (keys rule).Nodup) (h : applyRule t rule = .ok (some times, t')) (hp : t.Pos) :
    t'.Pos :=
  apply_keeps_positive' t t' rule times hnd h hp

theorem apply_rule_canon' (t t' : Tape) (rule : Rule) (times : Nat)
    (hnd : (keys rule).Nodup) (h : applyRule t rule = .ok (some times, t')) (hc : t.Canon) :
    t'.Canon := by
  have hp : t'.Pos := apply_rule_positive' t t' rule times hnd h hc.pos
  obtain ⟨_, _, _, _, _, hl, hr⟩ := apply_exact' t t' rule times hnd h
  exact ⟨hc.1.of_colors hl hp.1, hc.2.of_colors hr hp.2⟩

end BB
