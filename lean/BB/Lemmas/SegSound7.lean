/-
C05 — segment analysis.  Part 7: the small containers of the model (`dictGet`/`dictSet`,
position sets, `TapeSet`) behave as maps and sets.
-/
import BB.Lemmas.SegSound6

namespace BB.Segment

open BB

/-! ### dictGet / dictSet -/

theorem dictGet_dictSet {α : Type} (d : List (Nat × α)) (k : Nat) (v : α) (k' : Nat) :
    dictGet (dictSet d k v) k' = if k' = k then some v else dictGet d k' := by
  induction d with
  | nil =>
    simp only [dictSet, dictGet]
    by_cases h : k' = k
    · subst h; simp
    · have : ¬ k = k' := fun e => h e.symm
      simp [h, this]
  | cons e rest ih =>
    obtain ⟨k0, v0⟩ := e
    simp only [dictSet]
    by_cases h0 : k0 = k
    · subst h0
      simp only [BEq.rfl, if_true, dictGet]
      by_cases h : k' = k0
      · subst h; simp
      · have : ¬ k0 = k' := fun e => h e.symm
        simp [h, this]
    · have h0' : (k0 == k) = false := by simpa using h0
      simp only [h0', Bool.false_eq_true, if_false]
      by_cases hlt : k < k0
      · simp only [hlt, if_true, dictGet]
        by_cases h : k' = k
        · subst h; simp
        · have : ¬ k = k' := fun e => h e.symm
          simp [h, this]
      · simp only [hlt, if_false, dictGet, ih]
        by_cases h : k' = k
        · subst h
          simp [h0]
        · simp [h]

theorem dictGet_dictSet_self {α : Type} (d : List (Nat × α)) (k : Nat) (v : α) :
    dictGet (dictSet d k v) k = some v := by rw [dictGet_dictSet]; simp

theorem dictGet_dictSet_ne {α : Type} (d : List (Nat × α)) {k k' : Nat} (v : α) (h : k' ≠ k) :
    dictGet (dictSet d k v) k' = dictGet d k' := by rw [dictGet_dictSet]; simp [h]

/-! ### sets of positions -/

theorem mem_setInsert {s : List Nat} {x y : Nat} : y ∈ setInsert s x ↔ y = x ∨ y ∈ s := by
  unfold setInsert
  by_cases h : s.contains x = true
  · simp only [h, if_true]
    constructor
    · exact Or.inr
    · rintro (rfl | h')
      · simpa using h
      · exact h'
  · simp only [h]
    simp

theorem length_setInsert_le (s : List Nat) (x : Nat) : (setInsert s x).length ≤ s.length + 1 := by
  unfold setInsert
  split <;> simp

theorem setInsert_of_mem {s : List Nat} {x : Nat} (h : x ∈ s) : setInsert s x = s := by
  unfold setInsert
  have : s.contains x = true := by simpa using h
  rw [if_pos this]

/-- `pos ∈ d[k]` -/
def DHas (d : List (Nat × List Nat)) (k pos : Nat) : Prop :=
  ∃ s, dictGet d k = some s ∧ pos ∈ s

theorem dictSetHas_iff (d : List (Nat × List Nat)) (k pos : Nat) :
    dictSetHas d k pos = true ↔ DHas d k pos := by
  unfold dictSetHas DHas
  cases dictGet d k with
  | none => simp
  | some s => simp

theorem dHas_dictSetInsert (d : List (Nat × List Nat)) (k x k' y : Nat) :
    DHas (dictSetInsert d k x) k' y ↔ DHas d k' y ∨ (k' = k ∧ y = x) := by
  unfold dictSetInsert DHas
  cases hg : dictGet d k with
  | none =>
    simp only [dictGet_dictSet]
    by_cases hk : k' = k
    · subst hk
      simp [hg]
    · simp [hk]
  | some s =>
    simp only [dictGet_dictSet]
    by_cases hk : k' = k
    · subst hk
      simp only [if_true, Option.some.injEq, hg, true_and, exists_eq_left']
      rw [mem_setInsert]
      constructor
      · rintro (h | h)
        · exact Or.inr h
        · exact Or.inl h
      · rintro (h | h)
        · exact Or.inr h
        · exact Or.inl h
    · simp [hk]

theorem dHas_dictEnsure (d : List (Nat × List Nat)) (k k' y : Nat) :
    DHas (dictEnsure d k) k' y ↔ DHas d k' y := by
  unfold dictEnsure DHas
  cases hg : dictGet d k with
  | none =>
    simp only [dictGet_dictSet]
    by_cases hk : k' = k
    · subst hk; simp [hg]
    · simp [hk]
  | some s => rfl

/-! ### sets of tapes -/

theorem TapeSet.contains_insert (s : TapeSet) (t t' : Tape) :
    TapeSet.contains (TapeSet.insert s t) t' = true ↔ TapeSet.contains s t' = true ∨ t' = t := by
  have key : ∀ (b : List Tape),
      TapeSet.contains ⟨s.size + 1, dictSet s.buckets (Tape.hash t) b⟩ t' =
        if Tape.hash t' = Tape.hash t then b.contains t' else TapeSet.contains s t' := by
    intro b
    unfold TapeSet.contains
    simp only [dictGet_dictSet]
    by_cases hh : Tape.hash t' = Tape.hash t
    · simp only [hh, if_true]
    · simp only [hh, if_false]
  simp only [TapeSet.insert]
  cases hg : dictGet s.buckets (Tape.hash t) with
  | none =>
    simp only
    rw [key]
    by_cases hh : Tape.hash t' = Tape.hash t
    · simp only [hh, if_true, TapeSet.contains, hg]
      simp
    · simp only [hh, if_false]
      constructor
      · exact Or.inl
      · rintro (h | h)
        · exact h
        · exact absurd (by rw [h]) hh
  | some b =>
    simp only
    by_cases hc : b.contains t = true
    · simp only [hc, if_true]
      constructor
      · exact Or.inl
      · rintro (h | h)
        · exact h
        · subst h
          unfold TapeSet.contains
          rw [hg]; exact hc
    · simp only [hc, Bool.false_eq_true, if_false]
      rw [key]
      by_cases hh : Tape.hash t' = Tape.hash t
      · simp only [hh, if_true, TapeSet.contains, hg, List.contains_cons, Bool.or_eq_true,
          beq_iff_eq]
        constructor
        · rintro (h | h)
          · exact Or.inr h
          · exact Or.inl h
        · rintro (h | h)
          · exact Or.inr h
          · exact Or.inl h
      · simp only [hh, if_false]
        constructor
        · exact Or.inl
        · rintro (h | h)
          · exact h
          · exact absurd (by rw [h]) hh

theorem TapeSet.not_contains_empty (t : Tape) : TapeSet.contains TapeSet.empty t = false := rfl

/-- `t ∈ seen[q]` -/
def SHas (d : List (Nat × TapeSet)) (q : Nat) (t : Tape) : Prop :=
  TapeSet.contains ((dictGet d q).getD TapeSet.empty) t = true

theorem sHas_insert (d : List (Nat × TapeSet)) (q : Nat) (t : Tape) (q' : Nat) (t' : Tape) :
    SHas (dictSet d q (TapeSet.insert ((dictGet d q).getD TapeSet.empty) t)) q' t' ↔
      SHas d q' t' ∨ (q' = q ∧ t' = t) := by
  unfold SHas
  rw [dictGet_dictSet]
  by_cases hq : q' = q
  · subst hq
    simp only [if_true, Option.getD_some, TapeSet.contains_insert, true_and]
  · simp [hq]

end BB.Segment
