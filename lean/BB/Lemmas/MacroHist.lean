/-
C16 — lazily compiled macro programs are history-independent.
This file: the definitions the C16 statements are made of (invariants, legality of queries,
the abstract notion "history-independent stateful program"), then the facts about the positional
code `encode` / `decode` and about the two association-list caches.

Files of this group: MacroHist (this), MacroHistRun (the simulator), MacroHistStep (one
`get_instr`), MacroHistSeq (lifting, query sequences, two objects), MacroHistMain (one and two
levels over a base table), MacroHistTotal (absence of errors, corollaries).
-/
import BB.Model.Macros
import BB.Lemmas.Parse

namespace BB.Macros

/-! ## Definitions used by the statements -/

/-- The base table as a stateless program (`pureChain p params fix []`). -/
def progFn (p : Prog) : Slot → Res (Option Instr) := fun s => .ok (p.get s)

/-- Every instruction the (stateless) inner program can answer prints a colour below `base`.
    Without this, `encode` is not injective on the tapes the simulator produces and two different
    tapes are handed the same macro colour (see `get_instr_bigcolor_witness`). -/
def ColorsLt (f : Slot → Res (Option Instr)) (base : Nat) : Prop :=
  ∀ s pr sh nx, f s = .ok (some (pr, sh, nx)) → pr < base

/-- decidable form of `ColorsLt (progFn p) base` -/
def progColorsLt (p : Prog) (base : Nat) : Bool := p.all fun kv => decide (kv.2.1 < base)

/-- The two caches of a `TapeColorConverter` are pieces of the graph of the positional code on
    tapes of length `cells` with entries `< base`, and are inverse to each other. -/
structure CacheInv (base cells : Nat) (cv : TapeColorConverter) : Prop where
  base_eq : cv.baseColors = base
  /-- colour 0 is always present and is the blank block -/
  zero : cv.colorToTapeCache.get 0 = some (List.replicate cells 0)
  /-- `color_to_tape` ⊆ graph of `decode` (see `CacheInv.decode`) -/
  c2t : ∀ c t, cv.colorToTapeCache.get c = some t →
    t.length = cells ∧ (∀ x ∈ t, x < base) ∧ encode base t = c
  /-- `tape_to_color` ⊆ inverse of `color_to_tape` (hence ⊆ graph of `encode`) -/
  t2c : ∀ t c, cv.tapeToColorCache.get t = some c → cv.colorToTapeCache.get c = some t
  /-- and conversely, except for the initial entry `0 ↦ blank` -/
  c2t_t2c : ∀ c t, cv.colorToTapeCache.get c = some t →
    c = 0 ∨ cv.tapeToColorCache.get t = some c

/-- "`color` was handed out by this object" (or is 0): it is a key of `color_to_tape_cache`. -/
def handedOut {σ : Type} (m : MacroProg σ) (color : Nat) : Bool :=
  (m.logic.converter.colorToTapeCache.get color).isSome

/-- The macro colour that `deconstruct_inputs` looks up for a slot. -/
def slotColor (lp : LogicParams) (slot : Slot) : Nat :=
  match lp.kind with
  | .block => slot.2
  | .backsymbol => slot.1 / 2 % lp.backsymbols

/-- The colour that `get_instr slot` will look up was handed out by this object (or is 0).
    When this is `false` the real code panics (`get_instr_not_handed_out_panics`). -/
def ownLegal {σ : Type} (m : MacroProg σ) (slot : Slot) : Bool :=
  handedOut m (slotColor m.logic.params slot)

/-- Legality of a query to a macro over a BASE program: the looked-up colour was handed out,
    and, for the backsymbol macro, the scanned colour is a base colour. -/
def slotLegal {σ : Type} (m : MacroProg σ) (slot : Slot) : Bool :=
  ownLegal m slot &&
    (match m.logic.params.kind with
     | .block => true
     | .backsymbol => decide (slot.2 < m.logic.params.baseColors))

/-- Every slot of the sequence is legal (`legal`) in the state in which it is queried.
    (After an error nothing more is queried.) -/
def legalSeq {σ : Type} (get : GetFn σ) (legal : σ → Slot → Bool) : σ → List Slot → Bool
  | _, [] => true
  | st, s :: rest =>
    legal st s &&
      match get st s with
      | .error _ => true
      | .ok (_, st') => legalSeq get legal st' rest

/-- the answers of a run of `getInstrs`, the final state forgotten -/
def answers {σ : Type} (r : Res (List (Option Instr) × σ)) : Res (List (Option Instr)) :=
  match r with
  | .error e => .error e
  | .ok (as, _) => .ok as

/-- The stateless reference: the answers `f` gives to the slots, up to the first error. -/
def pureAnswers (f : Slot → Res (Option Instr)) (slots : List Slot) : Res (List (Option Instr)) :=
  answers (getInstrs (pureGet f) () slots)

/-! ### History-independent stateful programs (for nesting)

`HistIndep get f Inv LS LC`: in every state satisfying `Inv`, a query `(q, c)` whose state `q` is
legal (`LS st q`) and whose colour `c` is legal (`LC st c`) is answered exactly as the stateless
function `f` answers it (errors included); the new state satisfies `Inv` again, legal states and
colours stay legal, and the colour printed and the state entered by the answer are legal. -/

/-- legal states / colours of `st` are legal in `st'` -/
def Mono {σ : Type} (LS LC : σ → Nat → Prop) (st st' : σ) : Prop :=
  (∀ q, LS st q → LS st' q) ∧ (∀ c, LC st c → LC st' c)

/-- `r` is `e` plus some new state `st'` with `Q a st'` (errors agree exactly). -/
def Agree {α τ σ : Type} (r : Res (α × σ)) (e : Res (α × τ)) (Q : α → σ → Prop) : Prop :=
  match e with
  | .error err => r = .error err
  | .ok (a, _) => ∃ st', r = .ok (a, st') ∧ Q a st'

/-- the instruction `a` prints a legal colour and enters a legal state -/
def AnsLegal {σ : Type} (LS LC : σ → Nat → Prop) (st : σ) (a : Option Instr) : Prop :=
  ∀ pr sh nx, a = some (pr, sh, nx) → LC st pr ∧ LS st nx

structure HistIndep {σ : Type} (get : GetFn σ) (f : Slot → Res (Option Instr))
    (Inv : σ → Prop) (LS LC : σ → Nat → Prop) : Prop where
  /-- state 0 and colour 0 are always legal -/
  zero : ∀ st, Inv st → LS st 0 ∧ LC st 0
  step : ∀ st q c, Inv st → LS st q → LC st c →
    Agree (get st (q, c)) (pureGet f () (q, c))
      (fun a st' => Inv st' ∧ Mono LS LC st st' ∧ AnsLegal LS LC st' a)

/-- legal macro states of a macro object, given the legal states of the inner program -/
def MLS {σ : Type} (LS : σ → Nat → Prop) (m : MacroProg σ) (q : Nat) : Prop :=
  match m.logic.params.kind with
  | .block => LS m.prog (q / 2)
  | .backsymbol =>
    handedOut m (q / 2 % m.logic.params.backsymbols) = true ∧
      LS m.prog (q / 2 / m.logic.params.backsymbols)

/-- legal macro colours of a macro object, given the legal colours of the inner program -/
def MLC {σ : Type} (LC : σ → Nat → Prop) (m : MacroProg σ) (c : Nat) : Prop :=
  match m.logic.params.kind with
  | .block => handedOut m c = true
  | .backsymbol => LC m.prog c

/-- **The invariant** of a macro object with parameters `lp` over an inner program that is
    history-independent with stateless answers `f` (`IInv`, `LS`, `LC`: invariant and legal
    states/colours of the inner program; all `True` for a base table). -/
structure MInv {σ : Type} (f : Slot → Res (Option Instr)) (lp : LogicParams) (fixF3 : Bool)
    (IInv : σ → Prop) (LS LC : σ → Nat → Prop) (m : MacroProg σ) : Prop where
  params : m.logic.params = lp
  inner : IInv m.prog
  cache : CacheInv lp.baseColors lp.cells m.logic.converter
  /-- cells of cached tapes are legal colours of the inner program -/
  cells : ∀ c t, m.logic.converter.colorToTapeCache.get c = some t → ∀ x ∈ t, LC m.prog x
  /-- the memo table ⊆ graph of `pureInstr`; memoised slots looked up a handed-out colour;
      memoised answers are legal -/
  memo : ∀ slot instr, m.instrs.get slot = some instr →
    pureInstr f lp fixF3 slot = .ok (some instr) ∧ ownLegal m slot = true ∧
      MLC LC m instr.1 ∧ MLS LS m instr.2.2

/-- trivial invariant / legality of a stateless inner program -/
abbrev TrueInv {σ : Type} : σ → Prop := fun _ => True
abbrev TrueLeg {σ : Type} : σ → Nat → Prop := fun _ _ => True
/-- the legal colours of a base program with `base` colours -/
abbrev LtLeg {σ : Type} (base : Nat) : σ → Nat → Prop := fun _ c => c < base

/-- **`Inv`**: the invariant of a macro object over a base table `p` (the inner "state" is the
    table itself and never changes; every state is legal; the legal colours are `< baseColors`). -/
abbrev Inv (p : Prog) (lp : LogicParams) (fixF3 : Bool) (m : MacroProg Prog) : Prop :=
  MInv (progFn p) lp fixF3 (fun st => st = p) TrueLeg (LtLeg lp.baseColors) m

/-- decidable equality of results, for the `decide` witnesses -/
instance resDecEq {α : Type} [DecidableEq α] : DecidableEq (Res α) := fun a b =>
  match a, b with
  | .ok x, .ok y => if h : x = y then isTrue (by rw [h]) else isFalse (fun h' => by cases h'; exact h rfl)
  | .error x, .error y =>
    if h : x = y then isTrue (by rw [h]) else isFalse (fun h' => by cases h'; exact h rfl)
  | .ok _, .error _ => isFalse (fun h' => by cases h')
  | .error _, .ok _ => isFalse (fun h' => by cases h')

/-! ## The positional code -/

theorem encodeFrom_acc (base : Nat) (l : MTape) (p acc : Nat) :
    encodeFrom base l p acc = acc + encodeFrom base l p 0 := by
  induction l generalizing p acc with
  | nil => simp [encodeFrom]
  | cons x r ih =>
    simp only [encodeFrom]
    rw [ih (p + 1) (acc + x * base ^ p), ih (p + 1) (0 + x * base ^ p)]
    omega

theorem encodeFrom_succ (base : Nat) (l : MTape) (p : Nat) :
    encodeFrom base l (p + 1) 0 = base * encodeFrom base l p 0 := by
  induction l generalizing p with
  | nil => simp [encodeFrom]
  | cons x r ih =>
    simp only [encodeFrom]
    rw [encodeFrom_acc base r (p + 1 + 1), encodeFrom_acc base r (p + 1), ih (p + 1), Nat.pow_succ]
    rw [Nat.mul_add, Nat.zero_add, Nat.zero_add]
    congr 1
    rw [Nat.mul_comm (base ^ p) base, ← Nat.mul_assoc, Nat.mul_comm x base, Nat.mul_assoc]

/-- positional value of the reversed tape (least significant cell first) -/
def encodeR (base : Nat) (r : MTape) : Nat := encodeFrom base r 0 0

theorem encodeR_cons (base x : Nat) (r : MTape) :
    encodeR base (x :: r) = x + base * encodeR base r := by
  simp only [encodeR, encodeFrom]
  rw [encodeFrom_acc, encodeFrom_succ]
  simp

theorem encode_eq (base : Nat) (t : MTape) : encode base t = encodeR base t.reverse := rfl

theorem encode_snoc (base : Nat) (t : MTape) (x : Nat) :
    encode base (t ++ [x]) = x + base * encode base t := by
  simp only [encode_eq, List.reverse_append, List.reverse_cons, List.reverse_nil, List.nil_append,
    List.singleton_append, encodeR_cons]

theorem decodeAux_acc (base n c : Nat) (acc : MTape) :
    decodeAux base n c acc = decodeAux base n c [] ++ acc := by
  induction n generalizing c acc with
  | zero => simp [decodeAux]
  | succ n ih =>
    simp only [decodeAux]
    rw [ih (c / base) (c % base :: acc), ih (c / base) [c % base]]
    simp

theorem decode_zero (base c : Nat) : decode base 0 c = [] := rfl

theorem decode_succ (base n c : Nat) :
    decode base (n + 1) c = decode base n (c / base) ++ [c % base] := by
  simp only [decode, decodeAux]
  rw [decodeAux_acc]

theorem decode_length (base n c : Nat) : (decode base n c).length = n := by
  induction n generalizing c with
  | zero => rfl
  | succ n ih => simp [decode_succ, ih]

theorem decode_lt (base n c : Nat) (hb : 0 < base) : ∀ x ∈ decode base n c, x < base := by
  induction n generalizing c with
  | zero => simp [decode_zero]
  | succ n ih =>
    intro x hx
    simp only [decode_succ, List.mem_append, List.mem_singleton] at hx
    rcases hx with hx | hx
    · exact ih _ x hx
    · subst hx; exact Nat.mod_lt _ hb

theorem encode_decode' (base n c : Nat) (hc : c < base ^ n) :
    encode base (decode base n c) = c := by
  induction n generalizing c with
  | zero => simp [Nat.pow_zero] at hc; subst hc; rfl
  | succ n ih =>
    rw [decode_succ, encode_snoc, ih]
    · rw [Nat.add_comm]; exact Nat.div_add_mod c base
    · rw [Nat.pow_succ] at hc
      exact Nat.div_lt_of_lt_mul (by rw [Nat.mul_comm]; exact hc)

theorem snoc_induction {P : MTape → Prop} (h0 : P []) (h1 : ∀ t x, P t → P (t ++ [x])) :
    ∀ t, P t := by
  intro t
  have : ∀ r : MTape, P r.reverse := by
    intro r
    induction r with
    | nil => exact h0
    | cons x r ih => rw [List.reverse_cons]; exact h1 _ _ ih
  have h := this t.reverse
  rwa [List.reverse_reverse] at h

theorem decode_encode' (base : Nat) (t : MTape) (ht : ∀ x ∈ t, x < base) :
    decode base t.length (encode base t) = t := by
  induction t using snoc_induction with
  | h0 => rfl
  | h1 t x ih =>
    have hx : x < base := ht x (by simp)
    have ht' : ∀ y ∈ t, y < base := fun y hy => ht y (by simp [hy])
    rw [List.length_append, List.length_singleton, decode_succ, encode_snoc]
    have h1 : (x + base * encode base t) / base = encode base t := by
      rw [Nat.add_comm, Nat.mul_add_div (by omega), Nat.div_eq_of_lt hx, Nat.add_zero]
    have h2 : (x + base * encode base t) % base = x := by
      rw [Nat.add_mul_mod_self_left, Nat.mod_eq_of_lt hx]
    rw [h1, h2, ih ht']

theorem encode_lt' (base : Nat) (t : MTape) (ht : ∀ x ∈ t, x < base) :
    encode base t < base ^ t.length := by
  induction t using snoc_induction with
  | h0 => simp [encode, encodeFrom]
  | h1 t x ih =>
    have hx : x < base := ht x (by simp)
    have ht' : ∀ y ∈ t, y < base := fun y hy => ht y (by simp [hy])
    have := ih ht'
    rw [List.length_append, List.length_singleton, encode_snoc, Nat.pow_succ]
    calc x + base * encode base t < base + base * encode base t := by omega
      _ = base * (encode base t + 1) := by rw [Nat.mul_add, Nat.mul_one, Nat.add_comm]
      _ ≤ base * base ^ t.length := Nat.mul_le_mul_left _ this
      _ = base ^ t.length * base := Nat.mul_comm _ _

theorem encode_replicate_zero (base n : Nat) : encode base (List.replicate n 0) = 0 := by
  induction n with
  | zero => rfl
  | succ n ih =>
    rw [List.replicate_succ', encode_snoc, ih]; simp

/-- `encode` is injective on in-range tapes of one length -/
theorem encode_inj (base : Nat) (t t' : MTape) (hl : t.length = t'.length)
    (ht : ∀ x ∈ t, x < base) (ht' : ∀ x ∈ t', x < base) (h : encode base t = encode base t') :
    t = t' := by
  rw [← decode_encode' base t ht, ← decode_encode' base t' ht', hl, h]

/-! ## The association-list caches -/

theorem c2t_get_insert_same (m : ColorToTape) (c : Nat) (t : MTape) :
    (m.insert c t).get c = some t := by
  induction m with
  | nil => simp [ColorToTape.insert, ColorToTape.get]
  | cons kv rest ih =>
    rcases kv with ⟨k, v⟩
    simp only [ColorToTape.insert]
    split
    · simp [ColorToTape.get]
    · split
      · simp [ColorToTape.get]
      · rename_i h1 _
        simp only [ColorToTape.get, h1]
        exact ih

theorem c2t_get_insert_other (m : ColorToTape) (c c' : Nat) (t : MTape) (hne : c ≠ c') :
    (m.insert c t).get c' = m.get c' := by
  have hne' : (c == c') = false := by simpa using hne
  induction m with
  | nil => simp [ColorToTape.insert, ColorToTape.get, hne']
  | cons kv rest ih =>
    rcases kv with ⟨k, v⟩
    simp only [ColorToTape.insert]
    split
    · rename_i h1
      have hk : k = c := by simpa using h1
      subst hk
      simp only [ColorToTape.get, hne', Bool.false_eq_true, if_false]
    · split
      · simp only [ColorToTape.get, hne', Bool.false_eq_true, if_false]
      · simp only [ColorToTape.get, ih]

theorem tapeCmp_eq_iff (a b : MTape) : tapeCmp a b = .eq ↔ a = b := by
  induction a generalizing b with
  | nil => cases b <;> simp [tapeCmp]
  | cons x a ih =>
    cases b with
    | nil => simp [tapeCmp]
    | cons y b =>
      simp only [tapeCmp]
      split
      · simp; omega
      · split
        · simp; omega
        · rw [ih]
          have : x = y := by omega
          simp [this]

theorem t2c_get_insert_same (m : TapeToColor) (t : MTape) (c : Nat) :
    (m.insert t c).get t = some c := by
  induction m with
  | nil => simp [TapeToColor.insert, TapeToColor.get]
  | cons kv rest ih =>
    rcases kv with ⟨k, v⟩
    simp only [TapeToColor.insert]
    split
    · simp [TapeToColor.get]
    · simp [TapeToColor.get]
    · rename_i h1
      have hk : ¬ t = k := by
        intro h; rw [(tapeCmp_eq_iff t k).2 h] at h1; cases h1
      have hk' : (k == t) = false := by simpa using fun h => hk h.symm
      simp only [TapeToColor.get, hk']
      exact ih

theorem t2c_get_insert_other (m : TapeToColor) (t t' : MTape) (c : Nat) (hne : t ≠ t') :
    (m.insert t c).get t' = m.get t' := by
  have hne' : (t == t') = false := by simpa using hne
  induction m with
  | nil => simp [TapeToColor.insert, TapeToColor.get, hne']
  | cons kv rest ih =>
    rcases kv with ⟨k, v⟩
    simp only [TapeToColor.insert]
    split
    · rename_i h1
      have hk : t = k := (tapeCmp_eq_iff t k).1 h1
      subst hk
      simp only [TapeToColor.get, hne', Bool.false_eq_true, if_false]
    · simp only [TapeToColor.get, hne', Bool.false_eq_true, if_false]
    · simp only [TapeToColor.get, ih]

/-! ## `CacheInv` -/

theorem CacheInv.new (base cells : Nat) (hb : 0 < base) :
    CacheInv base cells (TapeColorConverter.new base cells) := by
  refine ⟨rfl, ?_, ?_, ?_, ?_⟩
  · simp [TapeColorConverter.new, ColorToTape.get]
  · intro c t h
    simp only [TapeColorConverter.new, ColorToTape.get] at h
    split at h
    · rename_i hc
      have hc' : 0 = c := by simpa using hc
      cases h
      subst hc'
      refine ⟨List.length_replicate .., ?_, encode_replicate_zero ..⟩
      intro x hx
      rw [List.eq_of_mem_replicate hx]; exact hb
    · cases h
  · intro t c h
    simp [TapeColorConverter.new, TapeToColor.get] at h
  · intro c t h
    simp only [TapeColorConverter.new, ColorToTape.get] at h
    split at h
    · rename_i hc
      left; have : 0 = c := by simpa using hc
      exact this.symm
    · cases h

/-- a cached colour is `< base ^ cells` and its tape is its positional decoding -/
theorem CacheInv.decode {base cells : Nat} {cv : TapeColorConverter} (h : CacheInv base cells cv)
    {c : Nat} {t : MTape} (hc : cv.colorToTapeCache.get c = some t) :
    t = decode base cells c ∧ c < base ^ cells := by
  obtain ⟨hl, hr, he⟩ := h.c2t c t hc
  constructor
  · rw [← he, ← hl, decode_encode' base t hr]
  · rw [← he, ← hl]; exact encode_lt' base t hr

/-- `tape_to_color` on an in-range tape of the right length: the colour is the positional value,
    the invariant is kept, no key of `color_to_tape` is lost, the new colour is a key, and every
    entry of the new `color_to_tape` is an old entry or the new pair. -/
theorem CacheInv.tapeToColor {base cells : Nat} {cv : TapeColorConverter}
    (h : CacheInv base cells cv) (t : MTape) (hl : t.length = cells) (hr : ∀ x ∈ t, x < base) :
    (cv.tapeToColor t).1 = encode base t ∧ CacheInv base cells (cv.tapeToColor t).2 ∧
    (cv.tapeToColor t).2.colorToTapeCache.get (encode base t) = some t ∧
    (∀ c, (cv.colorToTapeCache.get c).isSome →
      ((cv.tapeToColor t).2.colorToTapeCache.get c).isSome) ∧
    (∀ c t', (cv.tapeToColor t).2.colorToTapeCache.get c = some t' →
      cv.colorToTapeCache.get c = some t' ∨ t' = t) := by
  unfold TapeColorConverter.tapeToColor
  cases hget : cv.tapeToColorCache.get t with
  | some color =>
    have h1 := h.t2c t color hget
    have h2 := (h.c2t color t h1).2.2
    simp only
    refine ⟨h2.symm, h, ?_, fun c hc => hc, fun c t' hc => Or.inl hc⟩
    rw [h2]; exact h1
  | none =>
    simp only [h.base_eq]
    refine ⟨trivial, ⟨rfl, ?_, ?_, ?_, ?_⟩, c2t_get_insert_same .., ?_, ?_⟩
    · -- zero
      by_cases hz : encode base t = 0
      · rw [hz, c2t_get_insert_same]
        have h0 := h.c2t 0 _ h.zero
        congr 1
        exact encode_inj base _ _ (by rw [hl, h0.1]) hr h0.2.1 (by rw [hz, h0.2.2])
      · rw [c2t_get_insert_other _ _ _ _ hz]; exact h.zero
    · -- c2t
      intro c t' hc
      by_cases hcc : encode base t = c
      · subst hcc
        rw [c2t_get_insert_same] at hc
        cases hc
        exact ⟨hl, hr, rfl⟩
      · rw [c2t_get_insert_other _ _ _ _ hcc] at hc
        exact h.c2t c t' hc
    · -- t2c
      intro t' c hc
      by_cases htt : t = t'
      · subst htt
        rw [t2c_get_insert_same] at hc
        cases hc
        exact c2t_get_insert_same ..
      · rw [t2c_get_insert_other _ _ _ _ htt] at hc
        have h1 := h.t2c t' c hc
        have h2 := h.c2t c t' h1
        have hcc : encode base t ≠ c := by
          intro he
          exact htt (encode_inj base _ _ (by rw [hl, h2.1]) hr h2.2.1 (by rw [he, h2.2.2]))
        rw [c2t_get_insert_other _ _ _ _ hcc]; exact h1
    · -- c2t_t2c
      intro c t' hc
      by_cases hcc : encode base t = c
      · subst hcc
        rw [c2t_get_insert_same] at hc
        cases hc
        right; exact t2c_get_insert_same ..
      · rw [c2t_get_insert_other _ _ _ _ hcc] at hc
        rcases h.c2t_t2c c t' hc with h0 | h1
        · left; exact h0
        · right
          have htt : t ≠ t' := by
            intro he; subst he; rw [hget] at h1; cases h1
          rw [t2c_get_insert_other _ _ _ _ htt]; exact h1
    · intro c hc
      by_cases hcc : encode base t = c
      · subst hcc; rw [c2t_get_insert_same]; rfl
      · rw [c2t_get_insert_other _ _ _ _ hcc]; exact hc
    · intro c t' hc
      by_cases hcc : encode base t = c
      · subst hcc
        rw [c2t_get_insert_same] at hc
        cases hc; right; rfl
      · rw [c2t_get_insert_other _ _ _ _ hcc] at hc
        left; exact hc

end BB.Macros
