/-
Facts about cells of half-tapes (`cellAt`, `SameCells`, `AllZero`, `countNZ`), about
`Span.unroll`, and about the run-length view (`trimZ`, `rleCells`) of a canonical span.
-/
import BB.Lemmas.Canon
import BB.Lemmas.Refine

namespace BB

/-- remove trailing blanks -/
def trimZ : List Nat → List Nat
  | [] => []
  | x :: xs => match trimZ xs with
    | [] => if x == 0 then [] else [x]
    | ys => x :: ys

/-- run-length encoding of a cell list -/
def rleCells : List Nat → Span
  | [] => []
  | x :: xs => match rleCells xs with
    | [] => [⟨x, 1⟩]
    | b :: bs => if b.color == x then ⟨x, b.count + 1⟩ :: bs else ⟨x, 1⟩ :: b :: bs

/-! ### cellAt / SameCells / AllZero -/

@[simp] theorem cellAt_nil (i : Nat) : cellAt [] i = 0 := by simp [cellAt]
@[simp] theorem cellAt_cons_zero (x : Nat) (l : List Nat) : cellAt (x :: l) 0 = x := by simp [cellAt]
@[simp] theorem cellAt_cons_succ (x : Nat) (l : List Nat) (i : Nat) :
    cellAt (x :: l) (i + 1) = cellAt l i := by simp [cellAt]

theorem cellAt_headD (l : List Nat) : l.headD 0 = cellAt l 0 := by
  cases l <;> simp

theorem cellAt_tail (l : List Nat) (i : Nat) : cellAt l.tail i = cellAt l (i + 1) := by
  cases l <;> simp

theorem cellAt_append_left {a : List Nat} (b : List Nat) {i : Nat} (h : i < a.length) :
    cellAt (a ++ b) i = cellAt a i := by
  induction a generalizing i with
  | nil => simp at h
  | cons x xs ih =>
    cases i with
    | zero => simp
    | succ i => simp only [List.cons_append, cellAt_cons_succ]; exact ih (by simpa using h)

theorem cellAt_append_right (a b : List Nat) (i : Nat) :
    cellAt (a ++ b) (a.length + i) = cellAt b i := by
  induction a with
  | nil => simp
  | cons x xs ih =>
    have : (x :: xs).length + i = (xs.length + i) + 1 := by simp; omega
    rw [this]; simpa using ih

theorem cellAt_replicate {n c i : Nat} (h : i < n) : cellAt (List.replicate n c) i = c := by
  induction n generalizing i with
  | zero => omega
  | succ n ih =>
    cases i with
    | zero => simp [List.replicate_succ]
    | succ i => simp only [List.replicate_succ, cellAt_cons_succ]; exact ih (by omega)

theorem SameCells.refl (a : List Nat) : SameCells a a := fun _ => rfl
theorem SameCells.symm {a b : List Nat} (h : SameCells a b) : SameCells b a := fun i => (h i).symm
theorem SameCells.trans {a b c : List Nat} (h : SameCells a b) (h' : SameCells b c) :
    SameCells a c := fun i => (h i).trans (h' i)

theorem sameCells_cons_iff {x y : Nat} {xs ys : List Nat} :
    SameCells (x :: xs) (y :: ys) ↔ x = y ∧ SameCells xs ys := by
  constructor
  · intro h
    refine ⟨by simpa using h 0, fun i => ?_⟩
    simpa using h (i + 1)
  · rintro ⟨rfl, h⟩ i
    cases i with
    | zero => simp
    | succ i => simpa using h i

theorem SameCells.cons (x : Nat) {xs ys : List Nat} (h : SameCells xs ys) :
    SameCells (x :: xs) (x :: ys) := sameCells_cons_iff.2 ⟨rfl, h⟩

theorem SameCells.append_left (l : List Nat) {xs ys : List Nat} (h : SameCells xs ys) :
    SameCells (l ++ xs) (l ++ ys) := by
  induction l with
  | nil => exact h
  | cons x l ih => exact SameCells.cons x ih

theorem SameCells.headD {a b : List Nat} (h : SameCells a b) : a.headD 0 = b.headD 0 := by
  rw [cellAt_headD, cellAt_headD]; exact h 0

theorem SameCells.tail {a b : List Nat} (h : SameCells a b) : SameCells a.tail b.tail := by
  intro i; rw [cellAt_tail, cellAt_tail]; exact h (i + 1)

theorem allZero_nil : AllZero [] := fun i => by simp

theorem allZero_cons_iff {x : Nat} {xs : List Nat} : AllZero (x :: xs) ↔ x = 0 ∧ AllZero xs := by
  constructor
  · intro h
    refine ⟨by simpa using h 0, fun i => ?_⟩
    simpa using h (i + 1)
  · rintro ⟨rfl, h⟩ i
    cases i with
    | zero => simp
    | succ i => simpa using h i

theorem sameCells_nil_left {l : List Nat} : SameCells [] l ↔ AllZero l := by
  constructor
  · intro h i; simpa using (h i).symm
  · intro h i; simpa using (h i).symm

theorem sameCells_nil_right {l : List Nat} : SameCells l [] ↔ AllZero l := by
  constructor
  · intro h i; simpa using h i
  · intro h i; simpa using h i

theorem AllZero.sameCells {a b : List Nat} (ha : AllZero a) (hb : AllZero b) : SameCells a b :=
  fun i => (ha i).trans (hb i).symm

theorem SameCells.allZero {a b : List Nat} (h : SameCells a b) (ha : AllZero a) : AllZero b :=
  fun i => (h i).symm.trans (ha i)

theorem allZero_replicate_zero (n : Nat) : AllZero (List.replicate n 0) := by
  induction n with
  | zero => exact allZero_nil
  | succ n ih => rw [List.replicate_succ]; exact allZero_cons_iff.2 ⟨rfl, ih⟩

theorem allZero_append {a b : List Nat} : AllZero (a ++ b) ↔ AllZero a ∧ AllZero b := by
  induction a with
  | nil => simp [allZero_nil]
  | cons x xs ih => simp only [List.cons_append, allZero_cons_iff, ih, and_assoc]

theorem allZeroB_iff (l : List Nat) : allZeroB l = true ↔ AllZero l := by
  induction l with
  | nil => simp [allZeroB, allZero_nil]
  | cons x xs ih =>
    rw [allZero_cons_iff, ← ih]
    simp [allZeroB]

/-! ### Cfg.Equiv -/

theorem Cfg.Equiv.refl (c : Cfg) : c ≈c c := ⟨rfl, rfl, SameCells.refl _, SameCells.refl _⟩
theorem Cfg.Equiv.symm {a b : Cfg} (h : a ≈c b) : b ≈c a :=
  ⟨h.1.symm, h.2.1.symm, h.2.2.1.symm, h.2.2.2.symm⟩
theorem Cfg.Equiv.trans {a b c : Cfg} (h : a ≈c b) (h' : b ≈c c) : a ≈c c :=
  ⟨h.1.trans h'.1, h.2.1.trans h'.2.1, h.2.2.1.trans h'.2.2.1, h.2.2.2.trans h'.2.2.2⟩

theorem Cfg.Equiv.blank {a b : Cfg} (h : a ≈c b) (ha : a.Blank) : b.Blank :=
  ⟨h.2.1.symm.trans ha.1, h.2.2.1.allZero ha.2.1, h.2.2.2.allZero ha.2.2⟩

theorem Cfg.Blank.equiv {a b : Cfg} (ha : a.Blank) (hb : b.Blank) (hs : a.state = b.state) :
    a ≈c b :=
  ⟨hs, ha.1.trans hb.1.symm, ha.2.1.sameCells hb.2.1, ha.2.2.sameCells hb.2.2⟩

/-! ### trimZ -/

theorem trimZ_eq_nil_iff (l : List Nat) : trimZ l = [] ↔ AllZero l := by
  induction l with
  | nil => simp [trimZ, allZero_nil]
  | cons x xs ih =>
    rw [allZero_cons_iff, ← ih]
    simp only [trimZ]
    split
    · next h => by_cases hx : x = 0 <;> simp [hx, h]
    · next h => simp; exact fun _ => h

theorem SameCells.trimZ_eq {a b : List Nat} (h : SameCells a b) : trimZ a = trimZ b := by
  induction a generalizing b with
  | nil =>
    have : trimZ b = [] := (trimZ_eq_nil_iff b).2 (sameCells_nil_left.1 h)
    simp [trimZ, this]
  | cons x xs ih =>
    cases b with
    | nil =>
      have : trimZ (x :: xs) = [] := (trimZ_eq_nil_iff _).2 (sameCells_nil_right.1 h)
      rw [this]; rfl
    | cons y ys =>
      obtain ⟨rfl, h'⟩ := sameCells_cons_iff.1 h
      simp only [trimZ, ih h']

theorem trimZ_append_of_ne_nil (a : List Nat) {b : List Nat} (h : trimZ b ≠ []) :
    trimZ (a ++ b) = a ++ trimZ b := by
  induction a with
  | nil => rfl
  | cons x xs ih =>
    simp only [List.cons_append, trimZ, ih]
    split
    · next h' => cases xs <;> simp_all
    · rfl

theorem trimZ_replicate_of_ne_zero (n : Nat) {c : Nat} (hc : c ≠ 0) :
    trimZ (List.replicate n c) = List.replicate n c := by
  induction n with
  | zero => rfl
  | succ n ih =>
    simp only [List.replicate_succ, trimZ, ih]
    split
    · next h => simp [hc, h]
    · rfl

theorem trimZ_sameCells (l : List Nat) : SameCells (trimZ l) l := by
  induction l with
  | nil => exact SameCells.refl _
  | cons x xs ih =>
    simp only [trimZ]
    split
    · next h =>
      have hz : AllZero xs := (trimZ_eq_nil_iff xs).1 h
      by_cases hx : x = 0
      · subst hx
        simp only [BEq.rfl, if_true]
        exact sameCells_nil_left.2 (allZero_cons_iff.2 ⟨rfl, hz⟩)
      · have : (x == 0) = false := by simpa using hx
        simp only [this]
        exact SameCells.cons x (sameCells_nil_left.2 hz)
    · exact SameCells.cons x ih

/-! ### countNZ -/

theorem countNZ_nil : countNZ [] = 0 := rfl

theorem countNZ_cons (x : Nat) (xs : List Nat) :
    countNZ (x :: xs) = (if x != 0 then 1 else 0) + countNZ xs := by
  unfold countNZ
  by_cases hx : x = 0
  · simp [hx]
  · simp [hx]; omega

theorem countNZ_append (a b : List Nat) : countNZ (a ++ b) = countNZ a + countNZ b := by
  simp [countNZ]

theorem countNZ_replicate (n c : Nat) :
    countNZ (List.replicate n c) = if c != 0 then n else 0 := by
  induction n with
  | zero => simp [countNZ]
  | succ n ih =>
    rw [List.replicate_succ, countNZ_cons, ih]
    by_cases hc : c = 0 <;> simp [hc]; omega

theorem countNZ_eq_zero_of_allZero {l : List Nat} (h : AllZero l) : countNZ l = 0 := by
  induction l with
  | nil => rfl
  | cons x xs ih =>
    obtain ⟨rfl, h'⟩ := allZero_cons_iff.1 h
    rw [countNZ_cons, ih h']; simp

theorem countNZ_trimZ (l : List Nat) : countNZ (trimZ l) = countNZ l := by
  induction l with
  | nil => rfl
  | cons x xs ih =>
    rw [countNZ_cons]
    simp only [trimZ]
    split
    · next h =>
      have hz : countNZ xs = 0 := countNZ_eq_zero_of_allZero ((trimZ_eq_nil_iff xs).1 h)
      by_cases hx : x = 0
      · simp [hx, hz, countNZ_nil]
      · have : (x == 0) = false := by simpa using hx
        simp [this, hz, hx, countNZ_cons, countNZ_nil]
    · next h => rw [countNZ_cons, ← ih]

theorem SameCells.countNZ_eq {a b : List Nat} (h : SameCells a b) : countNZ a = countNZ b := by
  rw [← countNZ_trimZ a, ← countNZ_trimZ b, h.trimZ_eq]

theorem Cfg.Equiv.marks_eq {a b : Cfg} (h : a ≈c b) : a.marks = b.marks := by
  simp only [Cfg.marks, h.2.1, h.2.2.1.countNZ_eq, h.2.2.2.countNZ_eq]

/-! ### Span.unroll -/

@[simp] theorem Span.unroll_nil : Span.unroll [] = [] := rfl

@[simp] theorem Span.unroll_cons (b : Block) (s : Span) :
    Span.unroll (b :: s) = List.replicate b.count b.color ++ Span.unroll s := by
  simp [Span.unroll]

theorem Span.Pos.tail {b : Block} {s : Span} (h : Span.Pos (b :: s)) : Span.Pos s :=
  fun x hx => h x (List.mem_cons_of_mem _ hx)

theorem Span.Pos.head {b : Block} {s : Span} (h : Span.Pos (b :: s)) : 0 < b.count :=
  h b (List.mem_cons_self)

theorem Span.pos_nil : Span.Pos [] := fun _ h => by cases h

theorem Span.Pos.cons {b : Block} {s : Span} (hb : 0 < b.count) (h : Span.Pos s) :
    Span.Pos (b :: s) := by
  intro x hx
  cases hx with
  | head => exact hb
  | tail _ hx' => exact h x hx'

theorem Span.marks_foldl (s : Span) (acc : Nat) :
    s.foldl (fun acc b => if b.color != 0 then acc + b.count else acc) acc
      = acc + countNZ (Span.unroll s) := by
  induction s generalizing acc with
  | nil => simp [countNZ_nil]
  | cons b s ih =>
    rw [List.foldl_cons, ih, Span.unroll_cons, countNZ_append, countNZ_replicate]
    by_cases hc : b.color = 0 <;> simp [hc]; omega

theorem Span.marks_eq (s : Span) : Span.marks s = countNZ (Span.unroll s) := by
  rw [Span.marks, Span.marks_foldl]; simp

/-- a canonical non-empty span holds a non-blank cell -/
theorem Span.Canon.not_allZero {s : Span} (h : Span.Canon s) (hne : s ≠ []) :
    ¬ AllZero (Span.unroll s) := by
  induction s with
  | nil => exact absurd rfl hne
  | cons b rest ih =>
    cases rest with
    | nil =>
      intro hz
      have := hz 0
      rw [Span.unroll_cons, cellAt_append_left _ (by simpa using h.1), cellAt_replicate h.1] at this
      exact h.2 this
    | cons c r =>
      intro hz
      apply ih h.tail (by simp)
      intro i
      have := hz (b.count + i)
      rw [Span.unroll_cons] at this
      have h2 := cellAt_append_right (List.replicate b.count b.color) (Span.unroll (c :: r)) i
      simp only [List.length_replicate] at h2
      rw [h2] at this
      exact this

theorem Span.Canon.allZero_iff {s : Span} (h : Span.Canon s) :
    AllZero (Span.unroll s) ↔ s = [] := by
  constructor
  · intro hz
    exact Classical.byContradiction fun hne => h.not_allZero hne hz
  · rintro rfl; exact allZero_nil

theorem Span.Canon.trimZ_unroll {s : Span} (h : Span.Canon s) :
    trimZ (Span.unroll s) = Span.unroll s := by
  induction s with
  | nil => rfl
  | cons b rest ih =>
    cases rest with
    | nil =>
      simp only [Span.unroll_cons, Span.unroll_nil, List.append_nil]
      exact trimZ_replicate_of_ne_zero _ h.2
    | cons c r =>
      rw [Span.unroll_cons]
      have hne : trimZ (Span.unroll (c :: r)) ≠ [] := by
        intro h0
        exact h.tail.not_allZero (by simp) ((trimZ_eq_nil_iff _).1 h0)
      rw [trimZ_append_of_ne_nil _ hne, ih h.tail]

theorem rleCells_replicate_append (n c : Nat) (l : List Nat)
    (hl : match rleCells l with | [] => True | b :: _ => b.color ≠ c) :
    rleCells (List.replicate (n + 1) c ++ l) = ⟨c, n + 1⟩ :: rleCells l := by
  induction n with
  | zero =>
    simp only [List.replicate_succ, List.replicate_zero, List.cons_append, List.nil_append, rleCells]
    split
    · next h => simp [h]
    · next b bs h =>
      rw [h] at hl
      have : (b.color == c) = false := by simpa using hl
      simp [this, h]
  | succ n ih =>
    rw [List.replicate_succ, List.cons_append, rleCells, ih]
    simp

theorem Span.Canon.rle_unroll {s : Span} (h : Span.Canon s) : rleCells (Span.unroll s) = s := by
  induction s with
  | nil => rfl
  | cons b rest ih =>
    have hpos := h.head_pos
    obtain ⟨n, hn⟩ : ∃ n, b.count = n + 1 := ⟨b.count - 1, by omega⟩
    rw [Span.unroll_cons, hn, rleCells_replicate_append, ih h.tail]
    · cases b; simp_all
    · rw [ih h.tail]
      cases rest with
      | nil => trivial
      | cons c r => exact fun e => h.2.1 e.symm

theorem Span.Canon.rle_trim_unroll {s : Span} (h : Span.Canon s) :
    rleCells (trimZ (Span.unroll s)) = s := by
  rw [h.trimZ_unroll, h.rle_unroll]

theorem Span.Canon.eq_of_sameCells {a b : Span} (ha : Span.Canon a) (hb : Span.Canon b)
    (h : SameCells (Span.unroll a) (Span.unroll b)) : a = b := by
  rw [← ha.rle_trim_unroll, ← hb.rle_trim_unroll, h.trimZ_eq]

/-! ### observers of a tape -/

theorem Tape.marks_toCfg (t : Tape) (q : Nat) : t.marks = (t.toCfg q).marks := by
  simp only [Tape.marks, Cfg.marks, Tape.toCfg, Span.marks_eq]
  by_cases h : t.scan = 0 <;> simp [h] <;> omega

theorem Tape.blank_iff {t : Tape} (h : t.Canon) (q : Nat) :
    t.blank = true ↔ (t.toCfg q).Blank := by
  simp only [Tape.blank, Cfg.Blank, Tape.toCfg, h.1.allZero_iff, h.2.allZero_iff,
    Bool.and_eq_true, beq_iff_eq, List.isEmpty_iff, and_assoc]

theorem Tape.atEdge_iff {t : Tape} (h : t.Canon) (d : Bool) :
    t.atEdge d = true ↔
      t.scan = 0 ∧ AllZero (if d then Span.unroll t.rspan else Span.unroll t.lspan) := by
  cases d <;>
    simp [Tape.atEdge, h.1.allZero_iff, h.2.allZero_iff]

/-! ### sigCompatible -/

theorem Span.sigCompatible_iff (s : Span) (cs : SigSpan) :
    Span.sigCompatible s cs = true ↔
      ∀ i (hi : i < cs.length) (hj : i < s.length), (s[i]).color = (cs[i]).color := by
  induction s generalizing cs with
  | nil => cases cs <;> simp [Span.sigCompatible]
  | cons b bs ih =>
    cases cs with
    | nil => simp [Span.sigCompatible]
    | cons c cs =>
      simp only [Span.sigCompatible, Bool.and_eq_true, beq_iff_eq, ih]
      constructor
      · rintro ⟨h0, h⟩ i hi hj
        cases i with
        | zero => simpa using h0
        | succ i => simpa using h i (by simpa using hi) (by simpa using hj)
      · intro h
        refine ⟨?_, fun i hi hj => ?_⟩
        · have := h 0 (by simp) (by simp)
          simp only [List.getElem_cons_zero] at this
          exact this
        · have := h (i + 1) (by simpa using hi) (by simpa using hj)
          simp only [List.getElem_cons_succ] at this
          exact this

end BB
