/-
Helper lemmas for BB/Props/Blocks.lean (model: BB/Model/Blocks.lean).
-/
import BB.Model.Blocks

namespace BB.Blocks

open BB

/-! ### measure_blocks / unroll_tape -/

/-- what a successful iteration of `measure_blocks` does to state, tape and the counters -/
theorem measIter_some (p : Prog) (m m' : Meas) (h : measIter p m = some m') :
    ∃ color shift next, p.get (m.state, m.tape.scan) = some (color, shift, next) ∧
      m'.tape = (m.tape.step shift color (m.state == next)).1 ∧ m'.state = next ∧
      m'.steps = m.steps + 1 ∧ (m.maxStep ≤ m.steps → m'.maxStep ≤ m'.steps) := by
  unfold measIter at h
  split at h
  · cases h
  · rename_i color shift next hg
    refine ⟨color, shift, next, hg, ?_⟩
    by_cases hc : ((m.state == next) && m.tape.atEdge shift) = true
    · simp only [hc, if_true] at h
      cases h
    · simp only [hc, Bool.false_eq_true, if_false, Option.some.injEq] at h
      subst h
      refine ⟨rfl, rfl, rfl, ?_⟩
      intro hle
      show (if m.tape.blocks > m.maxBlocks then m.steps + 1 else m.maxStep) ≤ m.steps + 1
      split <;> omega

theorem measGo_steps (p : Prog) (n : Nat) (m m' : Meas) (h : measGo p n m = some m') :
    m'.steps = m.steps + n ∧ (m.maxStep ≤ m.steps → m'.maxStep ≤ m'.steps) := by
  induction n generalizing m with
  | zero =>
    simp only [measGo] at h
    cases h
    exact ⟨rfl, id⟩
  | succ n ih =>
    simp only [measGo] at h
    split at h
    · cases h
    · rename_i m1 h1
      obtain ⟨_, _, _, _, _, _, hs, hle⟩ := measIter_some p m m1 h1
      obtain ⟨hs', hle'⟩ := ih m1 h
      refine ⟨by omega, fun h0 => hle' (hle h0)⟩

/-- `unroll_tape` replays the run of `measure_blocks`: no undefined slot within the measured run -/
theorem unrollGo_isSome_of_measGo (p : Prog) (n : Nat) (m m' : Meas)
    (h : measGo p n m = some m') (j : Nat) (hj : j ≤ n) :
    (unrollGo p j m.state m.tape).isSome = true := by
  induction n generalizing m j with
  | zero =>
    have : j = 0 := by omega
    subst this
    simp [unrollGo]
  | succ n ih =>
    cases j with
    | zero => simp [unrollGo]
    | succ j =>
      simp only [measGo] at h
      split at h
      · cases h
      · rename_i m1 h1
        obtain ⟨color, shift, next, hg, ht, hq, _, _⟩ := measIter_some p m m1 h1
        simp only [unrollGo, hg]
        have := ih m1 h j (by omega)
        rw [ht, hq] at this
        exact this

theorem measureBlocks_le' (p : Prog) (steps ms : Nat) (h : measureBlocks p steps = some ms) :
    ms ≤ steps := by
  unfold measureBlocks at h
  cases hm : measGo p steps Meas.init with
  | none => rw [hm] at h; cases h
  | some m =>
    rw [hm] at h
    simp only [Option.map_some, Option.some.injEq] at h
    obtain ⟨hs, hle⟩ := measGo_steps p steps Meas.init m hm
    have h0 : m.maxStep ≤ m.steps := hle (by simp [Meas.init])
    have : Meas.init.steps = 0 := rfl
    omega

theorem unrollTape_isSome (p : Prog) (steps ms : Nat) (h : measureBlocks p steps = some ms) :
    (unrollTape p ms).isSome = true := by
  have hle := measureBlocks_le' p steps ms h
  unfold measureBlocks at h
  cases hm : measGo p steps Meas.init with
  | none => rw [hm] at h; cases h
  | some m =>
    have := unrollGo_isSome_of_measGo p steps Meas.init m hm ms hle
    unfold unrollTape
    simp only [Option.isSome_map]
    exact this

theorem optBlock_isSome' (p : Prog) (steps : Nat) : (optBlock p steps).isSome = true := by
  unfold optBlock
  cases hm : measureBlocks p steps with
  | none => rfl
  | some ms =>
    have := unrollTape_isSome p steps ms hm
    cases hu : unrollTape p ms with
    | none => rw [hu] at this; cases this
    | some tape => simp only [hu, Option.isSome_some]

/-! ### compr_eff -/

theorem foldl_sub_le {α : Type} (c : α → Bool) (k : Nat) (l : List α) (init : Nat) :
    l.foldl (fun acc j => if c j then acc - k else acc) init ≤ init := by
  induction l generalizing init with
  | nil => exact Nat.le_refl _
  | cons a l ih =>
    simp only [List.foldl_cons]
    refine Nat.le_trans (ih _) ?_
    split <;> omega

theorem comprEff_le (tape : List Nat) (k : Nat) : comprEff tape k ≤ tape.length := by
  unfold comprEff
  exact foldl_sub_le (fun j => chunk tape (j * k) k == chunk tape (j * k + k) k) k _ _

theorem foldl_sub_eq (c : Nat → Bool) (k len : Nat) (n : Nat) (hn : n * k ≤ len) :
    (List.range n).foldl (fun acc j => if c j then acc - k else acc) len
      + k * ((List.range n).filter c).length = len := by
  induction n with
  | zero => simp
  | succ n ih =>
    have hnk : (n + 1) * k = n * k + k := Nat.succ_mul n k
    have ih' := ih (by omega)
    have hcnt : ((List.range n).filter c).length ≤ n := by
      have := List.length_filter_le c (List.range n)
      simpa using this
    have hmul : k * ((List.range n).filter c).length ≤ n * k := by
      rw [Nat.mul_comm n k]
      exact Nat.mul_le_mul_left k hcnt
    rw [List.range_succ, List.foldl_append, List.filter_append, List.length_append]
    simp only [List.foldl_cons, List.foldl_nil, List.filter_cons, List.filter_nil]
    cases hc : c n with
    | false =>
      simp only [Bool.false_eq_true, if_false, List.length_nil, Nat.add_zero]
      exact ih'
    | true =>
      simp only [if_true, List.length_cons, List.length_nil, Nat.zero_add, Nat.mul_add,
        Nat.mul_one]
      omega

theorem comprIters_mul_le (len k : Nat) (h2 : 2 * k ≤ len) : comprIters len k * k ≤ len := by
  unfold comprIters
  have := Nat.div_mul_le_self (len - 2 * k + k - 1) k
  omega

theorem comprEff_eq' (tape : List Nat) (k : Nat) (h2 : 2 * k ≤ tape.length) :
    comprEff tape k + k * ((List.range (comprIters tape.length k)).filter
        (fun j => chunk tape (j * k) k == chunk tape (j * k + k) k)).length = tape.length := by
  unfold comprEff
  exact foldl_sub_eq (fun j => chunk tape (j * k) k == chunk tape (j * k + k) k) k tape.length
    _ (comprIters_mul_le _ _ h2)

/-! ### the loop of opt_block -/

/-- loop invariant of `opt_block`: `(k0, c0)` is the first minimiser among the sizes `1 .. lo-1`,
    or nothing was tried yet and `c0` is the sentinel `1 + len`. -/
def OptInv (tape : List Nat) (lo k0 c0 : Nat) : Prop :=
  1 ≤ k0 ∧ (k0 < lo ∨ (lo = 1 ∧ k0 = 1)) ∧
  (∀ b, 1 ≤ b → b < lo → c0 ≤ comprEff tape b) ∧
  (∀ b, 1 ≤ b → b < k0 → c0 < comprEff tape b) ∧
  (k0 < lo → c0 = comprEff tape k0) ∧
  (lo = 1 → c0 = 1 + tape.length)

theorem optGo_inv (tape : List Nat) (n lo k0 c0 : Nat) (hlo : 1 ≤ lo)
    (h : OptInv tape lo k0 c0) :
    OptInv tape (lo + n) (optGo tape n lo (k0, c0)).1 (optGo tape n lo (k0, c0)).2 := by
  induction n generalizing lo k0 c0 with
  | zero => simpa [optGo] using h
  | succ n ih =>
    obtain ⟨h1, h2, h3, h4, h5, h6⟩ := h
    simp only [optGo]
    have hrw : lo + (n + 1) = (lo + 1) + n := by omega
    rw [hrw]
    have hle := comprEff_le tape lo
    split
    · rename_i hc
      apply ih (lo + 1) lo (comprEff tape lo) (by omega)
      refine ⟨hlo, Or.inl (by omega), ?_, ?_, fun _ => rfl, fun h => by omega⟩
      · intro b hb1 hb2
        by_cases hb : b = lo
        · subst hb; exact Nat.le_refl _
        · have := h3 b hb1 (by omega); omega
      · intro b hb1 hb2
        have := h3 b hb1 hb2; omega
    · rename_i hc
      have hne : lo ≠ 1 := by
        intro hl
        have := h6 hl
        omega
      have hk : k0 < lo := by
        rcases h2 with h2 | ⟨h2, _⟩
        · exact h2
        · exact absurd h2 hne
      apply ih (lo + 1) k0 c0 (by omega)
      refine ⟨h1, Or.inl (by omega), ?_, h4, fun _ => h5 hk, fun h => by omega⟩
      intro b hb1 hb2
      by_cases hb : b = lo
      · subst hb; omega
      · exact h3 b hb1 (by omega)

theorem optGo_first_min' (tape : List Nat) (n : Nat) :
    let k := (optGo tape n 1 (1, 1 + tape.length)).1
    (n = 0 → k = 1) ∧
    (0 < n → 1 ≤ k ∧ k ≤ n ∧
      (∀ b, 1 ≤ b → b ≤ n → comprEff tape k ≤ comprEff tape b) ∧
      (∀ b, 1 ≤ b → b < k → comprEff tape k < comprEff tape b)) := by
  intro k
  have hinit : OptInv tape 1 1 (1 + tape.length) :=
    ⟨Nat.le_refl _, Or.inr ⟨rfl, rfl⟩, fun b h1 h2 => by omega, fun b h1 h2 => by omega,
      fun h => by omega, fun _ => rfl⟩
  obtain ⟨h1, h2, h3, h4, h5, h6⟩ := optGo_inv tape n 1 1 (1 + tape.length) (Nat.le_refl _) hinit
  refine ⟨?_, ?_⟩
  · intro hn
    subst hn
    rfl
  · intro hn
    have hk : k < 1 + n := by
      rcases h2 with h2 | ⟨h2, _⟩
      · exact h2
      · omega
    have hc := h5 hk
    refine ⟨h1, by omega, ?_, ?_⟩
    · intro b hb1 hb2
      have := h3 b hb1 (by omega)
      rw [hc] at this
      exact this
    · intro b hb1 hb2
      have := h4 b hb1 hb2
      rw [hc] at this
      exact this

theorem optGo_pos (tape : List Nat) (n : Nat) : 1 ≤ (optGo tape n 1 (1, 1 + tape.length)).1 := by
  have h := optGo_first_min' tape n
  by_cases hn : n = 0
  · have := h.1 hn; omega
  · exact (h.2 (by omega)).1

theorem optGo_legal (tape : List Nat) :
    (optGo tape (tape.length / 2 - 1) 1 (1, 1 + tape.length)).1 = 1 ∨
      2 * (optGo tape (tape.length / 2 - 1) 1 (1, 1 + tape.length)).1 < tape.length := by
  have h := optGo_first_min' tape (tape.length / 2 - 1)
  by_cases hn : tape.length / 2 - 1 = 0
  · exact Or.inl (h.1 hn)
  · right
    have := (h.2 (by omega)).2.1
    omega

theorem optBlock_pos' (p : Prog) (steps k : Nat) (h : optBlock p steps = some k) : 1 ≤ k := by
  unfold optBlock at h
  split at h
  · cases h; exact Nat.le_refl _
  · split at h
    · cases h
    · cases h
      exact optGo_pos _ _

theorem optBlock_legal' (p : Prog) (steps k ms : Nat) (cells : List Nat)
    (hm : measureBlocks p steps = some ms) (hu : unrollTape p ms = some cells)
    (h : optBlock p steps = some k) : k = 1 ∨ 2 * k < cells.length := by
  unfold optBlock at h
  rw [hm] at h
  simp only [hu, Option.some.injEq] at h
  subst h
  exact optGo_legal cells

end BB.Blocks
