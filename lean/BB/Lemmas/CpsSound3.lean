/-
C06 support, part 3: the pass loop.  Invariant of the work-list loop ("every configuration in
`seen` is still on the work-list or has had its push-side window registered"), the reading of an
update-free pass as a closure check with static span maps, and `cps_true_closed'`.
-/
import BB.Lemmas.CpsSound2

namespace BB.Cps

open BB

/-! ### the membership index -/

/-- the index of a `Configs` is the membership test of its list -/
def Configs.WF (cs : Configs) : Prop := ∀ c, cs.contains c = true ↔ c ∈ cs.seen

theorem Configs.WF.insert {cs : Configs} (h : cs.WF) (c : Config) : (cs.insert c).WF := by
  intro c'
  have h' := h c'
  simp only [Configs.contains, TMap.contains] at h'
  simp only [Configs.contains, Configs.insert, TMap.contains, TMap.find?_insert, List.mem_cons]
  by_cases hk : c'.key = c.key
  · have := Config.key_inj _ _ hk
    simp [this]
  · have hne : c' ≠ c := fun e => hk (by rw [e])
    rw [if_neg hk]
    simp [hne, h']

/-! ### registering the push-side window -/

/-- `push_spans.add_span(push)` -/
def regPush (cs : Configs) (sh : Bool) (s : Span) : Configs :=
  if sh then { cs with lspans := addSpan cs.lspans s } else { cs with rspans := addSpan cs.rspans s }

theorem regPush_seen (cs : Configs) (sh : Bool) (s : Span) : (regPush cs sh s).seen = cs.seen := by
  cases sh <;> rfl

theorem regPush_index (cs : Configs) (sh : Bool) (s : Span) :
    (regPush cs sh s).index = cs.index := by
  cases sh <;> rfl

theorem regPush_wf {cs : Configs} (h : cs.WF) (sh : Bool) (s : Span) : (regPush cs sh s).WF := by
  intro c
  have := h c
  simpa only [Configs.contains, regPush_index, regPush_seen] using this

theorem regPush_monoL (cs : Configs) (sh : Bool) (s t : Span) (h : hasColor cs.lspans t = true) :
    hasColor (regPush cs sh s).lspans t = true := by
  cases sh
  · exact h
  · exact hasColor_addSpan_mono h s

theorem regPush_monoR (cs : Configs) (sh : Bool) (s t : Span) (h : hasColor cs.rspans t = true) :
    hasColor (regPush cs sh s).rspans t = true := by
  cases sh
  · exact hasColor_addSpan_mono h s
  · exact h

theorem regPush_self (cs : Configs) (sh : Bool) (s : Span) :
    hasColor (if sh then (regPush cs sh s).lspans else (regPush cs sh s).rspans) s = true := by
  cases sh <;> simp [regPush, hasColor_addSpan_self]

theorem regPush_of_hasColor {cs : Configs} {sh : Bool} {s : Span}
    (h : hasColor (if sh then cs.lspans else cs.rspans) s = true) : regPush cs sh s = cs := by
  cases sh
  · simp only [Bool.false_eq_true, if_false] at h
    simp [regPush, addSpan_of_hasColor h]
  · simp only [if_true] at h
    simp [regPush, addSpan_of_hasColor h]

/-- the push-side window of `c` (with respect to the instruction at `c`) is registered -/
def PushReg (p : Prog) (ls rs : Spans) (c : Config) : Prop :=
  ∀ pr sh nx, p.get (c.state, c.tape.scan) = some (pr, sh, nx) →
    hasColor (if sh then ls else rs) (if sh then c.tape.lspan else c.tape.rspan) = true

theorem PushReg.regPush {p : Prog} {cs : Configs} {c : Config}
    (h : PushReg p cs.lspans cs.rspans c) (sh : Bool) (s : Span) :
    PushReg p (regPush cs sh s).lspans (regPush cs sh s).rspans c := by
  intro pr sh' nx hi
  have := h pr sh' nx hi
  cases sh'
  · exact regPush_monoR cs sh s _ this
  · exact regPush_monoL cs sh s _ this

/-! ### `addNexts` -/

theorem splitLast_spec (x : Nat) (ys : List Nat) :
    x :: ys = (splitLast x ys).1 ++ [(splitLast x ys).2] := by
  induction ys generalizing x with
  | nil => simp [splitLast]
  | cons y ys ih =>
    simp only [splitLast, List.cons_append]
    rw [← ih y]

theorem splitLast?_spec {l ic : List Nat} {lc : Nat} (h : splitLast? l = some (ic, lc)) :
    l = ic ++ [lc] := by
  cases l with
  | nil => simp [splitLast?] at h
  | cons x xs =>
    simp only [splitLast?, Option.some.injEq] at h
    have := splitLast_spec x xs
    rw [h] at this
    exact this

theorem addNexts_spec (mk : Nat → Config) (colors : List Nat) (cs : Configs) (todo : List Config)
    (upd : Bool) :
    ∃ new, (addNexts mk colors cs todo upd).1.seen = new ++ cs.seen ∧
      (addNexts mk colors cs todo upd).2.1 = new ++ todo ∧
      (addNexts mk colors cs todo upd).1.lspans = cs.lspans ∧
      (addNexts mk colors cs todo upd).1.rspans = cs.rspans ∧
      (cs.WF → (addNexts mk colors cs todo upd).1.WF) ∧
      (upd = true → (addNexts mk colors cs todo upd).2.2 = true) ∧
      ((addNexts mk colors cs todo upd).2.2 = false →
        (addNexts mk colors cs todo upd).1 = cs ∧ (addNexts mk colors cs todo upd).2.1 = todo ∧
        ∀ color ∈ colors, cs.contains (mk color) = true) := by
  induction colors generalizing cs todo upd with
  | nil => exact ⟨[], by simp [addNexts]⟩
  | cons color rest ih =>
    by_cases hc : cs.contains (mk color) = true
    · simp only [addNexts, hc, if_true]
      obtain ⟨new, h1, h2, h3, h4, h5, h6, h7⟩ := ih cs todo upd
      refine ⟨new, h1, h2, h3, h4, h5, h6, fun hf => ?_⟩
      obtain ⟨a, b, c⟩ := h7 hf
      refine ⟨a, b, fun x hx => ?_⟩
      rcases List.mem_cons.1 hx with rfl | hx
      · exact hc
      · exact c x hx
    · have hc' : cs.contains (mk color) = false := by simpa using hc
      simp only [addNexts, hc', Bool.false_eq_true, if_false]
      obtain ⟨new, h1, h2, h3, h4, h5, h6, h7⟩ := ih (cs.insert (mk color)) (mk color :: todo) true
      refine ⟨new ++ [mk color], ?_, ?_, h3, h4, fun hw => h5 (hw.insert _), fun _ => h6 rfl,
        fun hf => ?_⟩
      · rw [h1]; simp [Configs.insert]
      · rw [h2]; simp
      · rw [h6 rfl] at hf; cases hf

/-! ### one pop of the work-list -/

/-- the part of `stepConfig` after `push_spans.add_span(push)` -/
def stepTail (goal : Goal) (maxDepth : Nat) (cs1 : Configs) (todo : List Config) (update : Bool)
    (c : Config) (print : Nat) (shift : Bool) (next : Nat) : StepRes :=
  let pull0 := if shift then c.tape.rspan else c.tape.lspan
  let push0 := if shift then c.tape.lspan else c.tape.rspan
  let push := push0.push print
  let pulled := pull0.pull
  let scan := pulled.1
  let pull := pulled.2
  match getColors (if shift then cs1.rspans else cs1.lspans) pull with
  | none => .panic
  | some colors =>
    if goalTest goal colors scan pull push c.state next then .retFalse
    else
      match splitLast? colors with
      | none => .panic
      | some (initColors, lastColor) =>
        let mk := mkNext next scan push pull shift
        let r := addNexts mk initColors cs1 todo update
        let nc := mk lastColor
        if r.1.contains nc then .cont r.1 r.2.1 r.2.2
        else
          let cs3 := r.1.insert nc
          if cs3.size > maxDepth then .retFalse
          else .cont cs3 (nc :: r.2.1) true

theorem stepConfig_some {p : Prog} {goal : Goal} {md : Nat} {cs : Configs} {todo : List Config}
    {upd : Bool} {c : Config} {pr : Nat} {sh : Bool} {nx : Nat}
    (hi : p.get (c.state, c.tape.scan) = some (pr, sh, nx)) :
    stepConfig p goal md cs todo upd c =
      stepTail goal md (regPush cs sh (if sh then c.tape.lspan else c.tape.rspan)) todo upd c
        pr sh nx := by
  unfold stepConfig
  rw [hi]
  rfl

theorem stepTail_cont {goal : Goal} {md : Nat} {cs1 : Configs} {todo : List Config}
    {upd : Bool} {c : Config} {pr : Nat} {sh : Bool} {nx : Nat}
    {cs' : Configs} {todo' : List Config} {upd' : Bool}
    (h : stepTail goal md cs1 todo upd c pr sh nx = .cont cs' todo' upd') :
    ∃ colors,
      getColors (if sh then cs1.rspans else cs1.lspans)
        (if sh then c.tape.rspan else c.tape.lspan).pull.2 = some colors ∧
      goalTest goal colors (if sh then c.tape.rspan else c.tape.lspan).pull.1
        (if sh then c.tape.rspan else c.tape.lspan).pull.2
        ((if sh then c.tape.lspan else c.tape.rspan).push pr) c.state nx = false ∧
      (∃ new, cs'.seen = new ++ cs1.seen ∧ todo' = new ++ todo) ∧
      cs'.lspans = cs1.lspans ∧ cs'.rspans = cs1.rspans ∧
      (cs1.WF → cs'.WF) ∧
      (upd = true → upd' = true) ∧
      (upd' = false →
        cs' = cs1 ∧ todo' = todo ∧
        ∀ color ∈ colors,
          cs1.contains
            (mkNext nx (if sh then c.tape.rspan else c.tape.lspan).pull.1
              ((if sh then c.tape.lspan else c.tape.rspan).push pr)
              (if sh then c.tape.rspan else c.tape.lspan).pull.2 sh color) = true) := by
  simp only [stepTail] at h
  cases hgc : getColors (if sh then cs1.rspans else cs1.lspans)
      (if sh then c.tape.rspan else c.tape.lspan).pull.2 with
  | none => rw [hgc] at h; cases h
  | some colors =>
    rw [hgc] at h
    simp only at h
    refine ⟨colors, rfl, ?_⟩
    cases hg : goalTest goal colors (if sh then c.tape.rspan else c.tape.lspan).pull.1
        (if sh then c.tape.rspan else c.tape.lspan).pull.2
        ((if sh then c.tape.lspan else c.tape.rspan).push pr) c.state nx with
    | true => rw [hg] at h; simp at h
    | false =>
      rw [hg] at h
      simp only [Bool.false_eq_true, if_false] at h
      refine ⟨rfl, ?_⟩
      cases hsl : splitLast? colors with
      | none => rw [hsl] at h; cases h
      | some ilc =>
        obtain ⟨ic, lc⟩ := ilc
        rw [hsl] at h
        simp only at h
        have hcol := splitLast?_spec hsl
        generalize hmk : mkNext nx (if sh then c.tape.rspan else c.tape.lspan).pull.1
          ((if sh then c.tape.lspan else c.tape.rspan).push pr)
          (if sh then c.tape.rspan else c.tape.lspan).pull.2 sh = mk at h ⊢
        obtain ⟨new, a1, a2, a3, a4, a5, a6, a7⟩ := addNexts_spec mk ic cs1 todo upd
        by_cases hcon : (addNexts mk ic cs1 todo upd).1.contains (mk lc) = true
        · rw [if_pos hcon] at h
          simp only [StepRes.cont.injEq] at h
          obtain ⟨rfl, rfl, rfl⟩ := h
          refine ⟨⟨new, a1, a2⟩, a3, a4, a5, a6, fun hf => ?_⟩
          obtain ⟨b1, b2, b3⟩ := a7 hf
          refine ⟨b1, b2, fun color hcm => ?_⟩
          rw [hcol] at hcm
          rcases List.mem_append.1 hcm with hcm | hcm
          · exact b3 color hcm
          · simp only [List.mem_singleton] at hcm
            rw [hcm, ← b1]; exact hcon
        · rw [if_neg hcon] at h
          by_cases hsz : ((addNexts mk ic cs1 todo upd).1.insert (mk lc)).size > md
          · rw [if_pos hsz] at h; cases h
          · rw [if_neg hsz] at h
            simp only [StepRes.cont.injEq] at h
            obtain ⟨rfl, rfl, rfl⟩ := h
            refine ⟨⟨mk lc :: new, ?_, ?_⟩, a3, a4, fun hw => (a5 hw).insert _,
              fun _ => rfl, fun hf => by cases hf⟩
            · simp [Configs.insert, a1]
            · simp [a2]

/-- what a continuing `stepConfig` did -/
theorem stepConfig_cont {p : Prog} {goal : Goal} {md : Nat} {cs : Configs} {todo : List Config}
    {upd : Bool} {c : Config} {cs' : Configs} {todo' : List Config} {upd' : Bool}
    (h : stepConfig p goal md cs todo upd c = .cont cs' todo' upd') :
    (p.get (c.state, c.tape.scan) = none ∧ goal ≠ .halt ∧ cs' = cs ∧ todo' = todo ∧ upd' = upd) ∨
    (∃ pr sh nx colors,
      p.get (c.state, c.tape.scan) = some (pr, sh, nx) ∧
      getColors
        (if sh then (regPush cs sh (if sh then c.tape.lspan else c.tape.rspan)).rspans
          else (regPush cs sh (if sh then c.tape.lspan else c.tape.rspan)).lspans)
        (if sh then c.tape.rspan else c.tape.lspan).pull.2 = some colors ∧
      goalTest goal colors (if sh then c.tape.rspan else c.tape.lspan).pull.1
        (if sh then c.tape.rspan else c.tape.lspan).pull.2
        ((if sh then c.tape.lspan else c.tape.rspan).push pr) c.state nx = false ∧
      (∃ new, cs'.seen = new ++ cs.seen ∧ todo' = new ++ todo) ∧
      cs'.lspans = (regPush cs sh (if sh then c.tape.lspan else c.tape.rspan)).lspans ∧
      cs'.rspans = (regPush cs sh (if sh then c.tape.lspan else c.tape.rspan)).rspans ∧
      (cs.WF → cs'.WF) ∧
      (upd = true → upd' = true) ∧
      (upd' = false →
        cs' = regPush cs sh (if sh then c.tape.lspan else c.tape.rspan) ∧ todo' = todo ∧
        ∀ color ∈ colors,
          (regPush cs sh (if sh then c.tape.lspan else c.tape.rspan)).contains
            (mkNext nx (if sh then c.tape.rspan else c.tape.lspan).pull.1
              ((if sh then c.tape.lspan else c.tape.rspan).push pr)
              (if sh then c.tape.rspan else c.tape.lspan).pull.2 sh color) = true)) := by
  cases hi : p.get (c.state, c.tape.scan) with
  | none =>
    unfold stepConfig at h
    rw [hi] at h
    left
    cases goal with
    | halt => cases h
    | blank => simp only [StepRes.cont.injEq] at h; simp [h]
    | spinout => simp only [StepRes.cont.injEq] at h; simp [h]
  | some ins =>
    obtain ⟨pr, sh, nx⟩ := ins
    rw [stepConfig_some hi] at h
    right
    obtain ⟨colors, h1, h2, ⟨new, h3, h3'⟩, h4, h5, h6, h7, h8⟩ := stepTail_cont h
    refine ⟨pr, sh, nx, colors, rfl, h1, h2, ⟨new, ?_, h3'⟩, h4, h5,
      fun hw => h6 (regPush_wf hw _ _), h7, h8⟩
    rw [h3, regPush_seen]

/-! ### the invariant of the work-list loop -/

structure MidInv (p : Prog) (rad : Nat) (cs : Configs) (todo : List Config) : Prop where
  wf : cs.WF
  init : Config.init rad ∈ cs.seen
  initL : hasColor cs.lspans (Span.init rad) = true
  initR : hasColor cs.rspans (Span.init rad) = true
  reg : ∀ c ∈ cs.seen, c ∈ todo ∨ PushReg p cs.lspans cs.rspans c

theorem MidInv.step {p : Prog} {goal : Goal} {md rad : Nat} {cs : Configs} {todo : List Config}
    {upd : Bool} {c : Config} {cs' : Configs} {todo' : List Config} {upd' : Bool}
    (hinv : MidInv p rad cs (c :: todo))
    (h : stepConfig p goal md cs todo upd c = .cont cs' todo' upd') : MidInv p rad cs' todo' := by
  rcases stepConfig_cont h with ⟨hi, _, rfl, rfl, _⟩ | ⟨pr, sh, nx, colors, hi, _, _, ⟨new, hs, ht⟩,
    hl, hr, hw, _, _⟩
  · refine ⟨hinv.wf, hinv.init, hinv.initL, hinv.initR, fun c0 hc0 => ?_⟩
    rcases hinv.reg c0 hc0 with hm | hm
    · rcases List.mem_cons.1 hm with rfl | hm
      · right; intro pr sh nx hi'; rw [hi] at hi'; cases hi'
      · exact Or.inl hm
    · exact Or.inr hm
  · refine ⟨hw hinv.wf, by rw [hs]; exact List.mem_append_right _ hinv.init,
      by rw [hl]; exact regPush_monoL _ _ _ _ hinv.initL,
      by rw [hr]; exact regPush_monoR _ _ _ _ hinv.initR, fun c0 hc0 => ?_⟩
    rw [hs] at hc0
    rw [ht, hl, hr]
    rcases List.mem_append.1 hc0 with hn | ho
    · exact Or.inl (List.mem_append_left _ hn)
    · rcases hinv.reg c0 ho with hm | hm
      · rcases List.mem_cons.1 hm with rfl | hm
        · right
          intro pr' sh' nx' hi'
          rw [hi] at hi'
          simp only [Option.some.injEq, Prod.mk.injEq] at hi'
          obtain ⟨rfl, rfl, rfl⟩ := hi'
          exact regPush_self cs sh _
        · exact Or.inl (List.mem_append_right _ hm)
      · exact Or.inr (hm.regPush _ _)

theorem runPass_inv {p : Prog} {goal : Goal} {md rad : Nat} :
    ∀ (fuel : Nat) (cs : Configs) (todo : List Config) (upd : Bool) (cs' : Configs) (upd' : Bool),
      MidInv p rad cs todo → runPass p goal md fuel cs todo upd = .done cs' upd' →
      MidInv p rad cs' [] := by
  intro fuel
  induction fuel with
  | zero =>
    intro cs todo upd cs' upd' hinv h
    cases todo with
    | nil => simp only [runPass, PassRes.done.injEq] at h; rw [← h.1]; exact hinv
    | cons c todo => simp [runPass] at h
  | succ fuel ih =>
    intro cs todo upd cs' upd' hinv h
    cases todo with
    | nil => simp only [runPass, PassRes.done.injEq] at h; rw [← h.1]; exact hinv
    | cons c todo =>
      simp only [runPass] at h
      cases hst : stepConfig p goal md cs todo upd c with
      | retFalse => rw [hst] at h; cases h
      | panic => rw [hst] at h; cases h
      | cont cs1 todo1 upd1 =>
        rw [hst] at h
        exact ih cs1 todo1 upd1 cs' upd' (hinv.step hst) h

/-! ### `update` only ever becomes true -/

theorem runPass_upd_true {p : Prog} {goal : Goal} {md : Nat} :
    ∀ (fuel : Nat) (cs : Configs) (todo : List Config) (cs' : Configs) (upd' : Bool),
      runPass p goal md fuel cs todo true = .done cs' upd' → upd' = true := by
  intro fuel
  induction fuel with
  | zero =>
    intro cs todo cs' upd' h
    cases todo with
    | nil => simp only [runPass, PassRes.done.injEq] at h; exact h.2.symm
    | cons c todo => simp [runPass] at h
  | succ fuel ih =>
    intro cs todo cs' upd' h
    cases todo with
    | nil => simp only [runPass, PassRes.done.injEq] at h; exact h.2.symm
    | cons c todo =>
      simp only [runPass] at h
      cases hst : stepConfig p goal md cs todo true c with
      | retFalse => rw [hst] at h; cases h
      | panic => rw [hst] at h; cases h
      | cont cs1 todo1 upd1 =>
        rw [hst] at h
        have : upd1 = true := by
          rcases stepConfig_cont hst with ⟨_, _, _, _, hu⟩ | ⟨_, _, _, _, _, _, _, _, _, _, _, hu, _⟩
          · exact hu
          · exact hu rfl
        subst this
        exact ih cs1 todo1 cs' upd' h

/-! ### an update-free pass is a closure check with static maps -/

theorem stepConfig_static {p : Prog} {goal : Goal} {md : Nat} {cs : Configs} {todo : List Config}
    {c : Config} {cs' : Configs} {todo' : List Config}
    (hreg : PushReg p cs.lspans cs.rspans c)
    (h : stepConfig p goal md cs todo false c = .cont cs' todo' false) :
    cs' = cs ∧ todo' = todo ∧ checkConfig p goal cs.index cs.lspans cs.rspans c = none := by
  rcases stepConfig_cont h with ⟨hi, hg, rfl, rfl, _⟩ | ⟨pr, sh, nx, colors, hi, hgc, hgt, _, _, _,
    _, _, hf⟩
  · exact ⟨rfl, rfl, (checkConfig_none_of_get_none hi).2 hg⟩
  · have hp := hreg pr sh nx hi
    rw [regPush_of_hasColor hp] at hgc hf
    obtain ⟨e1, e2, e3⟩ := hf rfl
    exact ⟨e1, e2, (checkConfig_none_iff hi).2 ⟨hp, colors, hgc, hgt, e3⟩⟩

theorem runPass_static {p : Prog} {goal : Goal} {md : Nat} :
    ∀ (fuel : Nat) (cs : Configs) (todo : List Config) (cs' : Configs),
      (∀ c ∈ todo, PushReg p cs.lspans cs.rspans c) →
      runPass p goal md fuel cs todo false = .done cs' false →
      cs' = cs ∧ ∀ c ∈ todo, checkConfig p goal cs.index cs.lspans cs.rspans c = none := by
  intro fuel
  induction fuel with
  | zero =>
    intro cs todo cs' hreg h
    cases todo with
    | nil => simp only [runPass, PassRes.done.injEq] at h; exact ⟨h.1.symm, by simp⟩
    | cons c todo => simp [runPass] at h
  | succ fuel ih =>
    intro cs todo cs' hreg h
    cases todo with
    | nil => simp only [runPass, PassRes.done.injEq] at h; exact ⟨h.1.symm, by simp⟩
    | cons c todo =>
      simp only [runPass] at h
      cases hst : stepConfig p goal md cs todo false c with
      | retFalse => rw [hst] at h; cases h
      | panic => rw [hst] at h; cases h
      | cont cs1 todo1 upd1 =>
        rw [hst] at h
        cases upd1 with
        | true => have := runPass_upd_true fuel cs1 todo1 cs' false h; cases this
        | false =>
          obtain ⟨rfl, rfl, hc⟩ := stepConfig_static (hreg c (List.mem_cons_self ..)) hst
          obtain ⟨e, hall⟩ := ih cs1 todo1 cs'
            (fun c0 hc0 => hreg c0 (List.mem_cons_of_mem _ hc0)) h
          refine ⟨e, fun c0 hc0 => ?_⟩
          rcases List.mem_cons.1 hc0 with rfl | hc0
          · exact hc
          · exact hall c0 hc0

/-! ### the outer loop -/

theorem cpsLoop_yes {p : Prog} {goal : Goal} {md fuel rad : Nat}
    {order : List Config → List Config} (hord : OrderOK order) :
    ∀ (loops : Nat) (cs cs' : Configs), MidInv p rad cs [] →
      cpsLoop p goal md fuel order loops cs = .yes cs' →
      MidInv p rad cs' [] ∧
        ∀ c ∈ cs'.seen, checkConfig p goal cs'.index cs'.lspans cs'.rspans c = none := by
  intro loops
  induction loops with
  | zero => intro cs cs' _ h; simp [cpsLoop] at h
  | succ loops ih =>
    intro cs cs' hinv h
    simp only [cpsLoop] at h
    have hreg : ∀ c ∈ cs.seen, PushReg p cs.lspans cs.rspans c := fun c hc => by
      rcases hinv.reg c hc with hm | hm
      · cases hm
      · exact hm
    have hinv0 : MidInv p rad cs (order cs.seen) :=
      ⟨hinv.wf, hinv.init, hinv.initL, hinv.initR, fun c hc => Or.inr (hreg c hc)⟩
    cases hrp : runPass p goal md fuel cs (order cs.seen) false with
    | retFalse => rw [hrp] at h; cases h
    | panic => rw [hrp] at h; cases h
    | fuel => rw [hrp] at h; cases h
    | done cs1 upd1 =>
      rw [hrp] at h
      have hinv1 := runPass_inv fuel cs (order cs.seen) false cs1 upd1 hinv0 hrp
      cases upd1 with
      | true => exact ih cs1 cs' hinv1 h
      | false =>
        simp only [Bool.false_eq_true, if_false, CpsRes.yes.injEq] at h
        subst h
        obtain ⟨e, hall⟩ := runPass_static fuel cs (order cs.seen) cs1
          (fun c hc => hreg c ((hord _ _).1 hc)) hrp
        subst e
        exact ⟨hinv1, fun c hc => hall c ((hord _ _).2 hc)⟩

theorem midInv_init (p : Prog) (rad : Nat) : MidInv p rad (Configs.init rad) [] := by
  have hL : hasColor (Configs.init rad).lspans (Span.init rad) = true := by
    simp [Configs.init, Configs.insert, Config.init, Tape.init, hasColor_addSpan_self]
  have hR : hasColor (Configs.init rad).rspans (Span.init rad) = true := by
    simp [Configs.init, Configs.insert, Config.init, Tape.init, hasColor_addSpan_self]
  refine ⟨?_, by simp [Configs.init, Configs.insert], hL, hR, fun c hc => ?_⟩
  · have h0 : ∀ ls rs : Spans, Configs.WF ⟨[], {}, 0, ls, rs⟩ := by
      intro ls rs c
      simp [Configs.contains, TMap.contains, TMap.find?_empty]
    exact (h0 _ _).insert _
  · right
    have : c = Config.init rad := by simpa [Configs.init, Configs.insert] using hc
    subst this
    intro pr sh nx _
    cases sh
    · exact hR
    · exact hL

theorem checkConfig_congr {p : Prog} {goal : Goal} {idx idx' : TMap Unit} {ls rs : Spans}
    (h : ∀ c : Config, idx.contains c.key = idx'.contains c.key) (c : Config) :
    checkConfig p goal idx ls rs c = checkConfig p goal idx' ls rs c := by
  simp only [checkConfig, h]

/-- **cps_true_closed**: the final triple of a `true` run passes the closure check -/
theorem cps_true_closed' (p : Prog) (rad : Nat) (goal : Goal) (maxLoops maxDepth innerFuel : Nat)
    (order : List Config → List Config) (hord : OrderOK order) (cs : Configs)
    (h : cpsCantReach p rad goal maxLoops maxDepth innerFuel order = .yes cs) :
    closedCheck p goal rad cs.seen cs.lspans cs.rspans = none := by
  simp only [cpsCantReach] at h
  split at h
  · cases h
  · obtain ⟨hinv, hall⟩ := cpsLoop_yes hord maxLoops _ cs (midInv_init p rad) h
    rw [closedCheck_none_iff]
    refine ⟨hinv.init, hinv.initL, hinv.initR, fun c hc => ?_⟩
    rw [← hall c hc]
    apply checkConfig_congr
    intro c'
    have h1 := index_contains_iff cs.seen c'
    have h2 := hinv.wf c'
    simp only [Configs.contains] at h2
    rw [Bool.eq_iff_iff, h1, h2]

end BB.Cps
