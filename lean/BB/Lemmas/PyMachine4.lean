/-
Concrete runs of the two runner models, evaluated by the kernel (`decide +kernel`: plain
definitional unfolding, no compiler trust):
  * `runCex` = "1RB 0LA 1LA 0RA  2LB 2RB 3RB 0LA" (a 2-state 4-colour tree leaf) with cycle limit 821:
    the Python runner's `make_rule` meets a count with constant SECOND difference (SecondDiffRule:
    skipped), finds no decreasing count among the others and raises InfiniteRule at cycle 820; the
    Rust `calculate_diff` says `Unknown` for the same counts, `try_rule` returns `None` and the run
    goes on to its cycle limit.  Real code, same program, limit 1000:
      Machine.run      -> infrul cycles=820 marks=58 rulapp=515 (py_harness: sdr=1, nonadd=0)
      run_prover       -> xlimit marks=70 rulapp=781
  * `runWit` = "1RB 1LC  1RD 1RB  0RD 0RC  1LD 1LA" with cycle limit 300: a run with 5073 rule
    applications on which the no-divergence condition holds (non-vacuity of the partial theorem).
-/
import BB.Lemmas.PyMachine2

namespace BB.PyM

open BB

def runCex : Prog :=
  [((0,0),(1,true,1)), ((0,1),(0,false,0)), ((0,2),(1,false,0)), ((0,3),(0,true,0)),
   ((1,0),(2,false,1)), ((1,1),(2,true,1)), ((1,2),(3,true,1)), ((1,3),(0,false,0))]

def runWit : Prog :=
  [((0,0),(1,true,1)), ((0,1),(1,false,2)), ((1,0),(1,true,3)), ((1,1),(1,true,1)),
   ((2,0),(0,true,3)), ((2,1),(0,true,2)), ((3,0),(1,false,3)), ((3,1),(1,false,0))]

theorem runCex_parses :
    (match Prog.fromStr "1RB 0LA 1LA 0RA  2LB 2RB 3RB 0LA" with
     | .ok p => p == runCex
     | _ => false) = true := by decide +kernel

theorem runWit_parses :
    (match Prog.fromStr "1RB 1LC  1RD 1RB  0RD 0RC  1LD 1LA" with
     | .ok p => p == runWit
     | _ => false) = true := by decide +kernel

theorem runCex_py : ∃ r, pyRun runCex 821 = .ok r ∧ r.kind = .infrul ∧ r.cycles = 820 := by
  have h : (match pyRun runCex 821 with
      | .ok r => r.kind == .infrul && r.cycles == 820
      | _ => false) = true := by decide +kernel
  generalize pyRun runCex 821 = o at h
  cases o with
  | ok r =>
    simp only [Bool.and_eq_true, beq_iff_eq] at h
    exact ⟨r, rfl, h.1, h.2⟩
  | _ => simp at h

theorem runCex_rs : ∃ r', runProver runCex 821 = .ok r' ∧ r'.result = .xlimit := by
  have h : (match runProver runCex 821 with
      | .ok r => r.result == .xlimit
      | _ => false) = true := by decide +kernel
  generalize runProver runCex 821 = o at h
  cases o with
  | ok r =>
    simp only [beq_iff_eq] at h
    exact ⟨r, rfl, h⟩
  | error e => simp at h

theorem runCex_flag : pyRunAgrees runCex 821 = false := by decide +kernel

theorem runWit_ok :
    (pyRunAgrees runWit 300
      && (match pyRun runWit 300, runProver runWit 300 with
          | .ok r, .ok r' => r.kind == .spnout && r.rulapp == 5073 && r'.result == .spnout
                              && r'.rulapp == 5073 && r.marks == r'.marks
          | _, _ => false)) = true := by decide +kernel

end BB.PyM
