/-
C05 — segment analysis.  Part 15: one real step with the head outside the window, and the
simulation theorem: every configuration of the real run up to `T`, seen through any window
placement, is (at the synchronisation points) an explored configuration.
-/
import BB.Lemmas.SegSound14

namespace BB.Segment

open BB

/-- the table analysis knows the instruction that the real machine executes -/
def BranchSound (ap : AnalyzedProg) : Prop :=
  ∀ t c, RunAt ap.prog.toF t c → ∀ pr sh q', ap.prog.get (c.state, c.scan) = some (pr, sh, q') →
    ∃ diffs dirs, dictGet ap.branches c.state = some (diffs, dirs) ∧
      (q' ≠ c.state → q' ∈ diffs) ∧ q' ∈ Dirs.get dirs sh

theorem stepIn_left {t : Tape} (hwf : t.WF) (hs : t.scan = none) (hr : t.rspan = [])
    (hl : t.lspan ≠ []) :
    ∃ x l', Tape.stepIn t false = some ⟨some x, l', []⟩ ∧
      Span.unroll t.lspan = x :: Span.unroll l' ∧ Span.len t.lspan = Span.len l' + 1 := by
  obtain ⟨x, l', h1, h2, _, h4⟩ := Span.take_spec hwf.lpos hl
  refine ⟨x, l', ?_, h2, h4⟩
  simp [Tape.stepIn, Tape.side, hs, hr, Span.isEmpty, h1]

theorem stepIn_right {t : Tape} (hwf : t.WF) (hs : t.scan = none) (hl : t.lspan = [])
    (hr : t.rspan ≠ []) :
    ∃ x r', Tape.stepIn t true = some ⟨some x, [], r'⟩ ∧
      Span.unroll t.rspan = x :: Span.unroll r' ∧ Span.len t.rspan = Span.len r' + 1 := by
  obtain ⟨x, r', h1, h2, _, h4⟩ := Span.take_spec hwf.rpos hr
  refine ⟨x, r', ?_, h2, h4⟩
  have hemp : Span.isEmpty t.rspan = false := by
    cases hh : Span.isEmpty t.rspan with
    | false => rfl
    | true => exact absurd ((Span.isEmpty_iff hwf.rpos).1 hh) hr
  simp [Tape.stepIn, Tape.side, hs, hl, hemp, h1]

/-- one real step with the head outside the window -/
theorem view_step_edge {ap : AnalyzedProg} {seg : Nat} {E : Core → Prop} (hseg : 4 ≤ seg)
    (hcl : Closed ap seg E) (hbs : BranchSound ap) {X : Core} (hE : E X) (hs : X.2.scan = none)
    {c : Cfg} {w : Int} {t T : Nat} (hv : View c w X) (hr : RunAt ap.prog.toF t c) (htT : t < T)
    {cT : Cfg} (hrT : RunAt ap.prog.toF T cT) :
    ∃ Y c', E Y ∧ RunAt ap.prog.toF (t + 1) c' ∧
      View c' (w + hd ap.prog.toF (t + 1) - hd ap.prog.toF t) Y := by
  have hg := hcl.eGood X hE
  obtain ⟨d1, hd1, hr1⟩ := hr.step_of_later hrT htT
  obtain ⟨hst, hv2⟩ := hv
  rw [hs] at hv2
  simp only at hv2
  -- the instruction
  cases hget : ap.prog.get (c.state, c.scan) with
  | none =>
    exfalso
    unfold step1 at hd1
    have : ap.prog.toF c.state c.scan = none := hget
    rw [this] at hd1; cases hd1
  | some instr =>
    obtain ⟨pr, sh, q'⟩ := instr
    have hp : ap.prog.toF c.state c.scan = some (pr, sh, q') := hget
    have hd1' : d1 = c.move pr sh q' := by
      rw [step1_eq_of hp] at hd1
      exact (Option.some.inj hd1).symm
    have hdir : hd ap.prog.toF (t + 1) = hd ap.prog.toF t + dirI sh := by
      rw [hd_succ_of hr, dirOf_eq hp]
    obtain ⟨diffs, dirs, hbr, hdf, hdr⟩ := hbs t c hr pr sh q' hget
    rw [hst] at hbr hdf
    -- staying outside with a (possibly) new state
    have hstay : ∀ w', View d1 w' (q', X.2) → ∃ Y, E Y ∧ View d1 w' Y := by
      intro w' hv'
      by_cases hq : q' = X.1
      · have : (q', X.2) = X := by rw [hq]
        rw [this] at hv'
        exact ⟨X, hE, hv'⟩
      · exact close_succ (Z := (q', X.2)) hseg hcl hE hs
          ⟨diffs, dirs, hbr, Or.inl ⟨hdf hq, rfl⟩⟩ hg hv'
    have hmv : d1.state = q' := by rw [hd1']; exact Cfg.move_state _ _ _ _
    rw [hdir]
    rcases hv2 with ⟨hrs, mid, oL, h4, h5⟩ | ⟨hls, mid, oR, h4, h5⟩
    · -- the head is on the right of the window
      obtain ⟨e1, e2, _, e4⟩ := good_edge_right hseg hg hs hrs
      cases sh with
      | true =>
        -- one more cell away
        obtain ⟨Y, hY, hvY⟩ := hstay (w + 1) ⟨hmv, by
          rw [hs]
          simp only
          refine Or.inl ⟨hrs, pr :: mid, oL, ?_, by simp; omega⟩
          rw [hd1']
          simp only [Cfg.move, if_true, List.cons_append]
          exact h4.cons pr⟩
        refine ⟨Y, d1, hY, hr1, ?_⟩
        have : w + (hd ap.prog.toF t + dirI true) - hd ap.prog.toF t = w + 1 := by
          simp [dirI]; omega
        rw [this]; exact hvY
      | false =>
        have hw' : w + (hd ap.prog.toF t + dirI false) - hd ap.prog.toF t = w - 1 := by
          simp [dirI]; omega
        rw [hw']
        cases mid with
        | cons x mid' =>
          obtain ⟨Y, hY, hvY⟩ := hstay (w - 1) ⟨hmv, by
            rw [hs]
            simp only
            refine Or.inl ⟨hrs, mid', oL, ?_, by simp at h5 ⊢; omega⟩
            rw [hd1']
            simp only [Cfg.move, Bool.false_eq_true, if_false]
            have := h4.tail
            simpa using this⟩
          exact ⟨Y, d1, hY, hr1, hvY⟩
        | nil =>
          -- stepping into the window
          obtain ⟨x, l', hsi, hu, hlen⟩ := stepIn_left hg.1 hs hrs e2
          have hgZ := (Tape.stepIn_good hg hsi).1
          have hes : EdgeSucc ap X (q', ⟨some x, l', []⟩) :=
            ⟨diffs, dirs, hbr, Or.inr ⟨true, e4, hdr, hsi⟩⟩
          have hvZ : View d1 (w - 1) (q', ⟨some x, l', []⟩) := ⟨hmv, by
            simp only
            refine ⟨⟨oL, pr :: c.right, ?_⟩, by simp at h5; omega⟩
            rw [hd1']
            simp only [Cfg.move, Bool.false_eq_true, if_false, Tape.toCfgX, Span.unroll_nil,
              List.nil_append]
            simp only [List.nil_append, hu, List.cons_append] at h4
            refine ⟨rfl, ?_, ?_, SameCells.refl _⟩
            · have := h4.headD; simpa using this
            · have := h4.tail; simpa using this⟩
          obtain ⟨Y, hY, hvY⟩ := close_succ hseg hcl hE hs hes hgZ hvZ
          exact ⟨Y, d1, hY, hr1, hvY⟩
    · -- the head is on the left of the window
      obtain ⟨e1, e2, _, e4⟩ := good_edge_left hseg hg hs hls
      cases sh with
      | false =>
        -- one more cell away
        obtain ⟨Y, hY, hvY⟩ := hstay (w - 1) ⟨hmv, by
          rw [hs]
          simp only
          refine Or.inr ⟨hls, pr :: mid, oR, ?_, by simp; omega⟩
          rw [hd1']
          simp only [Cfg.move, Bool.false_eq_true, if_false, List.cons_append]
          exact h4.cons pr⟩
        refine ⟨Y, d1, hY, hr1, ?_⟩
        have : w + (hd ap.prog.toF t + dirI false) - hd ap.prog.toF t = w - 1 := by
          simp [dirI]; omega
        rw [this]; exact hvY
      | true =>
        have hw' : w + (hd ap.prog.toF t + dirI true) - hd ap.prog.toF t = w + 1 := by
          simp [dirI]; omega
        rw [hw']
        cases mid with
        | cons x mid' =>
          obtain ⟨Y, hY, hvY⟩ := hstay (w + 1) ⟨hmv, by
            rw [hs]
            simp only
            refine Or.inr ⟨hls, mid', oR, ?_, by simp at h5 ⊢; omega⟩
            rw [hd1']
            simp only [Cfg.move, if_true]
            have := h4.tail
            simpa using this⟩
          exact ⟨Y, d1, hY, hr1, hvY⟩
        | nil =>
          -- stepping into the window
          obtain ⟨x, r', hsi, hu, hlen⟩ := stepIn_right hg.1 hs hls e2
          have hgZ := (Tape.stepIn_good hg hsi).1
          have hes : EdgeSucc ap X (q', ⟨some x, [], r'⟩) :=
            ⟨diffs, dirs, hbr, Or.inr ⟨false, e4, hdr, hsi⟩⟩
          have hvZ : View d1 (w + 1) (q', ⟨some x, [], r'⟩) := ⟨hmv, by
            simp only
            refine ⟨⟨pr :: c.left, oR, ?_⟩, by simp at h5 ⊢; omega⟩
            rw [hd1']
            simp only [Cfg.move, if_true, Tape.toCfgX, Span.unroll_nil, List.nil_append]
            simp only [List.nil_append, hu, List.cons_append] at h4
            refine ⟨rfl, ?_, SameCells.refl _, ?_⟩
            · have := h4.headD; simpa using this
            · have := h4.tail; simpa using this⟩
          obtain ⟨Y, hY, hvY⟩ := close_succ hseg hcl hE hs hes hgZ hvZ
          exact ⟨Y, d1, hY, hr1, hvY⟩

/-! ### the simulation theorem -/

/-- **Simulation.**  For every window placement (`o` = window coordinate of the head at time `T`)
    the configuration at time `T` is the view of an explored configuration. -/
theorem sim_main {ap : AnalyzedProg} {seg : Nat} {E : Core → Prop} (hseg : 4 ≤ seg)
    (hcl : Closed ap seg E) (hbs : BranchSound ap) {T : Nat} {cT : Cfg}
    (hrT : RunAt ap.prog.toF T cT) (hns : ∀ T', T' + 1 = T → NoSweepInto ap.prog.toF T')
    (o : Int) : ∃ X, E X ∧ View cT o X := by
  -- the window coordinate of the head at time `t`
  have key : ∀ n t, T - t = n → t ≤ T → ∀ c X, RunAt ap.prog.toF t c → E X →
      View c (o - hd ap.prog.toF T + hd ap.prog.toF t) X → ∃ X, E X ∧ View cT o X := by
    intro n
    induction n using Nat.strongRecOn with
    | _ n ih =>
      intro t hn htT c X hr hE hv
      by_cases hlt : t < T
      · cases hs : X.2.scan with
        | some s =>
          obtain ⟨Y, k, c', hcs, hk, hle, hr', hv'⟩ :=
            view_step_in hseg (hcl.eGood X hE) hs hv hr hlt hrT hns
          refine ih (T - (t + k)) (by omega) (t + k) rfl hle c' Y hr' (hcl.eStep X Y hE hcs) ?_
          have : o - hd ap.prog.toF T + hd ap.prog.toF t + hd ap.prog.toF (t + k) -
              hd ap.prog.toF t = o - hd ap.prog.toF T + hd ap.prog.toF (t + k) := by omega
          rw [← this]; exact hv'
        | none =>
          obtain ⟨Y, c', hY, hr', hv'⟩ := view_step_edge hseg hcl hbs hE hs hv hr hlt hrT
          refine ih (T - (t + 1)) (by omega) (t + 1) rfl (by omega) c' Y hr' hY ?_
          have : o - hd ap.prog.toF T + hd ap.prog.toF t + hd ap.prog.toF (t + 1) -
              hd ap.prog.toF t = o - hd ap.prog.toF T + hd ap.prog.toF (t + 1) := by omega
          rw [← this]; exact hv'
      · have : t = T := by omega
        subst this
        have hc : c = cT := hr.unique hrT
        subst hc
        have : o - hd ap.prog.toF t + hd ap.prog.toF t = o := by omega
        rw [this] at hv
        exact ⟨X, hE, hv⟩
  obtain ⟨X, hE, hv⟩ := view_init hseg hcl (o - hd ap.prog.toF T)
  refine key T 0 rfl (Nat.zero_le _) Cfg.init X rfl hE ?_
  have : hd ap.prog.toF 0 = 0 := rfl
  rw [this]; simpa using hv

end BB.Segment
