/-
C14 support, part 3: the bounded stack search of `is_connected` — it never panics on a closed table,
its fuel never runs out, and its answer is reachability of state 0.
-/
import BB.Lemmas.GraphConn2

namespace BB.Graph

open BB

theorem mem_pushExits (r exits todo : List Nat) (x : Nat) :
    x ∈ pushExits r exits todo ↔ x ∈ todo ∨ (x ∈ exits ∧ x ∉ r) := by
  induction exits generalizing todo with
  | nil => simp [pushExits]
  | cons e rest ih =>
    simp only [pushExits]
    split
    · rename_i hc
      simp only [Bool.and_eq_true, Bool.not_eq_true', List.contains_eq_mem,
        decide_eq_false_iff_not] at hc
      rw [ih]
      simp only [List.mem_cons]
      constructor
      · rintro ((h | h) | h)
        · subst h; exact Or.inr ⟨Or.inl rfl, hc.1⟩
        · exact Or.inl h
        · exact Or.inr ⟨Or.inr h.1, h.2⟩
      · rintro (h | ⟨h | h, h2⟩)
        · exact Or.inl (Or.inr h)
        · exact Or.inl (Or.inl h)
        · exact Or.inr ⟨h, h2⟩
    · rename_i hc
      simp only [Bool.and_eq_true, Bool.not_eq_true', List.contains_eq_mem,
        decide_eq_false_iff_not, not_and, Classical.not_not] at hc
      rw [ih]
      simp only [List.mem_cons]
      constructor
      · rintro (h | h)
        · exact Or.inl h
        · exact Or.inr ⟨Or.inr h.1, h.2⟩
      · rintro (h | ⟨h | h, h2⟩)
        · exact Or.inl h
        · subst h; exact Or.inl (hc h2)
        · exact Or.inr ⟨h, h2⟩

theorem nodup_pushExits (r exits todo : List Nat) (h : todo.Nodup) :
    (pushExits r exits todo).Nodup := by
  induction exits generalizing todo with
  | nil => exact h
  | cons e rest ih =>
    simp only [pushExits]
    split
    · rename_i hc
      simp only [Bool.and_eq_true, Bool.not_eq_true', List.contains_eq_mem,
        decide_eq_false_iff_not] at hc
      exact ih _ (List.nodup_cons.mpr ⟨hc.2, h⟩)
    · exact ih _ h

/-- `true` is only answered when state 0 is reachable from a stacked state -/
theorem search_sound (ex : Exitpoints) (fuel : Nat) (todo reached : List Nat)
    (h : search ex fuel todo reached = .ok true) : ∃ s ∈ todo, Reach (ExE ex) s 0 := by
  induction fuel generalizing todo reached with
  | zero => simp [search] at h
  | succ fuel ih =>
    cases todo with
    | nil => simp [search] at h
    | cons state todo =>
      simp only [search] at h
      split at h
      · rename_i h0
        have : state = 0 := by simpa using h0
        subst this
        exact ⟨0, List.mem_cons_self .., .refl 0⟩
      · split at h
        · obtain ⟨s, hs, hr⟩ := ih _ _ h
          exact ⟨s, List.mem_cons_of_mem _ hs, hr⟩
        · split at h
          · cases h
          · rename_i exits hget
            obtain ⟨s, hs, hr⟩ := ih _ _ h
            rcases (mem_pushExits _ _ _ _).mp hs with hs | ⟨hs, _⟩
            · exact ⟨s, List.mem_cons_of_mem _ hs, hr⟩
            · exact ⟨state, List.mem_cons_self .., .head ⟨exits, hget, hs⟩ hr⟩

/-- The invariant of the loop.  `n` = number of states. -/
structure SearchInv (ex : Exitpoints) (n fuel : Nat) (todo reached : List Nat) : Prop where
  todoNodup : todo.Nodup
  reachedNodup : reached.Nodup
  disjoint : ∀ x ∈ todo, x ∉ reached
  todoLt : ∀ x ∈ todo, x < n
  reachedRange : ∀ x ∈ reached, 0 < x ∧ x < n
  fuelOk : n ≤ fuel + reached.length
  closed : ∀ u ∈ reached, ∀ x, ExE ex u x → x ∈ reached ∨ x ∈ todo

/-- On a table that has a key for every state `< n` and only exits `< n`, the search under its
    invariant never panics, never runs out of fuel with work left, and answers `false` only when no
    stacked or marked state reaches 0. -/
theorem search_spec (ex : Exitpoints) (n : Nat) (hn : 0 < n)
    (hkeys : ∀ q, q < n → (ex.get q).isSome = true)
    (hlt : ∀ q x, ExE ex q x → x < n)
    (fuel : Nat) (todo reached : List Nat) (inv : SearchInv ex n fuel todo reached) :
    ∃ b, search ex fuel todo reached = .ok b ∧
      (b = false → ∀ s, (s ∈ todo ∨ s ∈ reached) → ¬ Reach (ExE ex) s 0) := by
  induction fuel generalizing todo reached with
  | zero =>
    have := length_lt_of_nodup_pos reached n hn inv.reachedNodup inv.reachedRange
    have := inv.fuelOk
    omega
  | succ fuel ih =>
    cases todo with
    | nil =>
      refine ⟨false, by simp [search], ?_⟩
      intro _ s hs hr
      rcases hs with hs | hs
      · simp at hs
      · have h0 : 0 ∈ reached := by
          refine Reach.closed (fun x => x ∈ reached) ?_ hr hs
          intro a b ha hab
          rcases inv.closed a ha b hab with h | h
          · exact h
          · simp at h
        have := (inv.reachedRange 0 h0).1
        omega
    | cons state todo =>
      have htn := List.nodup_cons.mp inv.todoNodup
      by_cases h0 : state = 0
      · subst h0
        exact ⟨true, by simp [search], by simp⟩
      · have hnr : state ∉ reached := inv.disjoint state (List.mem_cons_self ..)
        have hsn : state < n := inv.todoLt state (List.mem_cons_self ..)
        obtain ⟨exits, hget⟩ := Option.isSome_iff_exists.mp (hkeys state hsn)
        have hcont : reached.contains state = false := by
          simpa [List.contains_eq_mem] using hnr
        have hs0 : (state == 0) = false := by simpa using h0
        have heq : search ex (fuel + 1) (state :: todo) reached =
            search ex fuel (pushExits (insertSorted state reached) exits todo)
              (insertSorted state reached) := by
          simp only [search, hs0, hcont, hget, Bool.false_eq_true, if_false]
        have inv' : SearchInv ex n fuel (pushExits (insertSorted state reached) exits todo)
            (insertSorted state reached) := by
          refine ⟨nodup_pushExits _ _ _ htn.2, nodup_insertSorted _ _ hnr inv.reachedNodup,
            ?_, ?_, ?_, ?_, ?_⟩
          · intro x hx
            rw [mem_insertSorted]
            rcases (mem_pushExits _ _ _ _).mp hx with hx1 | ⟨_, hx2⟩
            · rintro (h | h)
              · rw [h] at hx1; exact htn.1 hx1
              · exact inv.disjoint x (List.mem_cons_of_mem _ hx1) h
            · rwa [mem_insertSorted] at hx2
          · intro x hx
            rcases (mem_pushExits _ _ _ _).mp hx with hx | ⟨hx, _⟩
            · exact inv.todoLt x (List.mem_cons_of_mem _ hx)
            · exact hlt state x ⟨exits, hget, hx⟩
          · intro x hx
            rcases (mem_insertSorted _ _ _).mp hx with rfl | hx
            · exact ⟨Nat.pos_of_ne_zero h0, hsn⟩
            · exact inv.reachedRange x hx
          · have := inv.fuelOk
            rw [length_insertSorted]
            omega
          · intro u hu x hux
            rw [mem_insertSorted, mem_pushExits, mem_insertSorted]
            rcases (mem_insertSorted _ _ _).mp hu with rfl | hu
            · obtain ⟨v, hv, hxv⟩ := hux
              rw [hget] at hv
              cases hv
              by_cases hx : x = u ∨ x ∈ reached
              · exact Or.inl hx
              · exact Or.inr (Or.inr ⟨hxv, hx⟩)
            · rcases inv.closed u hu x hux with h | h
              · exact Or.inl (Or.inr h)
              · rcases List.mem_cons.mp h with h | h
                · exact Or.inl (Or.inl h)
                · exact Or.inr (Or.inl h)
        obtain ⟨b, hb, hfalse⟩ := ih _ _ inv'
        refine ⟨b, by rw [heq]; exact hb, ?_⟩
        intro hbf s hs
        apply hfalse hbf s
        rcases hs with hs | hs
        · rcases List.mem_cons.mp hs with rfl | hs
          · exact Or.inr ((mem_insertSorted _ _ _).mpr (Or.inl rfl))
          · exact Or.inl ((mem_pushExits _ _ _ _).mpr (Or.inl hs))
        · exact Or.inr ((mem_insertSorted _ _ _).mpr (Or.inr hs))

end BB.Graph
