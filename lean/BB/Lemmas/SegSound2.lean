/-
C05 — segment analysis.  Part 2: the deterministic evolution of a segment configuration while the
head stays inside the window (`cstep`), its simulation by the L0 machine when the configuration is
exact, and the two arguments that give `NeverHalts` (an exact configuration that recurs inside
the window; a return to the blank initial configuration).
-/
import BB.Lemmas.SegSound1

namespace BB.Segment

open BB

/-! ### L0: running forever -/

theorem neverHalts_of_unbounded {p : ProgF}
    (h : ∀ j : Nat, ∃ n c, j ≤ n ∧ RunAt p n c) : NeverHalts p := by
  intro t
  obtain ⟨n, c, hn, hr⟩ := h t
  exact stepN_le hr hn

/-- a return to (a configuration equivalent to) the initial one after `N ≥ 1` steps -/
theorem neverHalts_of_return {p : ProgF} {N : Nat} {c : Cfg} (hN : 0 < N) (hr : RunAt p N c)
    (he : c ≈c Cfg.init) : NeverHalts p := by
  have key : ∀ j : Nat, ∃ c', RunAt p (j * N) c' ∧ c' ≈c Cfg.init := by
    intro j
    induction j with
    | zero => exact ⟨Cfg.init, by simp [RunAt, stepN_zero], Cfg.Equiv.refl _⟩
    | succ j ih =>
      obtain ⟨c', hr', he'⟩ := ih
      obtain ⟨c'', hs, he''⟩ := stepN_congr he'.symm hr
      refine ⟨c'', ?_, he''.symm.trans he |>.symm |>.symm⟩
      have : (j + 1) * N = j * N + N := by rw [Nat.succ_mul]
      rw [this]
      exact stepN_add_of_eq hr' hs
  apply neverHalts_of_unbounded
  intro j
  obtain ⟨c', hr', _⟩ := key j
  exact ⟨j * N, c', Nat.le_mul_of_pos_right j hN, hr'⟩

/-! ### the evolution inside the window -/

/-- state and tape of a configuration (everything except the `init` flag) -/
abbrev Core := Nat × Tape

def Config.core (c : Config) : Core := (c.state, c.tape)

/-- one iteration of `run_to_edge` on state and tape: look up the instruction, `Tape.step` -/
def cstep (prog : Prog) (x : Core) : Option Core :=
  match x.2.scan with
  | none => none
  | some s =>
    match prog.get (x.1, s) with
    | none => none
    | some instr =>
      match Tape.step x.2 instr.2.1 instr.1 (instr.2.2 == x.1) with
      | none => none
      | some t => some (instr.2.2, t)

def citer (prog : Prog) : Nat → Core → Option Core
  | 0, x => some x
  | n + 1, x => (cstep prog x).bind (citer prog n)

theorem citer_add (prog : Prog) (a b : Nat) (x : Core) :
    citer prog (a + b) x = (citer prog a x).bind (citer prog b) := by
  induction a generalizing x with
  | zero => simp [citer]
  | succ a ih =>
    have : a + 1 + b = (a + b) + 1 := by omega
    rw [this]
    simp only [citer]
    cases cstep prog x with
    | none => rfl
    | some y => simpa using ih y

theorem citer_succ_last (prog : Prog) (n : Nat) (x : Core) :
    citer prog (n + 1) x = (citer prog n x).bind (cstep prog) := by
  rw [citer_add]
  cases citer prog n x with
  | none => rfl
  | some y =>
    simp only [Option.bind_some, citer]
    cases cstep prog y <;> rfl

theorem citer_le {prog : Prog} {n a : Nat} {x y : Core} (h : citer prog n x = some y)
    (ha : a ≤ n) : ∃ z, citer prog a x = some z := by
  obtain ⟨b, rfl⟩ : ∃ b, n = a + b := ⟨n - a, by omega⟩
  rw [citer_add] at h
  cases h1 : citer prog a x with
  | none => rw [h1] at h; cases h
  | some z => exact ⟨z, rfl⟩

/-- a configuration that comes back to itself runs inside the window forever -/
theorem citer_cycle {prog : Prog} {i : Nat} {x : Core} (hi : 0 < i)
    (h : citer prog i x = some x) : ∀ j, ∃ y, citer prog j x = some y := by
  intro j
  induction j using Nat.strongRecOn with
  | _ j ih =>
    by_cases hj : j ≤ i
    · exact citer_le h hj
    · obtain ⟨y, hy⟩ := ih (j - i) (by omega)
      have : j = i + (j - i) := by omega
      rw [this, citer_add, h]
      exact ⟨y, hy⟩

/-- `Config.step` on state and tape -/
theorem Config.step_core {c c' : Config} {instr : Instr} (h : Config.step c instr = some c') :
    Tape.step c.tape instr.2.1 instr.1 (instr.2.2 == c.state) = some c'.tape ∧
      c'.state = instr.2.2 ∧ c'.init = c.init := by
  unfold Config.step at h
  cases ht : Tape.step c.tape instr.2.1 instr.1 (instr.2.2 == c.state) with
  | none => rw [ht] at h; cases h
  | some t =>
    rw [ht] at h
    simp only [Option.some.injEq] at h
    subst h
    exact ⟨rfl, rfl, rfl⟩

theorem cstep_of_step {prog : Prog} {c c' : Config} {s : Nat} {instr : Instr}
    (hs : c.tape.scan = some s) (hg : prog.get (c.state, s) = some instr)
    (h : Config.step c instr = some c') : cstep prog c.core = some c'.core := by
  obtain ⟨h1, h2, _⟩ := Config.step_core h
  simp only [cstep, Config.core, hs, hg, h1, h2]

/-! ### simulation by the L0 machine -/

/-- one `cstep` from a configuration that is exact: the L0 machine makes `k ≥ 1` steps -/
theorem cstep_exact {prog : Prog} {x y : Core} (hwf : x.2.WF) (h : cstep prog x = some y)
    {c : Cfg} (hc : c ≈c (⟨x.1, x.2, false⟩ : Config).toCfg) :
    y.2.WF ∧ ∃ k c', 0 < k ∧ stepN prog.toF k c = some c' ∧
      c' ≈c (⟨y.1, y.2, false⟩ : Config).toCfg := by
  unfold cstep at h
  cases hs : x.2.scan with
  | none => rw [hs] at h; cases h
  | some s =>
    rw [hs] at h
    simp only at h
    cases hg : prog.get (x.1, s) with
    | none => rw [hg] at h; cases h
    | some instr =>
      rw [hg] at h
      simp only at h
      obtain ⟨pr, d, q'⟩ := instr
      obtain ⟨t', k, h1, h2, h3, _, h5, _, _⟩ :=
        Tape.step_spec prog.toF x.2 x.1 pr q' s d [] [] hwf hs hg
      simp only at h
      rw [h1] at h
      simp only [Option.some.injEq] at h
      subst h
      refine ⟨h2, ?_⟩
      rw [Tape.toCfgX_nil hwf] at h5
      obtain ⟨c', hc', he⟩ := stepN_congr hc.symm h5
      refine ⟨k, c', h3, hc', ?_⟩
      rw [Tape.toCfgX_nil h2] at he
      exact he.symm

theorem citer_exact {prog : Prog} {j : Nat} {x y : Core} (hwf : x.2.WF)
    (h : citer prog j x = some y) {c : Cfg} (hc : c ≈c (⟨x.1, x.2, false⟩ : Config).toCfg) :
    ∃ k c', j ≤ k ∧ stepN prog.toF k c = some c' := by
  induction j generalizing x c with
  | zero => exact ⟨0, c, Nat.le_refl _, rfl⟩
  | succ j ih =>
    simp only [citer] at h
    cases h1 : cstep prog x with
    | none => rw [h1] at h; cases h
    | some z =>
      rw [h1] at h
      obtain ⟨hz, k, c', hk, hs, he⟩ := cstep_exact hwf h1 hc
      obtain ⟨k', c'', hk', hs'⟩ := ih hz h he
      exact ⟨k + k', c'', by omega, stepN_add_of_eq hs hs'⟩

/-- an exact configuration that recurs inside the window: the machine never halts -/
theorem neverHalts_of_cycle {prog : Prog} {i n : Nat} {x : Core} {c : Cfg} (hwf : x.2.WF)
    (hi : 0 < i) (h : citer prog i x = some x) (hr : RunAt prog.toF n c)
    (hc : c ≈c (⟨x.1, x.2, false⟩ : Config).toCfg) : NeverHalts prog.toF := by
  apply neverHalts_of_unbounded
  intro j
  obtain ⟨y, hy⟩ := citer_cycle hi h j
  obtain ⟨k, c', hk, hs⟩ := citer_exact hwf hy hc
  exact ⟨n + k, c', by omega, stepN_add_of_eq hr hs⟩

end BB.Segment
