/-
C10 support, part 5: the harvest of `branch` is exactly the set of results of the process with
the code's availability counters (`ProcFrom`), filtered by `UsesLast`.
-/
import BB.Lemmas.TreeGenNodup

namespace BB.Tree

open BB

theorem ProcFrom.of_not_undefined {params : Nat × Nat} {lim : Nat} {n : Node} {r : Nat} {p : Prog}
    (hno : ∀ slot t', runForUndefined n.prog n.state n.tape lim ≠ (.undefined slot, t')) :
    ProcFrom params lim n r p ↔ p = n.prog := by
  constructor
  · intro h
    cases h with
    | stop _ => rfl
    | last hrun _ => exact absurd hrun (hno _ _)
    | fill hrun _ _ => exact absurd hrun (hno _ _)
  · rintro rfl
    exact .stop hno

theorem mem_branchL_iff {S C lim : Nat} {n : Node} {r : Nat} {p : Prog} :
    p ∈ branchL (S, C) lim n r ↔ ProcFrom (S, C) lim n r p ∧ UsesLast S C p := by
  induction r generalizing n with
  | zero =>
    unfold branchL
    rcases hrun : runForUndefined n.prog n.state n.tape lim with ⟨res, t'⟩
    cases res with
    | undefined slot =>
      simp only [List.not_mem_nil, false_iff, not_and]
      intro h
      cases h with
      | stop hno => exact absurd hrun (hno _ _)
    | limit =>
      rw [mem_leaf, ProcFrom.of_not_undefined (by simp [hrun])]
      exact ⟨fun h => ⟨h.1, h.1 ▸ h.2⟩, fun h => ⟨h.1, h.1 ▸ h.2⟩⟩
    | blank =>
      rw [mem_leaf, ProcFrom.of_not_undefined (by simp [hrun])]
      exact ⟨fun h => ⟨h.1, h.1 ▸ h.2⟩, fun h => ⟨h.1, h.1 ▸ h.2⟩⟩
    | spinout =>
      rw [mem_leaf, ProcFrom.of_not_undefined (by simp [hrun])]
      exact ⟨fun h => ⟨h.1, h.1 ▸ h.2⟩, fun h => ⟨h.1, h.1 ▸ h.2⟩⟩
  | succ r ih =>
    rw [branchL]
    rcases hrun : runForUndefined n.prog n.state n.tape lim with ⟨res, t'⟩
    cases res with
    | undefined slot =>
      simp only [List.mem_flatMap]
      constructor
      · rintro ⟨i, hi, hp⟩
        have hoff : n.Offers (S, C) slot i := mem_makeInstrs.mp hi
        split at hp
        · rename_i hr
          subst hr
          obtain ⟨rfl, hu⟩ := mem_leaf.mp hp
          exact ⟨.last hrun hoff, hu⟩
        · rename_i hr
          obtain ⟨k, rfl⟩ : ∃ k, r = k + 1 := ⟨r - 1, by omega⟩
          obtain ⟨hproc, hu⟩ := ih.mp hp
          exact ⟨.fill hrun hoff hproc, hu⟩
      · rintro ⟨hproc, hu⟩
        cases hproc with
        | stop hno => exact absurd hrun (hno _ _)
        | @last _ slot' t'' i hrun' hoff =>
          rw [hrun] at hrun'
          simp only [Prod.mk.injEq, RunResult.undefined.injEq] at hrun'
          obtain ⟨rfl, rfl⟩ := hrun'
          exact ⟨i, mem_makeInstrs.mpr hoff, by simp [mem_leaf, hu]⟩
        | @fill _ k slot' t'' i _ hrun' hoff hrest =>
          rw [hrun] at hrun'
          simp only [Prod.mk.injEq, RunResult.undefined.injEq] at hrun'
          obtain ⟨rfl, rfl⟩ := hrun'
          refine ⟨i, mem_makeInstrs.mpr hoff, ?_⟩
          rw [if_neg (by omega)]
          exact ih.mpr ⟨hrest, hu⟩
    | limit =>
      rw [mem_leaf, ProcFrom.of_not_undefined (by simp [hrun])]
      exact ⟨fun h => ⟨h.1, h.1 ▸ h.2⟩, fun h => ⟨h.1, h.1 ▸ h.2⟩⟩
    | blank =>
      rw [mem_leaf, ProcFrom.of_not_undefined (by simp [hrun])]
      exact ⟨fun h => ⟨h.1, h.1 ▸ h.2⟩, fun h => ⟨h.1, h.1 ▸ h.2⟩⟩
    | spinout =>
      rw [mem_leaf, ProcFrom.of_not_undefined (by simp [hrun])]
      exact ⟨fun h => ⟨h.1, h.1 ▸ h.2⟩, fun h => ⟨h.1, h.1 ▸ h.2⟩⟩

/-- **the counter form of the main theorem** -/
theorem tree_proc' (S C : Nat) (halt : Bool) (lim : Nat) (l : List Prog)
    (h : buildTreeSeq S C halt lim = .ok l) (p : Prog) :
    p ∈ l ↔ ProcEmits S C halt lim p := by
  rw [buildTreeSeq_ok h, List.mem_flatMap]
  unfold ProcEmits roots
  constructor
  · rintro ⟨i, hi, hp⟩
    obtain ⟨h1, h2⟩ := mem_branchL_iff.mp hp
    exact ⟨⟨i, mem_makeInstrs.mp hi, h1⟩, h2⟩
  · rintro ⟨⟨i, hi, h1⟩, h2⟩
    exact ⟨i, mem_makeInstrs.mpr hi, mem_branchL_iff.mpr ⟨h1, h2⟩⟩

end BB.Tree
