/-
C10 support, part 1: the definitions used by the statements of `BB/Props/C10.lean`
(interleavings of the parallel harvest, the declarative generation process `SpecEmits`, the
counter form of the process `ProcFrom`, the error-free list form `branchL` of `branch`).
-/
import BB.Model.Tree

namespace BB.Tree

open BB

/-! ### Interleavings: what a parallel harvest can produce -/

/-- `Interleaving ls out`: `out` is a merge of the lists `ls` that keeps each list's own order.
    It is built by repeatedly taking the head of one of the lists (any one: the choice is the
    schedule) until all lists are empty. -/
inductive Interleaving {α : Type} : List (List α) → List α → Prop
  | nil (ls : List (List α)) : (∀ l ∈ ls, l = []) → Interleaving ls []
  | pick (pre : List (List α)) (x : α) (l : List α) (post : List (List α)) (out : List α) :
      Interleaving (pre ++ l :: post) out → Interleaving (pre ++ (x :: l) :: post) (x :: out)

/-! ### The declarative generation process -/

/-- the table every generated program starts from: `A0 ↦ 1RB`. -/
def prog0 : Prog := [((0, 0), (1, true, 1))]

/-- largest state mentioned anywhere in the table (as a key or as an instruction's next state). -/
def maxState (p : Prog) : Nat := p.foldr (fun kv m => max (max kv.1.1 kv.2.2.2) m) 0

/-- largest colour mentioned anywhere in the table (as a key or as an instruction's print). -/
def maxColor (p : Prog) : Nat := p.foldr (fun kv m => max (max kv.1.2 kv.2.1) m) 0

/-- The instructions that may be put into the next undefined slot of the table `p` on an
    `S × C` table: the next state is a state of the table and is at most one more than the
    largest state mentioned so far (an already used state or the lowest unused one), and likewise
    for the printed colour.  Both shifts are allowed. -/
def Avail (S C : Nat) (p : Prog) (i : Instr) : Prop :=
  (i.2.2 < S ∧ i.2.2 ≤ maxState p + 1) ∧ (i.1 < C ∧ i.1 ≤ maxColor p + 1)

/-- `SpecFrom S C lim p q t k r`: the generation process, started with the table `p`, the machine
    in state `q` on the (run-length) tape `t`, and `k` slots still to be filled, can end with the
    table `r`.

    * `stop`: the run from `(q, t)` under `p` for at most `lim` cycles (`runForUndefined`: a
      cycle is one instruction, a same-state instruction sweeping a whole block) does not reach
      an undefined slot (limit, blank tape or spin-out): `p` itself is the result.
    * `last`: an undefined slot is reached and exactly one slot may still be filled: any
      available instruction is put there and the result is not run again.
    * `fill`: an undefined slot is reached and at least two slots may still be filled: any
      available instruction is put there and the process continues *from the configuration at
      that slot* (state `slot.1`, the tape as it was when the slot was reached), with the full
      limit again.

    With `k = 0` and an undefined slot reached there is no result (the real code underflows). -/
inductive SpecFrom (S C lim : Nat) : Prog → Nat → Tape → Nat → Prog → Prop
  | stop {p : Prog} {q : Nat} {t : Tape} {k : Nat} :
      (∀ slot t', runForUndefined p q t lim ≠ (.undefined slot, t')) → SpecFrom S C lim p q t k p
  | last {p : Prog} {q : Nat} {t : Tape} {slot : Slot} {t' : Tape} {i : Instr} :
      runForUndefined p q t lim = (.undefined slot, t') → Avail S C p i →
      SpecFrom S C lim p q t 1 (p.insert slot i)
  | fill {p : Prog} {q : Nat} {t : Tape} {k : Nat} {slot : Slot} {t' : Tape} {i : Instr}
      {r : Prog} :
      runForUndefined p q t lim = (.undefined slot, t') → Avail S C p i →
      SpecFrom S C lim (p.insert slot i) slot.1 t' (k + 1) r →
      SpecFrom S C lim p q t (k + 2) r

/-- the table mentions the last state and the last colour in its instructions: some instruction
    goes to a state `≥ S - 1` and some instruction prints a colour `≥ C - 1`.  (For `S, C ≥ 2`
    all emitted instructions are inside the table, `tree_inTable`, so this means `= S - 1` and
    `= C - 1`.) -/
def UsesLast (S C : Nat) (p : Prog) : Prop :=
  (∃ kv ∈ p, S ≤ kv.2.2.2 + 1) ∧ (∃ kv ∈ p, C ≤ kv.2.1 + 1)

/-- every entry of the table lies inside the `S × C` table: key state, key colour, printed
    colour and next state. -/
def InTable (S C : Nat) (p : Prog) : Prop :=
  ∀ kv ∈ p, kv.1.1 < S ∧ kv.1.2 < C ∧ kv.2.1 < C ∧ kv.2.2.2 < S

/-- the unfiltered process from the start: `A0 ↦ 1RB` has been executed from the blank tape (the
    machine is in state `B = 1` on `Tape.initStepped`, at the undefined slot `B0`), `B0` is filled
    with any available instruction, and `S * C - 2 - halt` further slots may be filled. -/
def SpecRaw (S C : Nat) (halt : Bool) (lim : Nat) (p : Prog) : Prop :=
  ∃ i, Avail S C prog0 i ∧
    SpecFrom S C lim (prog0.insert (1, 0) i) 1 Tape.initStepped
      (S * C - 2 - (if halt then 1 else 0)) p

/-- **the specification of tree generation**: `p` is a result of the process that mentions the
    last state and the last colour. -/
def SpecEmits (S C : Nat) (halt : Bool) (lim : Nat) (p : Prog) : Prop :=
  SpecRaw S C halt lim p ∧ UsesLast S C p

/-! ### The process with the code's availability counters -/

/-- what a `branch` call is given (apart from the constant parameters and the slot budget). -/
structure Node where
  /-- the instruction inserted last -/
  instr : Instr
  prog : Prog
  state : Nat
  tape : Tape
  availS : Nat
  availC : Nat
deriving Repr, DecidableEq

/-- the node for the choice `i` at the undefined `slot` reached with `tape'`. -/
def Node.child (params : Nat × Nat) (n : Node) (slot : Slot) (tape' : Tape) (i : Instr) : Node :=
  { instr := i, prog := n.prog.insert slot i, state := slot.1, tape := tape',
    availS := growAvail n.availS params.1 slot.1 n.instr.2.2,
    availC := growAvail n.availC params.2 slot.2 n.instr.1 }

/-- the instruction `i` is offered by the counters after their update at `slot`. -/
def Node.Offers (params : Nat × Nat) (n : Node) (slot : Slot) (i : Instr) : Prop :=
  i.2.2 < growAvail n.availS params.1 slot.1 n.instr.2.2 ∧
  i.1 < growAvail n.availC params.2 slot.2 n.instr.1

/-- the process of `SpecFrom`, with the availability *counters* of the code (exact rule
    `growAvail`) in place of `Avail`. -/
inductive ProcFrom (params : Nat × Nat) (lim : Nat) : Node → Nat → Prog → Prop
  | stop {n : Node} {k : Nat} :
      (∀ slot t', runForUndefined n.prog n.state n.tape lim ≠ (.undefined slot, t')) →
      ProcFrom params lim n k n.prog
  | last {n : Node} {slot : Slot} {t' : Tape} {i : Instr} :
      runForUndefined n.prog n.state n.tape lim = (.undefined slot, t') →
      n.Offers params slot i → ProcFrom params lim n 1 (n.prog.insert slot i)
  | fill {n : Node} {k : Nat} {slot : Slot} {t' : Tape} {i : Instr} {r : Prog} :
      runForUndefined n.prog n.state n.tape lim = (.undefined slot, t') →
      n.Offers params slot i → ProcFrom params lim (n.child params slot t' i) (k + 1) r →
      ProcFrom params lim n (k + 2) r

/-- the node of the top-level task for `i`. -/
def rootNode (S C : Nat) (i : Instr) : Node :=
  { instr := i, prog := initProg i, state := 1, tape := Tape.initStepped,
    availS := min 3 S, availC := min 3 C }

/-- the counter form of `SpecEmits`. -/
def ProcEmits (S C : Nat) (halt : Bool) (lim : Nat) (p : Prog) : Prop :=
  (∃ i, (i.2.2 < min 3 S ∧ i.1 < min 3 C) ∧
    ProcFrom (S, C) lim (rootNode S C i) (S * C - 2 - (if halt then 1 else 0)) p) ∧
  UsesLast S C p

/-! ### `branch` without the error plumbing -/

/-- the harvest of `branch` as a plain list (`branch_eq`): same recursion, no `PRes`. With
    no slot left and an undefined slot reached the list is empty (there `branch` fails). -/
def branchL (params : Nat × Nat) (lim : Nat) : Node → Nat → List Prog
  | n, 0 =>
    match runForUndefined n.prog n.state n.tape lim with
    | (.undefined _, _) => []
    | _ => leaf n.prog params
  | n, r + 1 =>
    match runForUndefined n.prog n.state n.tape lim with
    | (.undefined slot, tape') =>
      (makeInstrs (growAvail n.availS params.1 slot.1 n.instr.2.2)
          (growAvail n.availC params.2 slot.2 n.instr.1)).flatMap fun i =>
        if r = 0 then leaf (n.prog.insert slot i) params
        else branchL params lim (n.child params slot tape' i) r
    | _ => leaf n.prog params

/-- the size guard: `states * colors` fits `u64` and the slot budget
    `states * colors - 1 - (1 + halt)` does not underflow and is not zero. -/
def SizeOk (S C : Nat) (halt : Bool) : Prop :=
  S * C < u64Size ∧ 3 + (if halt then 1 else 0) ≤ S * C

instance (S C : Nat) (halt : Bool) : Decidable (SizeOk S C halt) := by
  unfold SizeOk; infer_instance

end BB.Tree
