/-
C04 support, part 3: what `getEntrypoints`, `checkedSteps`, `getIndef`, `sameSteps` and
`getValidSteps` contain (membership lemmas only; no semantics).
-/
import BB.Model.Reason

namespace BB.Reason

open BB

/-! ### entry points -/

theorem Entrypoints.get_cons (k : Nat) (v : Entries × Entries) (rest : Entrypoints) (st : Nat) :
    Entrypoints.get ((k, v) :: rest) st = if k == st then some v else Entrypoints.get rest st := rfl

/-- keys strictly ascending -/
def ESorted : Entrypoints → Prop
  | [] => True
  | (k, _) :: rest => (∀ kv ∈ rest, k < kv.1) ∧ ESorted rest

theorem Entrypoints.get_none_of_lt (ep : Entrypoints) (st : Nat) (h : ∀ kv ∈ ep, st < kv.1) :
    ep.get st = none := by
  induction ep with
  | nil => rfl
  | cons kv rest ih =>
    obtain ⟨k, v⟩ := kv
    have hk : st < k := h (k, v) List.mem_cons_self
    have : (k == st) = false := by simp; omega
    simp only [Entrypoints.get_cons, this, Bool.false_eq_true, if_false]
    exact ih (fun kv hkv => h kv (List.mem_cons_of_mem _ hkv))

theorem Entrypoints.push_keys (ep : Entrypoints) (st : Nat) (b : Bool) (en : Entry) :
    ∀ kv ∈ ep.push st b en, kv.1 = st ∨ ∃ kv' ∈ ep, kv'.1 = kv.1 := by
  induction ep with
  | nil =>
    intro kv hkv
    simp only [Entrypoints.push, List.mem_singleton] at hkv
    subst hkv; exact Or.inl rfl
  | cons kv0 rest ih =>
    obtain ⟨k, same, diff⟩ := kv0
    intro kv hkv
    simp only [Entrypoints.push] at hkv
    split at hkv
    · rcases List.mem_cons.1 hkv with rfl | hm
      · exact Or.inr ⟨_, List.mem_cons_self, rfl⟩
      · exact Or.inr ⟨kv, List.mem_cons_of_mem _ hm, rfl⟩
    · split at hkv
      · rcases List.mem_cons.1 hkv with rfl | hm
        · exact Or.inl rfl
        · exact Or.inr ⟨kv, hm, rfl⟩
      · rcases List.mem_cons.1 hkv with rfl | hm
        · exact Or.inr ⟨_, List.mem_cons_self, rfl⟩
        · rcases ih kv hm with h | ⟨kv', hkv', he⟩
          · exact Or.inl h
          · exact Or.inr ⟨kv', List.mem_cons_of_mem _ hkv', he⟩

theorem Entrypoints.push_sorted (ep : Entrypoints) (st : Nat) (b : Bool) (en : Entry)
    (h : ESorted ep) : ESorted (ep.push st b en) := by
  induction ep with
  | nil => simp [Entrypoints.push, ESorted]
  | cons kv0 rest ih =>
    obtain ⟨k, same, diff⟩ := kv0
    obtain ⟨h1, h2⟩ := h
    simp only [Entrypoints.push]
    split
    · exact ⟨h1, h2⟩
    · rename_i hk
      split
      · rename_i hlt
        refine ⟨?_, h1, h2⟩
        intro kv hkv
        rcases List.mem_cons.1 hkv with rfl | hm
        · exact hlt
        · exact Nat.lt_trans hlt (h1 kv hm)
      · rename_i hlt
        refine ⟨?_, ih h2⟩
        intro kv hkv
        rcases Entrypoints.push_keys rest st b en kv hkv with h | ⟨kv', hkv', he⟩
        · have : k ≠ st := by simpa using hk
          omega
        · rw [← he]; exact h1 kv' hkv'

/-- add an entry to the `same` or the `diff` list -/
def addEntry (b : Bool) (en : Entry) (v : Entries × Entries) : Entries × Entries :=
  if b then (v.1 ++ [en], v.2) else (v.1, v.2 ++ [en])

theorem Entrypoints.get_push (ep : Entrypoints) (st : Nat) (b : Bool) (en : Entry) (st' : Nat)
    (h : ESorted ep) :
    (ep.push st b en).get st' =
      if st == st' then some (addEntry b en ((ep.get st).getD ([], []))) else ep.get st' := by
  induction ep with
  | nil =>
    simp only [Entrypoints.push, Entrypoints.get_cons]
    split
    · cases b <;> simp [addEntry, Entrypoints.get]
    · rfl
  | cons kv0 rest ih =>
    obtain ⟨k, same, diff⟩ := kv0
    obtain ⟨h1, h2⟩ := h
    simp only [Entrypoints.push]
    by_cases hk : (k == st) = true
    · have hke : k = st := by simpa using hk
      subst hke
      simp only [beq_self_eq_true, if_true, Entrypoints.get_cons]
      split
      · cases b <;> simp [addEntry]
      · rfl
    · simp only [hk, Bool.false_eq_true, if_false]
      by_cases hlt : st < k
      · simp only [hlt, if_true]
        have hnone : Entrypoints.get ((k, same, diff) :: rest) st = none := by
          apply Entrypoints.get_none_of_lt
          intro kv hkv
          rcases List.mem_cons.1 hkv with rfl | hm
          · exact hlt
          · exact Nat.lt_trans hlt (h1 kv hm)
        rw [hnone]
        simp only [Entrypoints.get_cons (st)]
        split
        · cases b <;> simp [addEntry]
        · rfl
      · simp only [hlt, if_false]
        simp only [Entrypoints.get_cons k, hk, Bool.false_eq_true, if_false]
        by_cases hk' : (k == st') = true
        · have hne : (st == st') = false := by
            have a : k = st' := by simpa using hk'
            have b : k ≠ st := by simpa using hk
            simp; omega
          simp only [hk', if_true, hne, Bool.false_eq_true, if_false]
        · simp only [hk', Bool.false_eq_true, if_false]
          exact ih h2

/-- `en` is listed among the entries into state `st` (in `same` or in `diff`) -/
def EIn (ep : Entrypoints) (st : Nat) (isSame : Bool) (en : Entry) : Prop :=
  ∃ same diff, ep.get st = some (same, diff) ∧ en ∈ (if isSame then same else diff)

theorem EIn_push_self (ep : Entrypoints) (st : Nat) (b : Bool) (en : Entry) (h : ESorted ep) :
    EIn (ep.push st b en) st b en := by
  refine ⟨(addEntry b en ((ep.get st).getD ([], []))).1, (addEntry b en ((ep.get st).getD ([], []))).2,
    by rw [Entrypoints.get_push _ _ _ _ _ h]; simp only [beq_self_eq_true, if_true], ?_⟩
  cases b <;> simp [addEntry]

theorem EIn_push_mono (ep : Entrypoints) (st : Nat) (b : Bool) (en : Entry) (hs : ESorted ep)
    (st' : Nat) (b' : Bool) (en' : Entry) (h : EIn ep st' b' en') :
    EIn (ep.push st b en) st' b' en' := by
  obtain ⟨s, d, hg, hm⟩ := h
  by_cases he : st = st'
  · subst he
    refine ⟨(addEntry b en ((ep.get st).getD ([], []))).1, (addEntry b en ((ep.get st).getD ([], []))).2,
      by rw [Entrypoints.get_push _ _ _ _ _ hs]; simp only [beq_self_eq_true, if_true], ?_⟩
    rw [hg]
    cases b <;> cases b' <;> simp_all [addEntry]
  · have : (st == st') = false := by simpa using he
    exact ⟨s, d, by rw [Entrypoints.get_push _ _ _ _ _ hs]; simp only [this, Bool.false_eq_true, if_false]; exact hg, hm⟩

theorem getEntrypoints_foldl (l : List (Slot × Instr)) : ∀ (acc : Entrypoints), ESorted acc →
    let r := l.foldl (fun acc kv =>
      let slot := kv.1
      let (color, shift, state) := kv.2
      Entrypoints.push acc state (slot.1 == state) (slot, (color, shift))) acc
    ESorted r ∧
    (∀ st b en, EIn acc st b en → EIn r st b en) ∧
    (∀ kv ∈ l, EIn r kv.2.2.2 (kv.1.1 == kv.2.2.2) (kv.1, (kv.2.1, kv.2.2.1))) := by
  induction l with
  | nil => intro acc hs; exact ⟨hs, fun _ _ _ h => h, fun _ h => by cases h⟩
  | cons kv rest ih =>
    intro acc hs
    simp only [List.foldl_cons]
    obtain ⟨slot, color, shift, state⟩ := kv
    have hs' := Entrypoints.push_sorted acc state (slot.1 == state) (slot, (color, shift)) hs
    obtain ⟨r1, r2, r3⟩ := ih _ hs'
    refine ⟨r1, ?_, ?_⟩
    · intro st b en h
      exact r2 st b en (EIn_push_mono _ _ _ _ hs _ _ _ h)
    · intro kv' hkv'
      rcases List.mem_cons.1 hkv' with rfl | hm
      · exact r2 _ _ _ (EIn_push_self _ _ _ _ hs)
      · exact r3 kv' hm

/-- every instruction of the table is an entry into its next state -/
theorem getEntrypoints_mem (p : Prog) (q r pr : Nat) (sh : Bool) (st : Nat)
    (h : ((q, r), (pr, sh, st)) ∈ p) :
    EIn (getEntrypoints p) st (q == st) ((q, r), (pr, sh)) :=
  (getEntrypoints_foldl p [] trivial).2.2 _ h


/-! ### valid steps -/

theorem checkedSteps_mem (tape : Backstepper) (entries : Entries) (st co pr : Nat) (sh : Bool)
    (h : ((st, co), (pr, sh)) ∈ entries) (hc : tape.checkStep sh pr = true) :
    (co, sh, st) ∈ checkedSteps tape entries := by
  simp only [checkedSteps, List.mem_filterMap]
  exact ⟨((st, co), (pr, sh)), h, by simp [hc]⟩

theorem getIndef_some (push : Bool) (X : Config) (diff same : Entries) (q' r' pr' : Nat) (sh' : Bool)
    (hmem : ((q', r'), (pr', sh')) ∈ diff ++ same)
    (hfilter : ¬ (q' = X.state ∧ sh' = push ∧ X.tape.scan = r'))
    (hcheck : (X.tape.pushIndef push).checkStep sh' pr' = true) :
    ∃ steps, getIndef push X diff same = some (steps, Config.new X.state (X.tape.pushIndef push)) ∧
      (r', sh', q') ∈ steps := by
  have hin : ((q', r'), (pr', sh')) ∈ (diff ++ same).filter (fun en =>
      let ((state, color), (_, shift)) := en
      !(state == X.state && shift == push && X.tape.scan == color)) := by
    rw [List.mem_filter]
    refine ⟨hmem, ?_⟩
    simp only [Bool.not_eq_true', Bool.and_eq_false_iff, beq_eq_false_iff_ne, ne_eq]
    by_cases h1 : q' = X.state
    · by_cases h2 : sh' = push
      · by_cases h3 : X.tape.scan = r'
        · exact absurd ⟨h1, h2, h3⟩ hfilter
        · exact Or.inr h3
      · exact Or.inl (Or.inr h2)
    · exact Or.inl (Or.inl h1)
  have hst := checkedSteps_mem (X.tape.pushIndef push) _ q' r' pr' sh' hin hcheck
  have hne1 : ((diff ++ same).filter (fun en =>
      let ((state, color), (_, shift)) := en
      !(state == X.state && shift == push && X.tape.scan == color))).isEmpty = false := by
    cases hl : (diff ++ same).filter _ with
    | nil => rw [hl] at hin; cases hin
    | cons a l => rfl
  have hne2 : (checkedSteps (X.tape.pushIndef push) ((diff ++ same).filter (fun en =>
      let ((state, color), (_, shift)) := en
      !(state == X.state && shift == push && X.tape.scan == color)))).isEmpty = false := by
    cases hl : checkedSteps (X.tape.pushIndef push) _ with
    | nil => rw [hl] at hst; cases hst
    | cons a l => rfl
  refine ⟨_, ?_, hst⟩
  simp only [getIndef, hne1, hne2, Bool.false_eq_true, if_false]

theorem sameSteps_cons_sub (f : Bool) (X : Config) (diff same : Entries) (e : Entry) (rest : Entries) :
    (∀ i ∈ (sameSteps f X diff same rest).1, i ∈ (sameSteps f X diff same (e :: rest)).1) ∧
    (∀ y ∈ (sameSteps f X diff same rest).2, y ∈ (sameSteps f X diff same (e :: rest)).2) := by
  obtain ⟨⟨state, color⟩, print, shift⟩ := e
  simp only [sameSteps]
  split
  · exact ⟨fun _ h => h, fun _ h => h⟩
  · split
    · exact ⟨fun _ h => List.mem_cons_of_mem _ h, fun _ h => h⟩
    · split
      · exact ⟨fun _ h => List.mem_cons_of_mem _ h, fun _ h => h⟩
      · exact ⟨fun _ h => h, fun _ h => h⟩
    · split
      · exact ⟨fun _ h => h, fun _ h => List.mem_cons_of_mem _ h⟩
      · exact ⟨fun _ h => h, fun _ h => h⟩

theorem sameSteps_mem (f : Bool) (X : Config) (diff same : Entries) (q r pr : Nat) (sh : Bool)
    (hc : X.tape.checkStep sh pr = true) : ∀ (l : Entries), ((q, r), (pr, sh)) ∈ l →
    match X.tape.checkSpinout sh r with
    | none => (r, sh, q) ∈ (sameSteps f X diff same l).1
    | some false => (f && !X.tape.sweepAbsorbed sh) = true → (r, sh, q) ∈ (sameSteps f X diff same l).1
    | some true => ∀ indef, getIndef sh X diff same = some indef →
        indef ∈ (sameSteps f X diff same l).2 := by
  intro l
  induction l with
  | nil => intro h; cases h
  | cons e rest ih =>
    intro h
    rcases List.mem_cons.1 h with he | hm
    · subst he
      simp only [sameSteps, hc, Bool.not_true, Bool.false_eq_true, if_false]
      cases hcs : X.tape.checkSpinout sh r with
      | none => simp
      | some b =>
        cases b with
        | false =>
          simp only
          intro hf
          simp [hf]
        | true =>
          simp only
          intro indef hi
          simp [hi]
    · have := ih hm
      have hsub := sameSteps_cons_sub f X diff same e rest
      cases hcs : X.tape.checkSpinout sh r with
      | none => rw [hcs] at this; exact hsub.1 _ this
      | some b =>
        rw [hcs] at this
        cases b with
        | false => exact fun hf => hsub.1 _ (this hf)
        | true => exact fun indef hi => hsub.2 _ (this indef hi)

theorem getValidSteps_mem (f : Bool) (ep : Entrypoints) : ∀ (configs : Configs) (vs : ValidatedSteps),
    getValidSteps f ep configs = .ok vs → ∀ X ∈ configs, ∀ same diff,
    ep.get X.state = some (same, diff) →
    (∀ y ∈ (sameSteps f X diff same same).2, y ∈ vs) ∧
    (∀ i ∈ checkedSteps X.tape diff ++ (sameSteps f X diff same same).1,
      ∃ instrs, (instrs, X) ∈ vs ∧ i ∈ instrs) := by
  intro configs
  induction configs with
  | nil => intro vs _ X hX; cases hX
  | cons c rest ih =>
    intro vs hv X hX same diff hg
    simp only [getValidSteps] at hv
    cases hgc : ep.get c.state with
    | none =>
      simp only [hgc] at hv
      split at hv
      · rcases List.mem_cons.1 hX with rfl | hm
        · rw [hgc] at hg; cases hg
        · exact ih vs hv X hm same diff hg
      · cases hv
    | some sd =>
      obtain ⟨same', diff'⟩ := sd
      simp only [hgc] at hv
      cases hr : getValidSteps f ep rest with
      | error e => simp only [hr] at hv; cases hv
      | ok checked =>
        simp only [hr, Except.ok.injEq] at hv
        subst hv
        rcases List.mem_cons.1 hX with rfl | hm
        · rw [hgc] at hg
          simp only [Option.some.injEq, Prod.mk.injEq] at hg
          obtain ⟨rfl, rfl⟩ := hg
          refine ⟨fun y hy => List.mem_append_left _ hy, fun i hi => ?_⟩
          have hne : (checkedSteps X.tape diff' ++ (sameSteps f X diff' same' same').1).isEmpty = false := by
            cases hl : checkedSteps X.tape diff' ++ (sameSteps f X diff' same' same').1 with
            | nil => rw [hl] at hi; cases hi
            | cons a l => rfl
          refine ⟨_, ?_, hi⟩
          apply List.mem_append_right
          simp only [hne, Bool.false_eq_true, if_false]
          exact List.mem_cons_self
        · obtain ⟨h1, h2⟩ := ih checked hr X hm same diff hg
          refine ⟨fun y hy => ?_, fun i hi => ?_⟩
          · apply List.mem_append_right
            split
            · exact h1 y hy
            · exact List.mem_cons_of_mem _ (h1 y hy)
          · obtain ⟨instrs, hin, hi'⟩ := h2 i hi
            refine ⟨instrs, ?_, hi'⟩
            apply List.mem_append_right
            split
            · exact hin
            · exact List.mem_cons_of_mem _ hin

end BB.Reason
