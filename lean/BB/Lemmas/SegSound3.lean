/-
C05 — segment analysis.  Part 3: one iteration of `run_to_edge` (`runBody`), the induction
principle for `runLoop`, and what `run_to_edge` guarantees about the `init` flag, halting,
spinning out and repeating (`runLoop_post`).
-/
import BB.Lemmas.SegSound2

namespace BB.Segment

open BB

/-! ### one iteration of the loop of `run_to_edge` -/

inductive BodyOut where
  | exit (out : RunOut)
  | loop (self copy : Config) (step : Bool) (configs : Configs)

def spinCheck (goal : Term) (self : Config) (instr : Instr) (configs : Configs) : Bool × Configs :=
  if (self.init || goal == .spinout) && Config.spinout self instr then
    if self.init then (true, configs) else Configs.checkReached configs self goal
  else (false, configs)

def blankCheck (goal : Term) (instr : Instr) (self : Config) (configs : Configs) :
    Option SearchResult × Config × Configs :=
  if instr.1 == 0 && Tape.blank self.tape then
    if instr.2.2 == 0 && self.init then (some .repeat, self, configs)
    else
      let self := if instr.2.2 == 0 then { self with init := true } else self
      let configs :=
        { configs with blanks := dictSetInsert configs.blanks instr.2.2 (Tape.pos self.tape) }
      if goal == .blank then (some (.found .blank), self, configs)
      else (none, self, configs)
  else (none, self, configs)

def copyStep (prog : Prog) (copy : Config) : Option Config :=
  match Config.slot copy with
  | none => none
  | some cslot =>
    match prog.get cslot with
    | none => none
    | some cinstr => Config.step copy cinstr

def runBody (prog : Prog) (goal : Term) (self copy : Config) (step : Bool) (configs : Configs) :
    Except Err BodyOut :=
  match Config.slot self with
  | none => .ok (.exit ⟨none, self, configs⟩)
  | some slot =>
    match prog.get slot with
    | none => .ok (.exit ⟨some (.found .halt), self, configs⟩)
    | some instr =>
      let sc := spinCheck goal self instr configs
      if sc.1 then .ok (.exit ⟨some (.found .spinout), self, sc.2⟩)
      else
        match Config.step self instr with
        | none => .error .panic
        | some self1 =>
          let blk := blankCheck goal instr self1 sc.2
          match blk.1 with
          | some r => .ok (.exit ⟨some r, blk.2.1, blk.2.2⟩)
          | none =>
            if !step then .ok (.loop blk.2.1 copy true blk.2.2)
            else
              match copyStep prog copy with
              | none => .error .panic
              | some copy1 =>
                if copy1.state == blk.2.1.state && copy1.tape == blk.2.1.tape then
                  .ok (.exit ⟨some .repeat, blk.2.1, blk.2.2⟩)
                else .ok (.loop blk.2.1 copy1 false blk.2.2)

def BodyOut.run (prog : Prog) (goal : Term) (fuel : Nat) : Except Err BodyOut → Except Err RunOut
  | .error e => .error e
  | .ok (.exit out) => .ok out
  | .ok (.loop s c st cf) => runLoop prog goal fuel s c st cf

theorem runLoop_tail (prog : Prog) (goal : Term) (fuel : Nat) (copy : Config) (step : Bool)
    (blk : Option SearchResult × Config × Configs) :
    (match blk with
      | (some r, self, configs) => Except.ok ⟨some r, self, configs⟩
      | (none, self, configs) =>
        if !step then runLoop prog goal fuel self copy true configs
        else
          match Config.slot copy with
          | none => .error .panic
          | some cslot =>
            match prog.get cslot with
            | none => .error .panic
            | some cinstr =>
              match Config.step copy cinstr with
              | none => .error .panic
              | some copy =>
                if copy.state == self.state && copy.tape == self.tape then
                  .ok ⟨some .repeat, self, configs⟩
                else runLoop prog goal fuel self copy false configs) =
    BodyOut.run prog goal fuel
      (match blk.1 with
          | some r => .ok (.exit ⟨some r, blk.2.1, blk.2.2⟩)
          | none =>
            if !step then .ok (.loop blk.2.1 copy true blk.2.2)
            else
              match copyStep prog copy with
              | none => .error .panic
              | some copy1 =>
                if copy1.state == blk.2.1.state && copy1.tape == blk.2.1.tape then
                  .ok (.exit ⟨some .repeat, blk.2.1, blk.2.2⟩)
                else .ok (.loop blk.2.1 copy1 false blk.2.2)) := by
  obtain ⟨r, s2, c2⟩ := blk
  cases r with
  | some r => rfl
  | none =>
    cases step with
    | false => rfl
    | true =>
      simp only [Bool.not_true, Bool.false_eq_true, if_false, copyStep]
      cases Config.slot copy with
      | none => rfl
      | some cslot =>
        simp only
        cases prog.get cslot with
        | none => rfl
        | some cinstr =>
          simp only
          cases Config.step copy cinstr with
          | none => rfl
          | some copy1 =>
            simp only
            split <;> rfl

theorem runLoop_succ (prog : Prog) (goal : Term) (fuel : Nat) (self copy : Config) (step : Bool)
    (configs : Configs) :
    runLoop prog goal (fuel + 1) self copy step configs =
      BodyOut.run prog goal fuel (runBody prog goal self copy step configs) := by
  rw [runLoop, runBody]
  cases Config.slot self with
  | none => rfl
  | some slot =>
    simp only
    cases prog.get slot with
    | none => rfl
    | some instr =>
      simp only
      have e1 : (if ((self.init || goal == Term.spinout) && self.spinout instr) = true then
            if self.init = true then (true, configs) else configs.checkReached self goal
          else (false, configs)) = spinCheck goal self instr configs := rfl
      rw [e1]
      generalize spinCheck goal self instr configs = sc
      obtain ⟨spin, cf⟩ := sc
      cases spin with
      | true => rfl
      | false =>
        cases Config.step self instr with
        | none => rfl
        | some self1 =>
          exact runLoop_tail prog goal fuel copy step (blankCheck goal instr self1 cf)

/-- induction principle for `runLoop`: an invariant kept by every iteration gives a
    postcondition of every exit -/
theorem runLoop_induct (prog : Prog) (goal : Term)
    (Inv : Config → Config → Bool → Configs → Prop) (Post : RunOut → Prop)
    (hbody : ∀ self copy step configs, Inv self copy step configs →
      match runBody prog goal self copy step configs with
      | .error _ => True
      | .ok (.exit out) => Post out
      | .ok (.loop s c st cf) => Inv s c st cf) :
    ∀ (fuel : Nat) (self copy : Config) (step : Bool) (configs : Configs) (out : RunOut),
      Inv self copy step configs → runLoop prog goal fuel self copy step configs = .ok out →
      Post out := by
  intro fuel
  induction fuel with
  | zero => intro self copy step configs out _ h; simp [runLoop] at h
  | succ fuel ih =>
    intro self copy step configs out hinv h
    rw [runLoop_succ] at h
    unfold BodyOut.run at h
    have hb := hbody self copy step configs hinv
    revert h hb
    cases runBody prog goal self copy step configs with
    | error e => intro h; simp at h
    | ok b =>
      cases b with
      | exit o =>
        intro h hb
        simp only [Except.ok.injEq] at h
        subst h
        exact hb
      | loop s c st cf =>
        intro h hb
        exact ih s c st cf out hb h

end BB.Segment
