/-
C10 support, part 8: for `S, C ≥ 2` every table of the process lies inside the `S × C` table, is
strictly sorted (the `BTreeMap` invariant) and has no shadowed key; hence the emitted programs
are pairwise different *as tables* (as printed).  For `S = 1` or `C = 1` they are not.
-/
import BB.Lemmas.TreeGenAvail
import BB.Lemmas.Parse

namespace BB.Tree

open BB

/-- every listed entry is the one `get` finds -/
def NoShadow (p : Prog) : Prop := ∀ kv ∈ p, p.get kv.1 = some kv.2

theorem maxState_lt {S C : Nat} {p : Prog} (h : InTable S C p) (hS : 1 ≤ S) : maxState p < S := by
  induction p with
  | nil => exact hS
  | cons x rest ih =>
    rw [maxState_cons]
    have h1 := h x (List.mem_cons_self ..)
    have h2 := ih (fun kv hkv => h kv (List.mem_cons_of_mem _ hkv))
    omega

theorem maxColor_lt {S C : Nat} {p : Prog} (h : InTable S C p) (hC : 1 ≤ C) : maxColor p < C := by
  induction p with
  | nil => exact hC
  | cons x rest ih =>
    rw [maxColor_cons]
    have h1 := h x (List.mem_cons_self ..)
    have h2 := ih (fun kv hkv => h kv (List.mem_cons_of_mem _ hkv))
    omega

theorem noShadow_insert {p : Prog} {s : Slot} (i : Instr) (h : NoShadow p) (hn : p.get s = none) :
    NoShadow (p.insert s i) := by
  intro kv hkv
  rcases Prog.mem_insert hkv with rfl | hm
  · exact Prog.get_insert_self ..
  · have hne : s ≠ kv.1 := by
      rintro rfl
      have := h kv hm
      rw [hn] at this; cases this
    rw [Prog.get_insert_ne _ _ _ _ hne]
    exact h kv hm

/-- invariant of the states `(p, q, t)` of the declarative process -/
structure SpecInv (S C : Nat) (p : Prog) (q : Nat) (t : Tape) : Prop where
  inTable : InTable S C p
  noShadow : NoShadow p
  sorted : Parse.Sorted p
  state : q ≤ maxState p
  tape : TapeLe t (maxColor p)

theorem specInv_root {S C : Nat} (hS : 2 ≤ S) (hC : 2 ≤ C) {i : Instr} (hi : Avail S C prog0 i) :
    SpecInv S C (prog0.insert (1, 0) i) 1 Tape.initStepped := by
  have hin0 : InTable S C prog0 := by
    intro kv hkv
    simp only [prog0, List.mem_cons, List.not_mem_nil, or_false] at hkv
    subst hkv
    simp only
    omega
  have hns0 : NoShadow prog0 := by
    intro kv hkv
    simp only [prog0, List.mem_cons, List.not_mem_nil, or_false] at hkv
    subst hkv
    rfl
  refine ⟨?_, noShadow_insert i hns0 prog0_get, Parse.sorted_insert _ _ _ (by simp [prog0]), ?_, ?_⟩
  · intro kv hkv
    rcases Prog.mem_insert hkv with rfl | hm
    · simp only
      exact ⟨by omega, by omega, hi.2.1, hi.1.1⟩
    · exact hin0 kv hm
  · rw [maxState_insert i prog0_get]; simp only; omega
  · rw [maxColor_insert i prog0_get, maxColor_prog0]
    refine ⟨?_, ?_, spanLe_nil _⟩
    · simp [Tape.initStepped]
    · intro b hb
      simp only [Tape.initStepped, List.mem_cons, List.not_mem_nil, or_false] at hb
      subst hb
      simp only; omega

theorem specInv_step {S C : Nat} (hS : 1 ≤ S) (hC : 1 ≤ C) {p : Prog} {q : Nat} {t : Tape}
    (inv : SpecInv S C p q t) {lim : Nat} {slot : Slot} {t' : Tape}
    (hrun : runForUndefined p q t lim = (.undefined slot, t')) {i : Instr} (hi : Avail S C p i) :
    SpecInv S C (p.insert slot i) slot.1 t' := by
  have hnone := run_undefined_get hrun
  obtain ⟨ht', hs⟩ := run_le inv.state inv.tape hrun
  obtain ⟨hs1, hs2⟩ := hs slot rfl
  have hmS := maxState_lt inv.inTable hS
  have hmC := maxColor_lt inv.inTable hC
  refine ⟨?_, noShadow_insert i inv.noShadow hnone, Parse.sorted_insert _ _ _ inv.sorted, ?_, ?_⟩
  · intro kv hkv
    rcases Prog.mem_insert hkv with rfl | hm
    · simp only
      exact ⟨by omega, by omega, hi.2.1, hi.1.1⟩
    · exact inv.inTable kv hm
  · rw [maxState_insert i hnone]; omega
  · rw [maxColor_insert i hnone]; exact ht'.mono (by omega)

/-- what `SpecInv` leaves for a final table -/
structure TableOk (S C : Nat) (p : Prog) : Prop where
  inTable : InTable S C p
  noShadow : NoShadow p
  sorted : Parse.Sorted p

theorem SpecInv.tableOk {S C : Nat} {p : Prog} {q : Nat} {t : Tape} (inv : SpecInv S C p q t) :
    TableOk S C p := ⟨inv.inTable, inv.noShadow, inv.sorted⟩

theorem specFrom_tableOk {S C lim : Nat} (hS : 1 ≤ S) (hC : 1 ≤ C) {p : Prog} {q : Nat} {t : Tape}
    {k : Nat} {r : Prog} (h : SpecFrom S C lim p q t k r) (inv : SpecInv S C p q t) :
    TableOk S C r := by
  induction h with
  | stop _ => exact inv.tableOk
  | last hrun hav => exact (specInv_step hS hC inv hrun hav).tableOk
  | fill hrun hav _ ih => exact ih (specInv_step hS hC inv hrun hav)

theorem specRaw_tableOk {S C : Nat} (hS : 2 ≤ S) (hC : 2 ≤ C) {halt : Bool} {lim : Nat} {p : Prog}
    (h : SpecRaw S C halt lim p) : TableOk S C p := by
  obtain ⟨i, hi, hf⟩ := h
  exact specFrom_tableOk (by omega) (by omega) hf (specInv_root hS hC hi)

/-- **tree_inTable'** -/
theorem tree_inTable' (S C : Nat) (halt : Bool) (lim : Nat) (l : List Prog) (hS : 2 ≤ S)
    (hC : 2 ≤ C) (hok : buildTreeSeq S C halt lim = .ok l) (p : Prog) (hp : p ∈ l) :
    InTable S C p ∧ Parse.Sorted p ∧ NoShadow p := by
  have := specRaw_tableOk hS hC ((tree_complete_sound' S C halt lim l hok p).mp hp).1
  exact ⟨this.inTable, this.sorted, this.noShadow⟩

/-- two emitted programs that agree on every slot of the table are the same program -/
theorem tree_table_inj' (S C : Nat) (halt : Bool) (lim : Nat) (l : List Prog) (hS : 2 ≤ S)
    (hC : 2 ≤ C) (hok : buildTreeSeq S C halt lim = .ok l) (p p' : Prog) (hp : p ∈ l)
    (hp' : p' ∈ l) (h : ∀ q c, q < S → c < C → p.get (q, c) = p'.get (q, c)) : p = p' := by
  obtain ⟨h1, h2, _⟩ := tree_inTable' S C halt lim l hS hC hok p hp
  obtain ⟨h1', h2', _⟩ := tree_inTable' S C halt lim l hS hC hok p' hp'
  refine Parse.sorted_ext p p' h2 h2' (fun s => ?_)
  by_cases hs : s.1 < S ∧ s.2 < C
  · exact h s.1 s.2 hs.1 hs.2
  · have e1 : p.get s = none := by
      cases hg : p.get s with
      | none => rfl
      | some v =>
        have := h1 _ (Prog.mem_of_get hg)
        exact absurd ⟨this.1, this.2.1⟩ hs
    have e2 : p'.get s = none := by
      cases hg : p'.get s with
      | none => rfl
      | some v =>
        have := h1' _ (Prog.mem_of_get hg)
        exact absurd ⟨this.1, this.2.1⟩ hs
    rw [e1, e2]

/-- for `S, C ≥ 2` the filter means what it says: an instruction *into the last state* and an
    instruction *printing the last colour* -/
theorem usesLast_exact {S C : Nat} {p : Prog} (h : InTable S C p) (hu : UsesLast S C p) :
    (∃ kv ∈ p, kv.2.2.2 = S - 1) ∧ (∃ kv ∈ p, kv.2.1 = C - 1) := by
  obtain ⟨⟨kv, hkv, h1⟩, ⟨kv', hkv', h2⟩⟩ := hu
  have := h kv hkv
  have := h kv' hkv'
  exact ⟨⟨kv, hkv, by omega⟩, ⟨kv', hkv', by omega⟩⟩

end BB.Tree
