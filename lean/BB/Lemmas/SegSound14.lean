/-
C05 — segment analysis.  Part 14: the second half of the simulation: blank tapes at one position
are interchangeable, and while the head is outside the window the real machine follows
`branch_out` / `branch_in`.
-/
import BB.Lemmas.SegSound13

namespace BB.Segment

open BB

/-! ### the closed explored set -/

structure Closed (ap : AnalyzedProg) (seg : Nat) (E : Core → Prop) : Prop where
  eGood : ∀ X, E X → Good seg X.2
  eStep : ∀ X Y, E X → cstep ap.prog X = some Y → E Y
  eEdge : ∀ X Z, E X → X.2.scan = none → EdgeSucc ap X Z →
    ∃ t, E (Z.1, t) ∧ (t = Z.2 ∨ (Good seg t ∧ Tape.blank t = true ∧ Tape.blank Z.2 = true ∧
      Tape.pos t = Tape.pos Z.2))
  inits : ∀ pos, pos < seg → ∃ t, Good seg t ∧ Tape.blank t = true ∧ Tape.pos t = pos ∧ E (0, t)

/-! ### blank tapes -/

theorem allZero_eq_replicate {l : List Nat} (h : AllZero l) : l = List.replicate l.length 0 := by
  induction l with
  | nil => rfl
  | cons x xs ih =>
    rw [allZero_cons_iff] at h
    rw [List.length_cons, List.replicate_succ, h.1, ← ih h.2]

theorem blank_unroll {t : Tape} (hwf : t.WF) (hb : Tape.blank t = true) :
    Span.unroll t.lspan = List.replicate (Span.len t.lspan) 0 ∧
    Span.unroll t.rspan = List.replicate (Span.len t.rspan) 0 ∧ (∀ s, t.scan = some s → s = 0) := by
  rw [Tape.blank_iff hwf] at hb
  obtain ⟨h1, h2, h3⟩ := hb
  refine ⟨?_, ?_, ?_⟩
  · have := allZero_eq_replicate h2
    rwa [Span.length_unroll] at this
  · have := allZero_eq_replicate h3
    rwa [Span.length_unroll] at this
  · intro s hs
    rw [hs] at h1; simpa using h1

/-- two blank tapes of the window with the same position show the same thing -/
theorem View.blank_transfer {seg : Nat} (hseg : 4 ≤ seg) {c : Cfg} {w : Int} {q : Nat}
    {t t2 : Tape} (hg : Good seg t) (hg2 : Good seg t2) (hb : Tape.blank t = true)
    (hb2 : Tape.blank t2 = true) (hp : Tape.pos t2 = Tape.pos t) (hv : View c w (q, t)) :
    View c w (q, t2) := by
  obtain ⟨u1, u2, u3⟩ := blank_unroll hg.1 hb
  obtain ⟨v1, v2, v3⟩ := blank_unroll hg2.1 hb2
  obtain ⟨hst, hv2⟩ := hv
  refine ⟨hst, ?_⟩
  simp only at hv2 ⊢
  have hc := hg.2
  have hc2 := hg2.2
  cases hs : t.scan with
  | some s =>
    rw [hs] at hv2
    obtain ⟨⟨oL, oR, he⟩, hw⟩ := hv2
    have hp1 : Tape.pos t = Span.len t.lspan + 1 := by
      simp [Tape.pos, hs]
    simp only [Tape.cells, hs, Option.isSome_some, if_true] at hc
    cases hs2 : t2.scan with
    | some s2 =>
      simp only
      have hp2 : Tape.pos t2 = Span.len t2.lspan + 1 := by simp [Tape.pos, hs2]
      simp only [Tape.cells, hs2, Option.isSome_some, if_true] at hc2
      have hl : Span.len t2.lspan = Span.len t.lspan := by omega
      have hr : Span.len t2.rspan = Span.len t.rspan := by omega
      refine ⟨⟨oL, oR, ?_⟩, by rw [hl]; exact hw⟩
      have e : Tape.toCfgX t2 q oL oR = Tape.toCfgX t q oL oR := by
        simp only [Tape.toCfgX, hs, hs2, u1, u2, v1, v2, hl, hr, u3 s hs, v3 s2 hs2]
      rw [e]; exact he
    | none =>
      exfalso
      rcases hg2.1.edge hs2 with hl | hr
      · obtain ⟨_, _, e3, _⟩ := good_edge_left hseg hg2 hs2 hl
        omega
      · obtain ⟨_, _, e3, _⟩ := good_edge_right hseg hg2 hs2 hr
        omega
  | none =>
    rw [hs] at hv2
    simp only at hv2
    cases hs2 : t2.scan with
    | some s2 =>
      exfalso
      have hp2 : Tape.pos t2 = Span.len t2.lspan + 1 := by simp [Tape.pos, hs2]
      simp only [Tape.cells, hs2, Option.isSome_some, if_true] at hc2
      rcases hg.1.edge hs with hl | hr
      · obtain ⟨_, _, e3, _⟩ := good_edge_left hseg hg hs hl
        omega
      · obtain ⟨_, _, e3, _⟩ := good_edge_right hseg hg hs hr
        omega
    | none =>
      simp only
      rcases hv2 with ⟨hr, mid, oL, h4, h5⟩ | ⟨hl, mid, oR, h4, h5⟩
      · obtain ⟨e1, _, e3, _⟩ := good_edge_right hseg hg hs hr
        rcases hg2.1.edge hs2 with hl2 | hr2
        · obtain ⟨_, _, f3, _⟩ := good_edge_left hseg hg2 hs2 hl2
          omega
        · obtain ⟨f1, _, _, _⟩ := good_edge_right hseg hg2 hs2 hr2
          refine Or.inl ⟨hr2, mid, oL, ?_, ?_⟩
          · rw [v1, f1, ← e1, ← u1]; exact h4
          · rw [f1, ← e1]; exact h5
      · obtain ⟨e1, _, e3, _⟩ := good_edge_left hseg hg hs hl
        rcases hg2.1.edge hs2 with hl2 | hr2
        · obtain ⟨f1, _, _, _⟩ := good_edge_left hseg hg2 hs2 hl2
          refine Or.inr ⟨hl2, mid, oR, ?_, h5⟩
          rw [v2, f1, ← e1, ← u2]; exact h4
        · obtain ⟨_, _, f3, _⟩ := good_edge_right hseg hg2 hs2 hr2
          omega

/-- a marked successor of an explored configuration at the edge is explored, up to the view -/
theorem close_succ {ap : AnalyzedProg} {seg : Nat} {E : Core → Prop} (hseg : 4 ≤ seg)
    (hcl : Closed ap seg E) {X Z : Core} (hE : E X) (hs : X.2.scan = none)
    (he : EdgeSucc ap X Z) (hgZ : Good seg Z.2) {c : Cfg} {w : Int} (hv : View c w Z) :
    ∃ Y, E Y ∧ View c w Y := by
  obtain ⟨t, hEt, ht⟩ := hcl.eEdge X Z hE hs he
  rcases ht with rfl | ⟨g2, b2, bZ, hp⟩
  · exact ⟨_, hEt, hv⟩
  · exact ⟨_, hEt, View.blank_transfer (q := Z.1) hseg hgZ g2 bZ b2 hp hv⟩

/-! ### the start -/

theorem view_init {ap : AnalyzedProg} {seg : Nat} {E : Core → Prop} (hseg : 4 ≤ seg)
    (hcl : Closed ap seg E) (w0 : Int) : ∃ X, E X ∧ View Cfg.init w0 X := by
  -- the position at which the window shows the start
  have hpos : ∃ pos : Nat, pos < seg ∧
      ((w0 ≤ 0 ∧ pos = 0) ∨ ((seg : Int) - 1 ≤ w0 ∧ pos = seg - 1) ∨
        (0 < w0 ∧ w0 < (seg : Int) - 1 ∧ (pos : Int) = w0)) := by
    by_cases h1 : w0 ≤ 0
    · exact ⟨0, by omega, Or.inl ⟨h1, rfl⟩⟩
    · by_cases h2 : (seg : Int) - 1 ≤ w0
      · exact ⟨seg - 1, by omega, Or.inr (Or.inl ⟨h2, rfl⟩)⟩
      · exact ⟨w0.toNat, by omega, Or.inr (Or.inr ⟨by omega, by omega, by omega⟩)⟩
  obtain ⟨pos, hlt, hcase⟩ := hpos
  obtain ⟨t, hg, hb, hp, hE⟩ := hcl.inits pos hlt
  obtain ⟨u1, u2, u3⟩ := blank_unroll hg.1 hb
  refine ⟨(0, t), hE, rfl, ?_⟩
  simp only
  have hc := hg.2
  cases hs : t.scan with
  | some s =>
    simp only
    have hp1 : Tape.pos t = Span.len t.lspan + 1 := by simp [Tape.pos, hs]
    simp only [Tape.cells, hs, Option.isSome_some, if_true] at hc
    refine ⟨⟨[], [], ?_⟩, by omega⟩
    simp only [Tape.toCfgX, hs, u1, u2, u3 s hs, List.append_nil]
    exact ⟨rfl, rfl, sameCells_nil_left.2 (allZero_replicate_zero _),
      sameCells_nil_left.2 (allZero_replicate_zero _)⟩
  | none =>
    simp only
    rcases hg.1.edge hs with hl | hr
    · obtain ⟨e1, _, e3, _⟩ := good_edge_left hseg hg hs hl
      refine Or.inr ⟨hl, List.replicate (-w0).toNat 0, [], ?_, ?_⟩
      · apply sameCells_nil_left.2
        rw [u2]
        simp only [List.append_nil]
        exact allZero_append.2 ⟨allZero_replicate_zero _, allZero_replicate_zero _⟩
      · simp only [List.length_replicate]; omega
    · obtain ⟨e1, _, e3, _⟩ := good_edge_right hseg hg hs hr
      refine Or.inl ⟨hr, List.replicate (w0 - ((seg : Int) - 1)).toNat 0, [], ?_, ?_⟩
      · apply sameCells_nil_left.2
        rw [u1]
        simp only [List.append_nil]
        exact allZero_append.2 ⟨allZero_replicate_zero _, allZero_replicate_zero _⟩
      · simp only [List.length_replicate]; omega

end BB.Segment
