/-
`quick_term_or_rec` against the L0 machine: the loop invariant of `recLoop`.

At the top of every iteration
* the current `HeadTape` unrolls to the L0 configuration after some number `n` of steps, its `head`
  is the true head position at that time, the tape is canonical;
* the reference `HeadTape` is the same for an earlier time `n0 ≤ n`;
* `leftmost`/`rightmost` bound every head position of the interval `[n0, n]` (sweeps are monotone,
  so sampling at cycle ends suffices);
* no spin-out configuration occurred before time `n` (the loop tests `at_edge` at every cycle, and
  no spin-out configuration occurs strictly inside a sweep).
A `recur` verdict then yields the hypotheses of the recurrence theorem of `LinRec.lean`.
-/
import BB.Lemmas.RecAlign
import BB.Lemmas.RunQuick

namespace BB

/-! ### unfolding `recIter` -/

/-- the reference snapshot is retaken when `reset` has run down -/
def RState.retake (s : RState) (cycle : Nat) : RState :=
  if s.reset == 0 then
    { s with refState := s.state, refTape := s.tape, leftmost := s.tape.head,
             rightmost := s.tape.head, reset := cycle }
  else s

def lmrm (lm rm curr : Int) : Int × Int :=
  if curr < lm then (curr, rm) else if rm < curr then (lm, curr) else (lm, rm)

def newLm (lm rm curr : Int) : Int := (lmrm lm rm curr).1
def newRm (lm rm curr : Int) : Int := (lmrm lm rm curr).2

theorem lmrm_spec (lm rm curr : Int) (h : lm ≤ rm) :
    newLm lm rm curr ≤ lm ∧ rm ≤ newRm lm rm curr ∧
    newLm lm rm curr ≤ curr ∧ curr ≤ newRm lm rm curr := by
  unfold newLm newRm lmrm
  by_cases h1 : curr < lm
  · simp only [h1, if_true]; omega
  · by_cases h2 : rm < curr
    · simp only [h1, h2, if_true, if_false]; omega
    · simp only [h1, h2, if_false]; omega

theorem recIter_none {p : Prog} {cycle : Nat} {s : RState}
    (h : p.get (s.state, s.tape.tape.scan) = none) :
    recIter p cycle s = .inl (.undefined (s.state, s.tape.tape.scan)) := by
  unfold recIter; rw [h]

theorem recIter_some {p : Prog} {cycle : Nat} {s : RState} {color : Nat} {shift : Bool} {next : Nat}
    (h : p.get (s.state, s.tape.tape.scan) = some (color, shift, next)) :
    recIter p cycle s =
      if (s.state == next && s.tape.tape.atEdge shift) = true then .inl .spinout
      else if (next == (s.retake cycle).refState &&
          (s.tape.step shift color (s.state == next)).1.alignsWith (s.retake cycle).refTape
            (newLm (s.retake cycle).leftmost (s.retake cycle).rightmost
              (s.tape.step shift color (s.state == next)).1.head)
            (newRm (s.retake cycle).leftmost (s.retake cycle).rightmost
              (s.tape.step shift color (s.state == next)).1.head)) = true then .inl .recur
      else .inr { (s.retake cycle) with
          reset := (s.retake cycle).reset - 1, state := next,
          tape := (s.tape.step shift color (s.state == next)).1,
          leftmost := newLm (s.retake cycle).leftmost (s.retake cycle).rightmost
              (s.tape.step shift color (s.state == next)).1.head,
          rightmost := newRm (s.retake cycle).leftmost (s.retake cycle).rightmost
              (s.tape.step shift color (s.state == next)).1.head } := by
  unfold recIter
  rw [h]
  rfl

theorem HeadTape.step_tape (h : HeadTape) (d : Bool) (c : Nat) (sk : Bool) :
    (h.step d c sk).1.tape = (h.tape.step d c sk).1 := rfl

theorem HeadTape.step_head (h : HeadTape) (d : Bool) (c : Nat) (sk : Bool) :
    (h.step d c sk).1.head = h.head + dirI d * ((h.tape.step d c sk).2 : Int) := by
  cases d
  · show h.head - ((h.tape.step false c sk).2 : Int) = _
    simp only [dirI, Bool.false_eq_true, if_false]; omega
  · show h.head + ((h.tape.step true c sk).2 : Int) = _
    simp only [dirI, if_true]; omega

/-! ### spin-out configurations and ≈c -/

theorem SpinOutCfg.congr {p : ProgF} {a b : Cfg} (h : a ≈c b) (ha : SpinOutCfg p a) :
    SpinOutCfg p b := by
  obtain ⟨hs, pr, sh, hi, hz⟩ := ha
  refine ⟨h.2.1.symm.trans hs, pr, sh, by rw [← h.1]; exact hi, ?_⟩
  cases sh
  · exact h.2.2.1.allZero hz
  · exact h.2.2.2.allZero hz

/-! ### the invariant -/

/-- the invariant, for given times `n` (current configuration) and `n0` (reference) -/
structure RInvAt (p : Prog) (s : RState) (n n0 : Nat) : Prop where
  run : ∃ c, RunAt p.toF n c ∧ c ≈c s.tape.tape.toCfg s.state
  head : s.tape.head = hd p.toF n
  refRun : ∃ c0, RunAt p.toF n0 c0 ∧ c0 ≈c s.refTape.tape.toCfg s.refState
  refHead : s.refTape.head = hd p.toF n0
  win : ∀ t, n0 ≤ t → t ≤ n → s.leftmost ≤ hd p.toF t ∧ hd p.toF t ≤ s.rightmost
  noSpin : ∀ t c, t < n → RunAt p.toF t c → ¬ SpinOutCfg p.toF c

structure RInv (p : Prog) (s : RState) : Prop where
  canon : s.tape.tape.Canon
  refCanon : s.refTape.tape.Canon
  times : ∃ n n0, n0 ≤ n ∧ RInvAt p s n n0

theorem RInv.init {p : Prog} (h0 : p.get (0, 0) = some (1, true, 1)) : RInv p RState.init := by
  have hp : p.toF Cfg.init.state Cfg.init.scan = some (1, true, 1) := h0
  have hrun : RunAt p.toF 1 ⟨1, [1], 0, []⟩ := by
    unfold RunAt
    rw [stepN_one, step1_eq_of hp]
    rfl
  have hhd : hd p.toF 1 = 1 := by
    have := hd_succ_of (p := p.toF) (t := 0) (c := Cfg.init) rfl
    rw [dirOf_eq hp] at this
    simpa [hd, disp, dirI] using this
  have hcan : Tape.initStepped.Canon := ⟨⟨by decide, by decide⟩, trivial⟩
  refine ⟨hcan, hcan, 1, 1, Nat.le_refl _, ?_⟩
  refine {
    run := ⟨_, hrun, Cfg.Equiv.refl _⟩
    head := hhd.symm
    refRun := ⟨_, hrun, Cfg.Equiv.refl _⟩
    refHead := hhd.symm
    win := fun t h1 h2 => by
      have : t = 1 := by omega
      subst this
      rw [hhd]
      exact ⟨Int.le_refl _, Int.le_refl _⟩
    noSpin := fun t c ht hr hsp => by
      have : t = 0 := by omega
      subst this
      have hc : c = Cfg.init := (RunAt.unique hr (rfl : RunAt p.toF 0 Cfg.init))
      subst hc
      obtain ⟨_, pr, sh, hi, _⟩ := hsp
      have : p.toF 0 0 = some (1, true, 1) := h0
      have hi' : p.toF 0 0 = some (pr, sh, 0) := hi
      rw [this] at hi'
      simp at hi' }

theorem RState.retake_state (s : RState) (cycle : Nat) : (s.retake cycle).state = s.state := by
  unfold RState.retake; split <;> rfl

theorem RState.retake_tape (s : RState) (cycle : Nat) : (s.retake cycle).tape = s.tape := by
  unfold RState.retake; split <;> rfl

theorem RInv.retake {p : Prog} {s : RState} (inv : RInv p s) (cycle : Nat) :
    RInv p (s.retake cycle) := by
  unfold RState.retake
  split
  · obtain ⟨n, n0, hle, a⟩ := inv.times
    refine ⟨inv.canon, inv.canon, n, n, Nat.le_refl _, ?_⟩
    exact {
      run := a.run
      head := a.head
      refRun := a.run
      refHead := a.head
      win := fun t h1 h2 => by
        have : t = n := by omega
        subst this
        show s.tape.head ≤ _ ∧ _ ≤ s.tape.head
        rw [a.head]
        exact ⟨Int.le_refl _, Int.le_refl _⟩
      noSpin := a.noSpin }
  · exact inv

/-- one model step from a state satisfying the invariant (not at edge) -/
theorem RInvAt.advance {p : Prog} {s : RState} {n n0 : Nat} (hcan : s.tape.tape.Canon)
    (inv : RInvAt p s n n0) (hle : n0 ≤ n) {color : Nat} {shift : Bool} {next : Nat}
    (hget : p.get (s.state, s.tape.tape.scan) = some (color, shift, next))
    (hedge : ¬ (s.state == next && s.tape.tape.atEdge shift) = true) (r : Nat) :
    ∃ n', n < n' ∧ RInvAt p
      { s with reset := r, state := next,
               tape := (s.tape.step shift color (s.state == next)).1,
               leftmost := newLm s.leftmost s.rightmost
                 (s.tape.step shift color (s.state == next)).1.head,
               rightmost := newRm s.leftmost s.rightmost
                 (s.tape.step shift color (s.state == next)).1.head } n' n0 := by
  obtain ⟨c, hrun, hc⟩ := inv.run
  have hi : p.toF s.state s.tape.tape.scan = some (color, shift, next) := hget
  obtain ⟨hpos, hmid, ⟨c1, hc1, e1⟩, _⟩ :=
    Tape.step_refines p.toF s.tape.tape s.state color shift next hcan.pos hi
  obtain ⟨c2, hc2, e2⟩ := stepN_congr hc.symm hc1
  have hrun' : RunAt p.toF (n + (s.tape.tape.step shift color (s.state == next)).2) c2 :=
    stepN_add_of_eq hrun hc2
  -- head positions during the sweep
  have hdj : ∀ j, j ≤ (s.tape.tape.step shift color (s.state == next)).2 →
      hd p.toF (n + j) = hd p.toF n + dirI shift * j := by
    intro j hj
    rw [hd_add hrun, disp_congr hc, disp_const hi hmid j hj]
  have hwn := inv.win n hle (Nat.le_refl _)
  have hsp := lmrm_spec s.leftmost s.rightmost
    (s.tape.step shift color (s.state == next)).1.head (by omega)
  have hcurr : (s.tape.step shift color (s.state == next)).1.head
      = hd p.toF (n + (s.tape.tape.step shift color (s.state == next)).2) := by
    rw [HeadTape.step_head, hdj _ (Nat.le_refl _), inv.head]
  refine ⟨n + (s.tape.tape.step shift color (s.state == next)).2, by omega, ?_⟩
  exact {
    run := ⟨c2, hrun', e2.symm.trans e1⟩
    head := hcurr
    refRun := inv.refRun
    refHead := inv.refHead
    win := fun t h1 h2 => by
      show newLm _ _ _ ≤ _ ∧ _ ≤ newRm _ _ _
      by_cases ht : t ≤ n
      · have := inv.win t h1 ht
        omega
      · obtain ⟨j, rfl⟩ : ∃ j, t = n + j := ⟨t - n, by omega⟩
        have hj : j ≤ (s.tape.tape.step shift color (s.state == next)).2 := by omega
        have hA := hdj j hj
        have hB := hdj _ (Nat.le_refl _)
        rw [← hcurr] at hB
        have hjk : (j : Int) ≤ ((s.tape.tape.step shift color (s.state == next)).2 : Int) := by
          omega
        generalize ((s.tape.tape.step shift color (s.state == next)).2 : Int) = K at *
        cases shift
        · simp only [dirI, Bool.false_eq_true, if_false] at hA hB
          omega
        · simp only [dirI, if_true] at hA hB
          omega
    noSpin := fun t ct ht hr hspin => by
      by_cases hlt : t < n
      · exact inv.noSpin t ct hlt hr hspin
      · obtain ⟨j, rfl⟩ : ∃ j, t = n + j := ⟨t - n, by omega⟩
        have hj : j < (s.tape.tape.step shift color (s.state == next)).2 := by omega
        obtain ⟨cj, hcj, hst, hsc, hat, _⟩ :=
          Tape.step_mid p.toF s.tape.tape s.state color shift next hcan hi j hj
        -- `ct` is the configuration reached from `c` in `j` steps
        have hct : stepN p.toF j c = some ct := by
          have := hr
          unfold RunAt at this hrun
          rw [stepN_add, hrun] at this
          exact this
        obtain ⟨cj', hcj', ej⟩ := stepN_congr hc hct
        rw [hcj] at hcj'
        have : cj = cj' := Option.some.inj hcj'
        subst this
        obtain ⟨hs0, pr, sh, hi', hz⟩ := SpinOutCfg.congr ej hspin
        rw [hst] at hi'
        have hscan0 : s.tape.tape.scan = 0 := hsc.symm.trans hs0
        rw [hscan0] at hi
        rw [hi] at hi'
        simp only [Option.some.injEq, Prod.mk.injEq] at hi'
        obtain ⟨_, hsh, hnx⟩ := hi'
        subst hsh
        apply hedge
        rw [hat hscan0 hz]
        simp [hnx] }

/-! ### a `recur` verdict gives the recurrence hypotheses -/

/-- the hypotheses of the recurrence theorem, together with what `lin_no_spinout` needs -/
def LinWitness (p : ProgF) : Prop :=
  ∃ (W : Int → Prop) (δ : Int) (n m : Nat), LinHyp p W δ n m ∧
    ((∀ x, W x → W (x + 1)) ∨ ∃ B, ∀ x, W x → x ≤ B) ∧
    ((∀ x, W x → W (x - 1)) ∨ ∃ B, ∀ x, W x → B ≤ x) ∧
    (∀ t c, t < n + m → RunAt p t c → ¬ SpinOutCfg p c)

theorem LinWitness.spec {p : ProgF} (h : LinWitness p) :
    (∃ n m, 0 < m ∧ ∀ j, ∃ c c', RunAt p (n + j) c ∧ RunAt p (n + m + j) c' ∧
        c.state = c'.state ∧ c.scan = c'.scan) ∧ NeverHalts p ∧ ¬ SpinsOut p := by
  obtain ⟨W, δ, n, m, H, hR, hL, hb⟩ := h
  exact ⟨⟨n, m, H.mpos, lin_periodic H⟩, lin_never_halts H, lin_no_spinout H hR hL hb⟩

theorem RInvAt.recur {p : Prog} {s : RState} {n n0 : Nat} (inv : RInvAt p s n n0)
    (hcan : s.tape.tape.Canon) (hrcan : s.refTape.tape.Canon) (hlt : n0 < n)
    (hstate : s.state = s.refState)
    (hal : s.tape.alignsWith s.refTape s.leftmost s.rightmost = true) : LinWitness p.toF := by
  obtain ⟨c, hrun, hc⟩ := inv.run
  obtain ⟨c0, hrun0, hc0⟩ := inv.refRun
  obtain ⟨m, rfl⟩ : ∃ m, n = n0 + m := ⟨n - n0, by omega⟩
  have hw0 := inv.win n0 (Nat.le_refl _) (by omega)
  rw [← inv.refHead] at hw0
  have hst : c0.state = c.state := by rw [hc0.1, hc.1]; exact hstate.symm
  have hshift : hd p.toF (n0 + m) = hd p.toF n0 + (s.tape.head - s.refTape.head) := by
    rw [inv.head, inv.refHead]; omega
  have cellEq : ∀ i : Int, (s.refTape.tape.toCfg s.refState).cell i = (s.tape.tape.toCfg s.state).cell i →
      c0.cell i = c.cell i := by
    intro i h
    rw [hc0.cell, hc.cell]; exact h
  rcases HeadTape.alignsWith_spec hcan hrcan hw0.1 hw0.2 hal s.refState s.state with
    ⟨hδ, hcells⟩ | ⟨hδ, hcells⟩ | ⟨hδ, hcells⟩
  · refine ⟨fun x => s.leftmost ≤ x, s.tape.head - s.refTape.head, n0, m, ?_,
      Or.inl (fun x hx => ?_), Or.inr ⟨s.leftmost, fun x hx => hx⟩, inv.noSpin⟩
    · exact {
        mpos := by omega
        closed := fun x hx => by show s.leftmost ≤ _; have : s.leftmost ≤ x := hx; omega
        run0 := ⟨c0, c, hrun0, hrun, hst, fun x hx => cellEq _ (hcells _ (by
          have : s.leftmost ≤ x := hx
          rw [← inv.refHead]; omega))⟩
        shift := hshift
        win := fun t h1 h2 => (inv.win t h1 h2).1 }
    · show s.leftmost ≤ _; have : s.leftmost ≤ x := hx; omega
  · refine ⟨fun x => x ≤ s.rightmost, s.tape.head - s.refTape.head, n0, m, ?_,
      Or.inr ⟨s.rightmost, fun x hx => hx⟩, Or.inl (fun x hx => ?_), inv.noSpin⟩
    · exact {
        mpos := by omega
        closed := fun x hx => by show _ ≤ s.rightmost; have : x ≤ s.rightmost := hx; omega
        run0 := ⟨c0, c, hrun0, hrun, hst, fun x hx => cellEq _ (hcells _ (by
          have : x ≤ s.rightmost := hx
          rw [← inv.refHead]; omega))⟩
        shift := hshift
        win := fun t h1 h2 => (inv.win t h1 h2).2 }
    · show _ ≤ s.rightmost; have : x ≤ s.rightmost := hx; omega
  · refine ⟨fun x => s.leftmost ≤ x ∧ x ≤ s.rightmost, s.tape.head - s.refTape.head, n0, m, ?_,
      Or.inr ⟨s.rightmost, fun x hx => hx.2⟩, Or.inr ⟨s.leftmost, fun x hx => hx.1⟩, inv.noSpin⟩
    exact {
      mpos := by omega
      closed := fun x hx => by
        show s.leftmost ≤ _ ∧ _ ≤ s.rightmost
        have : s.leftmost ≤ x ∧ x ≤ s.rightmost := hx
        omega
      run0 := ⟨c0, c, hrun0, hrun, hst, fun x hx => cellEq _ (hcells _ (by
        have : s.leftmost ≤ x ∧ x ≤ s.rightmost := hx
        rw [← inv.refHead]; omega) (by
        have : s.leftmost ≤ x ∧ x ≤ s.rightmost := hx
        rw [← inv.refHead]; omega))⟩
      shift := hshift
      win := fun t h1 h2 => inv.win t h1 h2 }

/-! ### one iteration, the loop -/

/-- what an iteration's outcome means -/
def RIterSpec (p : Prog) : Sum RecRes RState → Prop
  | .inr s' => RInv p s'
  | .inl .limit => True
  | .inl .spinout => SpinsOut p.toF
  | .inl (.undefined sl) => ∃ n, HaltsAt p.toF n sl.1 sl.2
  | .inl .recur => LinWitness p.toF

theorem recIter_spec (p : Prog) (cycle : Nat) (s : RState) (inv : RInv p s) :
    RIterSpec p (recIter p cycle s) := by
  cases hget : p.get (s.state, s.tape.tape.scan) with
  | none =>
    rw [recIter_none hget]
    obtain ⟨n, n0, _, a⟩ := inv.times
    obtain ⟨c, hrun, hc⟩ := a.run
    exact ⟨n, c, hrun, hc.1, hc.2.1, hget⟩
  | some i =>
    obtain ⟨color, shift, next⟩ := i
    rw [recIter_some hget]
    by_cases hedge : (s.state == next && s.tape.tape.atEdge shift) = true
    · rw [if_pos hedge]
      obtain ⟨n, n0, _, a⟩ := inv.times
      obtain ⟨c, hrun, hc⟩ := a.run
      simp only [Bool.and_eq_true, beq_iff_eq] at hedge
      obtain ⟨hsame, hat⟩ := hedge
      obtain ⟨hscan, hzero⟩ := (Tape.atEdge_iff inv.canon shift).1 hat
      refine ⟨n, c, hrun, hc.2.1.trans hscan, color, shift, ?_, ?_⟩
      · have hcs : c.state = s.state := hc.1
        rw [hcs]
        have : p.toF s.state s.tape.tape.scan = some (color, shift, next) := hget
        rw [hscan] at this
        rw [this, ← hsame]
      · cases shift
        · exact (hc.2.2.1.symm).allZero hzero
        · exact (hc.2.2.2.symm).allZero hzero
    · rw [if_neg hedge]
      have inv1 := inv.retake cycle
      have hst := s.retake_state cycle
      have htp := s.retake_tape cycle
      rw [← hst, ← htp] at hget hedge ⊢
      generalize s.retake cycle = s1 at *
      obtain ⟨n, n0, hle, a⟩ := inv1.times
      obtain ⟨n', hn', a'⟩ := a.advance inv1.canon hle hget hedge (s1.reset - 1)
      have hcan' : (s1.tape.step shift color (s1.state == next)).1.tape.Canon := by
        rw [HeadTape.step_tape]; exact Tape.canon_step inv1.canon _ _ _
      split
      · next hrec =>
        simp only [Bool.and_eq_true, beq_iff_eq] at hrec
        exact a'.recur hcan' inv1.refCanon (by omega) hrec.1 hrec.2
      · exact ⟨hcan', inv1.refCanon, n', n0, by omega, a'⟩

/-- what a verdict of the loop means -/
def RResSpec (p : Prog) : RecRes → Prop
  | .limit => True
  | .spinout => SpinsOut p.toF
  | .undefined sl => ∃ n, HaltsAt p.toF n sl.1 sl.2
  | .recur => LinWitness p.toF

theorem recLoop_spec (p : Prog) (fuel cycle : Nat) (s : RState) (inv : RInv p s) :
    RResSpec p (recLoop p fuel cycle s) := by
  induction fuel generalizing cycle s with
  | zero => trivial
  | succ fuel ih =>
    have spec := recIter_spec p cycle s inv
    simp only [recLoop]
    cases hi : recIter p cycle s with
    | inl r =>
      rw [hi] at spec
      cases r <;> exact spec
    | inr s' =>
      rw [hi] at spec
      exact ih (cycle + 1) s' spec

theorem quickTermOrRec_spec (p : Prog) (lim : Nat) (h0 : p.get (0, 0) = some (1, true, 1)) :
    RResSpec p (quickTermOrRec p lim) :=
  recLoop_spec p _ _ _ (RInv.init h0)

end BB
