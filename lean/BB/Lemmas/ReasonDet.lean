/-
C04 support, part 8: blank-state pruning is always justified when the table is a function
(every listed entry is the looked-up one).  Forward exactness of the plain backward step, the
lineage of a configuration of the search, and uniqueness of lineages by determinism of the machine.
-/
import BB.Lemmas.ReasonSound

namespace BB.Reason

open BB

/-- every listed entry of the table is the one `get` finds (true for a table without duplicate
    keys, in particular for a sorted `BTreeMap` image) -/
def _root_.BB.Prog.Functional (p : Prog) : Prop := ∀ kv ∈ p, p.get kv.1 = some kv.2

def _root_.BB.Prog.functionalB (p : Prog) : Bool := p.all fun kv => p.get kv.1 == some kv.2

theorem Prog.functional_of_B {p : Prog} (h : p.functionalB = true) : p.Functional := by
  intro kv hkv
  simp only [Prog.functionalB, List.all_eq_true, beq_iff_eq] at h
  exact h kv hkv

/-! ### forward exactness of pull / push -/

theorem SM.unpull {s : Span} {g : Nat → Nat} (hm : s.matchesColor (g 0) = true)
    (hi : s.headIndef = false) (h : SM s.pull (fun i => g (i + 1))) : SM s g := by
  obtain ⟨bs, e⟩ := s
  cases bs with
  | nil =>
    simp only [SM, Span.pull] at h ⊢
    cases e with
    | unknown => exact SpanMatch.nilUnknown
    | blanks =>
      cases h with
      | nilBlanks h0 =>
        simp only [Span.matchesColor, TapeEnd.matchesColor, beq_iff_eq] at hm
        refine SpanMatch.nilBlanks (fun i => ?_)
        cases i with
        | zero => exact hm
        | succ i => exact h0 i
  | cons b rest =>
    obtain ⟨c, n⟩ := b
    simp only [Span.matchesColor, beq_iff_eq] at hm
    simp only [Span.headIndef, beq_eq_false_iff_ne, ne_eq] at hi
    by_cases hn1 : n = 1
    · subst hn1
      simp only [SM, Span.pull, beq_self_eq_true, if_true] at h ⊢
      exact SpanMatch.cons 1 (fun _ => rfl) (fun h => absurd h (by decide))
        (fun i hi => by have : i = 0 := by omega
                        subst this; exact hm.symm) h
    · have e1 : (n == 1) = false := by simp [hn1]
      have e0 : (n == 0) = false := by simp [hi]
      simp only [SM, Span.pull, e1, e0, Bool.false_eq_true, if_false] at h ⊢
      cases h with
      | @cons _ _ _ _ _ k h1 h2 h3 h4 =>
        have hk : k = n - 1 := h1 (by omega)
        subst hk
        refine SpanMatch.cons n (fun _ => rfl) (fun h => absurd h hi) (fun i hik => ?_) ?_
        · cases i with
          | zero => exact hm.symm
          | succ i => exact h3 i (by omega)
        · refine h4.congr (fun i => ?_)
          show g (i + (n - 1) + 1) = g (i + n)
          congr 1; omega

theorem SM.unpush {s : Span} {g : Nat → Nat} {c : Nat} (h : SM (s.push c 1) g) :
    g 0 = c ∧ SM s (fun i => g (i + 1)) := by
  obtain ⟨bs, e⟩ := s
  cases bs with
  | nil =>
    simp only [Span.push] at h
    split at h
    · rename_i hc
      simp only [Bool.and_eq_true, beq_iff_eq] at hc
      obtain ⟨hc0, he⟩ := hc
      subst he
      simp only [SM] at h ⊢
      cases h with
      | nilBlanks h0 => exact ⟨by rw [h0 0, hc0], SpanMatch.nilBlanks (fun i => h0 (i + 1))⟩
    · simp only [SM, Span.pushBlock] at h ⊢
      cases h with
      | @cons _ _ _ _ _ k h1 h2 h3 h4 =>
        have hk : k = 1 := h1 (by decide)
        subst hk
        exact ⟨h3 0 (by omega), h4⟩
  | cons b rest =>
    obtain ⟨col, n⟩ := b
    simp only [Span.push] at h
    split at h
    · rename_i hc
      simp only [Bool.and_eq_true, beq_iff_eq, bne_iff_ne, ne_eq] at hc
      obtain ⟨hc0, hn⟩ := hc
      simp only [SM] at h ⊢
      cases h with
      | @cons _ _ _ _ _ k h1 h2 h3 h4 =>
        have hk : k = n + 1 := h1 (by omega)
        subst hk
        refine ⟨by rw [h3 0 (by omega), hc0], ?_⟩
        refine SpanMatch.cons n (fun _ => rfl) (fun h => absurd h hn)
          (fun i hi => h3 (i + 1) (by omega)) ?_
        exact h4.congr (fun i => rfl)
    · simp only [SM, Span.pushBlock] at h ⊢
      cases h with
      | @cons _ _ _ _ _ k h1 h2 h3 h4 =>
        have hk : k = 1 := h1 (by decide)
        subst hk
        exact ⟨h3 0 (by omega), h4⟩

/-- every configuration in γ of the back-stepped tape steps forward into γ of the tape -/
theorem forward_exact {q s r pr : Nat} {sh : Bool} {t : Backstepper} {c : Cfg}
    (hc : t.checkStep sh pr = true) (hi : t.pullsIndef sh = false)
    (hg : GammaT q (t.backstep sh r) c) : GammaT s t (c.move pr sh s) := by
  have hp := isPred_move c pr sh s
  obtain ⟨_, hsc, hpull, hpush⟩ := (gammaT_sides q _ c sh).1 hg
  rw [pullSpan_backstep] at hpull
  rw [pushSpan_backstep] at hpush
  rw [gammaT_sides s t _ sh]
  have hpush' := hpush.unpush
  refine ⟨move_state c pr sh s, ?_, ?_, ?_⟩
  · rw [← hp.push0]; exact hpush'.1
  · apply SM.unpull
    · rw [hp.pull0]; exact hc
    · exact hi
    · exact hpull.congr (fun i => hp.pullS i)
  · exact hpush'.2.congr (fun i => hp.pushS i)

/-! ### lineage -/

/-- tapes that agree up to the `head` counter -/
def SameSpans (t1 t2 : Backstepper) : Prop :=
  t1.scan = t2.scan ∧ t1.lspan = t2.lspan ∧ t1.rspan = t2.rspan

theorem SameSpans.refl (t : Backstepper) : SameSpans t t := ⟨rfl, rfl, rfl⟩

theorem SameSpans.symm {t1 t2 : Backstepper} (h : SameSpans t1 t2) : SameSpans t2 t1 :=
  ⟨h.1.symm, h.2.1.symm, h.2.2.symm⟩

theorem SameSpans.backstep {t1 t2 : Backstepper} (h : SameSpans t1 t2) (sh : Bool) (r : Nat) :
    SameSpans (t1.backstep sh r) (t2.backstep sh r) := by
  obtain ⟨h1, h2, h3⟩ := h
  cases sh <;> simp [SameSpans, Backstepper.backstep, h1, h2, h3]

theorem SameSpans.gammaT {t1 t2 : Backstepper} (h : SameSpans t1 t2) {q : Nat} {c : Cfg}
    (hg : GammaT q t1 c) : GammaT q t2 c := by
  obtain ⟨h1, h2, h3⟩ := h
  simp only [GammaT] at hg ⊢
  rw [← h1, ← h2, ← h3]; exact hg

theorem SameSpans.checkStep {t1 t2 : Backstepper} (h : SameSpans t1 t2) (sh : Bool) (pr : Nat) :
    t1.checkStep sh pr = t2.checkStep sh pr := by
  obtain ⟨h1, h2, h3⟩ := h
  cases sh <;> simp [Backstepper.checkStep, Backstepper.pullSpan, h2, h3]

theorem SameSpans.pullsIndef {t1 t2 : Backstepper} (h : SameSpans t1 t2) (sh : Bool) :
    t1.pullsIndef sh = t2.pullsIndef sh := by
  obtain ⟨h1, h2, h3⟩ := h
  cases sh <;> simp [Backstepper.pullsIndef, Backstepper.pullSpan, h2, h3]

/-- `(q, t)` is obtained from a target by `d` plain backward steps through real instructions -/
inductive Lineage (p : Prog) (targets : Configs) : Nat → Nat → Backstepper → Prop
  | target {X : Config} : X ∈ targets → Lineage p targets 0 X.state X.tape
  | step {d s q r pr : Nat} {sh : Bool} {t : Backstepper} :
      Lineage p targets d s t → p.get (q, r) = some (pr, sh, s) → t.checkStep sh pr = true →
      t.pullsIndef sh = false → Lineage p targets (d + 1) q (t.backstep sh r)

theorem Lineage.inv_zero {p : Prog} {targets : Configs} {q : Nat} {t : Backstepper}
    (h : Lineage p targets 0 q t) : ∃ X ∈ targets, X.state = q ∧ X.tape = t := by
  cases h with
  | target hX => exact ⟨_, hX, rfl, rfl⟩

theorem Lineage.inv_succ {p : Prog} {targets : Configs} {d q : Nat} {t : Backstepper}
    (h : Lineage p targets (d + 1) q t) :
    ∃ s r pr sh t', Lineage p targets d s t' ∧ p.get (q, r) = some (pr, sh, s) ∧
      t'.checkStep sh pr = true ∧ t'.pullsIndef sh = false ∧ t = t'.backstep sh r := by
  cases h with
  | step h1 h2 h3 h4 => exact ⟨_, _, _, _, _, h1, h2, h3, h4, rfl⟩

/-- what the determinism argument needs to know about the targets -/
structure TargetsCoherent (p : Prog) (targets : Configs) : Prop where
  /-- two targets with a common concrete configuration are the same tape -/
  same : ∀ T1 ∈ targets, ∀ T2 ∈ targets, ∀ c, Gamma T1 c → Gamma T2 c →
    SameSpans T1.tape T2.tape
  /-- if the machine can step from a target configuration, it stays in the same target, and
      stepping the target back over that instruction gives the target again -/
  stay : ∀ T ∈ targets, ∀ c, Gamma T c → ∀ pr sh s, p.get (c.state, c.scan) = some (pr, sh, s) →
    s = T.state ∧ Gamma T (c.move pr sh s) ∧
    ∀ t', SameSpans t' T.tape → SameSpans (t'.backstep sh c.scan) T.tape

/-- **uniqueness of lineages**: two lineages of the same state that share a concrete configuration
    are the same tape (up to the head counter), the shallower first -/
theorem lineage_unique {p : Prog} {targets : Configs} (hT : TargetsCoherent p targets) :
    ∀ (d1 d2 : Nat) (q : Nat) (t1 t2 : Backstepper) (c : Cfg), d1 ≤ d2 →
    Lineage p targets d1 q t1 → Lineage p targets d2 q t2 →
    GammaT q t1 c → GammaT q t2 c → SameSpans t1 t2 := by
  intro d1
  induction d1 with
  | zero =>
    intro d2
    induction d2 with
    | zero =>
      intro q t1 t2 c _ h1 h2 g1 g2
      obtain ⟨X1, hX1, rfl, rfl⟩ := h1.inv_zero
      obtain ⟨X2, hX2, hs, rfl⟩ := h2.inv_zero
      exact hT.same X1 hX1 X2 hX2 c g1 (by rw [gamma_iff, hs]; exact g2)
    | succ m ihm =>
      intro q t1 t2 c _ h1 h2 g1 g2
      obtain ⟨X1, hX1, rfl, rfl⟩ := h1.inv_zero
      obtain ⟨s, r, pr, sh, t2', hl, hget, hck, hpi, rfl⟩ := h2.inv_succ
      have hr : c.scan = r := by rw [g2.2.1, scan_backstep]
      have hq : c.state = X1.state := g1.1
      have hget' : p.get (c.state, c.scan) = some (pr, sh, s) := by rw [hq, hr]; exact hget
      obtain ⟨hs, hstay, hback⟩ := hT.stay X1 hX1 c g1 pr sh s hget'
      subst hs
      have hfe := forward_exact (s := X1.state) hck hpi g2
      have := ihm X1.state X1.tape t2' (c.move pr sh X1.state) (Nat.zero_le _)
        (Lineage.target hX1) hl hstay hfe
      rw [← hr]
      exact (hback t2' this.symm).symm
  | succ n ihn =>
    intro d2 q t1 t2 c hle h1 h2 g1 g2
    obtain ⟨m, rfl⟩ : ∃ m, d2 = m + 1 := ⟨d2 - 1, by omega⟩
    obtain ⟨s1, r1, pr1, sh1, t1', hl1, hget1, hck1, hpi1, rfl⟩ := h1.inv_succ
    obtain ⟨s2, r2, pr2, sh2, t2', hl2, hget2, hck2, hpi2, rfl⟩ := h2.inv_succ
    have hr1 : c.scan = r1 := by rw [g1.2.1, scan_backstep]
    have hr2 : c.scan = r2 := by rw [g2.2.1, scan_backstep]
    have : r1 = r2 := by rw [← hr1, ← hr2]
    subst this
    rw [hget1] at hget2
    simp only [Option.some.injEq, Prod.mk.injEq] at hget2
    obtain ⟨rfl, rfl, rfl⟩ := hget2
    have f1 := forward_exact (s := s1) hck1 hpi1 g1
    have f2 := forward_exact (s := s1) hck2 hpi2 g2
    exact (ihn m s1 t1' t2' _ (by omega) hl1 hl2 f1 f2).backstep sh1 r1

end BB.Reason
