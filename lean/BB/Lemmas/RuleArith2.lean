/-
C11 (rule arithmetic is exact), part 2: `Rule.insert`, `make_rule`.
-/
import BB.Lemmas.RuleArith

namespace BB.RuleArith

open BB

/-! ### the order on indices -/

theorem lt_irrefl (a : Index) : Index.lt a a = false := by
  obtain ⟨s, i⟩ := a
  cases s <;> simp [Index.lt]

theorem lt_trans {a b c : Index} (h1 : Index.lt a b = true) (h2 : Index.lt b c = true) :
    Index.lt a c = true := by
  obtain ⟨s, i⟩ := a; obtain ⟨s', i'⟩ := b; obtain ⟨s'', i''⟩ := c
  cases s <;> cases s' <;> cases s'' <;> simp [Index.lt] at * <;> omega

theorem lt_trichotomy (a b : Index) : Index.lt a b = true ∨ a = b ∨ Index.lt b a = true := by
  obtain ⟨s, i⟩ := a; obtain ⟨s', i'⟩ := b
  cases s <;> cases s' <;> simp [Index.lt] <;> omega

theorem lt_ne {a b : Index} (h : Index.lt a b = true) : a ≠ b := by
  intro e; subst e; rw [lt_irrefl] at h; cases h

/-! ### lookup, keys -/

theorem lookup_cons (k k' : Index) (v : Op) (r : Rule) :
    List.lookup k ((k', v) :: r) = if k = k' then some v else List.lookup k r := by
  rw [List.lookup_cons]
  by_cases h : k = k'
  · subst h; simp
  · have : (k == k') = false := by simpa using h
    rw [this, if_neg h]

theorem lookup_none_iff (r : Rule) (k : Index) : List.lookup k r = none ↔ k ∉ keys r := by
  induction r with
  | nil => simp [keys]
  | cons e r ih =>
    obtain ⟨k', v⟩ := e
    rw [lookup_cons]
    unfold keys at *
    by_cases h : k = k'
    · subst h; simp
    · rw [if_neg h, ih]; simp [h]

theorem lookup_some_mem {r : Rule} {k : Index} {v : Op} (h : List.lookup k r = some v) :
    (k, v) ∈ r := by
  induction r with
  | nil => simp at h
  | cons e r ih =>
    obtain ⟨k', v'⟩ := e
    rw [lookup_cons] at h
    by_cases hk : k = k'
    · subst hk; rw [if_pos rfl] at h; cases h; exact List.mem_cons_self
    · rw [if_neg hk] at h; exact List.mem_cons_of_mem _ (ih h)

theorem mem_keys_of_mem {r : Rule} {k : Index} {v : Op} (h : (k, v) ∈ r) : k ∈ keys r := by
  unfold keys; exact List.mem_map.mpr ⟨(k, v), h, rfl⟩

/-- with distinct keys, membership and lookup coincide -/
theorem mem_iff_lookup {r : Rule} (hnd : (keys r).Nodup) (k : Index) (v : Op) :
    (k, v) ∈ r ↔ List.lookup k r = some v := by
  constructor
  · intro h
    induction r with
    | nil => cases h
    | cons e r ih =>
      obtain ⟨k', v'⟩ := e
      rw [lookup_cons]
      simp only [keys, List.map_cons, List.nodup_cons] at hnd
      rcases List.mem_cons.mp h with h1 | h1
      · cases h1; rw [if_pos rfl]
      · have : k ≠ k' := by
          intro e; subst e; exact hnd.1 (mem_keys_of_mem h1)
        rw [if_neg this]; exact ih hnd.2 h1
  · exact lookup_some_mem

theorem sorted_nodup {r : Rule} (h : Sorted r) : (keys r).Nodup := by
  induction r with
  | nil => simp [keys]
  | cons e r ih =>
    unfold Sorted at h
    rw [List.pairwise_cons] at h
    simp only [keys, List.map_cons, List.nodup_cons]
    refine ⟨?_, ih h.2⟩
    intro hm
    obtain ⟨e', he', hk⟩ := List.mem_map.mp hm
    have := h.1 e' he'
    rw [hk, lt_irrefl] at this
    cases this

/-! ### Rule.insert -/

theorem lookup_insert (r : Rule) (k k' : Index) (v : Op) :
    List.lookup k' (Rule.insert r k v) = if k' = k then some v else List.lookup k' r := by
  induction r with
  | nil => simp only [Rule.insert, lookup_cons]
  | cons e r ih =>
    obtain ⟨k0, v0⟩ := e
    simp only [Rule.insert]
    split
    · rw [lookup_cons]
    · split
      · next hk =>
        have hk : k = k0 := by simpa using hk
        subst hk
        rw [lookup_cons, lookup_cons]
        by_cases h : k' = k <;> simp [h]
      · next hk =>
        have hk : k ≠ k0 := by simpa using hk
        rw [lookup_cons, lookup_cons, ih]
        by_cases h : k' = k0
        · have : k' ≠ k := by intro e; exact hk (e ▸ h)
          simp [h]
          intro e; exact absurd e.symm hk
        · simp [h]

theorem mem_insert {r : Rule} {k : Index} {v : Op} {e : Index × Op} (h : e ∈ Rule.insert r k v) :
    e = (k, v) ∨ e ∈ r := by
  induction r with
  | nil => simp only [Rule.insert, List.mem_singleton] at h; exact Or.inl h
  | cons e0 r ih =>
    obtain ⟨k0, v0⟩ := e0
    simp only [Rule.insert] at h
    split at h
    · rcases List.mem_cons.mp h with h | h
      · exact Or.inl h
      · exact Or.inr h
    · split at h
      · rcases List.mem_cons.mp h with h | h
        · exact Or.inl h
        · exact Or.inr (List.mem_cons_of_mem _ h)
      · rcases List.mem_cons.mp h with h | h
        · exact Or.inr (h ▸ List.mem_cons_self)
        · rcases ih h with h | h
          · exact Or.inl h
          · exact Or.inr (List.mem_cons_of_mem _ h)

theorem sorted_insert {r : Rule} (hs : Sorted r) (k : Index) (v : Op) :
    Sorted (Rule.insert r k v) := by
  induction r with
  | nil => simp [Rule.insert, Sorted]
  | cons e0 r ih =>
    obtain ⟨k0, v0⟩ := e0
    unfold Sorted at hs
    have hs' := List.pairwise_cons.mp hs
    simp only [Rule.insert]
    split
    · next hlt =>
      unfold Sorted
      refine List.pairwise_cons.mpr ⟨?_, hs⟩
      intro e he
      rcases List.mem_cons.mp he with he | he
      · subst he; exact hlt
      · exact lt_trans hlt (hs'.1 e he)
    · next hnlt =>
      split
      · next hk =>
        have hk : k = k0 := by simpa using hk
        subst hk
        unfold Sorted
        exact List.pairwise_cons.mpr ⟨hs'.1, hs'.2⟩
      · next hk =>
        have hk : k ≠ k0 := by simpa using hk
        have hgt : Index.lt k0 k = true := by
          rcases lt_trichotomy k k0 with h | h | h
          · exact absurd h hnlt
          · exact absurd h hk
          · exact h
        unfold Sorted
        refine List.pairwise_cons.mpr ⟨?_, ih hs'.2⟩
        intro e he
        rcases mem_insert he with he | he
        · subst he; exact hgt
        · exact hs'.1 e he

/-! ### zip4 -/

theorem zip4_getElem? (a b c d : List Nat) (j : Nat) (x y z w : Nat) :
    (zip4 a b c d)[j]? = some (x, y, z, w) ↔
      a[j]? = some x ∧ b[j]? = some y ∧ c[j]? = some z ∧ d[j]? = some w := by
  induction a generalizing b c d j with
  | nil => simp [zip4]
  | cons a0 as ih =>
    cases b with
    | nil => simp [zip4]
    | cons b0 bs =>
      cases c with
      | nil => simp [zip4]
      | cons c0 cs =>
        cases d with
        | nil => simp [zip4]
        | cons d0 ds =>
          cases j with
          | zero => simp [zip4]
          | succ j => simp only [zip4, List.getElem?_cons_succ]; exact ih bs cs ds j

theorem zip4_length (a b c d : List Nat) :
    (zip4 a b c d).length = min (min a.length b.length) (min c.length d.length) := by
  induction a generalizing b c d with
  | nil => simp [zip4]
  | cons a0 as ih =>
    cases b with
    | nil => simp [zip4]
    | cons b0 bs =>
      cases c with
      | nil => simp [zip4]
      | cons c0 cs =>
        cases d with
        | nil => simp [zip4]
        | cons d0 ds => simp only [zip4, List.length_cons, ih]; omega

/-! ### make_rule -/

/-- the loop over one side: what the result rule looks up, and sortedness -/
theorem spans_some (s : Bool) (l : List (Nat × Nat × Nat × Nat)) (i : Nat) (rule rule' : Rule)
    (h : makeRuleSpans s l i rule = .ok (some rule'))
    (hpre : ∀ j, i ≤ j → List.lookup (s, j) rule = none) :
    (∀ j x, l[j]? = some x →
        calculateDiff x.1 x.2.1 x.2.2.1 x.2.2.2
          = .ok ((List.lookup (s, i + j) rule').map DiffResult.got)) ∧
      (∀ k : Index, (k.1 ≠ s ∨ k.2 < i ∨ i + l.length ≤ k.2) →
        List.lookup k rule' = List.lookup k rule) ∧
      (Sorted rule → Sorted rule') := by
  induction l generalizing i rule with
  | nil =>
    simp only [makeRuleSpans] at h
    cases h
    refine ⟨?_, fun _ _ => rfl, id⟩
    intro j x hx; simp at hx
  | cons q rest ih =>
    obtain ⟨a, b, c, d⟩ := q
    simp only [makeRuleSpans] at h
    split at h
    · cases h
    · next hcd =>
      have hpre' : ∀ j, i + 1 ≤ j → List.lookup (s, j) rule = none :=
        fun j hj => hpre j (by omega)
      obtain ⟨h1, h2, h3⟩ := ih (i + 1) rule h hpre'
      refine ⟨?_, ?_, h3⟩
      · intro j x hx
        cases j with
        | zero =>
          simp only [List.getElem?_cons_zero, Option.some.injEq] at hx
          subst hx
          rw [Nat.add_zero, h2 (s, i) (Or.inr (Or.inl (by simp))), hpre i (Nat.le_refl _)]
          exact hcd
        | succ j =>
          simp only [List.getElem?_cons_succ] at hx
          have := h1 j x hx
          rw [show i + (j + 1) = i + 1 + j by omega]
          exact this
      · intro k hk
        apply h2
        simp only [List.length_cons] at hk
        rcases hk with hk | hk | hk
        · exact Or.inl hk
        · exact Or.inr (Or.inl (by omega))
        · exact Or.inr (Or.inr (by omega))
    · cases h
    · next op hcd =>
      have hpre' : ∀ j, i + 1 ≤ j → List.lookup (s, j) (Rule.insert rule (s, i) op) = none := by
        intro j hj
        rw [lookup_insert, if_neg (by intro e; injection e with _ e; omega)]
        exact hpre j (by omega)
      obtain ⟨h1, h2, h3⟩ := ih (i + 1) _ h hpre'
      refine ⟨?_, ?_, fun hs => h3 (sorted_insert hs _ _)⟩
      · intro j x hx
        cases j with
        | zero =>
          simp only [List.getElem?_cons_zero, Option.some.injEq] at hx
          subst hx
          rw [Nat.add_zero, h2 (s, i) (Or.inr (Or.inl (by simp))), lookup_insert, if_pos rfl]
          exact hcd
        | succ j =>
          simp only [List.getElem?_cons_succ] at hx
          have := h1 j x hx
          rw [show i + (j + 1) = i + 1 + j by omega]
          exact this
      · intro k hk
        have hk' : k.1 ≠ s ∨ k.2 < i + 1 ∨ i + 1 + rest.length ≤ k.2 := by
          simp only [List.length_cons] at hk
          rcases hk with hk | hk | hk
          · exact Or.inl hk
          · exact Or.inr (Or.inl (by omega))
          · exact Or.inr (Or.inr (by omega))
        rw [h2 k hk', lookup_insert, if_neg]
        intro e; subst e; simp at hk; omega

theorem spans_no_error (s : Bool) (l : List (Nat × Nat × Nat × Nat)) (i : Nat) (rule : Rule)
    (e : PErr) : makeRuleSpans s l i rule ≠ .error e := by
  induction l generalizing i rule with
  | nil => simp [makeRuleSpans]
  | cons q rest ih =>
    obtain ⟨a, b, c, d⟩ := q
    simp only [makeRuleSpans]
    split
    · next e' hcd => exact absurd hcd (calc_diff_no_error' a b c d e')
    · exact ih _ _
    · simp
    · exact ih _ _

theorem spans_none_iff (s : Bool) (l : List (Nat × Nat × Nat × Nat)) (i : Nat) (rule : Rule) :
    makeRuleSpans s l i rule = .ok none ↔
      ∃ x ∈ l, calculateDiff x.1 x.2.1 x.2.2.1 x.2.2.2 = .ok (some .unknown) := by
  induction l generalizing i rule with
  | nil => simp [makeRuleSpans]
  | cons q rest ih =>
    obtain ⟨a, b, c, d⟩ := q
    simp only [makeRuleSpans, List.mem_cons, exists_eq_or_imp]
    split
    · next e' hcd => exact absurd hcd (calc_diff_no_error' a b c d e')
    · next hcd => rw [ih, hcd]; simp
    · next hcd => rw [hcd]; simp
    · next op hcd => rw [ih, hcd]; simp

/-- decomposition of a successful `makeRule` into its two loops -/
theorem make_rule_split {c1 c2 c3 c4 : Counts} {rule : Rule}
    (h : makeRule c1 c2 c3 c4 = .ok (some rule)) :
    ∃ ruleL, makeRuleSpans false (zip4 c1.1 c2.1 c3.1 c4.1) 0 [] = .ok (some ruleL) ∧
      makeRuleSpans true (zip4 c1.2 c2.2 c3.2 c4.2) 0 ruleL = .ok (some rule) := by
  unfold makeRule at h
  simp only at h
  split at h
  · cases h
  · cases h
  · next ruleL hL => exact ⟨ruleL, hL, h⟩

theorem make_rule_facts {c1 c2 c3 c4 : Counts} {rule : Rule}
    (h : makeRule c1 c2 c3 c4 = .ok (some rule)) :
    (∀ s j x, (zip4 (cside c1 s) (cside c2 s) (cside c3 s) (cside c4 s))[j]? = some x →
        calculateDiff x.1 x.2.1 x.2.2.1 x.2.2.2
          = .ok ((List.lookup (s, j) rule).map DiffResult.got)) ∧
      (∀ s j, (zip4 (cside c1 s) (cside c2 s) (cside c3 s) (cside c4 s)).length ≤ j →
        List.lookup (s, j) rule = none) ∧
      Sorted rule := by
  obtain ⟨ruleL, hL, hR⟩ := make_rule_split h
  obtain ⟨l1, l2, l3⟩ := spans_some false _ 0 [] ruleL hL (fun _ _ => rfl)
  have hpre : ∀ j, 0 ≤ j → List.lookup (true, j) ruleL = none := by
    intro j _
    rw [l2 (true, j) (Or.inl (by simp))]; rfl
  obtain ⟨r1, r2, r3⟩ := spans_some true _ 0 ruleL rule hR hpre
  refine ⟨?_, ?_, r3 (l3 (by simp [Sorted]))⟩
  · intro s j x hx
    cases s with
    | false =>
      simp only [cside, Bool.false_eq_true, if_false] at hx
      rw [r2 (false, j) (Or.inl (by simp))]
      have := l1 j x hx
      rwa [Nat.zero_add] at this
    | true =>
      simp only [cside, if_true] at hx
      have := r1 j x hx
      rwa [Nat.zero_add] at this
  · intro s j hj
    cases s with
    | false =>
      simp only [cside, Bool.false_eq_true, if_false] at hj
      rw [r2 (false, j) (Or.inl (by simp)), l2 (false, j) (Or.inr (Or.inr (by simpa using hj)))]
      rfl
    | true =>
      simp only [cside, if_true] at hj
      rw [r2 (true, j) (Or.inr (Or.inr (by simpa using hj))), hpre j (Nat.zero_le _)]

theorem make_rule_lookup' (c1 c2 c3 c4 : Counts) (rule : Rule)
    (h : makeRule c1 c2 c3 c4 = .ok (some rule)) (s : Bool) (i a b c d : Nat)
    (ha : (cside c1 s)[i]? = some a) (hb : (cside c2 s)[i]? = some b)
    (hc : (cside c3 s)[i]? = some c) (hd : (cside c4 s)[i]? = some d) :
    calculateDiff a b c d = .ok ((List.lookup (s, i) rule).map DiffResult.got) :=
  (make_rule_facts h).1 s i (a, b, c, d) ((zip4_getElem? _ _ _ _ i a b c d).mpr ⟨ha, hb, hc, hd⟩)

theorem make_rule_keys_in_range' (c1 c2 c3 c4 : Counts) (rule : Rule)
    (h : makeRule c1 c2 c3 c4 = .ok (some rule)) (s : Bool) (i : Nat)
    (hk : (s, i) ∈ keys rule) :
    i < (cside c1 s).length ∧ i < (cside c2 s).length ∧
      i < (cside c3 s).length ∧ i < (cside c4 s).length := by
  have h2 := (make_rule_facts h).2.1 s i
  rw [zip4_length] at h2
  by_cases hi : min (min (cside c1 s).length (cside c2 s).length)
      (min (cside c3 s).length (cside c4 s).length) ≤ i
  · exact absurd hk ((lookup_none_iff rule (s, i)).mp (h2 hi))
  · omega

theorem make_rule_sorted' (c1 c2 c3 c4 : Counts) (rule : Rule)
    (h : makeRule c1 c2 c3 c4 = .ok (some rule)) : Sorted rule :=
  (make_rule_facts h).2.2

theorem make_rule_no_error' (c1 c2 c3 c4 : Counts) (e : PErr) :
    makeRule c1 c2 c3 c4 ≠ .error e := by
  unfold makeRule
  simp only
  split
  · next e' he => exact absurd he (spans_no_error _ _ _ _ _)
  · simp
  · exact spans_no_error _ _ _ _ _

theorem make_rule_none_iff' (c1 c2 c3 c4 : Counts) :
    makeRule c1 c2 c3 c4 = .ok none ↔
      ∃ (s : Bool) (i a b c d : Nat), (cside c1 s)[i]? = some a ∧ (cside c2 s)[i]? = some b ∧
        (cside c3 s)[i]? = some c ∧ (cside c4 s)[i]? = some d ∧
        calculateDiff a b c d = .ok (some .unknown) := by
  have key : ∀ s, (∃ x ∈ zip4 (cside c1 s) (cside c2 s) (cside c3 s) (cside c4 s),
        calculateDiff x.1 x.2.1 x.2.2.1 x.2.2.2 = .ok (some .unknown)) ↔
      ∃ (i a b c d : Nat), (cside c1 s)[i]? = some a ∧ (cside c2 s)[i]? = some b ∧
        (cside c3 s)[i]? = some c ∧ (cside c4 s)[i]? = some d ∧
        calculateDiff a b c d = .ok (some .unknown) := by
    intro s
    constructor
    · rintro ⟨⟨a, b, c, d⟩, hx, hcd⟩
      obtain ⟨i, hi⟩ := List.getElem?_of_mem hx
      obtain ⟨ha, hb, hc, hd⟩ := (zip4_getElem? _ _ _ _ i a b c d).mp hi
      exact ⟨i, a, b, c, d, ha, hb, hc, hd, hcd⟩
    · rintro ⟨i, a, b, c, d, ha, hb, hc, hd, hcd⟩
      exact ⟨(a, b, c, d),
        List.mem_of_getElem? ((zip4_getElem? _ _ _ _ i a b c d).mpr ⟨ha, hb, hc, hd⟩), hcd⟩
  have kf := key false
  have kt := key true
  simp only [cside, Bool.false_eq_true, if_false, if_true] at kf kt
  unfold makeRule
  simp only
  constructor
  · intro h
    split at h
    · cases h
    · next hL =>
      obtain ⟨i, a, b, c, d, hh⟩ := kf.mp ((spans_none_iff _ _ _ _).mp hL)
      exact ⟨false, i, a, b, c, d, by simpa [cside] using hh⟩
    · next ruleL hL =>
      obtain ⟨i, a, b, c, d, hh⟩ := kt.mp ((spans_none_iff _ _ _ _).mp h)
      exact ⟨true, i, a, b, c, d, by simpa [cside] using hh⟩
  · rintro ⟨s, i, a, b, c, d, hh⟩
    split
    · next e' he => exact absurd he (spans_no_error _ _ _ _ _)
    · rfl
    · next ruleL hL =>
      cases s with
      | false =>
        exfalso
        have := (spans_none_iff false _ 0 []).mpr (kf.mpr ⟨i, a, b, c, d, by simpa [cside] using hh⟩)
        rw [this] at hL; cases hL
      | true =>
        exact (spans_none_iff true _ 0 ruleL).mpr (kt.mpr ⟨i, a, b, c, d, by simpa [cside] using hh⟩)

theorem make_rule_reproduces' (c1 c2 c3 c4 : Counts) (rule : Rule)
    (h : makeRule c1 c2 c3 c4 = .ok (some rule)) (s : Bool) (i a b c d : Nat)
    (ha : (cside c1 s)[i]? = some a) (hb : (cside c2 s)[i]? = some b)
    (hc : (cside c3 s)[i]? = some c) (hd : (cside c4 s)[i]? = some d) :
    match List.lookup (s, i) rule with
    | none => a = b ∧ b = c ∧ c = d
    | some (.plus δ) => δ ≠ 0 ∧ (b : Int) = a + δ ∧ (c : Int) = b + δ ∧ (d : Int) = c + δ
    | some (.mult q r) =>
      2 ≤ q ∧ 0 ≤ r ∧ r < a ∧
        (b : Int) = q * a + r ∧ (c : Int) = q * b + r ∧ (d : Int) = q * c + r := by
  have hl := make_rule_lookup' c1 c2 c3 c4 rule h s i a b c d ha hb hc hd
  cases hlk : List.lookup (s, i) rule with
  | none =>
    rw [hlk] at hl
    exact (calc_diff_none_iff' a b c d).mp hl
  | some op =>
    rw [hlk] at hl
    cases op with
    | plus δ =>
      obtain ⟨h0, _, _, e1, e2, e3⟩ := (calc_diff_plus_iff' a b c d δ).mp hl
      exact ⟨h0, e1, e2, e3⟩
    | mult q r =>
      obtain ⟨_, _, hq, r0, ra, e1, e2, e3⟩ := (calc_diff_mult_iff' a b c d q r).mp hl
      exact ⟨hq, r0, ra, e1, e2, e3⟩

end BB.RuleArith
