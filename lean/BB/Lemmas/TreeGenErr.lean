/-
C10 support, part 7: exactly when `build_tree` fails (panics in the overflow-checked build).
-/
import BB.Lemmas.TreeGenBranch

namespace BB.Tree

open BB

theorem roots_ne_nil_iff (S C : Nat) : (∃ i, i ∈ roots S C) ↔ 1 ≤ S ∧ 1 ≤ C := by
  unfold roots
  constructor
  · rintro ⟨i, hi⟩
    have := mem_makeInstrs.mp hi
    omega
  · intro h
    exact ⟨(0, false, 0), mem_makeInstrs.mpr ⟨by simp only; omega, by simp only; omega⟩⟩

theorem zero_root_mem {S C : Nat} (hS : 1 ≤ S) (hC : 1 ≤ C) : ((0, false, 0) : Instr) ∈ roots S C :=
  mem_makeInstrs.mpr ⟨by simp only; omega, by simp only; omega⟩

/-- with at least two cycles the task of `B0 ↦ 0LA` reaches the undefined slot `A1` -/
theorem rootUndefined_zero {lim : Nat} (h : 2 ≤ lim) : RootUndefined lim (0, false, 0) := by
  have h2 : runForUndefined (initProg (0, false, 0)) 1 Tape.initStepped 2 =
      (.undefined (0, 1), ⟨1, [], []⟩) := by decide
  refine ⟨(0, 1), ⟨1, [], []⟩, ?_⟩
  have := run_undefined_mono h2 (lim - 2)
  rwa [show 2 + (lim - 2) = lim by omega] at this

/-- with at most one cycle no task reaches an undefined slot (`B0` is defined) -/
theorem not_rootUndefined {lim : Nat} (h : lim ≤ 1) (i : Instr) : ¬ RootUndefined lim i := by
  rintro ⟨slot, t', hr⟩
  rcases Nat.le_one_iff_eq_zero_or_eq_one.mp h with rfl | rfl
  · simp [runForUndefined] at hr
  · have hg : (initProg i).get (1, Tape.initStepped.scan) = some i := initProg_get' i
    obtain ⟨c, sh, nx⟩ := i
    simp only [runForUndefined, hg] at hr
    split at hr
    · simp at hr
    · split at hr <;> simp at hr
where
  initProg_get' (i : Instr) : (initProg i).get (1, Tape.initStepped.scan) = some i := by
    unfold initProg; exact Prog.get_insert_self ..

theorem mul_eq_small {S C k : Nat} (h : S * C = k) (hk : 1 ≤ k) : 1 ≤ S ∧ 1 ≤ C :=
  pos_of_mul_ge (by omega)

/-- **exactly when `build_tree` fails.** -/
theorem buildTreeLists_error_iff' (S C : Nat) (halt : Bool) (lim : Nat) :
    (∃ e, buildTreeLists S C halt lim = .error e) ↔
      u64Size ≤ S * C ∨ (1 ≤ S * C ∧ S * C < 2 + (if halt then 1 else 0)) ∨
      (S * C = 2 + (if halt then 1 else 0) ∧ 2 ≤ lim) := by
  rw [buildTreeLists_error_iff_task]
  constructor
  · rintro ⟨i, hi, he⟩
    have hSC := (roots_ne_nil_iff S C).mp ⟨i, hi⟩
    have hpos : 1 ≤ S * C := Nat.mul_le_mul hSC.1 hSC.2
    rcases (buildTask_error_iff S C halt lim i).mp he with h | ⟨h0, hu⟩
    · by_cases h1 : S * C < u64Size
      · exact .inr (.inl ⟨hpos, by
          apply Classical.byContradiction
          intro h2
          exact h ⟨h1, by omega⟩⟩)
      · exact .inl (by omega)
    · by_cases hsz : 2 + (if halt then 1 else 0) ≤ S * C
      · refine .inr (.inr ⟨?_, ?_⟩)
        · unfold slots0 at h0; omega
        · apply Classical.byContradiction
          intro hl
          exact not_rootUndefined (by omega) i hu
      · exact .inr (.inl ⟨hpos, by omega⟩)
  · intro h
    have hpos : 1 ≤ S * C := by
      have : 0 < u64Size := by decide
      rcases h with h | h | h <;> omega
    obtain ⟨hS, hC⟩ := pos_of_mul_ge hpos
    refine ⟨(0, false, 0), zero_root_mem hS hC, (buildTask_error_iff S C halt lim _).mpr ?_⟩
    rcases h with h | h | h
    · exact .inl (fun hh => by omega)
    · exact .inl (fun hh => by omega)
    · exact .inr ⟨by unfold slots0; omega, rootUndefined_zero h.2⟩

theorem buildTreeSeq_error_iff' (S C : Nat) (halt : Bool) (lim : Nat) :
    (∃ e, buildTreeSeq S C halt lim = .error e) ↔
      u64Size ≤ S * C ∨ (1 ≤ S * C ∧ S * C < 2 + (if halt then 1 else 0)) ∨
      (S * C = 2 + (if halt then 1 else 0) ∧ 2 ≤ lim) := by
  rw [← buildTreeLists_error_iff']
  unfold buildTreeSeq
  cases buildTreeLists S C halt lim with
  | error e => simp
  | ok ls => simp

theorem buildTreeSeq_ok_of_sizeOk {S C : Nat} {halt : Bool} (lim : Nat) (h : SizeOk S C halt) :
    ∃ l, buildTreeSeq S C halt lim = .ok l := by
  cases hr : buildTreeSeq S C halt lim with
  | ok l => exact ⟨l, rfl⟩
  | error e =>
    have := (buildTreeSeq_error_iff' S C halt lim).mp ⟨e, hr⟩
    unfold SizeOk at h
    omega

theorem buildTreeLists_ok_of_sizeOk {S C : Nat} {halt : Bool} (lim : Nat) (h : SizeOk S C halt) :
    ∃ ls, buildTreeLists S C halt lim = .ok ls := by
  obtain ⟨l, hl⟩ := buildTreeSeq_ok_of_sizeOk lim h
  obtain ⟨ls, hls, _⟩ := (buildTreeSeq_ok_iff S C halt lim l).mp hl
  exact ⟨ls, hls⟩

end BB.Tree
