/-
C16 — `run_simulator` over a history-independent inner program does what it does over the
stateless inner program; the window keeps its length and holds only legal in-range colours.
-/
import BB.Lemmas.MacroHist

namespace BB.Macros

/-! ### `Agree` -/

theorem Agree.error {α τ σ : Type} {r : Res (α × σ)} {err : Err} {Q : α → σ → Prop}
    (h : r = .error err) : Agree r (.error err : Res (α × τ)) Q := h

theorem Agree.ok {α τ σ : Type} {r : Res (α × σ)} {a : α} {u : τ} {Q : α → σ → Prop}
    (st' : σ) (h : r = .ok (a, st')) (hq : Q a st') : Agree r (.ok (a, u) : Res (α × τ)) Q :=
  ⟨st', h, hq⟩

theorem Mono.refl {σ : Type} (LS LC : σ → Nat → Prop) (st : σ) : Mono LS LC st st :=
  ⟨fun _ h => h, fun _ h => h⟩

theorem Mono.trans {σ : Type} {LS LC : σ → Nat → Prop} {a b c : σ} (h1 : Mono LS LC a b)
    (h2 : Mono LS LC b c) : Mono LS LC a c :=
  ⟨fun q h => h2.1 q (h1.1 q h), fun q h => h2.2 q (h1.2 q h)⟩

/-! ### windows -/

/-- number of cells of a window -/
def Win.len (w : Win) : Nat := w.left.length + 1 + w.right.length

/-- all cells of a window satisfy `P` -/
def WinAll (P : Nat → Prop) (w : Win) : Prop :=
  (∀ x ∈ w.left, P x) ∧ P w.scan ∧ (∀ x ∈ w.right, P x)

/-- what one iteration of the `'step` loop yields: state in `S`, `n` cells, all in `P` -/
def StepGood (P S : Nat → Prop) (n : Nat) : SimStep → Prop
  | .exit cfg => S cfg.1 ∧ cfg.2.2.length = n ∧ ∀ x ∈ cfg.2.2, P x
  | .cont s w => S s ∧ WinAll P w ∧ w.len = n

theorem sweepRight_good (P S : Nat → Prop) (state scan color : Nat) (hc : P color) (hs : S state) :
    ∀ (l left : List Nat), (∀ x ∈ left, P x) → (∀ x ∈ l, P x) →
      StepGood P S (left.length + l.length) (sweepRight state scan color left l) := by
  intro l
  induction l with
  | nil =>
    intro left hl _
    simp only [sweepRight, StepGood, List.length_reverse, List.length_nil, Nat.add_zero,
      List.mem_reverse, true_and]
    exact ⟨hs, hl⟩
  | cons x r ih =>
    intro left hl hr
    simp only [sweepRight]
    split
    · have := ih (color :: left)
        (by intro y hy; rcases List.mem_cons.1 hy with h | h; exact h ▸ hc; exact hl y h)
        (fun y hy => hr y (List.mem_cons_of_mem _ hy))
      simp only [List.length_cons] at this ⊢
      rw [show left.length + (r.length + 1) = left.length + 1 + r.length by omega]
      exact this
    · refine ⟨hs, ⟨hl, hr x (List.mem_cons_self ..), fun y hy => hr y (List.mem_cons_of_mem _ hy)⟩, ?_⟩
      simp only [Win.len, List.length_cons]; omega

theorem sweepLeft_good (P S : Nat → Prop) (state scan color : Nat) (hc : P color) (hs : S state) :
    ∀ (l right : List Nat), (∀ x ∈ l, P x) → (∀ x ∈ right, P x) →
      StepGood P S (l.length + right.length) (sweepLeft state scan color l right) := by
  intro l
  induction l with
  | nil =>
    intro right _ hr
    simp only [sweepLeft, StepGood, List.length_nil, Nat.zero_add, true_and]
    exact ⟨hs, hr⟩
  | cons x r ih =>
    intro right hl hr
    simp only [sweepLeft]
    split
    · have := ih (color :: right)
        (fun y hy => hl y (List.mem_cons_of_mem _ hy))
        (by intro y hy; rcases List.mem_cons.1 hy with h | h; exact h ▸ hc; exact hr y h)
      simp only [List.length_cons] at this ⊢
      rw [show r.length + 1 + right.length = r.length + (right.length + 1) by omega]
      exact this
    · refine ⟨hs, ⟨fun y hy => hl y (List.mem_cons_of_mem _ hy), hl x (List.mem_cons_self ..), hr⟩, ?_⟩
      simp only [Win.len, List.length_cons]

theorem simStep_good (P S : Nat → Prop) (state : Nat) (w : Win) (instr : Instr)
    (hw : WinAll P w) (hc : P instr.1) (hs : S state) (hn : S instr.2.2) :
    StepGood P S w.len (simStep state w instr) := by
  rcases instr with ⟨color, shift, next⟩
  rcases w with ⟨left, scan, right⟩
  obtain ⟨hl, hsc, hr⟩ := hw
  simp only at hl hsc hr hc hn
  simp only [simStep]
  split
  · split
    · cases right with
      | nil =>
        simp only [StepGood, Win.len, List.length_reverse, List.length_cons, List.length_nil,
          List.mem_reverse]
        refine ⟨hn, trivial, ?_⟩
        intro y hy; rcases List.mem_cons.1 hy with h | h; exact h ▸ hc; exact hl y h
      | cons r rs =>
        simp only [StepGood, Win.len, List.length_cons]
        refine ⟨hn, ⟨?_, hr r (List.mem_cons_self ..), fun y hy => hr y (List.mem_cons_of_mem _ hy)⟩,
          by omega⟩
        intro y hy; rcases List.mem_cons.1 hy with h | h; exact h ▸ hc; exact hl y h
    · cases left with
      | nil =>
        simp only [StepGood, Win.len, List.length_cons, List.length_nil]
        refine ⟨hn, by omega, ?_⟩
        intro y hy; rcases List.mem_cons.1 hy with h | h; exact h ▸ hc; exact hr y h
      | cons l ls =>
        simp only [StepGood, Win.len, List.length_cons]
        refine ⟨hn, ⟨fun y hy => hl y (List.mem_cons_of_mem _ hy), hl l (List.mem_cons_self ..), ?_⟩,
          by omega⟩
        intro y hy; rcases List.mem_cons.1 hy with h | h; exact h ▸ hc; exact hr y h
  · split
    · have := sweepRight_good P S state scan color hc hs (scan :: right) left hl
        (by intro y hy; rcases List.mem_cons.1 hy with h | h; exact h ▸ hsc; exact hr y h)
      simp only [Win.len, List.length_cons] at this ⊢
      rw [show left.length + 1 + right.length = left.length + (right.length + 1) by omega]
      exact this
    · have := sweepLeft_good P S state scan color hc hs (scan :: left) right
        (by intro y hy; rcases List.mem_cons.1 hy with h | h; exact h ▸ hsc; exact hl y h) hr
      simp only [Win.len, List.length_cons] at this ⊢
      exact this

/-! ### the loop -/

section Loop

variable {σ : Type} {get : GetFn σ} {f : Slot → Res (Option Instr)}
  {IInv : σ → Prop} {LS LC : σ → Nat → Prop}

/-- what the simulator guarantees about its exit configuration and the inner state -/
def SimPost (IInv : σ → Prop) (LS LC : σ → Nat → Prop) (n : Nat) (st : σ)
    (r : Option Config) (st' : σ) : Prop :=
  IInv st' ∧ Mono LS LC st st' ∧
    ∀ cfg, r = some cfg → LS st' cfg.1 ∧ cfg.2.2.length = n ∧ ∀ x ∈ cfg.2.2, LC st' x

theorem simLoop_pure (H : HistIndep get f IInv LS LC) :
    ∀ (fuel : Nat) (st : σ) (state : Nat) (w : Win), IInv st → LS st state →
      WinAll (LC st) w →
      Agree (simLoop get fuel st state w) (simLoop (pureGet f) fuel () state w)
        (SimPost IInv LS LC w.len st) := by
  intro fuel
  induction fuel with
  | zero =>
    intro st state w hi _ _
    exact Agree.ok st rfl ⟨hi, Mono.refl .., fun cfg h => by cases h⟩
  | succ fuel ih =>
    intro st state w hi hs hw
    have hstep := H.step st state w.scan hi hs hw.2.1
    simp only [simLoop]
    simp only [pureGet] at hstep ⊢
    cases hf : f (state, w.scan) with
    | error e =>
      rw [hf] at hstep
      have : get st (state, w.scan) = .error e := hstep
      rw [this]
      exact Agree.error rfl
    | ok a =>
      rw [hf] at hstep
      obtain ⟨st', hget, hi', hmono, hans⟩ := hstep
      rw [hget]
      cases a with
      | none =>
        exact Agree.ok st' rfl ⟨hi', hmono, fun cfg h => by cases h⟩
      | some instr =>
        simp only
        obtain ⟨hlc, hls⟩ := hans instr.1 instr.2.1 instr.2.2 rfl
        have hw' : WinAll (LC st') w :=
          ⟨fun x hx => hmono.2 x (hw.1 x hx), hmono.2 _ hw.2.1, fun x hx => hmono.2 x (hw.2.2 x hx)⟩
        have hgood := simStep_good (LC st') (LS st') state w instr hw' hlc (hmono.1 _ hs) hls
        cases hss : simStep state w instr with
        | exit cfg =>
          rw [hss] at hgood
          exact Agree.ok st' rfl ⟨hi', hmono, fun cfg' h => by cases h; exact hgood⟩
        | cont state' w' =>
          rw [hss] at hgood
          simp only
          obtain ⟨hs', hwall, hlen⟩ := hgood
          have := ih st' state' w' hi' hs' hwall
          rw [hlen] at this
          unfold Agree at this ⊢
          split at this
          · exact this
          · obtain ⟨st'', h1, h2, h3, h4⟩ := this
            exact ⟨st'', h1, h2, hmono.trans h3, h4⟩

theorem runSimulator_pure (H : HistIndep get f IInv LS LC)
    (simLim : Nat) (st : σ) (cfg : Config) (hi : IInv st) (hs : LS st cfg.1)
    (ht : ∀ x ∈ cfg.2.2, LC st x) :
    Agree (runSimulator get simLim st cfg) (runSimulator (pureGet f) simLim () cfg)
      (SimPost IInv LS LC cfg.2.2.length st) := by
  rcases cfg with ⟨state, rightEdge, tape⟩
  simp only at hs ht
  simp only [runSimulator]
  cases rightEdge with
  | true =>
    simp only [if_true, Win.atRight]
    cases hrev : tape.reverse with
    | nil => exact Agree.error rfl
    | cons c rest =>
      simp only
      have hmem : ∀ x, x ∈ c :: rest → LC st x := by
        intro x hx; rw [← hrev] at hx; exact ht x (List.mem_reverse.1 hx)
      have hlen : tape.length = (⟨rest, c, []⟩ : Win).len := by
        have := congrArg List.length hrev
        simp only [List.length_reverse, List.length_cons] at this
        simp only [Win.len, List.length_nil]; omega
      rw [hlen]
      exact simLoop_pure H simLim st state _ hi hs
        ⟨fun x hx => hmem x (List.mem_cons_of_mem _ hx), hmem c (List.mem_cons_self ..),
         fun x hx => by cases hx⟩
  | false =>
    simp only [Bool.false_eq_true, if_false]
    cases tape with
    | nil =>
      simp only [Win.atLeft]
      split
      · exact Agree.ok st rfl ⟨hi, Mono.refl .., fun cfg h => by cases h⟩
      · exact Agree.error rfl
    | cons c rest =>
      simp only [Win.atLeft]
      have hlen : (c :: rest).length = (⟨[], c, rest⟩ : Win).len := by
        simp only [Win.len, List.length_cons, List.length_nil]; omega
      rw [hlen]
      exact simLoop_pure H simLim st state _ hi hs
        ⟨fun x hx => (by cases hx), ht c (List.mem_cons_self ..),
         fun x hx => ht x (List.mem_cons_of_mem _ hx)⟩

end Loop

end BB.Macros
