/-
C10 support, part 2: list facts (`makeInstrs`, `splitLast`, `collect`, `sequenceTasks`,
`Nodup` of a `flatMap`), table facts (`Prog.get` after `Prog.insert`), run facts.
-/
import BB.Lemmas.TreeGenDefs

namespace BB.Tree

open BB

/-! ### lists -/

theorem nodup_flatMap_of {α β : Type} {l : List α} {f : α → List β} (hl : l.Nodup)
    (hf : ∀ a ∈ l, (f a).Nodup)
    (hd : ∀ a ∈ l, ∀ b ∈ l, a ≠ b → ∀ x, x ∈ f a → x ∈ f b → False) :
    (l.flatMap f).Nodup := by
  induction l with
  | nil => simp
  | cons a l ih =>
    rw [List.flatMap_cons, List.nodup_append]
    rw [List.nodup_cons] at hl
    refine ⟨hf a (List.mem_cons_self ..), ?_, ?_⟩
    · exact ih hl.2 (fun b hb => hf b (List.mem_cons_of_mem _ hb))
        (fun b hb c hc => hd b (List.mem_cons_of_mem _ hb) c (List.mem_cons_of_mem _ hc))
    · intro x hx y hy hxy
      subst hxy
      obtain ⟨b, hb, hxb⟩ := List.mem_flatMap.mp hy
      refine hd a (List.mem_cons_self ..) b (List.mem_cons_of_mem _ hb) ?_ x hx hxb
      rintro rfl
      exact hl.1 hb

theorem mem_makeInstrs {s c : Nat} {i : Instr} : i ∈ makeInstrs s c ↔ i.2.2 < s ∧ i.1 < c := by
  obtain ⟨co, sh, st⟩ := i
  simp only [makeInstrs, shifts, List.mem_flatMap, List.mem_range, List.mem_map, List.mem_cons,
    List.not_mem_nil, or_false, Prod.mk.injEq]
  constructor
  · rintro ⟨a, ha, b, _, d, hd, rfl, rfl, rfl⟩
    exact ⟨hd, ha⟩
  · rintro ⟨h1, h2⟩
    refine ⟨co, h2, sh, ?_, st, h1, rfl, rfl, rfl⟩
    cases sh <;> simp

theorem nodup_makeInstrs (s c : Nat) : (makeInstrs s c).Nodup := by
  unfold makeInstrs
  refine nodup_flatMap_of List.nodup_range ?_ ?_
  · intro a _
    refine nodup_flatMap_of (by simp [shifts]) ?_ ?_
    · intro b _
      rw [List.nodup_iff_pairwise_ne, List.pairwise_map]
      exact List.Pairwise.imp (fun h he => h (by simpa using he))
        (List.nodup_iff_pairwise_ne.mp List.nodup_range)
    · intro b _ b' _ hbb x hx hx'
      simp only [List.mem_map] at hx hx'
      obtain ⟨_, _, rfl⟩ := hx
      obtain ⟨_, _, h⟩ := hx'
      simp only [Prod.mk.injEq] at h
      exact hbb h.2.1.symm
  · intro a _ a' _ haa x hx hx'
    simp only [List.mem_flatMap, List.mem_map] at hx hx'
    obtain ⟨_, _, _, _, rfl⟩ := hx
    obtain ⟨_, _, _, _, h⟩ := hx'
    simp only [Prod.mk.injEq] at h
    exact haa h.1.symm

theorem makeInstrs_ne_nil {s c : Nat} (hs : 1 ≤ s) (hc : 1 ≤ c) : makeInstrs s c ≠ [] := by
  intro h
  have : ((0, false, 0) : Instr) ∈ makeInstrs s c := mem_makeInstrs.mpr ⟨hs, hc⟩
  rw [h] at this
  cases this

theorem splitLast_spec (l : List Instr) (h : l ≠ []) :
    ∃ x ini, splitLast l = some (x, ini) ∧ ini ++ [x] = l := by
  induction l with
  | nil => exact absurd rfl h
  | cons a l ih =>
    cases l with
    | nil => exact ⟨a, [], rfl, rfl⟩
    | cons b l =>
      obtain ⟨x, ini, h1, h2⟩ := ih (by simp)
      refine ⟨x, a :: ini, ?_, ?_⟩
      · simp only [splitLast, h1]
      · simp [h2]

theorem collect_ok (f : Instr → PRes (List Prog)) (g : Instr → List Prog) (l : List Instr)
    (h : ∀ i ∈ l, f i = .ok (g i)) : collect f l = .ok (l.flatMap g) := by
  induction l with
  | nil => rfl
  | cons a l ih =>
    simp only [collect, h a (List.mem_cons_self ..),
      ih (fun i hi => h i (List.mem_cons_of_mem _ hi)), List.flatMap_cons]

theorem sequenceTasks_ok (rs : List (PRes (List Prog))) (ls : List (List Prog))
    (h : rs = ls.map .ok) : sequenceTasks rs = .ok ls := by
  subst h
  induction ls with
  | nil => rfl
  | cons a l ih => simp only [List.map_cons, sequenceTasks, ih]

theorem sequenceTasks_error_iff (rs : List (PRes (List Prog))) :
    (∃ e, sequenceTasks rs = .error e) ↔ ∃ r ∈ rs, ∃ e, r = .error e := by
  induction rs with
  | nil => simp [sequenceTasks]
  | cons r rs ih =>
    cases r with
    | error e => simp [sequenceTasks]
    | ok a =>
      simp only [sequenceTasks, List.mem_cons, exists_eq_or_imp, reduceCtorEq, exists_false,
        false_or]
      rw [← ih]
      cases h : sequenceTasks rs with
      | error e => simp
      | ok b => simp

/-! ### tables -/

theorem Prog.get_insert_self (p : Prog) (s : Slot) (i : Instr) : (p.insert s i).get s = some i := by
  induction p with
  | nil => simp [Prog.insert, Prog.get]
  | cons kv rest ih =>
    obtain ⟨k, v⟩ := kv
    simp only [Prog.insert]
    split
    · simp [Prog.get]
    · split
      · simp [Prog.get]
      · rename_i h _
        simp only [Prog.get, h, ih]
        simp

theorem Prog.get_insert_ne (p : Prog) (s s' : Slot) (i : Instr) (h : s ≠ s') :
    (p.insert s i).get s' = p.get s' := by
  have hne : (s.1 == s'.1 && s.2 == s'.2) = false := by
    rw [Bool.eq_false_iff]
    intro h'
    simp only [Bool.and_eq_true, beq_iff_eq] at h'
    exact h (Prod.ext h'.1 h'.2)
  induction p with
  | nil => simp [Prog.insert, Prog.get, hne]
  | cons kv rest ih =>
    obtain ⟨k, v⟩ := kv
    simp only [Prog.insert]
    split
    · rename_i hk
      simp only [Bool.and_eq_true, beq_iff_eq] at hk
      have : k = s := Prod.ext hk.1 hk.2
      subst this
      simp [Prog.get, hne]
    · split
      · simp [Prog.get, hne]
      · simp only [Prog.get, ih]

theorem Prog.get_insert (p : Prog) (s s' : Slot) (i : Instr) :
    (p.insert s i).get s' = if s = s' then some i else p.get s' := by
  split
  · rename_i h; subst h; exact Prog.get_insert_self p s i
  · rename_i h; exact Prog.get_insert_ne p s s' i h

/-- list entries after an insertion: the new entry, or an old one -/
theorem Prog.mem_insert {p : Prog} {s : Slot} {i : Instr} {kv : Slot × Instr}
    (h : kv ∈ p.insert s i) : kv = (s, i) ∨ kv ∈ p := by
  induction p with
  | nil => simpa [Prog.insert] using h
  | cons x rest ih =>
    obtain ⟨k, v⟩ := x
    simp only [Prog.insert] at h
    split at h
    · rcases List.mem_cons.mp h with h | h
      · exact .inl h
      · exact .inr (List.mem_cons_of_mem _ h)
    · split at h
      · rcases List.mem_cons.mp h with h | h
        · exact .inl h
        · exact .inr h
      · rcases List.mem_cons.mp h with h | h
        · exact .inr (h ▸ List.mem_cons_self ..)
        · rcases ih h with h | h
          · exact .inl h
          · exact .inr (List.mem_cons_of_mem _ h)

theorem Prog.mem_insert_self (p : Prog) (s : Slot) (i : Instr) : (s, i) ∈ p.insert s i := by
  induction p with
  | nil => simp [Prog.insert]
  | cons x rest ih =>
    obtain ⟨k, v⟩ := x
    simp only [Prog.insert]
    split
    · exact List.mem_cons_self ..
    · split
      · exact List.mem_cons_self ..
      · exact List.mem_cons_of_mem _ ih

/-- an old entry with a different key survives an insertion -/
theorem Prog.mem_insert_of_mem {p : Prog} {s : Slot} {i : Instr} {kv : Slot × Instr}
    (h : kv ∈ p) (hne : kv.1 ≠ s) : kv ∈ p.insert s i := by
  induction p with
  | nil => cases h
  | cons x rest ih =>
    obtain ⟨k, v⟩ := x
    simp only [Prog.insert]
    split
    · rename_i hk
      simp only [Bool.and_eq_true, beq_iff_eq] at hk
      have hks : k = s := Prod.ext hk.1 hk.2
      rcases List.mem_cons.mp h with h | h
      · subst h; exact absurd hks hne
      · exact List.mem_cons_of_mem _ h
    · split
      · exact List.mem_cons_of_mem _ h
      · rcases List.mem_cons.mp h with h | h
        · exact h ▸ List.mem_cons_self ..
        · exact List.mem_cons_of_mem _ (ih h)

/-- a listed key is found by `get` (with some value) -/
theorem Prog.get_isSome_of_mem {p : Prog} {kv : Slot × Instr} (h : kv ∈ p) :
    (p.get kv.1).isSome = true := by
  induction p with
  | nil => cases h
  | cons x rest ih =>
    obtain ⟨k, v⟩ := x
    simp only [Prog.get]
    split
    · rfl
    · rcases List.mem_cons.mp h with h | h
      · rename_i hk
        subst h
        simp at hk
      · exact ih h

theorem Prog.mem_of_get {p : Prog} {s : Slot} {i : Instr} (h : p.get s = some i) :
    (s, i) ∈ p := by
  induction p with
  | nil => simp [Prog.get] at h
  | cons x rest ih =>
    obtain ⟨k, v⟩ := x
    simp only [Prog.get] at h
    split at h
    · rename_i hk
      simp only [Bool.and_eq_true, beq_iff_eq] at hk
      have hks : k = s := Prod.ext hk.1 hk.2
      simp only [Option.some.injEq] at h
      subst h hks
      exact List.mem_cons_self ..
    · exact List.mem_cons_of_mem _ (ih h)

/-! ### the run -/

/-- the slot reported as undefined is undefined -/
theorem run_undefined_get {p : Prog} {q : Nat} {t : Tape} {lim : Nat} {slot : Slot} {t' : Tape}
    (h : runForUndefined p q t lim = (.undefined slot, t')) : p.get slot = none := by
  induction lim generalizing q t with
  | zero => simp [runForUndefined] at h
  | succ n ih =>
    simp only [runForUndefined] at h
    split at h
    · rename_i hg
      simp only [Prod.mk.injEq, RunResult.undefined.injEq] at h
      rw [← h.1]; exact hg
    · split at h
      · simp at h
      · split at h
        · simp at h
        · exact ih h

/-- at the undefined slot the machine is in the slot's state scanning the slot's colour -/
theorem run_undefined_scan {p : Prog} {q : Nat} {t : Tape} {lim : Nat} {slot : Slot} {t' : Tape}
    (h : runForUndefined p q t lim = (.undefined slot, t')) : t'.scan = slot.2 := by
  induction lim generalizing q t with
  | zero => simp [runForUndefined] at h
  | succ n ih =>
    simp only [runForUndefined] at h
    split at h
    · simp only [Prod.mk.injEq, RunResult.undefined.injEq] at h
      rw [← h.1, ← h.2]
    · split at h
      · simp at h
      · split at h
        · simp at h
        · exact ih h

/-- more fuel does not change an `undefined` verdict -/
theorem run_undefined_mono {p : Prog} {q : Nat} {t : Tape} {lim : Nat} {slot : Slot} {t' : Tape}
    (h : runForUndefined p q t lim = (.undefined slot, t')) (k : Nat) :
    runForUndefined p q t (lim + k) = (.undefined slot, t') := by
  induction lim generalizing q t with
  | zero => simp [runForUndefined] at h
  | succ n ih =>
    rw [Nat.add_right_comm]
    simp only [runForUndefined] at h ⊢
    split
    · rename_i hg; simpa [hg] using h
    · rename_i c sh nx hg
      simp only [hg] at h
      split
      · rename_i hs; simp [hs] at h
      · rename_i hs
        simp only [hs] at h
        split
        · rename_i hb; simp [hb] at h
        · rename_i hb
          simp only [hb] at h
          exact ih h

end BB.Tree
