/-
C04 support, part 1: the concretisation γ of the backward reasoner's abstract configurations
(definitions, text unchanged from the statement file), and the lemmas about targets.
-/
import BB.Model.Reason

namespace BB.Reason

open BB

/-! ### Concretisation -/

/-- cell stream `f` matches the blocks followed by the end marker.
    A block with count 0 (indefinite) stands for `k ≥ 1` cells. -/
inductive SpanMatch : List Block → TapeEnd → (Nat → Nat) → Prop
  | nilBlanks {f : Nat → Nat} : (∀ i, f i = 0) → SpanMatch [] .blanks f
  | nilUnknown {f : Nat → Nat} : SpanMatch [] .unknown f
  | cons {c n : Nat} {bs : List Block} {e : TapeEnd} {f : Nat → Nat} (k : Nat) :
      (n ≠ 0 → k = n) → (n = 0 → 1 ≤ k) → (∀ i, i < k → f i = c) →
      SpanMatch bs e (fun i => f (i + k)) → SpanMatch (⟨c, n⟩ :: bs) e f

/-- the L0 configurations an abstract configuration stands for -/
def Gamma (cfg : Config) (c : Cfg) : Prop :=
  c.state = cfg.state ∧ c.scan = cfg.tape.scan ∧
  SpanMatch cfg.tape.lspan.span cfg.tape.lspan.end_ (cellAt c.left) ∧
  SpanMatch cfg.tape.rspan.span cfg.tape.rspan.end_ (cellAt c.right)

/-! ### The three events, as reachability of a target set -/

/-- the configuration just before a step that turns a non-blank tape blank -/
def ErasePoint (p : ProgF) (c : Cfg) : Prop :=
  ¬ c.Blank ∧ ∃ c', step1 p c = some c' ∧ c'.Blank

def HaltPoint (p : ProgF) (c : Cfg) : Prop := p c.state c.scan = none


/-! ### decidable equality of answers (for the concrete witnesses) -/

instance instDecidableEqPResBackward : DecidableEq (PRes BackwardResult) := fun a b =>
  match a, b with
  | .ok x, .ok y =>
    if h : x = y then isTrue (by rw [h]) else isFalse (by intro h'; cases h'; exact h rfl)
  | .error x, .error y =>
    if h : x = y then isTrue (by rw [h]) else isFalse (by intro h'; cases h'; exact h rfl)
  | .ok _, .error _ => isFalse (by intro h; cases h)
  | .error _, .ok _ => isFalse (by intro h; cases h)

/-! ### program table lookups -/

theorem Prog.get_mem {p : Prog} {s : Slot} {v : Instr} (h : p.get s = some v) :
    (s, v) ∈ p := by
  induction p with
  | nil => simp [Prog.get] at h
  | cons kv rest ih =>
    obtain ⟨k, w⟩ := kv
    simp only [Prog.get] at h
    split at h
    · rename_i hk
      simp only [Bool.and_eq_true, beq_iff_eq] at hk
      simp only [Option.some.injEq] at h
      subst h
      have : k = s := Prod.ext hk.1 hk.2
      subst this
      exact List.mem_cons_self
    · exact List.mem_cons_of_mem _ (ih h)

/-! ### stream facts -/

theorem cellAt_nil (i : Nat) : cellAt [] i = 0 := by simp [cellAt]

theorem cellAt_cons_zero (a : Nat) (l : List Nat) : cellAt (a :: l) 0 = a := by simp [cellAt]

theorem cellAt_cons_succ (a : Nat) (l : List Nat) (i : Nat) :
    cellAt (a :: l) (i + 1) = cellAt l i := by simp [cellAt]

theorem cellAt_tail (l : List Nat) (i : Nat) : cellAt l.tail i = cellAt l (i + 1) := by
  cases l with
  | nil => simp [cellAt]
  | cons a l => simp [cellAt]

theorem cellAt_zero_eq_headD (l : List Nat) : cellAt l 0 = l.headD 0 := by
  cases l <;> simp [cellAt]

/-- the colours of a matched span all occur in the stream -/
theorem SpanMatch.colors_zero {bs : List Block} {e : TapeEnd} {f : Nat → Nat}
    (h : SpanMatch bs e f) (hf : ∀ i, f i = 0) : ∀ b ∈ bs, b.color = 0 := by
  induction h with
  | nilBlanks _ => intro b hb; cases hb
  | nilUnknown => intro b hb; cases hb
  | @cons c n bs e f k h1 h2 h3 _ ih =>
    intro b hb
    rcases List.mem_cons.1 hb with rfl | hb
    · have hk : 0 < k := by
        by_cases hn : n = 0
        · exact h2 hn
        · have := h1 hn; omega
      have := h3 0 hk
      rw [hf 0] at this
      exact this.symm
    · exact ih (fun i => hf _) b hb

theorem init_detected' (cfg : Config) (h : Gamma cfg Cfg.init) :
    cfg.state = 0 ∧ cfg.tape.blank = true := by
  obtain ⟨hs, hsc, hl, hr⟩ := h
  refine ⟨hs.symm, ?_⟩
  have hl' := hl.colors_zero (fun i => cellAt_nil i)
  have hr' := hr.colors_zero (fun i => cellAt_nil i)
  simp only [Backstepper.blank, Span.blank, Bool.and_eq_true, beq_iff_eq, List.all_eq_true]
  exact ⟨⟨hsc.symm, hl'⟩, hr'⟩

/-! ### erase and spin-out targets -/

theorem allZero_of_cons {a : Nat} {l : List Nat} (h : AllZero (a :: l)) : a = 0 ∧ AllZero l :=
  ⟨by simpa [cellAt] using h 0, fun i => by simpa [cellAt] using h (i + 1)⟩

theorem allZero_of_headD_tail {l : List Nat} (h0 : l.headD 0 = 0) (h : AllZero l.tail) :
    AllZero l := by
  intro i
  cases i with
  | zero => rw [cellAt_zero_eq_headD]; exact h0
  | succ i => rw [← cellAt_tail]; exact h i

theorem targets_cover_erase' (p : Prog) (c : Cfg) (he : ErasePoint p.toF c) :
    ∃ cfg ∈ eraseConfigs p, Gamma cfg c := by
  obtain ⟨hnb, c', hstep, hb⟩ := he
  simp only [step1, Prog.toF] at hstep
  cases hg : p.get (c.state, c.scan) with
  | none => simp [hg] at hstep
  | some ins =>
    obtain ⟨pr, sh, q⟩ := ins
    simp only [hg, Option.some.injEq] at hstep
    subst hstep
    have hmem := Prog.get_mem hg
    -- both sides of `c` are blank and the printed colour is 0
    have hfacts : pr = 0 ∧ AllZero c.left ∧ AllZero c.right := by
      obtain ⟨hsc, hl, hr⟩ := hb
      cases sh with
      | true =>
        simp only [Cfg.move, if_true] at hsc hl hr
        obtain ⟨h1, h2⟩ := allZero_of_cons hl
        exact ⟨h1, h2, allZero_of_headD_tail hsc hr⟩
      | false =>
        simp only [Cfg.move] at hsc hl hr
        obtain ⟨h1, h2⟩ := allZero_of_cons hr
        exact ⟨h1, allZero_of_headD_tail hsc hl, h2⟩
    obtain ⟨hpr, hl, hr⟩ := hfacts
    have hscan : c.scan ≠ 0 := fun h0 => hnb ⟨h0, hl, hr⟩
    refine ⟨Config.initBlank c.state c.scan, ?_, ?_⟩
    · simp only [eraseConfigs, List.mem_map, Prog.eraseSlots, List.mem_filterMap]
      refine ⟨(c.state, c.scan), ⟨((c.state, c.scan), (pr, sh, q)), hmem, ?_⟩, rfl⟩
      simp [hpr, hscan]
    · exact ⟨rfl, rfl, SpanMatch.nilBlanks hl, SpanMatch.nilBlanks hr⟩

theorem targets_cover_spinout' (p : Prog) (c : Cfg) (hs : SpinOutCfg p.toF c) :
    ∃ cfg ∈ zeroReflexiveConfigs p, Gamma cfg c := by
  obtain ⟨hsc, pr, sh, hi, hz⟩ := hs
  simp only [Prog.toF] at hi
  have hmem := Prog.get_mem hi
  refine ⟨Config.initSpinout c.state sh, ?_, ?_⟩
  · simp only [zeroReflexiveConfigs, List.mem_map, Prog.zrShifts, List.mem_filterMap]
    refine ⟨(c.state, sh), ⟨((c.state, 0), (pr, sh, c.state)), hmem, ?_⟩, rfl⟩
    simp
  · cases sh with
    | true =>
      exact ⟨rfl, hsc, SpanMatch.nilUnknown, SpanMatch.nilBlanks hz⟩
    | false =>
      exact ⟨rfl, hsc, SpanMatch.nilBlanks hz, SpanMatch.nilUnknown⟩


/-! ### SpanMatch under pull / push -/

theorem SpanMatch.congr {bs : List Block} {e : TapeEnd} {f g : Nat → Nat}
    (h : SpanMatch bs e f) (hfg : ∀ i, f i = g i) : SpanMatch bs e g := by
  have : f = g := funext hfg
  subst this; exact h

/-- span matching for the `Span` structure -/
abbrev SM (s : Span) (f : Nat → Nat) : Prop := SpanMatch s.span s.end_ f

theorem SM.matchesColor {s : Span} {f : Nat → Nat} (h : SM s f) : s.matchesColor (f 0) = true := by
  obtain ⟨bs, e⟩ := s
  simp only [SM] at h
  cases h with
  | nilBlanks h0 => simp [Span.matchesColor, TapeEnd.matchesColor, h0 0]
  | nilUnknown => simp [Span.matchesColor, TapeEnd.matchesColor]
  | @cons c n bs e f k h1 h2 h3 h4 =>
    have hk : 0 < k := by
      by_cases hn : n = 0
      · exact h2 hn
      · have := h1 hn; omega
    simp [Span.matchesColor, h3 0 hk]

/-- the first block of the span is indefinite -/
def Span.headIndef (s : Span) : Bool :=
  match s.span with
  | [] => false
  | b :: _ => b.count == 0

theorem SM.pull {s : Span} {f : Nat → Nat} (h : SM s f) (hi : s.headIndef = false) :
    SM s.pull (fun i => f (i + 1)) := by
  obtain ⟨bs, e⟩ := s
  simp only [SM] at h
  cases h with
  | nilBlanks h0 => exact SpanMatch.nilBlanks (fun i => h0 (i + 1))
  | nilUnknown => exact SpanMatch.nilUnknown
  | @cons c n bs e f k h1 h2 h3 h4 =>
    simp only [Span.headIndef, beq_eq_false_iff_ne, ne_eq] at hi
    have hk : k = n := h1 hi
    subst hk
    by_cases hn1 : k = 1
    · subst hn1
      simp only [SM, Span.pull, beq_self_eq_true, if_true]
      exact h4
    · have e1 : (k == 1) = false := by simp [hn1]
      have e0 : (k == 0) = false := by simp [hi]
      simp only [SM, Span.pull, e1, e0, Bool.false_eq_true, if_false]
      refine SpanMatch.cons (k - 1) (fun _ => rfl) (fun h => by omega) (fun i hik => h3 (i + 1) (by omega)) ?_
      refine h4.congr (fun i => ?_)
      show f (i + k) = f (i + (k - 1) + 1)
      congr 1; omega

theorem SM.push {s : Span} {g : Nat → Nat} (h : SM s (fun i => g (i + 1))) :
    SM (s.push (g 0) 1) g := by
  obtain ⟨bs, e⟩ := s
  simp only [SM] at h
  cases bs with
  | nil =>
    simp only [Span.push]
    split
    · rename_i hc
      simp only [Bool.and_eq_true, beq_iff_eq] at hc
      obtain ⟨hc0, he⟩ := hc
      subst he
      cases h with
      | nilBlanks h0 =>
        refine SpanMatch.nilBlanks (fun i => ?_)
        cases i with
        | zero => exact hc0
        | succ i => exact h0 i
    · exact SpanMatch.cons 1 (fun _ => rfl) (fun h => absurd h (by decide))
        (fun i hi => by have : i = 0 := by omega
                        subst this; rfl) h
  | cons b rest =>
    obtain ⟨c, n⟩ := b
    simp only [Span.push]
    split
    · rename_i hc
      simp only [Bool.and_eq_true, beq_iff_eq, bne_iff_ne, ne_eq] at hc
      obtain ⟨hc0, hn⟩ := hc
      cases h with
      | @cons _ _ _ _ _ k h1 h2 h3 h4 =>
        have hk : k = n := h1 hn
        subst hk
        refine SpanMatch.cons (k + 1) (fun _ => rfl) (fun h => by omega) (fun i hik => ?_) ?_
        · cases i with
          | zero => exact hc0.symm
          | succ i => exact h3 i (by omega)
        · refine h4.congr (fun i => ?_)
          show g (i + k + 1) = g (i + (k + 1))
          rfl
    · exact SpanMatch.cons 1 (fun _ => rfl) (fun h => absurd h (by decide))
        (fun i hi => by have : i = 0 := by omega
                        subst this; rfl) h

theorem SM.pushIndef {s : Span} {g : Nat → Nat} (h : SM s (fun i => g (i + 1))) :
    SM (s.pushBlock (g 0) 0) g :=
  SpanMatch.cons 1 (fun h => absurd rfl h) (fun _ => Nat.le_refl 1)
    (fun i hi => by have : i = 0 := by omega
                    subst this; rfl) h


/-! ### Sides: everything about one step is symmetric in the direction -/

/-- γ on (state, tape); `Gamma cfg = GammaT cfg.state cfg.tape` by definition -/
def GammaT (q : Nat) (t : Backstepper) (c : Cfg) : Prop :=
  c.state = q ∧ c.scan = t.scan ∧ SM t.lspan (cellAt c.left) ∧ SM t.rspan (cellAt c.right)

theorem gamma_iff (cfg : Config) (c : Cfg) : Gamma cfg c ↔ GammaT cfg.state cfg.tape c := Iff.rfl

/-- the half-tape the head came from under a step with this shift -/
def _root_.BB.Cfg.pullSide (c : Cfg) (sh : Bool) : List Nat := if sh then c.left else c.right
/-- the half-tape ahead of a step with this shift -/
def _root_.BB.Cfg.pushSide (c : Cfg) (sh : Bool) : List Nat := if sh then c.right else c.left

theorem gammaT_sides (q : Nat) (t : Backstepper) (c : Cfg) (sh : Bool) :
    GammaT q t c ↔ c.state = q ∧ c.scan = t.scan ∧
      SM (t.pullSpan sh) (cellAt (c.pullSide sh)) ∧ SM (t.pushSpan sh) (cellAt (c.pushSide sh)) := by
  cases sh
  · simp only [GammaT, Backstepper.pullSpan, Backstepper.pushSpan, Cfg.pullSide, Cfg.pushSide,
      Bool.false_eq_true, if_false]
    exact ⟨fun ⟨a, b, c, d⟩ => ⟨a, b, d, c⟩, fun ⟨a, b, c, d⟩ => ⟨a, b, d, c⟩⟩
  · simp only [GammaT, Backstepper.pullSpan, Backstepper.pushSpan, Cfg.pullSide, Cfg.pushSide,
      if_true]

/-- `c'` is `c` after a step that printed `pr` and moved in direction `sh` -/
structure IsPred (c c' : Cfg) (pr : Nat) (sh : Bool) : Prop where
  pull0 : cellAt (c'.pullSide sh) 0 = pr
  pullS : ∀ i, cellAt (c.pullSide sh) i = cellAt (c'.pullSide sh) (i + 1)
  push0 : cellAt (c.pushSide sh) 0 = c'.scan
  pushS : ∀ i, cellAt (c.pushSide sh) (i + 1) = cellAt (c'.pushSide sh) i

theorem isPred_move (c : Cfg) (pr : Nat) (sh : Bool) (q : Nat) : IsPred c (c.move pr sh q) pr sh := by
  cases sh
  · refine ⟨?_, ?_, ?_, ?_⟩ <;>
      simp [Cfg.move, Cfg.pullSide, Cfg.pushSide, cellAt_cons_succ, cellAt_tail,
        cellAt_zero_eq_headD]
  · refine ⟨?_, ?_, ?_, ?_⟩ <;>
      simp [Cfg.move, Cfg.pullSide, Cfg.pushSide, cellAt_cons_succ, cellAt_tail,
        cellAt_zero_eq_headD]

theorem move_state (c : Cfg) (pr : Nat) (sh : Bool) (q : Nat) : (c.move pr sh q).state = q := by
  cases sh <;> simp [Cfg.move]

theorem step1_eq {p : ProgF} {c c' : Cfg} {pr : Nat} {sh : Bool} {q : Nat}
    (hi : p c.state c.scan = some (pr, sh, q)) (hstep : step1 p c = some c') :
    c' = c.move pr sh q := by
  simp only [step1, hi, Option.some.injEq] at hstep
  exact hstep.symm

theorem pullSpan_backstep (t : Backstepper) (sh : Bool) (r : Nat) :
    (t.backstep sh r).pullSpan sh = (t.pullSpan sh).pull := by
  cases sh <;> simp [Backstepper.backstep, Backstepper.pullSpan]

theorem pushSpan_backstep (t : Backstepper) (sh : Bool) (r : Nat) :
    (t.backstep sh r).pushSpan sh = (t.pushSpan sh).push t.scan 1 := by
  cases sh <;> simp [Backstepper.backstep, Backstepper.pushSpan]

theorem scan_backstep (t : Backstepper) (sh : Bool) (r : Nat) : (t.backstep sh r).scan = r := by
  cases sh <;> simp [Backstepper.backstep]

theorem pullsIndef_eq (t : Backstepper) (sh : Bool) : t.pullsIndef sh = (t.pullSpan sh).headIndef := rfl

/-- the filter accepts a real step -/
theorem checkStep_of_pred {q : Nat} {t : Backstepper} {c c' : Cfg} {pr : Nat} {sh : Bool}
    (hp : IsPred c c' pr sh) (hg : GammaT q t c') : t.checkStep sh pr = true := by
  have h := ((gammaT_sides q t c' sh).1 hg).2.2.1
  have := h.matchesColor
  rw [hp.pull0] at this
  exact this

/-- the plain backward step is sound -/
theorem gammaT_backstep {q q0 : Nat} {t : Backstepper} {c c' : Cfg} {pr : Nat} {sh : Bool}
    (hp : IsPred c c' pr sh) (hg : GammaT q t c') (hq : c.state = q0)
    (hi : t.pullsIndef sh = false) : GammaT q0 (t.backstep sh c.scan) c := by
  obtain ⟨_, hsc, hpull, hpush⟩ := (gammaT_sides q t c' sh).1 hg
  rw [gammaT_sides q0 _ c sh, pullSpan_backstep, pushSpan_backstep, scan_backstep]
  refine ⟨hq, rfl, ?_, ?_⟩
  · exact (hpull.pull hi).congr (fun i => (hp.pullS i).symm)
  · have h1 : SM (t.pushSpan sh) (fun i => cellAt (c.pushSide sh) (i + 1)) :=
      hpush.congr (fun i => (hp.pushS i).symm)
    have h2 := h1.push
    rw [hp.push0, hsc] at h2
    exact h2

theorem backstep_sound' (p : ProgF) (cfg : Config) (c c' : Cfg) (pr : Nat) (sh : Bool)
    (hi : p c.state c.scan = some (pr, sh, cfg.state)) (hstep : step1 p c = some c')
    (hg : Gamma cfg c') :
    cfg.tape.checkStep sh pr = true ∧
    (cfg.tape.pullsIndef sh = false →
      Gamma ⟨c.state, cfg.tape.backstep sh c.scan, 0, []⟩ c) := by
  have hc' := step1_eq hi hstep
  subst hc'
  have hp := isPred_move c pr sh cfg.state
  exact ⟨checkStep_of_pred hp hg, fun h => gammaT_backstep hp hg rfl h⟩


/-! ### halt targets: the run invariant "states and colours are mentioned in the table" -/

theorem paramsFix_foldl_bound (p : Prog) : ∀ (acc : Nat × Nat),
    let r := p.foldl (fun acc kv =>
      (max (max acc.1 kv.1.1) kv.2.2.2, max (max acc.2 kv.1.2) kv.2.1)) acc
    acc.1 ≤ r.1 ∧ acc.2 ≤ r.2 ∧
    ∀ kv ∈ p, kv.1.1 ≤ r.1 ∧ kv.2.2.2 ≤ r.1 ∧ kv.1.2 ≤ r.2 ∧ kv.2.1 ≤ r.2 := by
  induction p with
  | nil => intro acc; simp
  | cons kv rest ih =>
    intro acc
    simp only [List.foldl_cons]
    have := ih (max (max acc.1 kv.1.1) kv.2.2.2, max (max acc.2 kv.1.2) kv.2.1)
    simp only at this
    obtain ⟨h1, h2, h3⟩ := this
    refine ⟨by omega, by omega, ?_⟩
    intro kv' hkv'
    rcases List.mem_cons.1 hkv' with rfl | hm
    · refine ⟨by omega, by omega, by omega, by omega⟩
    · exact h3 kv' hm

theorem paramsFix_bound (p : Prog) (kv : Slot × Instr) (h : kv ∈ p) :
    kv.1.1 ≤ p.paramsFix.1 ∧ kv.2.2.2 ≤ p.paramsFix.1 ∧ kv.1.2 ≤ p.paramsFix.2 ∧
      kv.2.1 ≤ p.paramsFix.2 :=
  (paramsFix_foldl_bound p (0, 0)).2.2 kv h

/-- all states and colours of the configuration are within the table size -/
def Bounded (ms mc : Nat) (c : Cfg) : Prop :=
  c.state ≤ ms ∧ c.scan ≤ mc ∧ (∀ i, cellAt c.left i ≤ mc) ∧ (∀ i, cellAt c.right i ≤ mc)

theorem cellAt_cons_le {a : Nat} {l : List Nat} {m : Nat} (ha : a ≤ m) (hl : ∀ i, cellAt l i ≤ m) :
    ∀ i, cellAt (a :: l) i ≤ m := by
  intro i
  cases i with
  | zero => rw [cellAt_cons_zero]; exact ha
  | succ i => rw [cellAt_cons_succ]; exact hl i

theorem bounded_step (p : Prog) (c c' : Cfg) (hb : Bounded p.paramsFix.1 p.paramsFix.2 c)
    (hs : step1 p.toF c = some c') : Bounded p.paramsFix.1 p.paramsFix.2 c' := by
  simp only [step1, Prog.toF] at hs
  cases hg : p.get (c.state, c.scan) with
  | none => simp [hg] at hs
  | some ins =>
    obtain ⟨pr, sh, q⟩ := ins
    simp only [hg, Option.some.injEq] at hs
    subst hs
    have hb4 := paramsFix_bound p _ (Prog.get_mem hg)
    simp only at hb4
    obtain ⟨_, hq, _, hpr⟩ := hb4
    obtain ⟨_, _, hl, hr⟩ := hb
    cases sh with
    | true =>
      refine ⟨hq, ?_, cellAt_cons_le hpr hl, fun i => ?_⟩
      · show c.right.headD 0 ≤ _
        rw [← cellAt_zero_eq_headD]; exact hr 0
      · show cellAt c.right.tail i ≤ _
        rw [cellAt_tail]; exact hr _
    | false =>
      refine ⟨hq, ?_, fun i => ?_, cellAt_cons_le hpr hr⟩
      · show c.left.headD 0 ≤ _
        rw [← cellAt_zero_eq_headD]; exact hl 0
      · show cellAt c.left.tail i ≤ _
        rw [cellAt_tail]; exact hl _

theorem bounded_stepN (p : Prog) : ∀ (n : Nat) (c c' : Cfg),
    Bounded p.paramsFix.1 p.paramsFix.2 c → stepN p.toF n c = some c' →
    Bounded p.paramsFix.1 p.paramsFix.2 c' := by
  intro n
  induction n with
  | zero => intro c c' hb h; simp only [stepN, Option.some.injEq] at h; subst h; exact hb
  | succ n ih =>
    intro c c' hb h
    simp only [stepN] at h
    cases hs : step1 p.toF c with
    | none => simp [hs] at h
    | some c1 =>
      simp only [hs] at h
      exact ih c1 c' (bounded_step p c c1 hb hs) h

theorem bounded_init (ms mc : Nat) : Bounded ms mc Cfg.init :=
  ⟨Nat.zero_le _, Nat.zero_le _, fun i => by simp [Cfg.init, cellAt_nil],
    fun i => by simp [Cfg.init, cellAt_nil]⟩

theorem targets_cover_halt' (p : Prog) (n : Nat) (c : Cfg) (hrun : RunAt p.toF n c)
    (hh : HaltPoint p.toF c) :
    ∃ cfg ∈ haltConfigs p true, Gamma cfg c := by
  have hb := bounded_stepN p n _ c (bounded_init _ _) hrun
  refine ⟨Config.initHalt c.state c.scan, ?_, ⟨rfl, rfl, SpanMatch.nilUnknown, SpanMatch.nilUnknown⟩⟩
  simp only [haltConfigs, List.mem_map, Prog.haltSlots, if_true, List.mem_flatMap, List.mem_range,
    List.mem_filterMap]
  simp only [HaltPoint, Prog.toF] at hh
  refine ⟨(c.state, c.scan), ⟨c.state, by have := hb.1; omega, c.scan, by have := hb.2.1; omega, ?_⟩, rfl⟩
  simp [hh]

end BB.Reason
