/-
C04 support, part 4: γ under the sweep mechanism (`check_spinout`, indefinite blocks, the repaired
F1 drop) and subsumption between blank tapes (for blank-state pruning).
-/
import BB.Lemmas.ReasonGamma
import BB.Lemmas.ReasonInstr

namespace BB.Reason

open BB

/-! ### pushIndef, side by side -/

theorem pullSpan_pushIndef (t : Backstepper) (sh : Bool) :
    (t.pushIndef sh).pullSpan sh = t.pullSpan sh := by
  cases sh <;> simp [Backstepper.pushIndef, Backstepper.pullSpan]

theorem pushSpan_pushIndef (t : Backstepper) (sh : Bool) :
    (t.pushIndef sh).pushSpan sh = (t.pushSpan sh).pushBlock t.scan 0 := by
  cases sh <;> simp [Backstepper.pushIndef, Backstepper.pushSpan]

theorem scan_pushIndef (t : Backstepper) (sh : Bool) : (t.pushIndef sh).scan = t.scan := by
  cases sh <;> simp [Backstepper.pushIndef]

theorem SM.tail_of_nil {s : Span} {f : Nat → Nat} (h : SM s f) (hs : s.span = []) :
    SM s (fun i => f (i + 1)) := by
  obtain ⟨bs, e⟩ := s
  simp only at hs
  subst hs
  simp only [SM] at h ⊢
  cases h with
  | nilBlanks h0 => exact SpanMatch.nilBlanks (fun i => h0 (i + 1))
  | nilUnknown => exact SpanMatch.nilUnknown

/-- one more cell of the right colour in front of an indefinite block is absorbed by it -/
theorem SM.absorb_indef {s : Span} {g : Nat → Nat} {col : Nat} {rest : List Block}
    (hs : s.span = ⟨col, 0⟩ :: rest) (h : SM s (fun i => g (i + 1))) (h0 : g 0 = col) : SM s g := by
  obtain ⟨bs, e⟩ := s
  simp only at hs
  subst hs
  simp only [SM] at h ⊢
  cases h with
  | @cons _ _ _ _ _ k h1 h2 h3 h4 =>
    refine SpanMatch.cons (k + 1) (fun h => absurd rfl h) (fun _ => by omega) (fun i hi => ?_) ?_
    · cases i with
      | zero => exact h0
      | succ i => exact h3 i (by omega)
    · exact h4.congr (fun i => rfl)

theorem checkSpinout_some {t : Backstepper} {sh : Bool} {r : Nat} {b : Bool}
    (h : t.checkSpinout sh r = some b) :
    t.scan = r ∧ (t.pullSpan sh).span = [] ∧ b = !(t.pushSpan sh).matchesColor t.scan := by
  simp only [Backstepper.checkSpinout] at h
  split at h
  · cases h
  · rename_i hsc
    have hsc' : t.scan = r := by simpa using hsc
    split at h
    · cases h
    · rename_i hpull
      have hp : (t.pullSpan sh).span = [] := by
        simpa using hpull
      split at h
      · simp only [Option.some.injEq] at h
        exact ⟨hsc', hp, h.symm⟩
      · cases h

/-- the predecessor of `c' ∈ γ(X)` by the sweeping instruction is in γ of `X` with an indefinite
    block pushed -/
theorem sweep_pred_indef {q : Nat} {t : Backstepper} {c c' : Cfg} {pr : Nat} {sh : Bool}
    (hp : IsPred c c' pr sh) (hg : GammaT q t c') (hpull : (t.pullSpan sh).span = [])
    (hq : c.state = q) (hsc : c.scan = t.scan) : GammaT q (t.pushIndef sh) c := by
  obtain ⟨_, hsc', hpl, hps⟩ := (gammaT_sides q t c' sh).1 hg
  rw [gammaT_sides q _ c sh, pullSpan_pushIndef, pushSpan_pushIndef, scan_pushIndef]
  refine ⟨hq, hsc, ?_, ?_⟩
  · exact (hpl.tail_of_nil hpull).congr (fun i => (hp.pullS i).symm)
  · have h1 : SM (t.pushSpan sh) (fun i => cellAt (c.pushSide sh) (i + 1)) :=
      hps.congr (fun i => (hp.pushS i).symm)
    have h2 := h1.pushIndef
    rw [hp.push0, hsc'] at h2
    exact h2

/-- ... and so is the predecessor by the sweeping instruction of anything in that set -/
theorem sweep_pred_stay {q : Nat} {t : Backstepper} {c c' : Cfg} {pr : Nat} {sh : Bool}
    (hp : IsPred c c' pr sh) (hg : GammaT q (t.pushIndef sh) c')
    (hpull : (t.pullSpan sh).span = []) (hq : c.state = q) (hsc : c.scan = t.scan) :
    GammaT q (t.pushIndef sh) c := by
  obtain ⟨_, hsc', hpl, hps⟩ := (gammaT_sides q _ c' sh).1 hg
  rw [pullSpan_pushIndef] at hpl
  rw [pushSpan_pushIndef] at hps
  rw [scan_pushIndef] at hsc'
  rw [gammaT_sides q _ c sh, pullSpan_pushIndef, pushSpan_pushIndef, scan_pushIndef]
  refine ⟨hq, hsc, ?_, ?_⟩
  · exact (hpl.tail_of_nil hpull).congr (fun i => (hp.pullS i).symm)
  · have h1 : SM ((t.pushSpan sh).pushBlock t.scan 0) (fun i => cellAt (c.pushSide sh) (i + 1)) :=
      hps.congr (fun i => (hp.pushS i).symm)
    exact SM.absorb_indef (rest := (t.pushSpan sh).span) rfl h1 (by rw [hp.push0, hsc'])

/-- the repaired drop: the predecessor by the sweeping instruction is already in γ(X) -/
theorem sweep_absorbed {q : Nat} {t : Backstepper} {c c' : Cfg} {pr : Nat} {sh : Bool}
    (hp : IsPred c c' pr sh) (hg : GammaT q t c') (hpull : (t.pullSpan sh).span = [])
    (hq : c.state = q) (hsc : c.scan = t.scan)
    (hm : (t.pushSpan sh).matchesColor t.scan = true) (ha : t.sweepAbsorbed sh = true) :
    GammaT q t c := by
  obtain ⟨_, hsc', hpl, hps⟩ := (gammaT_sides q t c' sh).1 hg
  rw [gammaT_sides q _ c sh]
  refine ⟨hq, hsc, ?_, ?_⟩
  · exact (hpl.tail_of_nil hpull).congr (fun i => (hp.pullS i).symm)
  · have h1 : SM (t.pushSpan sh) (fun i => cellAt (c.pushSide sh) (i + 1)) :=
      hps.congr (fun i => (hp.pushS i).symm)
    have h0 : cellAt (c.pushSide sh) 0 = t.scan := by rw [hp.push0, hsc']
    simp only [Backstepper.sweepAbsorbed] at ha
    generalize t.pushSpan sh = s at h1 hm ha hps
    obtain ⟨bs, e⟩ := s
    cases bs with
    | nil =>
      simp only [SM] at h1 ⊢
      cases h1 with
      | nilUnknown => exact SpanMatch.nilUnknown
      | nilBlanks hz =>
        simp only [Span.matchesColor, TapeEnd.matchesColor, beq_iff_eq] at hm
        refine SpanMatch.nilBlanks (fun i => ?_)
        cases i with
        | zero => rw [h0]; exact hm
        | succ i => exact hz i
    | cons b rest =>
      obtain ⟨col, n⟩ := b
      simp only [beq_iff_eq] at ha
      subst ha
      simp only [Span.matchesColor, beq_iff_eq] at hm
      exact SM.absorb_indef (rest := rest) rfl h1 (by rw [h0]; exact hm.symm)

/-! ### blank tapes -/

theorem SpanMatch.zero_prefix {bs : List Block} {e : TapeEnd} {f : Nat → Nat}
    (h : SpanMatch bs e f) (hb : ∀ b ∈ bs, b.color = 0) : ∀ i, i < minLenB bs → f i = 0 := by
  induction h with
  | nilBlanks _ => intro i hi; simp [minLenB] at hi
  | nilUnknown => intro i hi; simp [minLenB] at hi
  | @cons c n bs e f k h1 h2 h3 _ ih =>
    intro i hi
    have hc : c = 0 := hb ⟨c, n⟩ List.mem_cons_self
    have hle : (if (n == 0) = true then 1 else n) ≤ k := by
      by_cases hn : n = 0
      · simp only [hn, beq_self_eq_true, if_true]; exact h2 hn
      · have : (n == 0) = false := by simpa using hn
        simp only [this, Bool.false_eq_true, if_false]; have := h1 hn; omega
    simp only [minLenB] at hi
    by_cases hik : i < k
    · rw [h3 i hik, hc]
    · have := ih (fun b hb' => hb b (List.mem_cons_of_mem _ hb')) (i - k) (by omega)
      simp only at this
      rwa [show i - k + k = i by omega] at this

theorem SpanMatch.all_zero : ∀ {bs : List Block} {f : Nat → Nat},
    SpanMatch bs .blanks f → (∀ b ∈ bs, b.color = 0) → ∀ i, f i = 0 := by
  intro bs
  induction bs with
  | nil => intro f h _; cases h with | nilBlanks h0 => exact h0
  | cons b rest ih =>
    intro f h hb i
    cases h with
    | @cons c n _ _ _ k h1 h2 h3 h4 =>
      have hc : c = 0 := hb ⟨c, n⟩ List.mem_cons_self
      by_cases hik : i < k
      · rw [h3 i hik, hc]
      · have := ih h4 (fun b hb' => hb b (List.mem_cons_of_mem _ hb')) (i - k)
        rwa [show i - k + k = i by omega] at this

theorem SpanMatch.of_all_zero : ∀ {bs : List Block} {e : TapeEnd} {f : Nat → Nat},
    (∀ b ∈ bs, b.color = 0) → (∀ i, f i = 0) → SpanMatch bs e f := by
  intro bs
  induction bs with
  | nil =>
    intro e f _ hf
    cases e with
    | blanks => exact SpanMatch.nilBlanks hf
    | unknown => exact SpanMatch.nilUnknown
  | cons b rest ih =>
    intro e f hb hf
    obtain ⟨c, n⟩ := b
    have hc : c = 0 := hb ⟨c, n⟩ List.mem_cons_self
    refine SpanMatch.cons (if n = 0 then 1 else n) (fun hn => by simp [hn]) (fun hn => by simp [hn])
      (fun i _ => by rw [hf i, hc]) ?_
    exact ih (fun b hb' => hb b (List.mem_cons_of_mem _ hb')) (fun i => hf _)

theorem SpanMatch.of_zero_prefix : ∀ {bs : List Block} {f : Nat → Nat},
    (∀ b ∈ bs, b.color = 0) → (∀ i, i < minLenB bs → f i = 0) → SpanMatch bs .unknown f := by
  intro bs
  induction bs with
  | nil => intro f _ _; exact SpanMatch.nilUnknown
  | cons b rest ih =>
    intro f hb hf
    obtain ⟨c, n⟩ := b
    have hc : c = 0 := hb ⟨c, n⟩ List.mem_cons_self
    simp only [minLenB] at hf
    have hk : (if (n == 0) = true then 1 else n) = (if n = 0 then 1 else n) := by
      by_cases hn : n = 0 <;> simp [hn]
    rw [hk] at hf
    refine SpanMatch.cons (if n = 0 then 1 else n) (fun hn => by simp [hn]) (fun hn => by simp [hn])
      (fun i hi => by rw [hf i (by omega), hc]) ?_
    exact ih (fun b hb' => hb b (List.mem_cons_of_mem _ hb')) (fun i hi => hf _ (by omega))

theorem sideSub_sound {y z : Span} {f : Nat → Nat} (hy : y.blank = true) (hz : z.blank = true)
    (hs : sideSub y z = true) (h : SM z f) : SM y f := by
  simp only [Span.blank, List.all_eq_true, beq_iff_eq] at hy hz
  simp only [sideSub, Bool.or_eq_true, beq_iff_eq, Bool.and_eq_true, decide_eq_true_eq] at hs
  rcases hs with he | ⟨he, hle⟩
  · simp only [SM] at h ⊢
    rw [he] at h
    exact SpanMatch.of_all_zero hy (h.all_zero hz)
  · simp only [SM] at h ⊢
    rw [he]
    exact SpanMatch.of_zero_prefix hy (fun i hi => h.zero_prefix hz i (by omega))

theorem blankSub_sound {q : Nat} {y z : Backstepper} {c : Cfg} (hy : y.blank = true)
    (hz : z.blank = true) (hs : blankSub y z = true) (h : GammaT q z c) : GammaT q y c := by
  simp only [Backstepper.blank, Bool.and_eq_true, beq_iff_eq] at hy hz
  simp only [blankSub, Bool.and_eq_true] at hs
  obtain ⟨hq, hsc, hl, hr⟩ := h
  exact ⟨hq, by rw [hsc, hz.1.1, hy.1.1], sideSub_sound hy.1.2 hz.1.2 hs.1 hl,
    sideSub_sound hy.2 hz.2 hs.2 hr⟩

end BB.Reason
