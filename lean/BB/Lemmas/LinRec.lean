/-
The pure-L0 recurrence argument ("Lin recurrence").

* `Cfg.cell c i`: the cell at offset `i : Int` from the head (positional view of a configuration);
* `disp p c n`: the displacement of the head after `n` steps from `c`; `hd p t`: the absolute head
  position at time `t` of the run from the blank tape;
* `AgreeW W h c c'`: `c` and `c'` are in the same state and hold the same cells, *relative to their
  heads*, on every absolute position `x ∈ W` (`h` = head position of `c`);
* `lin_main`: if the configuration at time `n+m` agrees with the one at time `n` on a window `W`
  that contains every head position of `[n, n+m]` and is closed under the translation `δ`, then
  this holds at every later time as well; consequences: `SlotPeriodic`, `NeverHalts`, and no
  spin-out configuration after time `n+m` unless there was one before.
-/
import BB.Lemmas.StepRefine

namespace BB

/-! ### positional view of a configuration -/

/-- the cell at offset `i` from the head (`0` = scanned cell, positive = to the right) -/
def Cfg.cell (c : Cfg) (i : Int) : Nat :=
  if i = 0 then c.scan
  else if 0 < i then cellAt c.right (i - 1).toNat
  else cellAt c.left (-i - 1).toNat

@[simp] theorem Cfg.cell_zero (c : Cfg) : c.cell 0 = c.scan := by simp [Cfg.cell]

theorem Cfg.cell_pos (c : Cfg) (k : Nat) : c.cell ((k : Int) + 1) = cellAt c.right k := by
  unfold Cfg.cell
  have h1 : ¬ ((k : Int) + 1 = 0) := by omega
  have h2 : (0 : Int) < (k : Int) + 1 := by omega
  have h3 : ((k : Int) + 1 - 1).toNat = k := by omega
  simp only [h1, h2, h3, if_true, if_false]

theorem Cfg.cell_neg (c : Cfg) (k : Nat) : c.cell (-((k : Int) + 1)) = cellAt c.left k := by
  unfold Cfg.cell
  have h1 : ¬ (-((k : Int) + 1) = 0) := by omega
  have h2 : ¬ ((0 : Int) < -((k : Int) + 1)) := by omega
  have h3 : (-(-((k : Int) + 1)) - 1).toNat = k := by omega
  simp only [h1, h2, h3, if_false]

/-- every offset is `0`, `k+1` or `-(k+1)` -/
theorem int_cases (i : Int) : i = 0 ∨ (∃ k : Nat, i = (k : Int) + 1) ∨ (∃ k : Nat, i = -((k : Int) + 1)) := by
  by_cases h0 : i = 0
  · exact Or.inl h0
  · by_cases hp : 0 < i
    · exact Or.inr (Or.inl ⟨(i - 1).toNat, by omega⟩)
    · exact Or.inr (Or.inr ⟨(-i - 1).toNat, by omega⟩)

theorem Cfg.Equiv.cell {a b : Cfg} (h : a ≈c b) (i : Int) : a.cell i = b.cell i := by
  rcases int_cases i with rfl | ⟨k, rfl⟩ | ⟨k, rfl⟩
  · simpa using h.2.1
  · rw [Cfg.cell_pos, Cfg.cell_pos]; exact h.2.2.2 k
  · rw [Cfg.cell_neg, Cfg.cell_neg]; exact h.2.2.1 k

/-- the unit displacement of a direction -/
def dirI (sh : Bool) : Int := if sh then 1 else -1

theorem Cfg.cell_move (c : Cfg) (pr : Nat) (sh : Bool) (q : Nat) (i : Int) :
    (c.move pr sh q).cell i = if i = -dirI sh then pr else c.cell (i + dirI sh) := by
  cases sh
  · -- left
    simp only [Cfg.move, dirI, Bool.false_eq_true, if_false]
    rcases int_cases i with rfl | ⟨k, rfl⟩ | ⟨k, rfl⟩
    · have : ((0 : Int) + -1) = -(((0 : Nat) : Int) + 1) := by omega
      simp only [Cfg.cell_zero, this, Cfg.cell_neg, cellAt_headD]
      simp
    · cases k with
      | zero =>
        have := Cfg.cell_pos ⟨q, c.left.tail, c.left.headD 0, pr :: c.right⟩ 0
        simpa using this
      | succ k =>
        have e : ((k + 1 : Nat) : Int) + 1 + -1 = (k : Int) + 1 := by omega
        have ne : ¬ (((k + 1 : Nat) : Int) + 1 = - -1) := by omega
        rw [Cfg.cell_pos, e, Cfg.cell_pos, if_neg ne]
        simp
    · have e : -((k : Int) + 1) + -1 = -(((k + 1 : Nat) : Int) + 1) := by omega
      have ne : ¬ (-((k : Int) + 1) = - -1) := by omega
      rw [Cfg.cell_neg, e, Cfg.cell_neg, if_neg ne]
      simp only [cellAt_tail]
  · -- right
    simp only [Cfg.move, dirI, if_true]
    rcases int_cases i with rfl | ⟨k, rfl⟩ | ⟨k, rfl⟩
    · have : ((0 : Int) + 1) = (((0 : Nat) : Int) + 1) := by omega
      simp only [Cfg.cell_zero, this, Cfg.cell_pos, cellAt_headD]
      simp
    · have e : (k : Int) + 1 + 1 = ((k + 1 : Nat) : Int) + 1 := by omega
      have ne : ¬ ((k : Int) + 1 = -1) := by omega
      rw [Cfg.cell_pos, e, Cfg.cell_pos, if_neg ne]
      simp only [cellAt_tail]
    · cases k with
      | zero =>
        have := Cfg.cell_neg ⟨q, pr :: c.left, c.right.headD 0, c.right.tail⟩ 0
        simpa using this
      | succ k =>
        have e : -(((k + 1 : Nat) : Int) + 1) + 1 = -((k : Int) + 1) := by omega
        have ne : ¬ (-(((k + 1 : Nat) : Int) + 1) = -1) := by omega
        rw [Cfg.cell_neg, e, Cfg.cell_neg, if_neg ne]
        simp

/-! ### head displacement -/

/-- the displacement of the head caused by the step taken from `c` (`0` when halted) -/
def dirOf (p : ProgF) (c : Cfg) : Int :=
  match p c.state c.scan with
  | some (_, sh, _) => dirI sh
  | none => 0

/-- head displacement after `n` steps from `c` -/
def disp (p : ProgF) (c : Cfg) : Nat → Int
  | 0 => 0
  | n + 1 => disp p c n + (match stepN p n c with | some cj => dirOf p cj | none => 0)

/-- absolute head position at time `t` of the run from the blank tape (start = 0) -/
def hd (p : ProgF) (t : Nat) : Int := disp p Cfg.init t

theorem dirOf_eq {p : ProgF} {c : Cfg} {pr : Nat} {sh : Bool} {q : Nat}
    (h : p c.state c.scan = some (pr, sh, q)) : dirOf p c = dirI sh := by
  simp only [dirOf, h]

theorem disp_succ_of {p : ProgF} {c cj : Cfg} {n : Nat} (h : stepN p n c = some cj) :
    disp p c (n + 1) = disp p c n + dirOf p cj := by
  simp only [disp, h]

theorem hd_succ_of {p : ProgF} {c : Cfg} {t : Nat} (h : RunAt p t c) :
    hd p (t + 1) = hd p t + dirOf p c := disp_succ_of h

theorem disp_add {p : ProgF} {c c' : Cfg} {a : Nat} (h : stepN p a c = some c') (b : Nat) :
    disp p c (a + b) = disp p c a + disp p c' b := by
  induction b with
  | zero => simp [disp]
  | succ b ih =>
    have e : a + (b + 1) = (a + b) + 1 := by omega
    rw [e]
    simp only [disp]
    rw [ih, stepN_add, h]
    simp only [Option.bind_some]
    omega

theorem hd_add {p : ProgF} {c : Cfg} {t : Nat} (h : RunAt p t c) (b : Nat) :
    hd p (t + b) = hd p t + disp p c b := disp_add h b

theorem dirOf_congr {p : ProgF} {a b : Cfg} (h : a ≈c b) : dirOf p a = dirOf p b := by
  simp only [dirOf, h.1, h.2.1]

theorem stepN_none_congr {p : ProgF} {n : Nat} {a b : Cfg} (h : a ≈c b)
    (ha : stepN p n a = none) : stepN p n b = none := by
  cases hb : stepN p n b with
  | none => rfl
  | some b' =>
    obtain ⟨a', ha', _⟩ := stepN_congr h.symm hb
    rw [ha] at ha'; cases ha'

theorem disp_congr {p : ProgF} {a b : Cfg} (h : a ≈c b) (n : Nat) : disp p a n = disp p b n := by
  induction n with
  | zero => rfl
  | succ n ih =>
    simp only [disp, ih]
    cases ha : stepN p n a with
    | none => rw [stepN_none_congr h ha]
    | some a' =>
      obtain ⟨b', hb', e⟩ := stepN_congr h ha
      rw [hb']
      simp only [dirOf_congr e]

/-- while the machine stays in the slot `(q, s)` whose instruction moves in direction `d`, the head
    moves one cell per step in that direction -/
theorem disp_const {p : ProgF} {c0 : Cfg} {q s pr : Nat} {d : Bool} {q' : Nat} {k : Nat}
    (hi : p q s = some (pr, d, q'))
    (h : ∀ j, j < k → ∃ c, stepN p j c0 = some c ∧ c.state = q ∧ c.scan = s) :
    ∀ j, j ≤ k → disp p c0 j = dirI d * j := by
  intro j
  induction j with
  | zero => intro _; simp [disp]
  | succ j ih =>
    intro hj
    obtain ⟨c, hc, hs, hsc⟩ := h j (by omega)
    have hd' : dirOf p c = dirI d := by
      apply dirOf_eq (pr := pr) (q := q'); rw [hs, hsc]; exact hi
    rw [disp_succ_of hc, ih (by omega), hd']
    simp only [dirI]
    cases d <;> simp <;> omega

/-! ### agreement on a window -/

/-- `c` (whose head is at absolute position `h`) and `c'` are in the same state and hold, relative
    to their respective heads, the same cells at every absolute position in `W` -/
def AgreeW (W : Int → Prop) (h : Int) (c c' : Cfg) : Prop :=
  c.state = c'.state ∧ ∀ x, W x → c.cell (x - h) = c'.cell (x - h)

theorem AgreeW.scan {W : Int → Prop} {h : Int} {c c' : Cfg} (hag : AgreeW W h c c') (hW : W h) :
    c.scan = c'.scan := by
  have := hag.2 h hW
  simpa using this

theorem Cfg.move_state (c : Cfg) (pr : Nat) (sh : Bool) (q : Nat) : (c.move pr sh q).state = q := by
  cases sh <;> rfl

theorem step1_eq_of {p : ProgF} {c : Cfg} {pr : Nat} {sh : Bool} {q : Nat}
    (h : p c.state c.scan = some (pr, sh, q)) : step1 p c = some (c.move pr sh q) := by
  simp only [step1, h]

/-- one step keeps the agreement, provided the head is inside the window -/
theorem AgreeW.step {W : Int → Prop} {h : Int} {p : ProgF} {c c' d : Cfg}
    (hag : AgreeW W h c c') (hW : W h) (hs : step1 p c = some d) :
    ∃ d', step1 p c' = some d' ∧ AgreeW W (h + dirOf p c) d d' ∧ dirOf p c' = dirOf p c := by
  have hscan := hag.scan hW
  cases hp : p c.state c.scan with
  | none => simp only [step1, hp] at hs; cases hs
  | some i =>
    obtain ⟨pr, sh, q⟩ := i
    have hp' : p c'.state c'.scan = some (pr, sh, q) := by rw [← hag.1, ← hscan]; exact hp
    rw [step1_eq_of hp, Option.some.injEq] at hs
    subst hs
    refine ⟨_, step1_eq_of hp', ⟨?_, ?_⟩, ?_⟩
    · rw [Cfg.move_state, Cfg.move_state]
    · intro x hx
      rw [dirOf_eq hp, Cfg.cell_move, Cfg.cell_move]
      have e : x - (h + dirI sh) + dirI sh = x - h := by omega
      rw [e, hag.2 x hx]
    · rw [dirOf_eq hp, dirOf_eq hp']

theorem RunAt.unique {p : ProgF} {t : Nat} {c c' : Cfg} (h : RunAt p t c) (h' : RunAt p t c') :
    c = c' := by
  unfold RunAt at h h'
  rw [h] at h'
  exact Option.some.inj h'

theorem RunAt.succ {p : ProgF} {t : Nat} {c d : Cfg} (h : RunAt p t c) (hs : step1 p c = some d) :
    RunAt p (t + 1) d := by
  unfold RunAt at *
  rw [stepN_succ_last, h]; exact hs

/-- if the run reaches time `t' > t`, the configuration at time `t` makes a step -/
theorem RunAt.step_of_later {p : ProgF} {t t' : Nat} {c c' : Cfg} (h : RunAt p t c)
    (h' : RunAt p t' c') (hlt : t < t') : ∃ d, step1 p c = some d ∧ RunAt p (t + 1) d := by
  obtain ⟨d, hd'⟩ := stepN_le h' (show t + 1 ≤ t' by omega)
  have := hd'
  rw [stepN_succ_last, h] at this
  exact ⟨d, this, hd'⟩

/-! ### the recurrence theorem -/

/-- hypotheses of the recurrence theorem: the configuration at time `n + m` agrees on `W` with the
    configuration at time `n`, the head moved by `δ` in between, `W` is closed under `+ δ` and
    contains every head position of the interval `[n, n + m]` -/
structure LinHyp (p : ProgF) (W : Int → Prop) (δ : Int) (n m : Nat) : Prop where
  mpos : 0 < m
  closed : ∀ x, W x → W (x + δ)
  run0 : ∃ c0 c1, RunAt p n c0 ∧ RunAt p (n + m) c1 ∧ AgreeW W (hd p n) c0 c1
  shift : hd p (n + m) = hd p n + δ
  win : ∀ t, n ≤ t → t ≤ n + m → W (hd p t)

/-- what holds at every time `t ≥ n` under `LinHyp` -/
def LinAt (p : ProgF) (W : Int → Prop) (δ : Int) (m t : Nat) : Prop :=
  ∃ c c', RunAt p t c ∧ RunAt p (t + m) c' ∧ AgreeW W (hd p t) c c' ∧
    hd p (t + m) = hd p t + δ ∧ ∀ u, t ≤ u → u ≤ t + m → W (hd p u)

theorem LinAt.next {p : ProgF} {W : Int → Prop} {δ : Int} {m t : Nat} (hm : 0 < m)
    (closed : ∀ x, W x → W (x + δ)) (h : LinAt p W δ m t) : LinAt p W δ m (t + 1) := by
  obtain ⟨c, c', r, r', hag, hsh, hwin⟩ := h
  have hWt : W (hd p t) := hwin t (Nat.le_refl _) (by omega)
  obtain ⟨d, hs, rd⟩ := r.step_of_later r' (by omega)
  obtain ⟨d', hs', hag', hdir⟩ := hag.step hWt hs
  have rd' : RunAt p (t + m + 1) d' := r'.succ hs'
  have e : t + 1 + m = t + m + 1 := by omega
  have h1 : hd p (t + 1) = hd p t + dirOf p c := hd_succ_of r
  have h2 : hd p (t + m + 1) = hd p (t + m) + dirOf p c' := hd_succ_of r'
  refine ⟨d, d', rd, by rw [e]; exact rd', by rw [h1]; exact hag', ?_, ?_⟩
  · rw [e, h2, h1, hsh, hdir]; omega
  · intro u hu1 hu2
    by_cases hlast : u = t + m + 1
    · subst hlast
      have hW1 : W (hd p (t + 1)) := hwin (t + 1) (by omega) (by omega)
      have := closed _ hW1
      have e2 : hd p (t + m + 1) = hd p (t + 1) + δ := by rw [h2, h1, hsh, hdir]; omega
      rw [e2]; exact this
    · exact hwin u (by omega) (by omega)

/-- **Recurrence.** Under `LinHyp` the agreement holds at every later time. -/
theorem lin_main {p : ProgF} {W : Int → Prop} {δ : Int} {n m : Nat} (H : LinHyp p W δ n m) :
    ∀ t, n ≤ t → LinAt p W δ m t := by
  have base : LinAt p W δ m n := by
    obtain ⟨c0, c1, r0, r1, hag⟩ := H.run0
    exact ⟨c0, c1, r0, r1, hag, H.shift, H.win⟩
  intro t ht
  obtain ⟨k, rfl⟩ : ∃ k, t = n + k := ⟨t - n, by omega⟩
  clear ht
  induction k with
  | zero => exact base
  | succ k ih => exact ih.next H.mpos H.closed

/-- the slot sequence is periodic from time `n` on with period `m` -/
theorem lin_periodic {p : ProgF} {W : Int → Prop} {δ : Int} {n m : Nat} (H : LinHyp p W δ n m) :
    ∀ j, ∃ c c', RunAt p (n + j) c ∧ RunAt p (n + m + j) c' ∧
      c.state = c'.state ∧ c.scan = c'.scan := by
  intro j
  obtain ⟨c, c', r, r', hag, _, hwin⟩ := lin_main H (n + j) (by omega)
  have e : n + j + m = n + m + j := by omega
  rw [e] at r'
  exact ⟨c, c', r, r', hag.1, hag.scan (hwin _ (Nat.le_refl _) (by omega))⟩

theorem lin_never_halts {p : ProgF} {W : Int → Prop} {δ : Int} {n m : Nat}
    (H : LinHyp p W δ n m) : NeverHalts p := by
  intro N
  by_cases h : n ≤ N
  · obtain ⟨c, _, r, _⟩ := lin_main H N h
    exact ⟨c, r⟩
  · obtain ⟨c0, _, r0, _⟩ := H.run0
    exact stepN_le r0 (by omega)

/-! ### spin-out configurations -/

theorem AllZero.tail {l : List Nat} (h : AllZero l) : AllZero l.tail := by
  intro i; rw [cellAt_tail]; exact h (i + 1)

/-- a spin-out configuration keeps spinning: same state, blank scan, blank ahead, and the head moves
    one cell per step in the direction of the instruction -/
theorem spin_run {p : ProgF} {c : Cfg} {pr : Nat} {sh : Bool} (hs : c.scan = 0)
    (hi : p c.state 0 = some (pr, sh, c.state)) (hz : AllZero (if sh then c.right else c.left)) :
    ∀ j, ∃ cj, stepN p j c = some cj ∧ cj.state = c.state ∧ cj.scan = 0 ∧
      AllZero (if sh then cj.right else cj.left) := by
  intro j
  induction j with
  | zero => exact ⟨c, rfl, rfl, hs, hz⟩
  | succ j ih =>
    obtain ⟨cj, hj, hst, hsc, hzz⟩ := ih
    have hp : p cj.state cj.scan = some (pr, sh, c.state) := by rw [hst, hsc]; exact hi
    refine ⟨cj.move pr sh c.state, ?_, Cfg.move_state _ _ _ _, ?_, ?_⟩
    · rw [stepN_succ_last, hj]; exact step1_eq_of hp
    · cases sh
      · simp only [Cfg.move, Bool.false_eq_true, if_false] at hzz ⊢
        rw [cellAt_headD]; exact hzz 0
      · simp only [Cfg.move, if_true] at hzz ⊢
        rw [cellAt_headD]; exact hzz 0
    · cases sh
      · simp only [Cfg.move, Bool.false_eq_true, if_false] at hzz ⊢
        exact hzz.tail
      · simp only [Cfg.move, if_true] at hzz ⊢
        exact hzz.tail

theorem spin_disp {p : ProgF} {c : Cfg} {pr : Nat} {sh : Bool} (hs : c.scan = 0)
    (hi : p c.state 0 = some (pr, sh, c.state)) (hz : AllZero (if sh then c.right else c.left))
    (j : Nat) : disp p c j = dirI sh * j := by
  refine disp_const (k := j) hi (fun i _ => ?_) j (Nat.le_refl _)
  obtain ⟨ci, h1, h2, h3, _⟩ := spin_run hs hi hz i
  exact ⟨ci, h1, h2, h3⟩

theorem W_add_nat {W : Int → Prop} (h : ∀ x, W x → W (x + 1)) {x : Int} (hx : W x) (k : Nat) :
    W (x + k) := by
  induction k with
  | zero => simpa using hx
  | succ k ih =>
    have := h _ ih
    have e : x + ((k + 1 : Nat) : Int) = x + k + 1 := by omega
    rw [e]; exact this

theorem W_sub_nat {W : Int → Prop} (h : ∀ x, W x → W (x - 1)) {x : Int} (hx : W x) (k : Nat) :
    W (x - k) := by
  induction k with
  | zero => simpa using hx
  | succ k ih =>
    have := h _ ih
    have e : x - ((k + 1 : Nat) : Int) = x - k - 1 := by omega
    rw [e]; exact this

/-- **No spin-out.** Under `LinHyp`, if the window is, on each side, either unbounded or bounded,
    and no spin-out configuration occurs before time `n + m`, none occurs at all. -/
theorem lin_no_spinout {p : ProgF} {W : Int → Prop} {δ : Int} {n m : Nat} (H : LinHyp p W δ n m)
    (hR : (∀ x, W x → W (x + 1)) ∨ ∃ B, ∀ x, W x → x ≤ B)
    (hL : (∀ x, W x → W (x - 1)) ∨ ∃ B, ∀ x, W x → B ≤ x)
    (hbefore : ∀ t c, t < n + m → RunAt p t c → ¬ SpinOutCfg p c) : ¬ SpinsOut p := by
  have hm := H.mpos
  have key : ∀ t c, RunAt p t c → SpinOutCfg p c → False := by
    intro t
    induction t using Nat.strongRecOn with
    | _ t ih =>
      intro c r hsp
      by_cases hlt : t < n + m
      · exact hbefore t c hlt r hsp
      · obtain ⟨hs0, pr, sh, hi, hz⟩ := hsp
        -- the head runs away in direction `sh`
        have away : ∀ j, hd p (t + j) = hd p t + dirI sh * j := by
          intro j; rw [hd_add r, spin_disp hs0 hi hz]
        have inW : ∀ j, W (hd p (t + j)) := by
          intro j
          obtain ⟨_, _, _, _, _, _, hwin⟩ := lin_main H (t + j) (by omega)
          exact hwin _ (Nat.le_refl _) (by omega)
        -- the configuration one period earlier
        obtain ⟨u, hu⟩ : ∃ u, t = u + m := ⟨t - m, by omega⟩
        obtain ⟨cu, c', ru, ru', hag, _, hwin⟩ := lin_main H u (by omega)
        have hWu : W (hd p u) := hwin _ (Nat.le_refl _) (by omega)
        rw [← hu] at ru'
        have : c' = c := ru'.unique r
        subst this
        have hscan : cu.scan = 0 := (hag.scan hWu).trans hs0
        have hiu : p cu.state 0 = some (pr, sh, cu.state) := by rw [hag.1]; exact hi
        cases sh
        · -- spinning out to the left
          simp only [Bool.false_eq_true, if_false] at hz
          rcases hL with hL | ⟨B, hB⟩
          · apply ih u (by omega) cu ru
            refine ⟨hscan, pr, false, hiu, ?_⟩
            simp only [Bool.false_eq_true, if_false]
            intro i
            have hx := W_sub_nat hL hWu (i + 1)
            have := hag.2 _ hx
            have e : hd p u - ((i + 1 : Nat) : Int) - hd p u = -((i : Int) + 1) := by omega
            rw [e, Cfg.cell_neg, Cfg.cell_neg] at this
            rw [this]; exact hz i
          · have h1 := away (hd p t - B + 1).toNat
            have h2 := hB _ (inW (hd p t - B + 1).toNat)
            have h3 := hB _ (inW 0)
            simp only [dirI, Bool.false_eq_true, if_false] at h1
            simp only [Nat.add_zero] at h3
            omega
        · simp only [if_true] at hz
          rcases hR with hR | ⟨B, hB⟩
          · apply ih u (by omega) cu ru
            refine ⟨hscan, pr, true, hiu, ?_⟩
            simp only [if_true]
            intro i
            have hx := W_add_nat hR hWu (i + 1)
            have := hag.2 _ hx
            have e : hd p u + ((i + 1 : Nat) : Int) - hd p u = (i : Int) + 1 := by omega
            rw [e, Cfg.cell_pos, Cfg.cell_pos] at this
            rw [this]; exact hz i
          · have h1 := away (B - hd p t + 1).toNat
            have h2 := hB _ (inW (B - hd p t + 1).toNat)
            have h3 := hB _ (inW 0)
            simp only [dirI, if_true] at h1
            simp only [Nat.add_zero] at h3
            omega
  rintro ⟨t, c, r, hsp⟩
  exact key t c r hsp

end BB
