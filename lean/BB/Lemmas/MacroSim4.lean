/-
C08, part 4: the block macro instruction (`pureInstr` with `kind = .block`) against L0:
`block_instr_some'`, `block_instr_none'`, `block_instr_no_error'`.
-/
import BB.Lemmas.MacroSim3

namespace BB.MacroSim

open BB BB.Macros

/-! ### entering and leaving the window -/

theorem enter_window {k : Nat} (q : Nat) (re : Bool) {tape : List Nat} (hlen : tape.length = k)
    (hk : 1 ≤ k) (oL oR : List Nat) :
    ∃ w, (if re then Win.atRight tape else Win.atLeft tape) = some w ∧
      embed q w oL oR = enterCfg q re tape oL oR ∧
      ∀ S C, q < S → (∀ x ∈ tape, x < C) → Valid S C k q w := by
  cases re with
  | false =>
    cases tape with
    | nil => simp at hlen; omega
    | cons x rest =>
      refine ⟨⟨[], x, rest⟩, rfl, by simp [embed, enterCfg], ?_⟩
      intro S C hq hlt
      exact ⟨hq, by simp at hlen ⊢; omega, by simp, hlt x (by simp),
        fun y hy => hlt y (by simp [hy])⟩
  | true =>
    cases h : tape.reverse with
    | nil => simp at h; subst h; simp at hlen; omega
    | cons c rest =>
      refine ⟨⟨rest, c, []⟩, by simp [Win.atRight, h], by simp [embed, enterCfg, h], ?_⟩
      intro S C hq hlt
      have hl : rest.length + 1 = k := by
        have := congrArg List.length h
        simp at this
        omega
      have hm : ∀ y ∈ c :: rest, y < C := by
        intro y hy
        rw [← h] at hy
        exact hlt y (by simpa using hy)
      exact ⟨hq, by simp; omega, fun y hy => hm y (by simp [hy]), hm c (by simp), by simp⟩

theorem runSimulator_eq {σ : Type} (get : GetFn σ) (lim : Nat) (prog : σ) (q : Nat) (re : Bool)
    (tape : MTape) {w : Win} (h : (if re then Win.atRight tape else Win.atLeft tape) = some w) :
    runSimulator get lim prog (q, (re, tape)) = simLoop get lim prog q w := by
  cases re <;> simp_all [runSimulator]

theorem exitCfg_not_inWindow {k : Nat} (q : Nat) (d : Bool) {t : List Nat} (ht : t.length = k)
    (oL oR : List Nat) : ¬ InWindow k oL oR (exitCfg q d t oL oR) := by
  rintro ⟨w, hw, he⟩
  simp only [Win.toTape, List.length_append, List.length_reverse, List.length_cons] at hw
  cases d with
  | true =>
    have := congrArg (fun c => c.left.length) he
    simp [exitCfg, embed] at this
    omega
  | false =>
    have := congrArg (fun c => c.right.length) he
    simp [exitCfg, embed] at this
    omega

/-- once the run has left the window it neither halts inside nor stays for ever -/
theorem exit_excludes {p : ProgF} {k : Nat} {oL oR : List Nat} {n : Nat} {c0 e : Cfg}
    (hr : RunsIn p k oL oR n c0 e) (he : ¬ InWindow k oL oR e) :
    ¬ HaltsInside p k oL oR c0 ∧ ¬ NeverLeaves p k oL oR c0 := by
  constructor
  · rintro ⟨m, c', hr', hw, hs⟩
    rcases Nat.lt_trichotomy m n with hlt | heq | hgt
    · obtain ⟨c'', h1⟩ := stepN_le hr.1 (show m + 1 ≤ n by omega)
      rw [stepN_succ_last, hr'.1] at h1
      simp only [Option.bind_some] at h1
      rw [hs] at h1
      cases h1
    · subst heq
      have := hr.1.symm.trans hr'.1
      simp only [Option.some.injEq] at this
      subst this
      exact he hw
    · obtain ⟨ci, h1, h2⟩ := hr'.2 n hgt
      have := hr.1.symm.trans h1
      simp only [Option.some.injEq] at this
      subst this
      exact he h2
  · intro hn
    obtain ⟨c', h1, h2⟩ := hn n
    have := hr.1.symm.trans h1
    simp only [Option.some.injEq] at this
    subst this
    exact he h2

/-! ### the block instruction -/

theorem pureInstr_block {p : ProgF} {lp : LogicParams} (f : Bool) {ms mc : Nat}
    (hk : lp.kind = .block) {w : Win}
    (hw : (if (ms % 2 == 1) then Win.atRight (decode lp.baseColors lp.cells mc)
            else Win.atLeft (decode lp.baseColors lp.cells mc)) = some w) :
    pureInstr (innerOf p) lp f (ms, mc) =
      match simLoop (pureGet (innerOf p)) lp.simLim () (ms / 2) w with
      | .error e => .error e
      | .ok (none, _) => .ok none
      | .ok (some (q', (d, t)), _) =>
        .ok (some (encode lp.baseColors t, d, 2 * q' + (if d then 0 else 1))) := by
  simp only [pureInstr, pureDeconstructInputs, hk]
  rw [runSimulator_eq _ _ _ _ _ _ hw]
  cases simLoop (pureGet (innerOf p)) lp.simLim () (ms / 2) w with
  | error e => rfl
  | ok r =>
    obtain ⟨o, u⟩ := r
    cases o with
    | none => rfl
    | some out =>
      obtain ⟨q', d, t⟩ := out
      simp [pureReconstructOutputs, hk]

theorem simLim_block {lp : LogicParams} (hk : lp.kind = .block) :
    lp.simLim = lp.baseStates * lp.cells * lp.baseColors ^ lp.cells := by
  simp [LogicParams.simLim, LogicParams.macroColors, hk]

/-- **block_instr_some** (lemma form) -/
theorem block_instr_some' (p : ProgF) (lp : LogicParams) (f : Bool) (ms mc mc' ms' : Nat)
    (d : Bool) (hk : lp.kind = .block) (hc : 1 ≤ lp.cells) (hC : 0 < lp.baseColors)
    (hms : ms < 2 * lp.baseStates) (hcl : closedB p lp.baseStates lp.baseColors = true)
    (h : pureInstr (innerOf p) lp f (ms, mc) = .ok (some (mc', d, ms'))) (oL oR : List Nat) :
    ∃ n, 1 ≤ n ∧
      RunsIn p lp.cells oL oR n
        (enterCfg (ms / 2) (ms % 2 == 1) (decode lp.baseColors lp.cells mc) oL oR)
        (exitCfg (ms' / 2) d (decode lp.baseColors lp.cells mc') oL oR) ∧
      ms' % 2 = (if d then 0 else 1) ∧ ms' < 2 * lp.baseStates ∧
      mc' < lp.baseColors ^ lp.cells := by
  obtain ⟨w, hw, hemb, hval⟩ := enter_window (ms / 2) (ms % 2 == 1)
    (decode_length lp.baseColors lp.cells mc) hc oL oR
  have hv := hval lp.baseStates lp.baseColors (by omega) (decode_lt hC _ _)
  rw [pureInstr_block f hk hw] at h
  cases hs : simLoop (pureGet (innerOf p)) lp.simLim () (ms / 2) w with
  | error e => rw [hs] at h; cases h
  | ok r =>
    obtain ⟨o, u⟩ := r
    cases o with
    | none => rw [hs] at h; cases h
    | some out =>
      obtain ⟨q', d', t⟩ := out
      rw [hs] at h
      simp only [Except.ok.injEq, Option.some.injEq, Prod.mk.injEq] at h
      obtain ⟨rfl, rfl, rfl⟩ := h
      obtain ⟨n, hn, hq', hlen, hlt, hr⟩ :=
        simLoop_some (closed_of_closedB hcl) oL oR hv hs
      rw [hemb] at hr
      refine ⟨n, hn, ?_, ?_, ?_, ?_⟩
      · rw [decode_encode hlen hlt]
        have : (2 * q' + if d' = true then 0 else 1) / 2 = q' := by split <;> omega
        rw [this]
        exact hr
      · split <;> omega
      · split <;> omega
      · have := encode_lt hlt
        rwa [hlen] at this

/-- **block_instr_no_error** (lemma form) -/
theorem block_instr_no_error' (p : ProgF) (lp : LogicParams) (f : Bool) (slot : Slot) (e : Err)
    (hk : lp.kind = .block) (hc : 1 ≤ lp.cells) :
    pureInstr (innerOf p) lp f slot ≠ .error e := by
  obtain ⟨ms, mc⟩ := slot
  obtain ⟨w, hw, _, _⟩ := enter_window (ms / 2) (ms % 2 == 1)
    (decode_length lp.baseColors lp.cells mc) hc [] []
  rw [pureInstr_block f hk hw]
  cases hs : simLoop (pureGet (innerOf p)) lp.simLim () (ms / 2) w with
  | error e' => exact absurd hs (simLoop_no_error _ _ _ _ _)
  | ok r =>
    obtain ⟨o, u⟩ := r
    cases o with
    | none => simp
    | some out => obtain ⟨q', d', t⟩ := out; simp

/-- **block_instr_none** (lemma form) -/
theorem block_instr_none' (p : ProgF) (lp : LogicParams) (f : Bool) (ms mc : Nat)
    (hk : lp.kind = .block) (hc : 1 ≤ lp.cells) (hC : 0 < lp.baseColors)
    (hms : ms < 2 * lp.baseStates) (hcl : closedB p lp.baseStates lp.baseColors = true)
    (oL oR : List Nat) :
    pureInstr (innerOf p) lp f (ms, mc) = .ok none ↔
      (HaltsInside p lp.cells oL oR
          (enterCfg (ms / 2) (ms % 2 == 1) (decode lp.baseColors lp.cells mc) oL oR) ∨
        NeverLeaves p lp.cells oL oR
          (enterCfg (ms / 2) (ms % 2 == 1) (decode lp.baseColors lp.cells mc) oL oR)) := by
  constructor
  · intro h
    obtain ⟨w, hw, hemb, hval⟩ := enter_window (ms / 2) (ms % 2 == 1)
      (decode_length lp.baseColors lp.cells mc) hc oL oR
    have hv := hval lp.baseStates lp.baseColors (by omega) (decode_lt hC _ _)
    rw [pureInstr_block f hk hw] at h
    rw [← hemb]
    cases hs : simLoop (pureGet (innerOf p)) lp.simLim () (ms / 2) w with
    | error e => rw [hs] at h; cases h
    | ok r =>
      obtain ⟨o, u⟩ := r
      cases o with
      | some out => obtain ⟨q', d', t⟩ := out; rw [hs] at h; simp at h
      | none =>
        rcases simLoop_none hs with ⟨i, qi, wi, _, h1, h2⟩ | ⟨x, hx⟩
        · exact .inl (haltsInside_of_sweepIter (closed_of_closedB hcl) oL oR hv h1 h2)
        · exact .inr (neverLeaves_of_fuel (closed_of_closedB hcl) oL oR hv
            (by rw [simLim_block hk]; exact Nat.le_refl _) hx)
  · intro h
    cases hp : pureInstr (innerOf p) lp f (ms, mc) with
    | error e => exact absurd hp (block_instr_no_error' p lp f _ e hk hc)
    | ok o =>
      cases o with
      | none => rfl
      | some i =>
        obtain ⟨mc', d, ms'⟩ := i
        obtain ⟨n, _, hr, _, _, _⟩ := block_instr_some' p lp f ms mc mc' ms' d hk hc hC hms hcl hp oL oR
        have hex := exit_excludes hr
          (exitCfg_not_inWindow _ _ (decode_length lp.baseColors lp.cells mc') oL oR)
        rcases h with h | h
        · exact absurd h hex.1
        · exact absurd h hex.2

end BB.MacroSim
