/-
C18 helper lemmas for `BB/Model/NumMod.lean` (the model of `Exp.__mod__` / `find_period` of
tm/num.py for an integer exponent): correctness of the square-and-multiply loop, of the period
search, of the literal special cases, of the `case 3:` reduction, and the assembled statements
used by `BB/Props/C18.lean`.  Core Lean only; the periodicity facts come from `BB/Lemmas/PowMod`.
-/
import BB.Model.NumMod
import BB.Lemmas.PowMod

namespace BB.NumMod

open BB.PowMod

/-! ### square-and-multiply -/

/-- one round of the loop keeps `res * base ^ exp % mod` -/
theorem sq_step (b e m acc : Nat) :
    (if e % 2 = 1 then acc * b % m else acc) * (b * b % m) ^ (e / 2) % m = acc * b ^ e % m := by
  have hsq : (b * b % m) ^ (e / 2) % m = b ^ (2 * (e / 2)) % m := by
    rw [← Nat.pow_mod, ← Nat.pow_two, ← Nat.pow_mul]
  by_cases hodd : e % 2 = 1
  · rw [if_pos hodd]
    have hdec : e = 2 * (e / 2) + 1 := by omega
    have hpow : b ^ e = b * b ^ (2 * (e / 2)) := by
      conv => lhs; rw [hdec]
      rw [Nat.pow_succ, Nat.mul_comm]
    rw [Nat.mul_mod, Nat.mod_mod, hsq, ← Nat.mul_mod, hpow, Nat.mul_assoc]
  · rw [if_neg hodd]
    have hdec : e = 2 * (e / 2) := by omega
    have hpow : b ^ e = b ^ (2 * (e / 2)) := by
      conv => lhs; rw [hdec]
    rw [Nat.mul_mod, hsq, ← Nat.mul_mod, hpow]

/-- the loop computes `res * base ^ exp % mod` when the fuel covers the bits of `exp` -/
theorem sqMul_spec (mod : Nat) (hmod : 0 < mod) : ∀ (fuel base exp res : Nat),
    exp < 2 ^ fuel → res < mod → sqMul mod fuel base exp res = res * base ^ exp % mod := by
  intro fuel
  induction fuel with
  | zero =>
    intro base exp res he hr
    have h0 : exp = 0 := by
      rw [Nat.pow_zero] at he
      omega
    subst h0
    simp [sqMul, Nat.mod_eq_of_lt hr]
  | succ fuel ih =>
    intro base exp res he hr
    unfold sqMul
    by_cases h0 : exp = 0
    · subst h0
      simp [Nat.mod_eq_of_lt hr]
    · by_cases hr0 : res = 0
      · subst hr0
        simp
      · have hc : (exp == 0 || res == 0) = false := by simp [h0, hr0]
        rw [hc]
        simp only [Bool.false_eq_true, if_false, beq_iff_eq]
        have hlt : exp / 2 < 2 ^ fuel := by
          rw [Nat.pow_succ] at he
          omega
        have hres : (if exp % 2 = 1 then res * base % mod else res) < mod := by
          split
          · exact Nat.mod_lt _ hmod
          · exact hr
        rw [ih (base * base % mod) (exp / 2) _ hlt hres]
        exact sq_step base exp mod res

/-! ### the period search -/

theorem findPeriodGo_spec (base mod : Nat) : ∀ (left period val k : Nat), 0 < period →
    val = base ^ (period - 1) % mod → findPeriodGo base mod left period val = k →
    (k = 0 ∧ ∀ j, period ≤ j → j < period + left → base ^ j % mod ≠ 1) ∨
    (period ≤ k ∧ k < period + left ∧ base ^ k % mod = 1 ∧
      ∀ j, period ≤ j → j < k → base ^ j % mod ≠ 1) := by
  intro left
  induction left with
  | zero =>
    intro period val k _ _ hk
    left
    refine ⟨by simpa [findPeriodGo] using hk.symm, ?_⟩
    intro j h1 h2
    omega
  | succ left ih =>
    intro period val k hp hval hk
    unfold findPeriodGo at hk
    have hv' : val * base % mod = base ^ period % mod := by
      rw [hval, Nat.mod_mul_mod, ← Nat.pow_succ]
      congr 2
      omega
    simp only [beq_iff_eq] at hk
    by_cases h1 : val * base % mod = 1
    · rw [if_pos h1] at hk
      right
      subst hk
      refine ⟨Nat.le_refl _, by omega, by rw [← hv']; exact h1, ?_⟩
      intro j h2 h3
      omega
    · rw [if_neg h1] at hk
      have hval' : val * base % mod = base ^ (period + 1 - 1) % mod := by
        rw [hv', Nat.add_sub_cancel]
      have hne : base ^ period % mod ≠ 1 := by rw [← hv']; exact h1
      rcases ih (period + 1) (val * base % mod) k (Nat.succ_pos _) hval' hk with
        ⟨hk0, hall⟩ | ⟨hle, hlt, hone, hall⟩
      · left
        refine ⟨hk0, ?_⟩
        intro j h2 h3
        by_cases hj : j = period
        · subst hj; exact hne
        · exact hall j (by omega) (by omega)
      · right
        refine ⟨by omega, by omega, hone, ?_⟩
        intro j h2 h3
        by_cases hj : j = period
        · subst hj; exact hne
        · exact hall j (by omega) h3

theorem findPeriod_order' (base mod k : Nat) (h : findPeriod base mod = some k) (hk : 0 < k) :
    base ^ k % mod = 1 ∧ ∀ j, 0 < j → j < k → base ^ j % mod ≠ 1 := by
  unfold findPeriod at h
  split at h
  · injection h with h; omega
  · split at h
    · exact absurd h (by simp)
    · injection h with h
      by_cases hm : mod ≤ 1
      · have h0 : mod - 1 = 0 := by omega
        rw [h0] at h
        simp [findPeriodGo] at h
        omega
      · have hval : (1 : Nat) = base ^ (1 - 1) % mod := by
          rw [Nat.sub_self, Nat.pow_zero, Nat.mod_eq_of_lt (by omega)]
        rcases findPeriodGo_spec base mod (mod - 1) 1 1 k (by omega) hval h with
          ⟨hk0, _⟩ | ⟨_, _, hone, hall⟩
        · omega
        · exact ⟨hone, fun j h1 h2 => hall j h1 h2⟩

theorem findPeriod_zero' (base mod : Nat) (h : findPeriod base mod = some 0)
    (hs : (base == 2 && isTwoPow3 mod) = false) :
    ∀ j, 0 < j → j < mod → base ^ j % mod ≠ 1 := by
  intro j hj0 hjm
  unfold findPeriod at h
  rw [hs] at h
  simp only [Bool.false_eq_true, if_false] at h
  split at h
  · exact absurd h (by simp)
  · injection h with h
    have hm : 2 ≤ mod := by omega
    have hval : (1 : Nat) = base ^ (1 - 1) % mod := by
      rw [Nat.sub_self, Nat.pow_zero, Nat.mod_eq_of_lt (by omega)]
    rcases findPeriodGo_spec base mod (mod - 1) 1 1 0 (by omega) hval h with
      ⟨_, hall⟩ | ⟨hle, _, _, _⟩
    · exact hall j hj0 (by omega)
    · omega

/-- `exp %= period` after `find_period` keeps the residue -/
theorem findPeriod_reduce (base mod period e : Nat) (hm : 2 ≤ mod)
    (h : findPeriod base mod = some period) :
    base ^ (if period > 0 then e % period else e) % mod = base ^ e % mod := by
  by_cases hp : period > 0
  · rw [if_pos hp]
    have h1 := (findPeriod_order' base mod period h hp).1
    have h2 : base ^ period % mod = 1 % mod := by
      rw [h1, Nat.mod_eq_of_lt (by omega)]
    exact (period_sound base mod period hp h2 e).symm
  · rw [if_neg hp]

/-! ### powers of two, the `case 3:` reduction -/

theorem log2Exact_sound : ∀ (fuel m n : Nat), log2Exact fuel m = some n → m = 2 ^ n := by
  intro fuel
  induction fuel with
  | zero =>
    intro m n h
    simp [log2Exact] at h
  | succ fuel ih =>
    intro m n h
    unfold log2Exact at h
    split at h
    · rename_i h1
      injection h with h
      subst h
      simpa using h1
    · split at h
      · exact absurd h (by simp)
      · rename_i h1 h2
        simp only [Bool.or_eq_true, beq_iff_eq, not_or] at h2
        cases hr : log2Exact fuel (m / 2) with
        | none => rw [hr] at h; simp at h
        | some n' =>
          rw [hr] at h
          simp only [Option.map_some, Option.some.injEq] at h
          have h3 := ih (m / 2) n' hr
          subst h
          rw [Nat.pow_succ, ← h3]
          omega

/-- `3 ^ (2 ^ k) = 1 + c * 2 ^ (k + 2)` for `k ≥ 1` -/
theorem three_pow_two_pow : ∀ k, ∃ c, 3 ^ (2 ^ (k + 1)) = 1 + c * 2 ^ (k + 3) := by
  intro k
  induction k with
  | zero => exact ⟨1, by decide⟩
  | succ k ih =>
    obtain ⟨c, hc⟩ := ih
    refine ⟨c + c * c * 2 ^ (k + 2), ?_⟩
    have h1 : (3 : Nat) ^ (2 ^ (k + 1 + 1)) = 3 ^ (2 ^ (k + 1)) * 3 ^ (2 ^ (k + 1)) := by
      rw [← Nat.pow_add, Nat.pow_succ 2 (k + 1)]
      congr 1
      omega
    have h2 : (2 : Nat) ^ (k + 3) = 2 * 2 ^ (k + 2) := by
      rw [Nat.pow_succ, Nat.mul_comm]
    have h3 : (2 : Nat) ^ (k + 1 + 3) = 2 * 2 ^ (k + 2) * 2 := by
      rw [Nat.pow_succ, Nat.pow_succ, Nat.mul_comm (2 ^ (k + 2)) 2]
    rw [h1, hc, h3, h2]
    generalize (2 : Nat) ^ (k + 2) = N
    grind

theorem three_order (k : Nat) : 3 ^ (2 ^ (k + 1)) % 2 ^ (k + 3) = 1 := by
  obtain ⟨c, hc⟩ := three_pow_two_pow k
  have h1 : 1 < 2 ^ (k + 3) := Nat.one_lt_two_pow (by omega)
  rw [hc, Nat.add_mul_mod_self_right, Nat.mod_eq_of_lt h1]

theorem reduce3_sound' (exp n : Nat) (hn : 2 ≤ n) :
    3 ^ (exp % 2 ^ (max (n - 2) 1)) % 2 ^ n = 3 ^ exp % 2 ^ n := by
  by_cases h2 : n = 2
  · subst h2
    exact (period_sound 3 (2 ^ 2) (2 ^ (max (2 - 2) 1)) (by decide) (by decide) exp).symm
  · obtain ⟨k, rfl⟩ : ∃ k, n = k + 3 := ⟨n - 3, by omega⟩
    have hmax : max (k + 3 - 2) 1 = k + 1 := by omega
    rw [hmax]
    have h1 : 1 < 2 ^ (k + 3) := Nat.one_lt_two_pow (by omega)
    have hper : 3 ^ (2 ^ (k + 1)) % 2 ^ (k + 3) = 1 % 2 ^ (k + 3) := by
      rw [three_order k, Nat.mod_eq_of_lt h1]
    exact (period_sound 3 (2 ^ (k + 3)) (2 ^ (k + 1)) (Nat.two_pow_pos _) hper exp).symm

/-- the `case 3:` reduction keeps the residue -/
theorem reduce3_pow (base mod exp : Nat) (hm : 3 ≤ mod) :
    base ^ (reduce3 base mod exp) % mod = base ^ exp % mod := by
  unfold reduce3
  split
  · rename_i hb
    have hb3 : base = 3 := by simpa using hb
    subst hb3
    split
    · rename_i n hn
      have hmod := log2Exact_sound _ _ _ hn
      have hn2 : 2 ≤ n := by
        rcases n with _ | _ | n
        · simp at hmod; omega
        · simp at hmod; omega
        · omega
      rw [hmod]
      exact reduce3_sound' exp n hn2
    · rfl
  · rfl

/-! ### the literal special cases -/

theorem special_sound (base mod exp r : Nat) (he : 2 ≤ exp) (h : special base mod exp = some r) :
    r = base ^ exp % mod := by
  unfold special at h
  split at h
  · rename_i hb
    have hb' : base = 2 := by simpa using hb
    subst hb'
    split at h
    · rename_i hm
      have hm' : mod = 4 := by simpa using hm
      subst hm'
      injection h with h
      subst h
      exact (entry_of_ok (b := 2) (m := 4) (p := 1) (s := 2) (rep := 2) (r := 0) (v := 0)
        (by decide) exp he (Nat.mod_one _)).symm
    · split at h
      · rename_i hm
        have hm' : mod = 6 := by simpa using hm
        subst hm'
        injection h with h
        subst h
        simp only [beq_iff_eq]
        split
        · rename_i h2
          exact (entry_of_ok (b := 2) (m := 6) (p := 2) (s := 1) (rep := 2) (r := 0) (v := 4)
            (by decide) exp (by omega) h2).symm
        · rename_i h2
          exact (entry_of_ok (b := 2) (m := 6) (p := 2) (s := 1) (rep := 1) (r := 1) (v := 2)
            (by decide) exp (by omega) (by omega)).symm
      · split at h
        · rename_i hm
          have hm' : mod = 12 := by simpa using hm
          subst hm'
          injection h with h
          subst h
          simp only [beq_iff_eq]
          split
          · rename_i h2
            exact (entry_of_ok (b := 2) (m := 12) (p := 2) (s := 2) (rep := 2) (r := 0) (v := 4)
              (by decide) exp he h2).symm
          · rename_i h2
            exact (entry_of_ok (b := 2) (m := 12) (p := 2) (s := 2) (rep := 3) (r := 1) (v := 8)
              (by decide) exp he (by omega)).symm
        · split at h
          · rename_i hm
            have hm' : mod = 30 := by simpa using hm
            subst hm'
            injection h with h
            subst h
            split
            · rename_i h2
              exact (entry_of_ok (b := 2) (m := 30) (p := 4) (s := 1) (rep := 3) (r := 3) (v := 8)
                (by decide) exp (by omega) h2).symm
            · rename_i h2
              exact (entry_of_ok (b := 2) (m := 30) (p := 4) (s := 1) (rep := 4) (r := 0) (v := 16)
                (by decide) exp (by omega) h2).symm
            · rename_i h2
              exact (entry_of_ok (b := 2) (m := 30) (p := 4) (s := 1) (rep := 1) (r := 1) (v := 2)
                (by decide) exp (by omega) h2).symm
            · rename_i h3 h0 h1
              have h3' : exp % 4 ≠ 3 := h3
              have h0' : exp % 4 ≠ 0 := h0
              have h1' : exp % 4 ≠ 1 := h1
              exact (entry_of_ok (b := 2) (m := 30) (p := 4) (s := 1) (rep := 2) (r := 2) (v := 4)
                (by decide) exp (by omega) (by omega)).symm
          · exact absurd h (by simp)
  · split at h
    · rename_i hb
      have hb' : base = 3 := by simpa using hb
      subst hb'
      split at h
      · rename_i hm
        have hm' : mod = 6 := by simpa using hm
        subst hm'
        injection h with h
        subst h
        exact (entry_of_ok (b := 3) (m := 6) (p := 1) (s := 1) (rep := 1) (r := 0) (v := 3)
          (by decide) exp (by omega) (Nat.mod_one _)).symm
      · exact absurd h (by simp)
    · split at h
      · rename_i hb
        have hb' : base = 6 := by simpa using hb
        subst hb'
        split at h
        · rename_i hm
          have hm' : mod = 10 := by simpa using hm
          subst hm'
          injection h with h
          subst h
          exact (entry_of_ok (b := 6) (m := 10) (p := 1) (s := 1) (rep := 1) (r := 0) (v := 6)
            (by decide) exp (by omega) (Nat.mod_one _)).symm
        · exact absurd h (by simp)
      · split at h
        · rename_i hb
          have hb' : base = 7 := by simpa using hb
          subst hb'
          split at h
          · rename_i hm
            have hm' : mod = 12 := by simpa using hm
            subst hm'
            injection h with h
            subst h
            simp only [beq_iff_eq]
            split
            · rename_i h2
              exact (entry_of_ok (b := 7) (m := 12) (p := 2) (s := 0) (rep := 0) (r := 0) (v := 1)
                (by decide) exp (by omega) h2).symm
            · rename_i h2
              exact (entry_of_ok (b := 7) (m := 12) (p := 2) (s := 0) (rep := 1) (r := 1) (v := 7)
                (by decide) exp (by omega) (by omega)).symm
          · exact absurd h (by simp)
        · exact absurd h (by simp)

/-! ### the assembled function -/

/-- the part of `Exp.__mod__` after the special cases: period reduction, then the loop -/
theorem tail_correct (base mod e period : Nat) (hm : 3 ≤ mod)
    (hp : findPeriod base mod = some period) :
    (if (if period > 0 then e % period else e) == 0 then 1
      else sqMul mod ((if period > 0 then e % period else e) + 1) base
        (if period > 0 then e % period else e) 1) = base ^ e % mod := by
  have hred := findPeriod_reduce base mod period e (by omega) hp
  generalize (if period > 0 then e % period else e) = e' at hred
  rw [← hred]
  split
  · rename_i h0
    have h0' : e' = 0 := by simpa using h0
    subst h0'
    rw [Nat.pow_zero, Nat.mod_eq_of_lt (by omega)]
  · have hlt : e' < 2 ^ (e' + 1) := Nat.lt_trans (Nat.lt_succ_self _) Nat.lt_two_pow_self
    rw [sqMul_spec mod (by omega) (e' + 1) base e' 1 hlt (by omega), Nat.one_mul]

/-- `expModInt` returns the true residue for every exponent `≥ 1` -/
theorem expModInt_correct_partial' (base exp mod r : Nat) (he : 1 ≤ exp)
    (h : expModInt base exp mod = some r) : r = base ^ exp % mod := by
  unfold expModInt at h
  split at h
  · rename_i h1
    have h1' : mod = 1 := by simpa using h1
    subst h1'
    injection h with h
    subst h
    exact (Nat.mod_one _).symm
  · rename_i h1
    have h1' : mod ≠ 1 := by simpa using h1
    split at h
    · rename_i h2
      have h2' : mod = base := by simpa using h2
      subst h2'
      injection h with h
      subst h
      exact (pow_mod_self mod exp he).symm
    · split at h
      · rename_i h3
        have h3' : mod = 2 := by simpa using h3
        subst h3'
        injection h with h
        subst h
        exact (pow_mod_two base exp he).symm
      · rename_i h3
        have h3' : mod ≠ 2 := by simpa using h3
        split at h
        · exact absurd h (by simp)
        · rename_i h4
          have h4' : mod ≠ 0 := by simpa using h4
          split at h
          · exact absurd h (by simp)
          · split at h
            · exact absurd h (by simp)
            · rename_i h6
              have hm : 3 ≤ mod := by omega
              split at h
              · rename_i r' hs
                injection h with h
                subst h
                exact special_sound base mod exp r' (by omega) hs
              · split at h
                · exact absurd h (by simp)
                · rename_i period hp
                  have ht := tail_correct base mod (reduce3 base mod exp) period hm hp
                  rw [reduce3_pow base mod exp hm] at ht
                  rw [← ht]
                  dsimp only at h
                  generalize (if period > 0 then reduce3 base mod exp % period
                    else reduce3 base mod exp) = e' at h ⊢
                  split at h
                  · rename_i h7
                    injection h with h
                    rw [if_pos h7]
                    exact h.symm
                  · rename_i h7
                    injection h with h
                    rw [if_neg h7]
                    exact h.symm

theorem ite_some_isSome (c : Prop) [Decidable c] (a b : Nat) :
    (if c then some a else some b).isSome = true := by
  split <;> rfl

theorem expModInt_defined' (base exp mod : Nat) (hm : 1 ≤ mod) (hlim : mod < 2 ^ 24)
    (hb : base % mod ≠ 0 ∨ mod = 1 ∨ mod = base ∨ mod = 2)
    (he : 1 < exp ∨ mod = 1 ∨ mod = base ∨ mod = 2) :
    (expModInt base exp mod).isSome := by
  unfold expModInt
  split
  · rfl
  · rename_i h1
    have h1' : mod ≠ 1 := by simpa using h1
    split
    · rfl
    · rename_i h2
      have h2' : mod ≠ base := by simpa using h2
      split
      · rfl
      · rename_i h3
        have h3' : mod ≠ 2 := by simpa using h3
        split
        · rename_i h4
          have h4' : mod = 0 := by simpa using h4
          omega
        · split
          · rename_i h5
            have h5' : base % mod = 0 := by simpa using h5
            rcases hb with hb | hb | hb | hb
            · exact absurd h5' hb
            · exact absurd hb h1'
            · exact absurd hb h2'
            · exact absurd hb h3'
          · split
            · rename_i h6
              rcases he with he | he | he | he
              · omega
              · exact absurd he h1'
              · exact absurd he h2'
              · exact absurd he h3'
            · split
              · rfl
              · split
                · rename_i hp
                  unfold findPeriod at hp
                  split at hp
                  · exact absurd hp (by simp)
                  · split at hp
                    · omega
                    · exact absurd hp (by simp)
                · dsimp only
                  exact ite_some_isSome _ _ _

end BB.NumMod
