/-
C18 helper lemmas (hand written, core Lean only): modular exponentiation by squaring with its
correctness proof, and the periodicity facts that turn one finite check into a statement about
every exponent.  `BB/Generated/NumTables.lean` (written by tools/extract_num.py from the literal
tables of tm/num.py) instantiates `entry_of_ok` / `reduce_of_ok`; the only thing left to the
generated file is a `decide` on a closed Boolean, i.e. a finite computation checked by the kernel.
-/

namespace BB.PowMod

/-- square-and-multiply, structural on `fuel` (any `fuel ≥ e` is enough) -/
def powModAux : Nat → Nat → Nat → Nat → Nat → Nat
  | 0, _, _, _, acc => acc
  | fuel + 1, b, e, m, acc =>
    if e = 0 then acc
    else powModAux fuel (b * b % m) (e / 2) m (if e % 2 = 1 then acc * b % m else acc)

/-- `b ^ e % m` computed with `O(log e)` multiplications of numbers below `m` -/
def powMod (b e m : Nat) : Nat := powModAux e b e m 1 % m

theorem powModAux_spec : ∀ (fuel b e m acc : Nat), e ≤ fuel →
    powModAux fuel b e m acc % m = acc * b ^ e % m := by
  intro fuel
  induction fuel with
  | zero =>
    intro b e m acc h
    have he : e = 0 := Nat.le_zero.mp h
    subst he
    simp [powModAux]
  | succ fuel ih =>
    intro b e m acc h
    unfold powModAux
    by_cases he : e = 0
    · subst he
      simp
    · rw [if_neg he]
      have hle : e / 2 ≤ fuel := by omega
      rw [ih (b * b % m) (e / 2) m _ hle]
      have hsq : (b * b % m) ^ (e / 2) % m = b ^ (2 * (e / 2)) % m := by
        rw [← Nat.pow_mod, ← Nat.pow_two, ← Nat.pow_mul]
      by_cases hodd : e % 2 = 1
      · rw [if_pos hodd]
        have hdec : e = 2 * (e / 2) + 1 := by omega
        have hpow : b ^ e = b * b ^ (2 * (e / 2)) := by
          conv => lhs; rw [hdec]
          rw [Nat.pow_succ, Nat.mul_comm]
        rw [Nat.mul_mod, Nat.mod_mod, hsq, ← Nat.mul_mod, hpow, Nat.mul_assoc]
      · rw [if_neg hodd]
        have hdec : e = 2 * (e / 2) := by omega
        have hpow : b ^ e = b ^ (2 * (e / 2)) := by
          conv => lhs; rw [hdec]
        rw [Nat.mul_mod, hsq, ← Nat.mul_mod, hpow]

theorem powMod_eq (b e m : Nat) : powMod b e m = b ^ e % m := by
  unfold powMod
  rw [powModAux_spec e b e m 1 (Nat.le_refl e), Nat.one_mul]

/-- one step of the period, from the pre-period `s` on -/
theorem pow_mod_shift (b m p s : Nat) (h : b ^ (s + p) % m = b ^ s % m) :
    ∀ e, s ≤ e → b ^ (e + p) % m = b ^ e % m := by
  intro e hse
  obtain ⟨d, rfl⟩ := Nat.exists_eq_add_of_le hse
  have h1 : b ^ (s + d + p) = b ^ (s + p) * b ^ d := by
    rw [← Nat.pow_add]
    congr 1
    omega
  rw [h1, Nat.mul_mod, h, ← Nat.mul_mod, ← Nat.pow_add]

/-- **periodicity**: if `b^(s+p) ≡ b^s (mod m)` then `b^e mod m` is `p`-periodic for `e ≥ s` -/
theorem pow_mod_periodic (b m p s : Nat) (h : b ^ (s + p) % m = b ^ s % m) :
    ∀ e, s ≤ e → ∀ k, b ^ (e + k * p) % m = b ^ e % m := by
  intro e hse k
  induction k with
  | zero => simp
  | succ k ih =>
    have h1 : e + (k + 1) * p = (e + k * p) + p := by
      rw [Nat.succ_mul, Nat.add_assoc]
    rw [h1, pow_mod_shift b m p s h (e + k * p) (Nat.le_trans hse (Nat.le_add_right _ _)), ih]

private theorem congr_le (b m p s : Nat) (h : b ^ (s + p) % m = b ^ s % m)
    (e e' : Nat) (hs : s ≤ e) (hle : e ≤ e') (hmod : e % p = e' % p) :
    b ^ e % m = b ^ e' % m := by
  have hz : (e' - e) % p = 0 := Nat.sub_mod_eq_zero_of_mod_eq hmod.symm
  obtain ⟨c, hc⟩ := Nat.dvd_of_mod_eq_zero hz
  have he' : e' = e + c * p := by
    rw [Nat.mul_comm c p, ← hc]
    omega
  rw [he', pow_mod_periodic b m p s h e hs c]

/-- exponents `≥ s` that agree modulo the period give the same residue -/
theorem pow_mod_congr (b m p s : Nat) (h : b ^ (s + p) % m = b ^ s % m)
    (e e' : Nat) (hs : s ≤ e) (hs' : s ≤ e') (hmod : e % p = e' % p) :
    b ^ e % m = b ^ e' % m := by
  rcases Nat.le_total e e' with hle | hle
  · exact congr_le b m p s h e e' hs hle hmod
  · exact (congr_le b m p s h e' e hs' hle hmod.symm).symm

/-- the finite check behind one table entry `e % p = r ↦ v` of `b ^ e % m` for `e ≥ s`:
the period is a period from `s` on, `rep` is a representative of the residue class `r` that is
`≥ s`, and the value at the representative is `v` -/
def entryOk (b m p s rep r v : Nat) : Bool :=
  (powMod b (s + p) m == powMod b s m) && decide (s ≤ rep) && (rep % p == r)
    && (powMod b rep m == v)

theorem entry_of_ok {b m p s rep r v : Nat} (ok : entryOk b m p s rep r v = true) :
    ∀ e, s ≤ e → e % p = r → b ^ e % m = v := by
  intro e hse hr
  simp only [entryOk, Bool.and_eq_true, beq_iff_eq, decide_eq_true_eq] at ok
  obtain ⟨⟨⟨hper, hrep⟩, hrr⟩, hv⟩ := ok
  rw [powMod_eq, powMod_eq] at hper
  rw [powMod_eq] at hv
  rw [pow_mod_congr b m p s hper e rep hse hrep (hr.trans hrr.symm), hv]

/-- the finite check behind "the exponent may be reduced modulo `p`" (no pre-period) -/
def reduceOk (b m p : Nat) : Bool := decide (0 < p) && (powMod b p m == 1 % m)

theorem reduce_of_ok {b m p : Nat} (ok : reduceOk b m p = true) :
    ∀ e, b ^ e % m = b ^ (e % p) % m := by
  intro e
  simp only [reduceOk, Bool.and_eq_true, beq_iff_eq, decide_eq_true_eq] at ok
  obtain ⟨hp, hper⟩ := ok
  rw [powMod_eq] at hper
  have h0 : b ^ (0 + p) % m = b ^ 0 % m := by
    rw [Nat.zero_add, Nat.pow_zero]
    exact hper
  exact pow_mod_congr b m p 0 h0 e (e % p) (Nat.zero_le _) (Nat.zero_le _)
    (by rw [Nat.mod_mod])

/-- consequence used in the statements: the residue depends only on `e % p` -/
theorem depends_only_of_ok {b m p : Nat} (ok : reduceOk b m p = true) :
    ∀ e e', e % p = e' % p → b ^ e % m = b ^ e' % m := by
  intro e e' h
  rw [reduce_of_ok ok e, reduce_of_ok ok e', h]

/-- the soundness of `find_period`'s answer, for any base/modulus/period (what
`exp %= period` in `Exp.__mod__` relies on once the loop has seen `val == 1`) -/
theorem period_sound (b m p : Nat) (hp : 0 < p) (h : b ^ p % m = 1 % m) :
    ∀ e, b ^ e % m = b ^ (e % p) % m := by
  apply reduce_of_ok
  simp only [reduceOk, Bool.and_eq_true, beq_iff_eq, decide_eq_true_eq]
  exact ⟨hp, by rw [powMod_eq]; exact h⟩

/-- `mod == 2: return base % 2` -/
theorem pow_mod_two (b e : Nat) (he : 0 < e) : b ^ e % 2 = b % 2 := by
  induction e with
  | zero => omega
  | succ e ih =>
    rw [Nat.pow_succ, Nat.mul_mod]
    rcases Nat.eq_zero_or_pos e with h0 | hpos
    · subst h0; simp
    · rw [ih hpos]
      rcases Nat.mod_two_eq_zero_or_one b with h | h <;> simp [h]

/-- `mod == base: return 0` -/
theorem pow_mod_self (b e : Nat) (he : 0 < e) : b ^ e % b = 0 := by
  obtain ⟨k, rfl⟩ := Nat.exists_eq_succ_of_ne_zero (Nat.pos_iff_ne_zero.mp he)
  rw [Nat.pow_succ]
  exact Nat.mul_mod_left _ _

/-- `mod == 1: return 0` -/
theorem pow_mod_one (b e : Nat) : b ^ e % 1 = 0 := Nat.mod_one _

end BB.PowMod
