/-
Symbolic rule validation, part 4: the symbolic span built from a reported application
(`spanDiffs`, `symSpan`): the valuations `v + j·D` stay natural during the `times` periods, and
after the last period the shifted span is the reported `after`.
-/
import BB.Lemmas.SymRule3

namespace BB.Sym

theorem getD_append_lt {α : Type} (a b : List α) (k : Nat) (d : α) (h : k < a.length) :
    (a ++ b).getD k d = a.getD k d := by
  induction a generalizing k with
  | nil => cases h
  | cons x xs ih =>
    cases k with
    | zero => rfl
    | succ k =>
      simp only [List.cons_append, List.getD_cons_succ]
      exact ih k (by simpa using h)

theorem getD_append_add {α : Type} (a b : List α) (k : Nat) (d : α) :
    (a ++ b).getD (a.length + k) d = b.getD k d := by
  induction a with
  | nil => simp
  | cons x xs ih =>
    rw [List.length_cons, show xs.length + 1 + k = (xs.length + k) + 1 by omega,
      List.cons_append, List.getD_cons_succ]
    exact ih

/-! ### `spanDiffs` -/

theorem spanDiffs_cons {times : Nat} {a b : Block} {as bs : Span} {ds : List Int}
    (h : spanDiffs times (a :: as) (b :: bs) = some ds) :
    a.color = b.color ∧ ∃ d r, ds = d :: r ∧ (b.count : Int) = a.count + times * d ∧
      spanDiffs times as bs = some r := by
  simp only [spanDiffs] at h
  by_cases hc : (a.color != b.color) = true
  · rw [if_pos hc] at h; cases h
  · rw [if_neg hc] at h
    simp only [bne_iff_ne, ne_eq, Decidable.not_not] at hc
    by_cases hm : (((b.count : Int) - (a.count : Int)) % (times : Int) != 0) = true
    · rw [if_pos hm] at h; cases h
    · rw [if_neg hm] at h
      simp only [bne_iff_ne, ne_eq, Decidable.not_not] at hm
      cases hr : spanDiffs times as bs with
      | none => rw [hr] at h; cases h
      | some r =>
        rw [hr] at h
        simp only [Option.map_some, Option.some.injEq] at h
        refine ⟨hc, _, r, h.symm, ?_, rfl⟩
        have := Int.mul_ediv_add_emod ((b.count : Int) - (a.count : Int)) (times : Int)
        omega

theorem spanDiffs_length {times : Nat} {a b : Span} {ds : List Int}
    (h : spanDiffs times a b = some ds) : a.length = ds.length := by
  induction a generalizing b ds with
  | nil =>
    cases b with
    | nil => simp only [spanDiffs, Option.some.injEq] at h; subst h; rfl
    | cons y ys => simp only [spanDiffs] at h; cases h
  | cons x xs ih =>
    cases b with
    | nil => simp only [spanDiffs] at h; cases h
    | cons y ys =>
      obtain ⟨_, d, r, rfl, _, hr⟩ := spanDiffs_cons h
      simp only [List.length_cons, ih hr]

/-! ### `sameShapeGrow` -/

theorem sameShapeGrow_spec {a b : Span} {ds : List Int} (h : sameShapeGrow a b = some ds) :
    a.length = ds.length ∧ ∀ d ∈ ds, 0 ≤ d := by
  induction a generalizing b ds with
  | nil =>
    cases b with
    | nil =>
      simp only [sameShapeGrow, Option.some.injEq] at h; subst h
      exact ⟨rfl, fun d hd => nomatch hd⟩
    | cons y ys => simp only [sameShapeGrow] at h; cases h
  | cons x xs ih =>
    cases b with
    | nil => simp only [sameShapeGrow] at h; cases h
    | cons y ys =>
      simp only [sameShapeGrow] at h
      by_cases hc : (x.color != y.color || decide (y.count < x.count)) = true
      · rw [if_pos hc] at h; cases h
      · rw [if_neg hc] at h
        simp only [Bool.or_eq_true, decide_eq_true_eq, not_or, Nat.not_lt] at hc
        cases hr : sameShapeGrow xs ys with
        | none => rw [hr] at h; cases h
        | some r =>
          rw [hr] at h
          simp only [Option.map_some, Option.some.injEq] at h
          subst h
          obtain ⟨h1, h2⟩ := ih hr
          refine ⟨by simp only [List.length_cons, h1], fun d hd => ?_⟩
          cases hd with
          | head => omega
          | tail _ hd' => exact h2 d hd'

/-! ### the valuations stay natural -/

theorem neg_cast {m : Nat} {d : Int} (hd : d < 0) : ((m * d.natAbs : Nat) : Int) = -((m : Int) * d) := by
  grind

/-- during the `m + 1` periods of a reported application, `v + j·D` (`j ≤ m`) has no negative
    entry (for a decreasing block because its symbolic constant is at least 1) -/
theorem symSpan_nonneg (m : Nat) (s : Span) (ds : List Int) (i : Nat) (hl : s.length = ds.length)
    (hp : SSpan.posB (symSpan (m + 1) s ds i).1 = true) (j : Nat) (hj : j ≤ m) :
    NonnegAt (symSpan (m + 1) s ds i).2.1 (ds.filter (· != 0)) j := by
  induction s generalizing ds i with
  | nil => rw [symSpan_nil_left]; trivial
  | cons a as ih =>
    cases ds with
    | nil => cases hl
    | cons d ds =>
      simp only [List.length_cons, Nat.add_right_cancel_iff] at hl
      by_cases hd : d = 0
      · subst hd
        rw [symSpan_cons_zero] at hp ⊢
        rw [filter_cons_zero]
        exact ih ds i hl ((SSpan.posB_cons _ _).1 hp).2
      · rw [symSpan_cons_ne _ _ _ _ _ _ hd] at hp ⊢
        rw [filter_cons_ne hd]
        obtain ⟨hc, hrest⟩ := (SSpan.posB_cons _ _).1 hp
        refine ⟨?_, ih ds (i + 1) hl hrest⟩
        simp only [Form.var, Nat.add_sub_cancel] at hc ⊢
        by_cases hpos : d > 0
        · simp only [if_pos hpos, Nat.sub_self]
          have : 0 ≤ (j : Int) * d := Int.mul_nonneg (Int.natCast_nonneg j) (by omega)
          omega
        · simp only [if_neg hpos] at hc ⊢
          have hd' : d < 0 := by omega
          have hP := neg_cast (m := m) hd'
          have hjm : (m : Int) * d ≤ (j : Int) * d :=
            Int.mul_le_mul_of_nonpos_right (by omega) (by omega)
          omega

/-- after the last of the `m + 1` periods the shifted span is the reported `after` -/
theorem symSpan_final_inst (m : Nat) (a b : Span) (ds : List Int) (i : Nat) (tgt : SSpan)
    (hdiff : spanDiffs (m + 1) a b = some ds)
    (hp : SSpan.posB (symSpan (m + 1) a ds i).1 = true)
    (hs : shiftSpan (symSpan (m + 1) a ds i).1 ds = some tgt) (w : Val)
    (hw : ∀ k, k < (ds.filter (· != 0)).length →
      ((w.getD (i + k) 0 : Nat) : Int) = (symSpan (m + 1) a ds i).2.1.getD k 0
        + (m : Int) * (ds.filter (· != 0)).getD k 0) :
    tgt.inst w = b := by
  induction a generalizing b ds i tgt with
  | nil =>
    cases b with
    | nil =>
      simp only [spanDiffs, Option.some.injEq] at hdiff
      subst hdiff
      rw [symSpan_nil_left] at hs
      rw [shiftSpan_nil hs]
      rfl
    | cons y ys => simp only [spanDiffs] at hdiff; cases hdiff
  | cons x xs ih =>
    cases b with
    | nil => simp only [spanDiffs] at hdiff; cases hdiff
    | cons y ys =>
      obtain ⟨hcol, d, r, rfl, hcnt, hr⟩ := spanDiffs_cons hdiff
      obtain ⟨yc, yn⟩ := y
      simp only at hcol hcnt
      subst hcol
      have hmul : (((m + 1 : Nat) : Int)) * d = (m : Int) * d + d := by grind
      rw [hmul] at hcnt
      by_cases hd : d = 0
      · subst hd
        rw [symSpan_cons_zero] at hs hp hw
        rw [filter_cons_zero] at hw
        obtain ⟨_, r', hr', rfl⟩ := shiftSpan_cons hs
        rw [SSpan.inst_cons, ih ys r i r' hr ((SSpan.posB_cons _ _).1 hp).2 hr' hw]
        simp only [Form.const, Form.eval, dot_nil_left, Int.add_zero, Int.toNat_natCast,
          Nat.add_zero]
        congr 2
        omega
      · rw [symSpan_cons_ne _ _ _ _ _ _ hd] at hs hp hw
        rw [filter_cons_ne hd] at hw
        obtain ⟨hc1, hrest⟩ := (SSpan.posB_cons _ _).1 hp
        obtain ⟨hc, r', hr', rfl⟩ := shiftSpan_cons hs
        have hw0 := hw 0 (by simp only [List.length_cons]; omega)
        simp only [Nat.add_zero, List.getD_cons_zero] at hw0
        have hrest' : r'.inst w = ys := by
          refine ih ys r (i + 1) r' hr hrest hr' fun k hk => ?_
          have := hw (k + 1) (by simp only [List.length_cons]; omega)
          simp only [List.getD_cons_succ] at this
          rw [show i + 1 + k = i + (k + 1) by omega]
          exact this
        rw [SSpan.inst_cons, hrest']
        simp only at hc hc1 ⊢
        congr 2
        have e1 : Form.eval ⟨((Form.var (if d > 0 then x.count else x.count - (m + 1 - 1) * d.natAbs) i).c + d).toNat,
            (Form.var (if d > 0 then x.count else x.count - (m + 1 - 1) * d.natAbs) i).ks⟩ w =
            ((Form.var (if d > 0 then x.count else x.count - (m + 1 - 1) * d.natAbs) i).c + d).toNat
              + w.getD i 0 := eval_var _ i w
        rw [e1]
        simp only [Form.var, Nat.add_sub_cancel] at hc hc1 hw0 ⊢
        by_cases hpos : d > 0
        · simp only [if_pos hpos, Nat.sub_self] at hc hc1 hw0 ⊢
          omega
        · simp only [if_neg hpos] at hc hc1 hw0 ⊢
          have hd' : d < 0 := by omega
          have hP := neg_cast (m := m) hd'
          omega

end BB.Sym
