/-
C05 — segment analysis.  Part 16: what `AnalyzedProg::new` knows about the table, and the states
and colours that occur in a real run when `params` covers the program.
-/
import BB.Lemmas.SegSound15

namespace BB.Segment

open BB

/-! ### the real run stays inside the table -/

theorem Prog.get_mem' {p : Prog} {s : Slot} {v : Instr} (h : p.get s = some v) : (s, v) ∈ p := by
  induction p with
  | nil => simp [Prog.get] at h
  | cons e rest ih =>
    obtain ⟨k, v'⟩ := e
    simp only [Prog.get] at h
    by_cases hk : (k.1 == s.1 && k.2 == s.2) = true
    · simp only [hk, if_true, Option.some.injEq] at h
      simp only [Bool.and_eq_true, beq_iff_eq] at hk
      have : k = s := Prod.ext hk.1 hk.2
      rw [this, h]
      exact List.mem_cons_self
    · simp only [hk] at h
      exact List.mem_cons_of_mem _ (ih h)

/-- state, scanned colour and all cells are below the table size -/
def InRange (S C : Nat) (c : Cfg) : Prop :=
  c.state < S ∧ c.scan < C ∧ (∀ i, cellAt c.left i < C) ∧ (∀ i, cellAt c.right i < C)

theorem paramsCover_spec {p : Prog} {S C : Nat} (h : paramsCover p (S, C) = true) :
    0 < S ∧ 0 < C ∧ ∀ s v, p.get s = some v → s.1 < S ∧ s.2 < C ∧ v.1 < C ∧ v.2.2 < S := by
  unfold paramsCover at h
  simp only [Bool.and_eq_true, decide_eq_true_eq, List.all_eq_true] at h
  refine ⟨h.1.1, h.1.2, fun s v hg => ?_⟩
  have := h.2 (s, v) (Prog.get_mem' hg)
  exact ⟨this.1.1.1, this.1.1.2, this.1.2, this.2⟩

theorem run_inRange {p : Prog} {S C : Nat} (h : paramsCover p (S, C) = true) :
    ∀ t c, RunAt p.toF t c → InRange S C c := by
  obtain ⟨hS, hC, hget⟩ := paramsCover_spec h
  intro t
  induction t with
  | zero =>
    intro c hr
    simp only [RunAt, stepN_zero, Option.some.injEq] at hr
    subst hr
    exact ⟨hS, hC, fun i => by simpa [Cfg.init] using hC, fun i => by simpa [Cfg.init] using hC⟩
  | succ t ih =>
    intro c hr
    unfold RunAt at hr
    rw [stepN_succ_last] at hr
    cases h1 : stepN p.toF t Cfg.init with
    | none => rw [h1] at hr; cases hr
    | some c0 =>
      rw [h1] at hr
      simp only [Option.bind_some] at hr
      obtain ⟨r1, r2, r3, r4⟩ := ih c0 h1
      unfold step1 at hr
      cases hp : p.toF c0.state c0.scan with
      | none => rw [hp] at hr; cases hr
      | some instr =>
        obtain ⟨pr, sh, q'⟩ := instr
        rw [hp] at hr
        simp only [Option.some.injEq] at hr
        subst hr
        obtain ⟨_, _, g3, g4⟩ := hget (c0.state, c0.scan) (pr, sh, q') hp
        cases sh with
        | true =>
          refine ⟨g4, ?_, ?_, ?_⟩
          · simp only [Cfg.move, if_true]; rw [cellAt_headD]; exact r4 0
          · intro i
            simp only [Cfg.move, if_true]
            cases i with
            | zero => simpa using g3
            | succ i => simpa using r3 i
          · intro i
            simp only [Cfg.move, if_true]; rw [cellAt_tail]; exact r4 (i + 1)
        | false =>
          refine ⟨g4, ?_, ?_, ?_⟩
          · simp only [Cfg.move, Bool.false_eq_true, if_false]; rw [cellAt_headD]; exact r3 0
          · intro i
            simp only [Cfg.move, Bool.false_eq_true, if_false]; rw [cellAt_tail]; exact r3 (i + 1)
          · intro i
            simp only [Cfg.move, Bool.false_eq_true, if_false]
            cases i with
            | zero => simpa using g3
            | succ i => simpa using r4 i

/-! ### folds over a range -/

theorem foldl_range_induct {β : Type} (f : β → Nat → β) (Q : Nat → β → Prop) (init : β)
    (h0 : Q 0 init) (hs : ∀ k b, Q k b → Q (k + 1) (f b k)) :
    ∀ n, Q n ((List.range n).foldl f init) := by
  intro n
  induction n with
  | zero => exact h0
  | succ n ih =>
    rw [List.range_succ, List.foldl_append]
    exact hs n _ ih

theorem mem_sortedInsert {l : List Nat} {x y : Nat} : y ∈ sortedInsert l x ↔ y = x ∨ y ∈ l := by
  induction l with
  | nil => simp [sortedInsert]
  | cons z rest ih =>
    unfold sortedInsert
    by_cases h1 : x = z
    · subst h1; simp
    · have h1' : (x == z) = false := by simpa using h1
      by_cases h2 : x < z
      · simp [h1', h2]
      · simp only [h1', h2, Bool.false_eq_true, if_false, List.mem_cons, ih]
        constructor
        · rintro (h | h | h)
          · exact Or.inr (Or.inl h)
          · exact Or.inl h
          · exact Or.inr (Or.inr h)
        · rintro (h | h | h)
          · exact Or.inr (Or.inl h)
          · exact Or.inl h
          · exact Or.inr (Or.inr h)

/-! ### one row -/

structure RowOK (prog : Prog) (state k : Nat) (a0 a : RowAcc) : Prop where
  haltsMono : ∀ x, x ∈ a0.halts → x ∈ a.halts
  halts : ∀ c, c < k → prog.get (state, c) = none → state ∈ a.halts
  moves : ∀ c pr sh q', c < k → prog.get (state, c) = some (pr, sh, q') →
    (q' ≠ state → q' ∈ a.diff) ∧ q' ∈ (if sh then a.rights else a.lefts)
  spinOther : ∀ q, q ≠ state → dictGet a.spinouts q = dictGet a0.spinouts q
  spin : 0 < k → ∀ pr sh, prog.get (state, 0) = some (pr, sh, state) →
    dictGet a.spinouts state = some sh

theorem mem_setInsert' {s : List Nat} {x y : Nat} : y ∈ setInsert s x ↔ y = x ∨ y ∈ s :=
  mem_setInsert

theorem analyzeSlot_ok (prog : Prog) (state k : Nat) (a0 a : RowAcc)
    (h : RowOK prog state k a0 a) : RowOK prog state (k + 1) a0 (analyzeSlot prog state a k) := by
  unfold analyzeSlot
  cases hg : prog.get (state, k) with
  | none =>
    simp only
    refine ⟨fun x hx => ?_, fun c hc hn => ?_, fun c pr sh q' hc hgc => ?_, h.spinOther, ?_⟩
    · rw [mem_setInsert]; exact Or.inr (h.haltsMono x hx)
    · rw [mem_setInsert]
      by_cases hck : c = k
      · exact Or.inl rfl
      · exact Or.inr (h.halts c (by omega) hn)
    · have hck : c ≠ k := by rintro rfl; rw [hg] at hgc; cases hgc
      exact h.moves c pr sh q' (by omega) hgc
    · intro hk pr sh hg0
      have hk0 : k ≠ 0 := by rintro rfl; rw [hg] at hg0; cases hg0
      exact h.spin (by omega) pr sh hg0
  | some instr =>
    obtain ⟨pr0, sh0, nx⟩ := instr
    simp only
    -- the accumulator after the first `if`
    have key : ∀ a1 : RowAcc, a1.halts = a.halts → a1.lefts = a.lefts → a1.rights = a.rights →
        (∀ x, x ∈ a.diff → x ∈ a1.diff) → (nx ≠ state → nx ∈ a1.diff) →
        (∀ q, q ≠ state → dictGet a1.spinouts q = dictGet a.spinouts q) →
        (k ≠ 0 → a1.spinouts = a.spinouts) →
        (k = 0 → nx = state → dictGet a1.spinouts state = some sh0) →
        RowOK prog state (k + 1) a0
          (if sh0 = true then { a1 with rights := sortedInsert a1.rights nx }
            else { a1 with lefts := sortedInsert a1.lefts nx }) := by
      intro a1 e1 e2 e3 e4 e5 e6 e7 e8
      have hh : (if sh0 = true then { a1 with rights := sortedInsert a1.rights nx }
            else { a1 with lefts := sortedInsert a1.lefts nx }).halts = a.halts := by
        split <;> exact e1
      have hd : (if sh0 = true then { a1 with rights := sortedInsert a1.rights nx }
            else { a1 with lefts := sortedInsert a1.lefts nx }).diff = a1.diff := by
        split <;> rfl
      have hsp : (if sh0 = true then { a1 with rights := sortedInsert a1.rights nx }
            else { a1 with lefts := sortedInsert a1.lefts nx }).spinouts = a1.spinouts := by
        split <;> rfl
      refine ⟨fun x hx => by rw [hh]; exact h.haltsMono x hx, fun c hc hn => ?_,
        fun c pr sh q' hc hgc => ?_, fun q hq => by rw [hsp, e6 q hq]; exact h.spinOther q hq, ?_⟩
      · rw [hh]
        have hck : c ≠ k := by rintro rfl; rw [hg] at hn; cases hn
        exact h.halts c (by omega) hn
      · rw [hd]
        by_cases hck : c = k
        · subst hck
          rw [hg] at hgc
          simp only [Option.some.injEq, Prod.mk.injEq] at hgc
          obtain ⟨rfl, rfl, rfl⟩ := hgc
          refine ⟨e5, ?_⟩
          cases sh0 <;> simp [mem_sortedInsert]
        · obtain ⟨m1, m2⟩ := h.moves c pr sh q' (by omega) hgc
          refine ⟨fun hq => e4 _ (m1 hq), ?_⟩
          cases sh0 <;> cases sh <;> simp_all [mem_sortedInsert]
      · intro _ pr sh hg0
        rw [hsp]
        by_cases hk0 : k = 0
        · subst hk0
          rw [hg] at hg0
          simp only [Option.some.injEq, Prod.mk.injEq] at hg0
          obtain ⟨_, rfl, rfl⟩ := hg0
          exact e8 rfl rfl
        · rw [e7 hk0]
          exact h.spin (by omega) pr sh hg0
    by_cases hn : (nx == state) = true
    · simp only [hn, if_true]
      have hn' : nx = state := by simpa using hn
      by_cases hk0 : (k == 0) = true
      · simp only [hk0, if_true]
        have hk0' : k = 0 := by simpa using hk0
        refine key { a with spinouts := dictSet a.spinouts nx sh0 } rfl rfl rfl (fun _ hx => hx)
          (fun h' => absurd hn' h') ?_ (fun h' => absurd hk0' h') (fun _ _ => ?_)
        · intro q hq
          simp only
          rw [dictGet_dictSet_ne]
          rw [hn']; exact hq
        · simp only
          rw [hn', dictGet_dictSet_self]
      · simp only [hk0]
        have hk0' : k ≠ 0 := by simpa using hk0
        exact key a rfl rfl rfl (fun _ hx => hx) (fun h' => absurd hn' h') (fun _ _ => rfl)
          (fun _ => rfl) (fun h' => absurd h' hk0')
    · simp only [hn]
      have hn' : nx ≠ state := by simpa using hn
      refine key { a with diff := sortedInsert a.diff nx } rfl rfl rfl (fun x hx => ?_) (fun _ => ?_)
        (fun _ _ => rfl) (fun _ => rfl) (fun _ h' => absurd h' hn')
      · show x ∈ sortedInsert a.diff nx
        rw [mem_sortedInsert]; exact Or.inr hx
      · show nx ∈ sortedInsert a.diff nx
        rw [mem_sortedInsert]; exact Or.inl rfl

/-! ### the whole table -/

structure TabOK (prog : Prog) (C k : Nat) (ap : AnalyzedProg) : Prop where
  halts : ∀ q c, q < k → c < C → prog.get (q, c) = none → q ∈ ap.halts
  moves : ∀ q c pr sh q', q < k → c < C → prog.get (q, c) = some (pr, sh, q') →
    ∃ diffs dirs, dictGet ap.branches q = some (diffs, dirs) ∧
      (q' ≠ q → q' ∈ diffs) ∧ q' ∈ Dirs.get dirs sh
  spin : ∀ q pr sh, q < k → 0 < C → prog.get (q, 0) = some (pr, sh, q) →
    dictGet ap.spinouts q = some sh
  haltsOnly : ∀ q, q ∈ ap.halts → q < k
  spinOnly : ∀ q sh, dictGet ap.spinouts q = some sh → q < k

theorem analyzeRow_ok (prog : Prog) (C k : Nat) (ap : AnalyzedProg) (h : TabOK prog C k ap) :
    TabOK prog C (k + 1) (analyzeRow prog C ap k) := by
  have hrow := foldl_range_induct (analyzeSlot prog k)
    (fun j a => RowOK prog k j ⟨ap.halts, ap.spinouts, [], [], []⟩ a ∧
      (∀ x, x ∈ a.halts → x ∈ ap.halts ∨ x = k) ∧
      (∀ q sh, dictGet a.spinouts q = some sh → dictGet ap.spinouts q = some sh ∨ q = k))
    ⟨ap.halts, ap.spinouts, [], [], []⟩
    ⟨⟨fun _ hx => hx, fun c hc => by omega, fun c _ _ _ hc => by omega, fun _ _ => rfl,
      fun hk => by omega⟩, fun _ hx => Or.inl hx, fun _ _ hs => Or.inl hs⟩
    (fun j a ⟨h1, h2, h3⟩ => ⟨analyzeSlot_ok prog k j _ a h1, by
      intro x hx
      unfold analyzeSlot at hx
      split at hx
      · simp only at hx
        rw [mem_setInsert] at hx
        rcases hx with rfl | hx
        · exact Or.inr rfl
        · exact h2 x hx
      · simp only at hx
        apply h2
        revert hx
        split <;> split <;> (try split) <;> exact id, by
      intro q sh hs
      unfold analyzeSlot at hs
      split at hs
      · exact h3 q sh hs
      · rename_i pr0 sh0 nx _
        simp only at hs
        have : ∀ a1 : RowAcc, (dictGet a1.spinouts q = some sh →
              dictGet ap.spinouts q = some sh ∨ q = k) →
            dictGet (if sh0 = true then { a1 with rights := sortedInsert a1.rights nx }
              else { a1 with lefts := sortedInsert a1.lefts nx }).spinouts q = some sh →
            dictGet ap.spinouts q = some sh ∨ q = k := by
          intro a1 h' hs'
          apply h'
          revert hs'
          split <;> exact id
        refine this _ ?_ hs
        by_cases hn : (nx == k) = true
        · simp only [hn, if_true]
          by_cases hj : (j == 0) = true
          · simp only [hj, if_true]
            intro hs'
            rw [dictGet_dictSet] at hs'
            by_cases hq : q = nx
            · right; rw [hq]; simpa using hn
            · simp only [hq, if_false] at hs'
              exact h3 q sh hs'
          · simp only [hj]
            exact h3 q sh
        · simp only [hn]
          exact h3 q sh⟩) C
  obtain ⟨hr, hh, hs⟩ := hrow
  unfold analyzeRow
  simp only
  generalize (List.range C).foldl (analyzeSlot prog k) ⟨ap.halts, ap.spinouts, [], [], []⟩ = acc
    at hr hh hs ⊢
  refine ⟨?_, ?_, ?_, ?_, ?_⟩
  · intro q c hq hc hn
    by_cases hqk : q = k
    · subst hqk; exact hr.halts c hc hn
    · exact hr.haltsMono q (h.halts q c (by omega) hc hn)
  · intro q c pr sh q' hq hc hg
    by_cases hqk : q = k
    · subst hqk
      obtain ⟨m1, m2⟩ := hr.moves c pr sh q' hc hg
      refine ⟨acc.diff, (acc.lefts, acc.rights), dictGet_dictSet_self _ _ _, m1, ?_⟩
      unfold Dirs.get
      cases sh <;> simpa using m2
    · obtain ⟨diffs, dirs, h1, h2, h3⟩ := h.moves q c pr sh q' (by omega) hc hg
      exact ⟨diffs, dirs, by rw [dictGet_dictSet_ne _ _ hqk]; exact h1, h2, h3⟩
  · intro q pr sh hq hC hg
    by_cases hqk : q = k
    · subst hqk; exact hr.spin hC pr sh hg
    · rw [hr.spinOther q hqk]
      exact h.spin q pr sh (by omega) hC hg
  · intro q hq
    rcases hh q hq with h' | rfl
    · have := h.haltsOnly q h'; omega
    · omega
  · intro q sh hq
    rcases hs q sh hq with h' | rfl
    · have := h.spinOnly q sh h'; omega
    · omega

/-- **What `AnalyzedProg::new` knows.** -/
theorem analyzed_ok (prog : Prog) (S C : Nat) :
    TabOK prog C S (AnalyzedProg.new prog (S, C)) := by
  unfold AnalyzedProg.new
  exact foldl_range_induct (analyzeRow prog C) (fun k ap => TabOK prog C k ap) ⟨prog, [], [], []⟩
    ⟨(fun _ _ hq _ _ => by omega), (fun _ _ _ _ _ hq _ _ => by omega),
      (fun _ _ _ hq _ _ => by omega), (fun _ hq => by cases hq),
      (fun _ _ hq => by cases hq)⟩
    (fun k ap h => analyzeRow_ok prog C k ap h) S

theorem branchSound_of_cover {prog : Prog} {S C : Nat} (hpc : paramsCover prog (S, C) = true) :
    BranchSound (AnalyzedProg.new prog (S, C)) := by
  intro t c hr pr sh q' hg
  rw [AnalyzedProg.new_prog] at hr hg
  obtain ⟨r1, r2, _, _⟩ := run_inRange hpc t c hr
  exact (analyzed_ok prog S C).moves c.state c.scan pr sh q' r1 r2 hg

end BB.Segment
