/-
C05 — segment analysis.  Part 6: positive verdicts of `segment_cant_reach` (primed versions of the
theorems of `BB/Props/C05.lean`).
-/
import BB.Lemmas.SegSound5

namespace BB.Segment

open BB

theorem analyzeRow_prog (prog : Prog) (colors : Nat) (ap : AnalyzedProg) (state : Nat) :
    (analyzeRow prog colors ap state).prog = ap.prog := rfl

theorem AnalyzedProg.new_prog (prog : Prog) (params : Nat × Nat) :
    (AnalyzedProg.new prog params).prog = prog := by
  unfold AnalyzedProg.new
  have : ∀ (l : List Nat) (ap : AnalyzedProg),
      (l.foldl (analyzeRow prog params.2) ap).prog = ap.prog := by
    intro l
    induction l with
    | nil => intro ap; rfl
    | cons x xs ih => intro ap; rw [List.foldl_cons, ih, analyzeRow_prog]
  rw [this]

/-- what each answer of `segment_cant_reach` other than `refuted` claims about the real machine -/
def SegmentVerdict (p : ProgF) : SegmentResult → Prop
  | .halt => Halts p
  | .blank => ∃ n q, BlankAfter p n q
  | .spinout => SpinsOut p
  | .repeat => NeverHalts p
  | _ => True

theorem allSegmentsReached_verdict (ap : AnalyzedProg) (seg : Nat) (goal : Term) (v : SearchResult)
    (h : allSegmentsReached ap seg goal = .ok (some v)) : SearchVerdict ap.prog.toF v := by
  unfold allSegmentsReached at h
  refine searchLoop_verdict ap goal _ _ _ v ?_ h
  intro c hc
  cases goal <;> simp [Configs.new] at hc

theorem segmentLoop_verdict (ap : AnalyzedProg) (goal : Term) :
    ∀ (fuel seg : Nat) (r : SegmentResult), segmentLoop ap goal fuel seg = .ok r →
      SegmentVerdict ap.prog.toF r := by
  intro fuel
  induction fuel with
  | zero =>
    intro seg r h
    simp only [segmentLoop, Except.ok.injEq] at h
    subst h; trivial
  | succ fuel ih =>
    intro seg r h
    simp only [segmentLoop] at h
    cases ha : allSegmentsReached ap (2 + seg) goal with
    | error e => rw [ha] at h; cases h
    | ok o =>
      rw [ha] at h
      cases o with
      | none =>
        simp only [Except.ok.injEq] at h
        subst h; trivial
      | some v =>
        have hv := allSegmentsReached_verdict ap (2 + seg) goal v ha
        cases v with
        | limit => simp only [Except.ok.injEq] at h; subst h; trivial
        | reached => exact ih _ r h
        | «repeat» => simp only [Except.ok.injEq] at h; subst h; exact hv
        | found t =>
          simp only [Except.ok.injEq] at h
          subst h
          cases t <;> exact hv

theorem segmentCantReach_verdict (prog : Prog) (params : Nat × Nat) (segs : Nat) (goal : Term)
    (r : SegmentResult) (h : segmentCantReach prog params segs goal = .ok r) :
    SegmentVerdict prog.toF r := by
  unfold segmentCantReach at h
  split at h
  · cases h
  · simp only at h
    split at h
    · simp only [Except.ok.injEq] at h
      subst h; trivial
    · have := segmentLoop_verdict _ goal _ _ r h
      rwa [AnalyzedProg.new_prog] at this

theorem seg_halt_true' (prog : Prog) (params : Nat × Nat) (segs : Nat) (goal : Term)
    (h : segmentCantReach prog params segs goal = .ok .halt) : Halts prog.toF :=
  segmentCantReach_verdict prog params segs goal _ h

theorem seg_blank_true' (prog : Prog) (params : Nat × Nat) (segs : Nat) (goal : Term)
    (h : segmentCantReach prog params segs goal = .ok .blank) : ∃ n q, BlankAfter prog.toF n q :=
  segmentCantReach_verdict prog params segs goal _ h

theorem seg_spinout_true' (prog : Prog) (params : Nat × Nat) (segs : Nat) (goal : Term)
    (h : segmentCantReach prog params segs goal = .ok .spinout) : SpinsOut prog.toF :=
  segmentCantReach_verdict prog params segs goal _ h

theorem seg_repeat_forever' (prog : Prog) (params : Nat × Nat) (segs : Nat) (goal : Term)
    (h : segmentCantReach prog params segs goal = .ok .repeat) : NeverHalts prog.toF :=
  segmentCantReach_verdict prog params segs goal _ h

/-- the invariant of the `init` flag, on one iteration of the search: if every pending
    configuration and the configuration taken from the stack are well formed and `init`-exact, so is
    every pending configuration afterwards -/
theorem init_exact' (ap : AnalyzedProg) (goal : Term) (fuel : Nat) (config : Config)
    (configs configs' : Configs) (hok : CfgOK ap.prog config) (hc : TodoOK ap.prog configs)
    (h : searchStep ap goal fuel config configs = .ok (.cont configs')) : TodoOK ap.prog configs' := by
  have := searchStep_spec ap goal fuel config configs hok hc
  rw [h] at this
  exact this

end BB.Segment
