/-
C16 — one `get_instr` of a macro object over a history-independent inner program:
the answer is `pureInstr` of the slot, the invariant is kept (`macro_histIndep`).
-/
import BB.Lemmas.MacroHistRun

namespace BB.Macros

/-- number of cells of the simulated window -/
def LogicParams.window (lp : LogicParams) : Nat :=
  match lp.kind with
  | .block => lp.cells
  | .backsymbol => lp.cells + 1

theorem handedOut_iff {σ : Type} (m : MacroProg σ) (c : Nat) :
    handedOut m c = true ↔ ∃ t, m.logic.converter.colorToTapeCache.get c = some t := by
  unfold handedOut
  cases m.logic.converter.colorToTapeCache.get c <;> simp

theorem pow_pos' {b n : Nat} (hb : 0 < b) : 0 < b ^ n := Nat.pow_pos hb

theorem div_mod_pack (s bs bc : Nat) (h : bc < bs) :
    (s * bs + bc) % bs = bc ∧ (s * bs + bc) / bs = s := by
  have hpos : 0 < bs := by omega
  constructor
  · rw [Nat.mul_comm, Nat.mul_add_mod, Nat.mod_eq_of_lt h]
  · rw [Nat.mul_comm, Nat.mul_add_div hpos, Nat.div_eq_of_lt h, Nat.add_zero]

/-! ### `backsymbolSplit` with the repaired index -/

theorem backsymbolSplit_fix (cells : Nat) (shift : Bool) (tape : MTape)
    (hl : tape.length = cells + 1) :
    ∃ backspan mc, backsymbolSplit cells shift tape true = .ok (backspan, mc) ∧
      backspan.length = cells ∧ (∀ x ∈ backspan, x ∈ tape) ∧ mc ∈ tape := by
  cases shift with
  | true =>
    have hnot : ¬ cells > tape.length := by omega
    have hdl : (tape.drop cells).length = 1 := by rw [List.length_drop]; omega
    cases hd : tape.drop cells with
    | nil => rw [hd] at hdl; cases hdl
    | cons c rest =>
      refine ⟨tape.take cells, c, ?_, ?_, ?_, ?_⟩
      · simp only [backsymbolSplit, if_true, Bool.not_true, Bool.false_and, Bool.false_eq_true,
          if_false, splitAt, hnot, hd, head0]
      · rw [List.length_take]; omega
      · intro x hx; exact List.mem_of_mem_take hx
      · exact List.mem_of_mem_drop (by rw [hd]; exact List.mem_cons_self ..)
  | false =>
    cases tape with
    | nil => cases hl
    | cons c rest =>
      refine ⟨rest, c, ?_, ?_, ?_, ?_⟩
      · have hnot : ¬ 1 > (c :: rest).length := by simp only [List.length_cons]; omega
        simp only [backsymbolSplit, Bool.false_eq_true, if_false, splitAt, hnot, List.take_succ_cons,
          List.take_zero, List.drop_succ_cons, List.drop_zero, head0]
      · simp only [List.length_cons] at hl; omega
      · intro x hx; exact List.mem_cons_of_mem _ hx
      · exact List.mem_cons_self ..

section Step

variable {σ : Type} {get : GetFn σ} {f : Slot → Res (Option Instr)}
  {IInv : σ → Prop} {LS LC : σ → Nat → Prop} {lp : LogicParams} {fixF3 : Bool}

/-! ### `deconstruct_inputs` -/

theorem deconstruct_pure {m : MacroProg σ} (hI : MInv f lp fixF3 IInv LS LC m)
    (hb : 0 < lp.baseColors) (q c : Nat) (hq : MLS LS m q) (hc : MLC LC m c) :
    ∃ cfg, m.logic.deconstructInputs (q, c) = .ok cfg ∧
      pureDeconstructInputs lp (q, c) = .ok cfg ∧ LS m.prog cfg.1 ∧
      (∀ x ∈ cfg.2.2, LC m.prog x) ∧ cfg.2.2.length = lp.window := by
  have hp := hI.params
  have hcache := hI.cache
  have hcells := hI.cells
  unfold MLS at hq
  unfold MLC at hc
  rw [hp] at hq hc
  rcases lp with ⟨kind, cells, bstates, base⟩
  simp only at hb hcache
  cases kind with
  | block =>
    simp only at hq hc
    obtain ⟨t, ht⟩ := (handedOut_iff m c).1 hc
    obtain ⟨hdec, _⟩ := hcache.decode ht
    obtain ⟨hlen, hrange, _⟩ := hcache.c2t c t ht
    refine ⟨(q / 2, (q % 2 == 1, t)), ?_, ?_, hq, ?_, ?_⟩
    · simp only [Logic.deconstructInputs, hp, blockDeconstructInputs,
        TapeColorConverter.colorToTape, ht]
    · simp only [pureDeconstructInputs, ← hdec]
    · intro x hx; exact hcells c t ht x hx
    · simp only [LogicParams.window]; exact hlen
  | backsymbol =>
    simp only at hq hc
    obtain ⟨hq1, hq2⟩ := hq
    have hbs : 0 < (⟨.backsymbol, cells, bstates, base⟩ : LogicParams).backsymbols :=
      Nat.pow_pos hb
    have hbs' : ((⟨.backsymbol, cells, bstates, base⟩ : LogicParams).backsymbols == 0) = false := by
      simp only [beq_eq_false_iff_ne]; omega
    obtain ⟨t, ht⟩ := (handedOut_iff m _).1 hq1
    obtain ⟨hdec, _⟩ := hcache.decode ht
    obtain ⟨hlen, hrange, _⟩ := hcache.c2t _ t ht
    have hmem : ∀ x ∈ t, LC m.prog x := fun x hx => hcells _ t ht x hx
    refine ⟨(q / 2 / (⟨.backsymbol, cells, bstates, base⟩ : LogicParams).backsymbols,
      if q % 2 == 1 then (false, c :: t) else (true, t ++ [c])), ?_, ?_, hq2, ?_, ?_⟩
    · simp only [Logic.deconstructInputs, hp, backsymbolDeconstructInputs, hbs',
        Bool.false_eq_true, if_false, TapeColorConverter.colorToTape, ht]
    · simp only [pureDeconstructInputs, hbs', Bool.false_eq_true, if_false, ← hdec]
    · intro x hx
      split at hx
      · rcases List.mem_cons.1 hx with h | h
        · subst h; exact hc
        · exact hmem x h
      · rcases List.mem_append.1 hx with h | h
        · exact hmem x h
        · rw [List.mem_singleton.1 h]; exact hc
    · simp only [LogicParams.window]
      split
      · simp only [List.length_cons, hlen]
      · simp only [List.length_append, List.length_singleton, hlen]

/-! ### `reconstruct_outputs` -/

theorem reconstruct_pure {m : MacroProg σ} (hI : MInv f lp fixF3 IInv LS LC m)
    (hfix : lp.kind = .backsymbol → fixF3 = true) (st' : σ) (out : Config)
    (hs : LS st' out.1) (hlen : out.2.2.length = lp.window)
    (hcells : ∀ x ∈ out.2.2, LC st' x) (hrange : ∀ x ∈ out.2.2, x < lp.baseColors) :
    ∃ instr logic', m.logic.reconstructOutputs out fixF3 = .ok (instr, logic') ∧
      pureReconstructOutputs lp out fixF3 = .ok instr ∧ logic'.params = lp ∧
      CacheInv lp.baseColors lp.cells logic'.converter ∧
      (∀ c, (m.logic.converter.colorToTapeCache.get c).isSome →
        (logic'.converter.colorToTapeCache.get c).isSome) ∧
      (∀ c t, logic'.converter.colorToTapeCache.get c = some t →
        m.logic.converter.colorToTapeCache.get c = some t ∨ ∀ x ∈ t, LC st' x) ∧
      ∀ ins : Prog, MLC LC ⟨st', logic', ins⟩ instr.1 ∧ MLS LS ⟨st', logic', ins⟩ instr.2.2 := by
  have hp := hI.params
  have hcache := hI.cache
  rcases out with ⟨state, rightEdge, tape⟩
  rcases lp with ⟨kind, cells, bstates, base⟩
  simp only at hs hlen hcells hrange hcache hfix
  cases kind with
  | block =>
    simp only [LogicParams.window] at hlen
    obtain ⟨h1, h2, h3, h4, h5⟩ :=
      hcache.tapeToColor tape hlen hrange
    refine ⟨(encode base tape, rightEdge, 2 * state + (if rightEdge then 0 else 1)),
      { m.logic with converter := (m.logic.converter.tapeToColor tape).2 }, ?_, ?_, hp, h2, h4, ?_,
      ?_⟩
    · simp only [Logic.reconstructOutputs, hp, blockReconstructOutputs, h1]
    · simp only [pureReconstructOutputs]
    · intro c t hc
      rcases h5 c t hc with h | h
      · exact Or.inl h
      · right; subst h; exact hcells
    · intro ins
      constructor
      · simp only [MLC, hp, handedOut, h3, Option.isSome_some]
      · simp only [MLS, hp]
        have : (2 * state + (if rightEdge then 0 else 1)) / 2 = state := by
          cases rightEdge <;> simp <;> omega
        rw [this]; exact hs
  | backsymbol =>
    have hfix' : fixF3 = true := hfix rfl
    subst hfix'
    simp only [LogicParams.window] at hlen
    obtain ⟨backspan, mc, hsplit, hbl, hbmem, hmc⟩ := backsymbolSplit_fix cells (!rightEdge) tape hlen
    obtain ⟨h1, h2, h3, h4, h5⟩ :=
      hcache.tapeToColor backspan hbl (fun x hx => hrange x (hbmem x hx))
    have hbc : encode base backspan < base ^ cells := by
      have := encode_lt' base backspan (fun x hx => hrange x (hbmem x hx))
      rwa [hbl] at this
    refine ⟨(mc, !rightEdge, (if (!rightEdge) = true then 1 else 0) +
        2 * (state * base ^ cells + encode base backspan)),
      { m.logic with converter := (m.logic.converter.tapeToColor backspan).2 }, ?_, ?_, hp, h2, h4,
      ?_, ?_⟩
    · simp only [Logic.reconstructOutputs, hp, backsymbolReconstructOutputs, hsplit, h1,
        LogicParams.backsymbols]
    · simp only [pureReconstructOutputs, hsplit, LogicParams.backsymbols]
    · intro c t hc
      rcases h5 c t hc with h | h
      · exact Or.inl h
      · right; subst h; exact fun x hx => hcells x (hbmem x hx)
    · intro ins
      constructor
      · simp only [MLC, hp]
        exact hcells mc hmc
      · simp only [MLS, hp, LogicParams.backsymbols]
        have hhalf : ((if (!rightEdge) = true then 1 else 0) +
            2 * (state * base ^ cells + encode base backspan)) / 2 =
            state * base ^ cells + encode base backspan := by
          cases rightEdge <;> simp <;> omega
        obtain ⟨hm, hd⟩ := div_mod_pack state (base ^ cells) (encode base backspan) hbc
        rw [hhalf, hm, hd]
        refine ⟨?_, hs⟩
        simp only [handedOut, h3, Option.isSome_some]

/-! ### later states of a macro object -/

/-- `m'` has the parameters of `m`, all its handed-out colours, and a later inner state -/
def Ext (LS LC : σ → Nat → Prop) (m m' : MacroProg σ) : Prop :=
  m'.logic.params = m.logic.params ∧ (∀ c, handedOut m c = true → handedOut m' c = true) ∧
    Mono LS LC m.prog m'.prog

theorem Ext.mono {m m' : MacroProg σ} (h : Ext LS LC m m') : Mono (MLS LS) (MLC LC) m m' := by
  obtain ⟨hp, hk, hm⟩ := h
  constructor
  · intro q hq
    unfold MLS at hq ⊢
    rw [hp]
    split at hq
    · exact hm.1 _ hq
    · exact ⟨hk _ hq.1, hm.1 _ hq.2⟩
  · intro c hc
    unfold MLC at hc ⊢
    rw [hp]
    split at hc
    · exact hk _ hc
    · exact hm.2 _ hc

theorem Ext.own {m m' : MacroProg σ} (h : Ext LS LC m m') (slot : Slot)
    (hl : ownLegal m slot = true) : ownLegal m' slot = true := by
  unfold ownLegal at hl ⊢
  rw [h.1]; exact h.2.1 _ hl

theorem ownLegal_of_legal {m : MacroProg σ} (q c : Nat) (hq : MLS LS m q) (hc : MLC LC m c) :
    ownLegal m (q, c) = true := by
  unfold ownLegal slotColor
  unfold MLS at hq
  unfold MLC at hc
  split
  · rename_i hk; rw [hk] at hc; exact hc
  · rename_i hk; rw [hk] at hq; exact hq.1

/-- the old memo entries keep their four properties in a later state -/
theorem MInv.memo_ext {m m' : MacroProg σ} (hI : MInv f lp fixF3 IInv LS LC m)
    (h : Ext LS LC m m') (slot : Slot) (instr : Instr) (hg : m.instrs.get slot = some instr) :
    pureInstr f lp fixF3 slot = .ok (some instr) ∧ ownLegal m' slot = true ∧
      MLC LC m' instr.1 ∧ MLS LS m' instr.2.2 := by
  obtain ⟨h1, h2, h3, h4⟩ := hI.memo slot instr hg
  exact ⟨h1, h.own slot h2, h.mono.2 _ h3, h.mono.1 _ h4⟩

/-! ### `get_instr` -/

theorem macro_step (H : HistIndep get f IInv LS LC)
    (hbound : ∀ st c, IInv st → LC st c → c < lp.baseColors) (hb : 0 < lp.baseColors) (hfix : lp.kind = .backsymbol → fixF3 = true)
    {m : MacroProg σ} (hI : MInv f lp fixF3 IInv LS LC m) (q c : Nat)
    (hq : MLS LS m q) (hc : MLC LC m c) :
    Agree (MacroProg.getInstr get m (q, c) fixF3) (pureGet (pureInstr f lp fixF3) () (q, c))
      (fun a m' => MInv f lp fixF3 IInv LS LC m' ∧ Mono (MLS LS) (MLC LC) m m' ∧
        AnsLegal (MLS LS) (MLC LC) m' a) := by
  have hp := hI.params
  cases hmemo : m.instrs.get (q, c) with
  | some instr =>
    obtain ⟨hpure, _, hlc, hls⟩ := hI.memo _ _ hmemo
    simp only [pureGet, hpure]
    refine Agree.ok m (by simp only [MacroProg.getInstr, hmemo]) ⟨hI, Mono.refl .., ?_⟩
    intro pr sh nx h; cases h; exact ⟨hlc, hls⟩
  | none =>
    obtain ⟨cfg, hdec, hpdec, hcs, hccells, hclen⟩ := deconstruct_pure hI hb q c hq hc
    have hrun := runSimulator_pure H lp.simLim m.prog cfg hI.inner hcs hccells
    cases hpr : runSimulator (pureGet f) lp.simLim () cfg with
    | error e =>
      rw [hpr] at hrun
      have hrun' : runSimulator get lp.simLim m.prog cfg = .error e := hrun
      simp only [pureGet, pureInstr, hpdec, hpr]
      refine Agree.error ?_
      simp only [MacroProg.getInstr, hmemo, MacroProg.calculateInstr, hdec, hp, hrun']
    | ok pr =>
      rcases pr with ⟨r, u⟩
      rw [hpr] at hrun
      obtain ⟨st', hrun', hi', hmono, hpost⟩ := hrun
      cases r with
      | none =>
        simp only [pureGet, pureInstr, hpdec, hpr]
        have hext : Ext LS LC m { m with prog := st', logic := m.logic } :=
          ⟨rfl, fun _ h => h, hmono⟩
        refine Agree.ok { m with prog := st', logic := m.logic } ?_ ⟨?_, hext.mono, ?_⟩
        · simp only [MacroProg.getInstr, hmemo, MacroProg.calculateInstr, hdec, hp, hrun']
        · exact ⟨hp, hi', hI.cache, fun c t h x hx => hmono.2 x (hI.cells c t h x hx),
            fun slot instr hg => hI.memo_ext hext slot instr hg⟩
        · intro pr sh nx h; cases h
      | some out =>
        obtain ⟨hos, holen, hocells⟩ := hpost out rfl
        rw [hclen] at holen
        obtain ⟨instr, logic', hrec, hprec, hp', hcache', hkeys, hnew, hans⟩ :=
          reconstruct_pure hI hfix st' out hos holen hocells
            (fun x hx => hbound st' x hi' (hocells x hx))
        simp only [pureGet, pureInstr, hpdec, hpr, hprec]
        have hext : Ext LS LC m ⟨st', logic', m.instrs.insert (q, c) instr⟩ :=
          ⟨by rw [hp', hp], fun c h => hkeys c h, hmono⟩
        refine Agree.ok ⟨st', logic', m.instrs.insert (q, c) instr⟩ ?_ ⟨?_, hext.mono, ?_⟩
        · simp only [MacroProg.getInstr, hmemo, MacroProg.calculateInstr, hdec, hp, hrun', hrec]
        · refine ⟨hp', hi', hcache', ?_, ?_⟩
          · intro c' t h x hx
            rcases hnew c' t h with h' | h'
            · exact hmono.2 x (hI.cells c' t h' x hx)
            · exact h' x hx
          · intro slot i hg
            by_cases hsl : (q, c) = slot
            · subst hsl
              rw [Parse.get_insert_same] at hg
              cases hg
              refine ⟨?_, hext.own _ (ownLegal_of_legal q c hq hc), (hans _).1, (hans _).2⟩
              simp only [pureInstr, hpdec, hpr, hprec]
            · rw [Parse.get_insert_other _ _ _ _ hsl] at hg
              exact hI.memo_ext hext slot i hg
        · intro pr sh nx h; cases h; exact hans _

end Step

end BB.Macros
