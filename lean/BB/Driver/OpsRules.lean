/-
Driver ops for the Rules model (C11).  The rule is space separated, so it occupies all the
arguments after the tape.

  mkrule <c1> <c2> <c3> <c4>      make_rule; each <ci> = "l,l,l;r,r,r" (u64 counts, nearest first,
                                  either side may be empty: ";3,4", "5;", ";")
      -> none | <rule>
  countapps <tape> <rule>         ApplyRule::count_apps on a BasicTape
      -> none | <times>,<L|R>,<index>,<minres>
  applyrule <tape> <rule>         ApplyRule::apply_rule on a BasicTape
      -> <none|times> -> <tape after>          (the tape is printed also when the result is none)

  <tape> = <scan>|<colour>^<count>,...|<colour>^<count>,...     left blocks nearest first, then
           right blocks nearest first; every block is written colour^count (also count 0 and 1)
  <rule> = "-" (empty) or entries "<L|R><index>:<op>" separated by one space, printed in map order
           (all L before all R, then by index); <op> = "+<d>" (d >= 0) | "-<|d|>" (d < 0) for
           Plus(d), "*<q>+<r>" / "*<q>-<|r|>" for Mult((q, r)).  On input the entries may come in
           any order and may repeat a key (later entry wins, as with BTreeMap::insert).

other outputs: PANIC (index out of range, Mult op, assert), limit:overflow (never expected),
  BAD-ARG (unparsable / out of u64, usize, i32 range),
  BAD-TAPE (a shape the real tape cannot be stepped into: two adjacent blocks of one colour on a
  side, or colour 0 in the farthest block of a side).
-/
import BB.Model.Instrs
import BB.Model.Tape
import BB.Model.Rules

namespace BB.Driver.OpsRules

open BB

/-! ### parsing -/

def natOfDigits (cs : List Char) : Option Nat :=
  if cs.isEmpty || !cs.all Char.isDigit then none
  else some (cs.foldl (fun acc c => acc * 10 + (c.toNat - 48)) 0)

/-- u64 / usize -/
def parseU64 (cs : List Char) : Option Nat :=
  match natOfDigits cs with
  | some n => if n ≤ countMax then some n else none
  | none => none

/-- split a char list at every occurrence of `sep` (like `str::split`: "" -> [""]) -/
def splitChars (sep : Char) (cs : List Char) : List (List Char) :=
  let (cur, acc) := cs.foldl (fun (st : List Char × List (List Char)) c =>
    if c == sep then ([], st.1.reverse :: st.2) else (c :: st.1, st.2)) ([], [])
  (cur.reverse :: acc).reverse

def allSome {α : Type} : List (Option α) → Option (List α)
  | [] => some []
  | none :: _ => none
  | some a :: rest => match allSome rest with
    | some r => some (a :: r)
    | none => none

/-- "a,b,c" -> list; "" -> [] -/
def parseList {α : Type} (f : List Char → Option α) (cs : List Char) : Option (List α) :=
  if cs.isEmpty then some [] else allSome ((splitChars ',' cs).map f)

def parseCounts (s : String) : Option Counts :=
  match splitChars ';' s.toList with
  | [l, r] => match parseList parseU64 l, parseList parseU64 r with
    | some l, some r => some (l, r)
    | _, _ => none
  | _ => none

def parseBlock (cs : List Char) : Option Block :=
  match splitChars '^' cs with
  | [c, n] => match parseU64 c, parseU64 n with
    | some c, some n => some ⟨c, n⟩
    | _, _ => none
  | _ => none

def parseTape (s : String) : Option Tape :=
  match splitChars '|' s.toList with
  | [sc, l, r] => match parseU64 sc, parseList parseBlock l, parseList parseBlock r with
    | some sc, some l, some r => some ⟨sc, l, r⟩
    | _, _, _ => none
  | _ => none

/-- sign character + digits, within i32 -/
def parseSigned (cs : List Char) : Option Int :=
  match cs with
  | '+' :: ds => match natOfDigits ds with
    | some n => diffTryFrom (n : Int)
    | none => none
  | '-' :: ds => match natOfDigits ds with
    | some n => diffTryFrom (-(n : Int))
    | none => none
  | _ => none

/-- optional '-' + digits, within i32 -/
def parseQuot (cs : List Char) : Option Int :=
  match cs with
  | '-' :: _ => parseSigned cs
  | _ => parseSigned ('+' :: cs)

def parseOp (cs : List Char) : Option Op :=
  match cs with
  | '*' :: rest =>
    -- quotient: leading optional '-', digits; remainder: from the next sign on
    let (neg, body) := match rest with
      | '-' :: b => (true, b)
      | b => (false, b)
    let qd := body.takeWhile Char.isDigit
    let rd := body.dropWhile Char.isDigit
    match parseQuot (if neg then '-' :: qd else qd), parseSigned rd with
    | some q, some r => some (.mult q r)
    | _, _ => none
  | _ => match parseSigned cs with
    | some d => some (.plus d)
    | none => none

def parseEntry (s : String) : Option (Index × Op) :=
  match s.toList with
  | side :: rest =>
    if side != 'L' && side != 'R' then none
    else
      let idx := rest.takeWhile (· != ':')
      match rest.dropWhile (· != ':') with
      | ':' :: op => match parseU64 idx, parseOp op with
        | some i, some o => some ((side == 'R', i), o)
        | _, _ => none
      | _ => none
  | [] => none

def parseRule (args : List String) : Option Rule :=
  match args with
  | ["-"] => some []
  | [] => none
  | _ => match allSome (args.map parseEntry) with
    | some es => some (es.foldl (fun (r : Rule) e => r.insert e.1 e.2) [])
    | none => none

/-! ### printing -/

def showSigned (d : Int) : String := if d ≥ 0 then s!"+{d}" else s!"{d}"

def showOp : Op → String
  | .plus d => showSigned d
  | .mult q r => s!"*{q}{showSigned r}"

def showIndex (i : Index) : String := s!"{if i.1 then "R" else "L"}{i.2}"

def showRule (r : Rule) : String :=
  if r.isEmpty then "-" else " ".intercalate (r.map fun (i, o) => s!"{showIndex i}:{showOp o}")

def showBlocks (s : Span) : String := ",".intercalate (s.map fun b => s!"{b.color}^{b.count}")

def showTape (t : Tape) : String := s!"{t.scan}|{showBlocks t.lspan}|{showBlocks t.rspan}"

def showErr : PErr → String
  | .panic _ => "PANIC"
  | .overflow _ => "limit:overflow"

/-! ### tape shapes the real `BasicTape` can be stepped into -/

def spanShapeOk : Span → Bool
  | [] => true
  | [b] => b.color != 0
  | b :: c :: rest => b.color != c.color && spanShapeOk (c :: rest)

def tapeShapeOk (t : Tape) : Bool := spanShapeOk t.lspan && spanShapeOk t.rspan

def withTapeRule (tape : String) (rule : List String) (f : Tape → Rule → String) : String :=
  match parseTape tape, parseRule rule with
  | some t, some r => if tapeShapeOk t then f t r else "BAD-TAPE"
  | _, _ => "BAD-ARG"

def handle (op : String) (args : List String) (_text : String) : Option String :=
  match op, args with
  | "mkrule", [a, b, c, d] =>
    some <|
      match parseCounts a, parseCounts b, parseCounts c, parseCounts d with
      | some a, some b, some c, some d =>
        match makeRule a b c d with
        | .error e => showErr e
        | .ok none => "none"
        | .ok (some r) => showRule r
      | _, _, _, _ => "BAD-ARG"
  | "countapps", tape :: rule =>
    some <| withTapeRule tape rule fun t r =>
      match countApps t r with
      | .error e => showErr e
      | .ok none => "none"
      | .ok (some (times, pos, minRes)) =>
        s!"{times},{if pos.1 then "R" else "L"},{pos.2},{minRes}"
  | "applyrule", tape :: rule =>
    some <| withTapeRule tape rule fun t r =>
      match applyRule t r with
      | .error e => showErr e
      | .ok (none, t') => s!"none -> {showTape t'}"
      | .ok (some times, t') => s!"{times} -> {showTape t'}"
  | _, _ => none

end BB.Driver.OpsRules
