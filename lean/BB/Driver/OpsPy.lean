/- driver ops for the Python-side models (PyTape, NumEval) -/
import BB.Model.Instrs

namespace BB.Driver.OpsPy

def handle (_op : String) (_args : List String) (_text : String) : Option String := none

end BB.Driver.OpsPy
