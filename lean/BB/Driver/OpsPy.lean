/- driver ops for the Python-side models (PyTape, NumEval) -/
import BB.Model.Instrs
import BB.Model.NumEval
import BB.Model.NumMod
import BB.Model.NumModTree

namespace BB.Driver.OpsPy

open BB.NumEval

/-- values above this many bits are not evaluated (`skip:toobig`) -/
def evalCap : Nat := 400000

def showBig (n : Int) : String :=
  let s := toString n
  if s.length ≤ 48 then s
  else s!"{(s.take 16).toString}..{(s.drop (s.length - 8)).toString}({s.length}ch)"

/-- the operand value, or the reason it is skipped -/
def operand (e : NExpr) : Except String Int :=
  match bitsBound evalCap e with
  | none => .error "toobig"
  | some _ =>
    match eval e with
    | none => .error "operand-inexact"
    | some v => .ok v

inductive Expected where
  | int : Int → Expected
  | bool : Bool → Expected

def expected (op : String) (va vb : Int) : Except String Expected :=
  match op with
  | "add" => .ok (.int (va + vb))
  | "sub" => .ok (.int (va - vb))
  | "mul" => .ok (.int (va * vb))
  | "floordiv" =>
    if vb = 0 then .error "div0"
    else if va % vb ≠ 0 then .error "inexact"
    else .ok (.int (va / vb))
  | "mod" =>
    if vb ≤ 0 then .error "modulus" else .ok (.int (va % vb))
  | "pow" =>
    if vb < 0 then .error "negexp"
    else if bitLen va * vb.toNat > evalCap then .error "toobig"
    else .ok (.int (va ^ vb.toNat))
  | "lt" => .ok (.bool (va < vb))
  | "le" => .ok (.bool (va ≤ vb))
  | "eq" => .ok (.bool (va == vb))
  | "ne" => .ok (.bool (va != vb))
  | "gt" => .ok (.bool (va > vb))
  | "ge" => .ok (.bool (va ≥ vb))
  | _ => .error "badop"

def showExpected : Expected → String
  | .int n => showBig n
  | .bool b => if b then "True" else "False"

/-- `numcheck <op> <modulus-or-> | <a> ; <b> ; <result | True | False | !<exception> | ?<other>>` -/
def numcheck (op : String) (text : String) : String :=
  match text.splitOn " ; " with
  | [sa, sb, sr] =>
    if sr.startsWith "!" then "skip:exception" else
    match parse sa, parse sb with
    | some a, some b =>
      match operand a, operand b with
      | .error w, _ => s!"skip:{w}"
      | _, .error w => s!"skip:{w}"
      | .ok va, .ok vb =>
        match expected op va vb with
        | .error w => s!"skip:{w}"
        | .ok exp =>
          let want := showExpected exp
          match exp with
          | .bool bv =>
            if sr == "True" then (if bv then "ok" else s!"bad:{want}:True")
            else if sr == "False" then (if bv then s!"bad:{want}:False" else "ok")
            else s!"bad:{want}:nonbool"
          | .int iv =>
            if sr.startsWith "?" then s!"bad:{want}:nonint" else
            match parse sr with
            | none => s!"bad:{want}:unparseable"
            | some r =>
              match bitsBound (4 * evalCap) r with
              | none => "skip:result-toobig"
              | some _ =>
                match evalFloor r with
                | none => s!"bad:{want}:noint"
                | some got => if got == iv then "ok" else s!"bad:{want}:{showBig got}"
    | _, _ => "skip:unparseable-operand"
  | _ => "PANIC"

/-- `numeval | <a>` : strict value, floor value, bit bound, top-level kind (for spot checks) -/
def numeval (text : String) : String :=
  match parse text with
  | none => "unparseable"
  | some a =>
    match bitsBound evalCap a with
    | none => "toobig"
    | some b =>
      let s := match eval a with | some v => showBig v | none => "none"
      let f := match evalFloor a with | some v => showBig v | none => "none"
      s!"{kind a} strict={s} floor={f} bits<={b}"

/-- `nummod <m> | <a>` : the model of the whole `%` operator (BB/Model/NumModTree.lean `modE`;
    theorems BB/Props/C18.lean): the residue, or `raise` where the Python raises -/
def nummod (m : String) (text : String) : String :=
  match parse text, m.toNat? with
  | some a, some mv =>
    match BB.NumModTree.modE a mv with
    | some r => toString r
    | none => "raise"
  | none, _ => "unparseable"
  | _, none => "badmodulus"

def handle (op : String) (args : List String) (text : String) : Option String :=
  match op, args with
  | "numcheck", [o, _m] => some (numcheck o text)
  | "nummod", [m] => some (nummod m text)
  | "numeval", [] => some (numeval text)
  | "expmod", [b, e, m] =>
    -- the model of `Exp(base, exp).__mod__(mod)` (BB/Model/NumMod.lean; theorems BB/Props/C18.lean)
    some <| match BB.NumMod.expModInt b.toNat! e.toNat! m.toNat! with
      | some r => toString r
      | none => "raise"
  | _, _ => none

end BB.Driver.OpsPy
