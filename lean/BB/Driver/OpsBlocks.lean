/- driver ops for the Blocks model (src/blocks.rs) -/
import BB.Model.Instrs
import BB.Model.Blocks

namespace BB.Driver.OpsBlocks

def handle (op : String) (args : List String) (text : String) : Option String :=
  match op, args with
  | "optblock", [steps] =>
    some <| match Prog.fromStr text with
      | .error _ => "PANIC"
      | .ok p =>
        match BB.Blocks.optBlock p steps.toNat! with
        | some k => toString k
        | none => "PANIC"
  | _, _ => none

end BB.Driver.OpsBlocks
