/-
Driver ops for the Macros model.

  mq    <states> <colors> <spec> <slots> | prog          answers of ONE fresh macro object
  mq2   <states> <colors> <spec> <slotsA> <slotsB> | prog  two independent objects
  mrun  <states> <colors> <spec> <n> | prog              run through get_instr on the blank tape
  mq_fix / mrun_fix                                       same with fixF3 = true   (driver only)
  mpure <states> <colors> <spec> <slots> | prog          pureChain, fixF3 = true  (driver only)
  mpure_f3                                                pureChain, fixF3 = false (driver only)

  spec  = chain `kind:cells(,kind:cells)?`, innermost first, kind = block | back
  slots = `s,c;s,c;...` or `-` for none
-/
import BB.Model.Instrs
import BB.Model.Tape
import BB.Model.Macros

namespace BB.Driver.OpsMacros

open BB.Macros

def parseLevel (s : String) : Option (LogicKind × Nat) :=
  match s.splitOn ":" with
  | ["block", k] => k.toNat?.map fun n => (LogicKind.block, n)
  | ["back", k] => k.toNat?.map fun n => (LogicKind.backsymbol, n)
  | _ => none

def parseSpec (s : String) : Option (List (LogicKind × Nat)) :=
  ((s.replace "+" ",").splitOn ",").mapM parseLevel

/-- "proper" nesting (levels separated by '+'): the outer macro is built with the inner macro's
    own `params()`; with ',' every level gets the BASE params, as the repository's tests do. -/
def isProper (s : String) : Bool := s.contains '+'


def parseSlot (s : String) : Option Slot :=
  match s.splitOn "," with
  | [a, b] => match a.toNat?, b.toNat? with
    | some x, some y => some (x, y)
    | _, _ => none
  | _ => none

def parseSlots (s : String) : Option (List Slot) :=
  if s == "-" || s == "" then some [] else (s.splitOn ";").mapM parseSlot

def showAnswer : Option Instr → String
  | none => "none"
  | some (pr, sh, tr) => s!"{pr},{if sh then 1 else 0},{tr}"

def showAnswers (l : List (Option Instr)) : String := ";".intercalate (l.map showAnswer)

def showErr : Err → String
  | .panic => "PANIC"
  | .overflow => "limit:overflow"

def showStop : Stop → String
  | .undfnd (s, c) => s!"undfnd({s},{c})"
  | .spnout => "spnout"
  | .limit => "limit"

def showRun (r : Res (List RunCfg × Stop)) : String :=
  match r with
  | .error e => showErr e
  | .ok (tr, stop) =>
    "/".intercalate (tr.map fun c => s!"{c.state};{c.tape.show};{c.steps}") ++ " => " ++ showStop stop

def mkLevel {σ : Type} (inner : σ) (params : Nat × Nat) (lv : LogicKind × Nat) : MacroProg σ :=
  match lv.1 with
  | .block => makeBlockMacro inner params lv.2
  | .backsymbol => makeBacksymbolMacro inner params lv.2

/-- run `f` on a freshly built macro object of the given chain (innermost first, depth 1 or 2);
    the callback receives the `GetFn` and the initial state. -/
def withChain {α : Type} (p : Prog) (params : Nat × Nat) (fixF3 : Bool)
    (spec : List (LogicKind × Nat)) (proper : Bool := false)
    (f : {σ : Type} → GetFn σ → σ → α) : Option α :=
  match spec with
  | [l1] => some (f (macroGet compGet fixF3) (mkLevel p params l1))
  | [l1, l2] =>
    let inner := mkLevel p params l1
    let oparams := if proper then inner.logic.params.params else params
    some (f (macroGet (macroGet compGet fixF3) fixF3) (mkLevel inner oparams l2))
  | _ => none

def answersOf {σ : Type} (slots : List Slot) (get : GetFn σ) (st : σ) : Res (List (Option Instr)) :=
  match getInstrs get st slots with
  | .error e => .error e
  | .ok (as, _) => .ok as

def runOf {σ : Type} (n : Nat) (get : GetFn σ) (st : σ) : Res (List RunCfg × Stop) :=
  match runGetInstr get n st with
  | .error e => .error e
  | .ok (tr, stop, _) => .ok (tr, stop)

def parseProg (text : String) : Option Prog :=
  match Prog.fromStr text with
  | .error _ => none
  | .ok p => some p

def doMq (fix : Bool) (st co spec slots text : String) : String :=
  match parseProg text, st.toNat?, co.toNat?, parseSpec spec, parseSlots slots with
  | none, _, _, _, _ => "PANIC"
  | some p, some s, some c, some sp, some sl =>
    match withChain p (s, c) fix sp (proper := isProper spec) (fun get m => answersOf sl get m) with
    | none => "BAD-ARGS"
    | some (.error e) => showErr e
    | some (.ok as) => showAnswers as
  | _, _, _, _, _ => "BAD-ARGS"

def doMq2 (fix : Bool) (st co spec slotsA slotsB text : String) : String :=
  match parseProg text, st.toNat?, co.toNat?, parseSpec spec, parseSlots slotsA, parseSlots slotsB with
  | none, _, _, _, _, _ => "PANIC"
  | some p, some s, some c, some sp, some sa, some sb =>
    -- two objects never share state: the interleaving of the real run is immaterial here,
    -- except that a panic of either one makes the whole line PANIC
    match withChain p (s, c) fix sp (proper := isProper spec) (fun get m => answersOf sa get m),
          withChain p (s, c) fix sp (proper := isProper spec) (fun get m => answersOf sb get m) with
    | some (.ok a), some (.ok b) => showAnswers a ++ " # " ++ showAnswers b
    | some (.error e), some (.ok _) => showErr e
    | some (.ok _), some (.error e) => showErr e
    | some (.error ea), some (.error eb) =>
      -- the first failing query in the interleaved order A1,B1,A2,B2,... decides
      let ia := match withChain p (s, c) fix sp (proper := isProper spec) (fun get m => firstErr sa get m 0) with
        | some i => i | none => 0
      let ib := match withChain p (s, c) fix sp (proper := isProper spec) (fun get m => firstErr sb get m 0) with
        | some i => i | none => 0
      if ia ≤ ib then showErr ea else showErr eb
    | _, _ => "BAD-ARGS"
  | _, _, _, _, _, _ => "BAD-ARGS"
where
  firstErr {σ : Type} (slots : List Slot) (get : GetFn σ) (m : σ) (i : Nat) : Nat :=
    match slots with
    | [] => i
    | s :: rest =>
      match get m s with
      | .error _ => i
      | .ok (_, m') => firstErr rest get m' (i + 1)

def doMrun (fix : Bool) (st co spec n text : String) : String :=
  match parseProg text, st.toNat?, co.toNat?, parseSpec spec, n.toNat? with
  | none, _, _, _, _ => "PANIC"
  | some p, some s, some c, some sp, some k =>
    match withChain p (s, c) fix sp (proper := isProper spec) (fun get m => runOf k get m) with
    | none => "BAD-ARGS"
    | some r => showRun r
  | _, _, _, _, _ => "BAD-ARGS"

/-- params of the macro built by a chain (OUTERMOST first) under proper nesting -/
def chainParams (params : Nat × Nat) : List (LogicKind × Nat) → Nat × Nat
  | [] => params
  | (kind, cells) :: inner =>
    let ip := chainParams params inner
    (⟨kind, cells, ip.1, ip.2⟩ : LogicParams).params

/-- `pureChain` with proper nesting: each level is built with the params of the level below -/
def pureChainProper (p : Prog) (params : Nat × Nat) (fixF3 : Bool) :
    List (LogicKind × Nat) → Slot → Res (Option Instr)
  | [], slot => .ok (p.get slot)
  | (kind, cells) :: inner, slot =>
    let ip := chainParams params inner
    pureInstr (fun s => pureChainProper p params fixF3 inner s) ⟨kind, cells, ip.1, ip.2⟩ fixF3 slot

def doMpure (fix : Bool) (st co spec slots text : String) : String :=
  match parseProg text, st.toNat?, co.toNat?, parseSpec spec, parseSlots slots with
  | none, _, _, _, _ => "PANIC"
  | some p, some s, some c, some sp, some sl =>
    ";".intercalate (sl.map fun slot =>
      match (if isProper spec then pureChainProper p (s, c) fix sp.reverse slot
             else pureChain p (s, c) fix sp.reverse slot) with
      | .error e => showErr e
      | .ok a => showAnswer a)
  | _, _, _, _, _ => "BAD-ARGS"

def handle (op : String) (args : List String) (text : String) : Option String :=
  match op, args with
  | "mq", [st, co, spec, slots] => some (doMq false st co spec slots text)
  | "mq_fix", [st, co, spec, slots] => some (doMq true st co spec slots text)
  | "mq2", [st, co, spec, a, b] => some (doMq2 false st co spec a b text)
  | "mq2_fix", [st, co, spec, a, b] => some (doMq2 true st co spec a b text)
  | "mrun", [st, co, spec, n] => some (doMrun false st co spec n text)
  | "mrun_fix", [st, co, spec, n] => some (doMrun true st co spec n text)
  | "mpure", [st, co, spec, slots] => some (doMpure true st co spec slots text)
  | "mpure_f3", [st, co, spec, slots] => some (doMpure false st co spec slots text)
  | _, _ => none

end BB.Driver.OpsMacros
