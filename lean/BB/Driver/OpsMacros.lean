/- driver ops for the Macros model (filled in when the module is ported) -/
import BB.Model.Instrs

namespace BB.Driver.OpsMacros

def handle (_op : String) (_args : List String) (_text : String) : Option String := none

end BB.Driver.OpsMacros
