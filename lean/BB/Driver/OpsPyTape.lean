/-
Driver ops for C17 (Python compressed-tape step).

  pytapeops <ops>     ops = groups of 3 chars <L|R><colour digit><s|n>; runs `pyStep` (the model of
                      tm/tape.py Tape.step) from the blank tape and prints, after every step,
                      `<stepped>:<observers>` joined by " # " -- the same line the op `tapeops`
                      prints for `Tape.step`.
  tapeopsx <toks>     toks = comma separated: a step triple as above, `s=<colour>` (assign the scan
  pytapeopsx <toks>   field), `cl<pos>=<val>` / `cr<pos>=<val>` (set_count on the left/right span;
                      ignored when pos is out of range).  After a step `<stepped>:<obs>`, after an
                      assignment `-:<obs>`.  `tapeopsx` runs `Tape.step`, `pytapeopsx` runs `pyStep`.
                      These reach tapes that stepping from the blank tape cannot (zero counts, a
                      scan colour that was never written).
-/
import BB.Model.Tape
import BB.Model.PyTape

namespace BB.Driver.OpsPyTape

def showList (l : List Nat) : String := ",".intercalate (l.map toString)

def showCC : ColorCount → String
  | .just c => s!"[{c}]"
  | .mult c => s!"{c}"

def showSig (s : Signature) : String :=
  s!"{s.scan}|{",".intercalate (s.lspan.map showCC)}|{",".intercalate (s.rspan.map showCC)}"

/-- same canonical observer string as `BB.Driver.showObs` -/
def showObs (t : Tape) : String :=
  s!"{t.show};m={t.marks};b={t.blank};eL={t.atEdge false};eR={t.atEdge true};n={t.blocks};c={showList t.counts.1}/{showList t.counts.2};sig={showSig t.signature};u={showList t.unroll}"

def parseOps (s : List Char) : List (Bool × Nat × Bool) :=
  match s with
  | d :: c :: k :: rest => (d == 'R', c.toNat - 48, k == 's') :: parseOps rest
  | _ => []

abbrev Stepper := Tape → Bool → Nat → Bool → Tape × Nat

def runOps (step : Stepper) (ops : String) : String :=
  let (_, outs) := (parseOps ops.toList).foldl (fun (acc : Tape × List String) o =>
    let (t', k) := step acc.1 o.1 o.2.1 o.2.2
    (t', s!"{k}:{showObs t'}" :: acc.2)) (Tape.init, [])
  " # ".intercalate outs.reverse

def setCount (s : Span) (pos val : Nat) : Span :=
  match s, pos with
  | [], _ => []
  | b :: rest, 0 => ⟨b.color, val⟩ :: rest
  | b :: rest, p + 1 => b :: setCount rest p val

/-- one extended token: returns the new tape and the text before the colon -/
def runTok (step : Stepper) (t : Tape) (tok : String) : Tape × String :=
  match tok.toList with
  | ['s', '=', c] => (⟨c.toNat - 48, t.lspan, t.rspan⟩, "-")
  | 'c' :: side :: rest =>
    match (String.ofList rest).splitOn "=" with
    | [p, v] =>
      let pos := p.toNat!
      let val := v.toNat!
      if side == 'r' then (⟨t.scan, t.lspan, setCount t.rspan pos val⟩, "-")
      else (⟨t.scan, setCount t.lspan pos val, t.rspan⟩, "-")
    | _ => (t, "?")
  | [d, c, k] =>
    let (t', n) := step t (d == 'R') (c.toNat - 48) (k == 's')
    (t', toString n)
  | _ => (t, "?")

def runToks (step : Stepper) (toks : String) : String :=
  let (_, outs) := (toks.splitOn ",").foldl (fun (acc : Tape × List String) tok =>
    let (t', k) := runTok step acc.1 tok
    (t', s!"{k}:{showObs t'}" :: acc.2)) (Tape.init, [])
  " # ".intercalate outs.reverse

def handle (op : String) (args : List String) (_text : String) : Option String :=
  match op, args with
  | "pytapeops", [ops] => some (runOps pyStep ops)
  | "pytapeopsx", [toks] => some (runToks pyStep toks)
  | "tapeopsx", [toks] => some (runToks Tape.step toks)
  | _, _ => none

end BB.Driver.OpsPyTape
