/- driver ops for the Tree model (filled in when the module is ported) -/
import BB.Model.Instrs

namespace BB.Driver.OpsTree

def handle (_op : String) (_args : List String) (_text : String) : Option String := none

end BB.Driver.OpsTree
