/-
Driver ops for the Tree model (C10).  No program text; all arguments are `u64` decimal
(anything else: `PANIC`, as the harness's `parse().unwrap()`); `halt` is `0` or non-zero.

  treelist <states> <colors> <halt> <steps>      programs (`show(Some((states, colors)))`) sorted
                                                 bytewise, joined by `;` (empty line for none)
  treecount <states> <colors> <halt> <steps>     `<n> <number of distinct programs>`
  treeseq <states> <colors> <halt> <steps>       programs in sequential emission order, `;`-joined
  treethreads <threads> <states> <colors> <halt> <steps>   as treelist (the thread count is a
                                                 harness-side knob)
  treehash <states> <colors> <halt> <steps>      `<n> <sum> <xor>`: wrapping sum and xor of the
                                                 FNV-1a-64 hashes of the program texts (16 hex
                                                 digits each): schedule-independent digest for
                                                 trees too large to print
  treetasks <states> <colors> <halt> <steps>     driver only: sizes of the per-task sub-lists

errors: `limit:overflow` (checked arithmetic), `PANIC`
-/
import BB.Model.Instrs
import BB.Model.Tree

namespace BB.Driver.OpsTree

open BB.Tree

def showErr : PErr → String
  | .panic _ => "PANIC"
  | .overflow _ => "limit:overflow"

def numArg (s : String) : Option Nat :=
  match s.toNat? with
  | some n => if n < u64Size then some n else none
  | none => none

def sortStrings (l : List String) : List String :=
  (l.toArray.qsort (fun a b => a < b)).toList

def countDistinctSorted : List String → Nat
  | [] => 0
  | [_] => 1
  | a :: b :: rest => (if a == b then 0 else 1) + countDistinctSorted (b :: rest)

def fnv (s : String) : UInt64 :=
  s.toUTF8.foldl (fun (h : UInt64) b => (h ^^^ b.toUInt64) * 0x100000001b3) 0xcbf29ce484222325

def hex16 (h : UInt64) : String :=
  let hex := String.ofList (Nat.toDigits 16 h.toNat)
  String.ofList (List.replicate (16 - hex.length) '0') ++ hex

def withTree (states colors halt steps : String)
    (f : Nat × Nat → List (List Prog) → String) : String :=
  match numArg states, numArg colors, numArg halt, numArg steps with
  | some s, some c, some h, some l =>
    match buildTreeLists s c (h != 0) l with
    | .error e => showErr e
    | .ok ls => f (s, c) ls
  | _, _, _, _ => "PANIC"

def shown (params : Nat × Nat) (ls : List (List Prog)) : List String :=
  ls.flatten.map fun p => p.show (some params)

def handle (op : String) (args : List String) (_text : String) : Option String :=
  match op, args with
  | "treelist", [s, c, h, l] =>
    some (withTree s c h l fun ps ls => ";".intercalate (sortStrings (shown ps ls)))
  | "treethreads", [t, s, c, h, l] =>
    match numArg t with
    | none => some "PANIC"
    | some _ => some (withTree s c h l fun ps ls => ";".intercalate (sortStrings (shown ps ls)))
  | "treeseq", [s, c, h, l] =>
    some (withTree s c h l fun ps ls => ";".intercalate (shown ps ls))
  | "treecount", [s, c, h, l] =>
    some (withTree s c h l fun ps ls =>
      let sorted := sortStrings (shown ps ls)
      s!"{sorted.length} {countDistinctSorted sorted}")
  | "treehash", [s, c, h, l] =>
    -- folds over `buildTask` one top-level instruction at a time (exactly the list `buildTree`
    -- maps over), so that a task's sub-list is released before the next one is built
    match numArg s, numArg c, numArg h, numArg l with
    | some s, some c, some h, some l =>
      let r := (makeInstrs (min 3 s) (min 3 c)).foldl
        (fun (acc : Except PErr (Nat × UInt64 × UInt64)) instr =>
          match acc with
          | .error e => .error e
          | .ok acc =>
            match buildTask s c (h != 0) l instr with
            | .error e => .error e
            | .ok sub => .ok (sub.foldl (fun (acc : Nat × UInt64 × UInt64) p =>
                let x := fnv (p.show (some (s, c)))
                (acc.1 + 1, acc.2.1 + x, acc.2.2 ^^^ x)) acc))
        (.ok (0, (0 : UInt64), (0 : UInt64)))
      match r with
      | .error e => some (showErr e)
      | .ok (n, sum, xor) => some s!"{n} {hex16 sum} {hex16 xor}"
    | _, _, _, _ => some "PANIC"
  | "treehashtask", [s, c, h, l, i] =>
    -- one sub-tree: the task of the i-th second instruction (index into makeInstrs), same hash
    match numArg s, numArg c, numArg h, numArg l, numArg i with
    | some s, some c, some h, some l, some i =>
      match (makeInstrs (min 3 s) (min 3 c))[i]? with
      | none => some "BAD-ARGS"
      | some instr =>
        match buildTask s c (h != 0) l instr with
        | .error e => some (showErr e)
        | .ok sub =>
          let (n, sum, xor) := sub.foldl (fun (acc : Nat × UInt64 × UInt64) p =>
            let x := fnv (p.show (some (s, c)))
            (acc.1 + 1, acc.2.1 + x, acc.2.2 ^^^ x)) (0, (0 : UInt64), (0 : UInt64))
          some s!"{n} {hex16 sum} {hex16 xor}"
    | _, _, _, _, _ => some "PANIC"
  | "treelisttask", [s, c, h, l, i] =>
    -- the programs of one sub-tree, `;`-joined, emission order (search side: named after a hash mismatch)
    match numArg s, numArg c, numArg h, numArg l, numArg i with
    | some s, some c, some h, some l, some i =>
      match (makeInstrs (min 3 s) (min 3 c))[i]? with
      | none => some "BAD-ARGS"
      | some instr =>
        match buildTask s c (h != 0) l instr with
        | .error e => some (showErr e)
        | .ok sub => some (";".intercalate (sub.map fun p => p.show (some (s, c))))
    | _, _, _, _, _ => some "PANIC"
  | "treetasks", [s, c, h, l] =>
    some (withTree s c h l fun _ ls => ",".intercalate (ls.map fun sub => toString sub.length))
  | _, _ => none

end BB.Driver.OpsTree
