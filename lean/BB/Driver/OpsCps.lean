/- driver ops for the Cps and Graph models -/
import BB.Model.Instrs
import BB.Model.Cps
import BB.Model.Graph

namespace BB.Driver.OpsCps

open BB.Cps

def withProg (text : String) (f : Prog → String) : String :=
  match Prog.fromStr text with
  | .error _ => "PANIC"
  | .ok p => f p

def showOut : CpsOut → String
  | .ok b => toString b
  | .panic => "PANIC"
  | .fuel => "limit:fuel"

def showRes : CpsRes → String
  | .yes _ => "true"
  | .no => "false"
  | .panic => "PANIC"
  | .fuel => "limit:fuel"

def showGraph : BB.Graph.Out → String
  | .ok b => toString b
  | .panic => "PANIC"
  | .overflow => "limit:overflow"

def parseGoal : String → Option Goal
  | "halt" => some .halt
  | "blank" => some .blank
  | "spin_out" => some .spinout
  | _ => none

def earlyTrue (p : Prog) : Goal → Bool
  | .halt => p.haltSlots.isEmpty
  | .blank => p.eraseSlots.isEmpty
  | .spinout => p.zrShifts.isEmpty

def showUnclosed : Unclosed → String
  | .noInit => "no-init"
  | .initSpans => "init-spans"
  | .haltSlot => "halt-slot"
  | .pushUnreg => "push-unreg"
  | .pullUnreg => "pull-unreg"
  | .goalHit => "goal-hit"
  | .succMissing => "succ-missing"

/-- `cps_closed`: first seg in `2..rad` whose run returns true; check its final triple. -/
def closedFrom (p : Prog) (goal : Goal) : Nat → Nat → String
  | 0, _ => "n/a"
  | n + 1, seg =>
    match cpsCantReach p seg goal with
    | .yes cs =>
      match closedCheck p goal seg cs.seen cs.lspans cs.rspans with
      | none => "closed"
      | some e => s!"not-closed:{showUnclosed e}"
    | .no => closedFrom p goal n (seg + 1)
    | .panic => "n/a"
    | .fuel => "n/a"

def nextGoal : Goal → Goal
  | .halt => .blank
  | .blank => .spinout
  | .spinout => .halt

/-- `cps_closed_mut`: as `closedFrom`, but the final triple is damaged before it is checked
    (k = 1: newest configuration dropped, 2: oldest (= initial) dropped, 3: left span map
    emptied, 4: checked against the next goal) — shows that the checker is not vacuous. -/
def closedMutFrom (p : Prog) (goal : Goal) (k : Nat) : Nat → Nat → String
  | 0, _ => "n/a"
  | n + 1, seg =>
    match cpsCantReach p seg goal with
    | .yes cs =>
      let r :=
        match k with
        | 1 => closedCheck p goal seg cs.seen.tail cs.lspans cs.rspans
        | 2 => closedCheck p goal seg cs.seen.dropLast cs.lspans cs.rspans
        | 3 => closedCheck p goal seg cs.seen {} cs.rspans
        | _ => closedCheck p (nextGoal goal) seg cs.seen cs.lspans cs.rspans
      match r with
      | none => "closed"
      | some e => s!"not-closed:{showUnclosed e}"
    | .no => closedMutFrom p goal k n (seg + 1)
    | .panic => "n/a"
    | .fuel => "n/a"

/-- driver-only re-implementation of the pass loop that also counts passes:
    returns (answer, passes started, final |seen|). -/
def countPasses (p : Prog) (goal : Goal) (maxDepth innerFuel : Nat)
    (order : List Config → List Config) : Nat → Nat → Configs → String × Nat × Nat
  | 0, k, cs => ("false:loops", k, cs.size)
  | loops + 1, k, cs =>
    match runPass p goal maxDepth innerFuel cs (order cs.seen) false with
    | .retFalse => ("false", k + 1, cs.size)
    | .panic => ("PANIC", k + 1, cs.size)
    | .fuel => ("limit:fuel", k + 1, cs.size)
    | .done cs' upd =>
      if upd then countPasses p goal maxDepth innerFuel order loops (k + 1) cs'
      else ("true", k + 1, cs'.size)

def ordOf (s : String) : List Config → List Config :=
  if s == "1" then List.reverse else id

def handle (op : String) (args : List String) (text : String) : Option String :=
  match op, args with
  | "cps_halt", [rad] => some <| withProg text fun p => showOut (cpsCantHalt p rad.toNat!)
  | "cps_blank", [rad] => some <| withProg text fun p => showOut (cpsCantBlank p rad.toNat!)
  | "cps_spin_out", [rad] => some <| withProg text fun p => showOut (cpsCantSpinOut p rad.toNat!)
  | "cps_halt_fix", [rad] => some <| withProg text fun p => showOut (cpsCantHalt p rad.toNat! true)
  -- driver-only: the same with every pass's work-list reversed
  | "cps_halt_rev", [rad] =>
    some <| withProg text fun p => showOut (cpsCantHalt p rad.toNat! false List.reverse)
  | "cps_blank_rev", [rad] =>
    some <| withProg text fun p => showOut (cpsCantBlank p rad.toNat! List.reverse)
  | "cps_spin_out_rev", [rad] =>
    some <| withProg text fun p => showOut (cpsCantSpinOut p rad.toNat! List.reverse)
  -- driver-only: cps_run with explicit limits and order: cps_lim goal rad maxLoops maxDepth rev
  | "cps_lim", [g, rad, ml, md, rev] =>
    some <| match parseGoal g with
    | none => "BAD-OP"
    | some goal => withProg text fun p =>
      showOut (cpsRun p rad.toNat! goal ml.toNat! md.toNat! (ordOf rev))
  -- driver-only: one cps_cant_reach with pass count: cps_passes goal seg rev
  | "cps_passes", [g, seg, rev] =>
    some <| match parseGoal g with
    | none => "BAD-OP"
    | some goal => withProg text fun p =>
      let seg := seg.toNat!
      if seg == 0 then "PANIC" else
      let r := countPasses p goal MAX_DEPTH (innerFuelFor p seg) (ordOf rev) MAX_LOOPS 0
        (Configs.init seg)
      s!"{r.1} passes={r.2.1} seen={r.2.2}"
  | "cps_closed", [g, rad] =>
    some <| match parseGoal g with
    | none => "BAD-OP"
    | some goal => withProg text fun p =>
      if earlyTrue p goal then "n/a" else closedFrom p goal (rad.toNat! - 2) 2
  | "cps_closed_mut", [g, rad, k] =>
    some <| match parseGoal g with
    | none => "BAD-OP"
    | some goal => withProg text fun p =>
      if earlyTrue p goal then "n/a" else closedMutFrom p goal k.toNat! (rad.toNat! - 2) 2
  | "connected", [states] =>
    some <| withProg text fun p => showGraph (BB.Graph.isConnected p states.toNat!)
  | _, _ => none

end BB.Driver.OpsCps
