/-
Driver ops for the model of the Python machine runner (C17, run clause).

  pyrun <lim> | prog     `BB.PyM.pyRun` = tm.machine.Machine(prog).run(sim_lim = lim)
      -> <kind> cycles=<n> marks=<n> rulapp=<n> blanks=<q:n,..> last=<q,c|-> outside=0
         (the fields of py_harness's `pyrun` line that the model determines; `steps` is left out),
       | - cycles=- marks=- rulapp=- blanks=- last=- outside=1 why=<reason>
         (the run leaves the additive fragment: py_harness prints `nonadd=1`),
       | PYEXC:<name>          (an exception escapes `Machine.run`)
       | BOUNDARY:<what>       (edge of the model, see BB/Model/PyMachine.lean)
  pycmp <lim> | prog     both models on the same program, and the no-divergence flag of
                         `py_rs_run_eq_partial` with a diagnosis of the first difference
      -> agree=<0|1> same=<0|1|-> at=<cycle|-> what=<..> py=[<pyrun line>] rs=[<runprover line>]
         same: the property's fields (kind, marks, rulapp, blank record) coincide; `-` when one
         side is outside / a limit / an error
-/
import BB.Model.Instrs
import BB.Model.Tape
import BB.Model.Machine
import BB.Model.Rules
import BB.Model.Prover
import BB.Model.PyTape
import BB.Model.PyMachine

namespace BB.Driver.OpsPyRun

open BB BB.PyM

def showSlotOpt : Option Slot → String
  | none => "-"
  | some (q, s) => s!"{q},{s}"

def showPyBlanks (b : PyBlanks) : String :=
  ",".intercalate (b.map fun (q, n) => s!"{q}:{n}")

def showBlanks (b : List (Nat × Nat)) : String :=
  ",".intercalate (b.map fun (q, n) => s!"{q}:{n}")

def showPyResult (r : PyResult) : String :=
  s!"{r.kind.show} cycles={r.cycles} marks={r.marks} rulapp={r.rulapp} blanks={showPyBlanks r.blanks} last={showSlotOpt r.lastSlot} outside=0"

def showPyOutcome : PyOutcome → String
  | .ok r => showPyResult r
  | .limit r => showPyResult r
  | .outside why => s!"- cycles=- marks=- rulapp=- blanks=- last=- outside=1 why={why}"
  | .exc name => s!"PYEXC:{name}"
  | .boundary what => s!"BOUNDARY:{what}"

def showRs : PRes MachineResult → String
  | .error (.panic _) => "PANIC"
  | .error (.overflow _) => "limit:overflow"
  | .ok r =>
    s!"{r.result.show} steps={r.steps} cycles={r.cycles} marks={r.marks} rulapp={r.rulapp} blanks={showBlanks r.blanks} last={showSlotOpt r.lastSlot}"

/-- which stage of `try_rule` the two runners evaluate differently (diagnosis only) -/
def tryStage (pv : Prover) (p : Prog) (cycle state : Nat) (tape : Tape) : String :=
  let sig := tape.signature
  let h := sig.hash
  if pyGetRule pv state tape (some sig) != pv.getRule state tape (some sig) then "get_rule" else
  match pv.configs.get h sig with
  | none => "config-insert"
  | some pcs =>
    match pcs.nextDeltas state (cycleAsI32 cycle) with
    | .error _ => "deltas-range"
    | .ok (none, _) => "deltas-none"
    | .ok (some (d1, d2, d3), pcs') =>
      let pv1 : Prover := { pv with configs := pv.configs.set h sig pcs' }
      if [d1, d2, d3].any (· > 90000) then "delta-cap-90000" else
      match pyStretches pv1 p state sig [d1, d2, d3] tape, Prover.stretches pv1 p state sig [d1, d2, d3] tape with
      | .ok a, .ok b =>
        if a != b then
          s!"stretches(py={if a.isSome then "some" else "none"},rs={if b.isSome then "some" else "none"})"
        else
          match a with
          | some [c0, c1, c2] =>
            match pyMakeRule tape.counts c0 c1 c2, makeRule tape.counts c0 c1 c2 with
            | .ok m, .ok r =>
              let pyS := match m with
                | .none => "none" | .infinite => "infinite" | .rule _ => "rule"
              let rsS := match r with
                | none => "none"
                | some rule => if !rule.anyNegPlus then "infinite" else if rule.anyMult then "mult" else "rule"
              let same := match m, r with
                | .rule a, some b => a == b
                | .none, none => true
                | .infinite, some b => !b.anyNegPlus
                | _, _ => false
              if !same then s!"make_rule(py={pyS},rs={rsS})" else "min_sig-or-exclusion"
            | .error _, _ => "make_rule(py-stop)"
            | _, .error _ => "make_rule(rs-error)"
          | _ => "?"
      | _, _ => "stretches(error)"

/-- first iteration at which `iterAgree` fails, with a diagnosis -/
def firstDiff (p : Prog) : Nat → Nat → PyState → Option (Nat × String)
  | 0, _, _ => none
  | fuel + 1, cycle, s =>
    if !tryAgree s.prover p cycle s.state s.tape then
      some (cycle, "try_rule:" ++ tryStage s.prover p cycle s.state s.tape)
    else if !iterAgree p cycle s then
      some (cycle, match pyTryRule s.prover p cycle s.state s.tape with
        | .ok (.got rule, _) => if !applyAgree s.tape rule then "apply_rule" else "step"
        | _ => "step")
    else
      match pyIter p cycle s with
      | .cont s' => firstDiff p fuel (cycle + 1) s'
      | _ => none

def rsKind : TermRes → Option PyKind
  | .xlimit => some .xlimit | .infrul => some .infrul | .spnout => some .spnout
  | .undfnd => some .undfnd | _ => none

def blanksSame : PyBlanks → List (Nat × Nat) → Bool
  | [], [] => true
  | (q, n) :: a, (q', n') :: b => q == q' && (n == -1 || n == Int.ofNat n') && blanksSame a b
  | _, _ => false

def sameFields (py : PyOutcome) (rs : PRes MachineResult) : String :=
  match py, rs with
  | .ok r, .ok r' =>
    match rsKind r'.result with
    | none => "-"
    | some k =>
      if r.kind == k && r.marks == r'.marks && r.rulapp == r'.rulapp && blanksSame r.blanks r'.blanks
      then "1" else "0"
  | _, _ => "-"

def handle (op : String) (args : List String) (text : String) : Option String :=
  match op, args with
  | "pyrun", [lim] =>
    some <| match Prog.fromStr text with
      | .error (.panic _) => "PANIC"
      | .error (.overflow _) => "limit:overflow"
      | .ok p => showPyOutcome (pyRun p lim.toNat!)
  | "pycmp", [lim] =>
    some <| match Prog.fromStr text with
      | .error (.panic _) => "PANIC"
      | .error (.overflow _) => "limit:overflow"
      | .ok p =>
        let lim := lim.toNat!
        let py := pyRun p lim
        let rs := runProver p lim
        let d := firstDiff p lim 0 PyState.init
        let (at_, what) := match d with
          | none => ("-", "-")
          | some (c, w) => (toString c, w)
        s!"agree={if d.isNone then 1 else 0} same={sameFields py rs} at={at_} what={what} py=[{showPyOutcome py}] rs=[{showRs rs}]"
  | _, _ => none

end BB.Driver.OpsPyRun
