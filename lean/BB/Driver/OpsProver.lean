/-
Driver ops for the Prover model (C02 / C03).

  runprover <lim> | prog       run_prover(prog, lim)
      -> <kind> steps=<n> cycles=<n> marks=<n> rulapp=<n> blanks=<q:n,..> last=<q,c|->
         (the format of `ops::show_result`), `limit:overflow` when the overflow-checked build
         panics on an arithmetic overflow, `PANIC` on any other panic
  ptrace <lim> <n> | prog      the same result line, then the first n rule applications of the main
                               loop, everything joined by " # ":
      -> <result line> # <cycle>;<state>;<tape before>;<tape after>;<times> # ...
         (tapes in the `Display` format of `Tape`; applications made before a panic are listed too)
  checkapp <q> <budget> <before> <after> | prog
                               the VERIFIED validator `checkApp` (BB/Model/Validate.lean, theorems
                               BB/Props/C03.lean) on one reported application; the two tapes in the
                               `Display` format with '_' for ' '
      -> ok cycles=<n> steps=<n> canon=<bool> | undefinedOnWay <q>,<c> | spinoutOnWay | overBudget
         | notCanon | BAD-TAPE
  replay <budget> <lim> <apps> | prog
                               the VERIFIED whole-run validator `replaySym` (BB/Model/ValidateTrace.lean,
                               theorems BB/Props/C02.lean): <apps> = the applications reported by
                               the real run, `cycle;state;before;after[;times]` joined by '#'
                               (`times` defaults to 0 = no symbolic fallback), tapes with
                               '_' for ' ', or `-` when there are none
      -> undfnd cycle=<c> slot=<q>,<s> marks=<m> steps=<n> blanks=<q:n,..>
       | spnout cycle=<c> marks=<m> steps=<n> blanks=..
       | blankrec cycle=<c> state=<q> steps=<n> blanks=..
       | limit state=<q> tape=<display with _> marks=<m> steps=<n> blanks=..
       | badapp cycle=<c> why=<..> | appmismatch cycle=<c> | BAD-TAPE
-/
import BB.Model.Instrs
import BB.Model.Tape
import BB.Model.Machine
import BB.Model.Rules
import BB.Model.Prover
import BB.Model.Validate
import BB.Model.ValidateTrace
import BB.Lemmas.Canon

namespace BB.Driver.OpsProver

open BB

def showErr : PErr → String
  | .panic _ => "PANIC"
  | .overflow _ => "limit:overflow"

def showSlotOpt : Option Slot → String
  | none => "-"
  | some (q, s) => s!"{q},{s}"

def showBlanks (b : List (Nat × Nat)) : String :=
  ",".intercalate (b.map fun (q, n) => s!"{q}:{n}")

def showResult (r : MachineResult) : String :=
  if r.result == .overflow then "limit:overflow" else
  s!"{r.result.show} steps={r.steps} cycles={r.cycles} marks={r.marks} rulapp={r.rulapp} blanks={showBlanks r.blanks} last={showSlotOpt r.lastSlot}"

def showPRes : PRes MachineResult → String
  | .error e => showErr e
  | .ok r => showResult r

def showApp (a : RuleApp) : String :=
  s!"{a.cycle};{a.state};{a.before.show};{a.after.show};{a.times}"

def handle (op : String) (args : List String) (text : String) : Option String :=
  match op, args with
  | "runprover", [lim] =>
    some <| match Prog.fromStr text with
      | .error e => showErr e
      | .ok p => showPRes (runProver p lim.toNat!)
  | "ptrace", [lim, n] =>
    some <| match Prog.fromStr text with
      | .error e => showErr e
      | .ok p =>
        let (r, apps) := runProverTrace p lim.toNat!
        " # ".intercalate (showPRes r :: (apps.take n.toNat!).map showApp)
  | "checkapp", [q, budget, before, after] =>
    some <| match Prog.fromStr text with
      | .error e => showErr e
      | .ok p =>
        let un (s : String) : String := String.ofList (s.toList.map fun c => if c == '_' then ' ' else c)
        match Tape.parse (un before), Tape.parse (un after) with
        | some b, some a =>
          let canon := Span.canonB b.lspan && Span.canonB b.rspan
          match checkApp p q.toNat! b a budget.toNat! with
          | .ok cycles steps => s!"ok cycles={cycles} steps={steps} canon={canon}"
          | .undefinedOnWay (s, c) => s!"undefinedOnWay {s},{c}"
          | .spinoutOnWay => "spinoutOnWay"
          | .overBudget => "overBudget"
          | .notCanon => "notCanon"
        | _, _ => "BAD-TAPE"
  | "replay", [budget, lim, apps] =>
    some <| match Prog.fromStr text with
      | .error e => showErr e
      | .ok p =>
        let un (s : String) : String := String.ofList (s.toList.map fun c => if c == '_' then ' ' else c)
        let en (s : String) : String := String.ofList (s.toList.map fun c => if c == ' ' then '_' else c)
        let parseApp (s : String) : Option AppRec :=
          match s.splitOn ";" with
          | [c, q, b, a] => match Tape.parse (un b), Tape.parse (un a) with
            | some b, some a => some ⟨c.toNat!, q.toNat!, b, a, 0⟩
            | _, _ => none
          | [c, q, b, a, tm] => match Tape.parse (un b), Tape.parse (un a) with
            | some b, some a => some ⟨c.toNat!, q.toNat!, b, a, tm.toNat!⟩
            | _, _ => none
          | _ => none
        let recs := if apps == "-" then [] else (apps.splitOn "#").map parseApp
        if recs.any Option.isNone then "BAD-TAPE" else
        let (e, bl) := replaySym p budget.toNat! lim.toNat! (recs.filterMap id)
        let bls := showBlanks bl.reverse
        match e with
        | .undfnd c (q, s) m n => s!"undfnd cycle={c} slot={q},{s} marks={m} steps={n} blanks={bls}"
        | .spnout c m n => s!"spnout cycle={c} marks={m} steps={n} blanks={bls}"
        | .blankRec c q n => s!"blankrec cycle={c} state={q} steps={n} blanks={bls}"
        | .limit q t n => s!"limit state={q} tape={en t.show} marks={t.marks} steps={n} blanks={bls}"
        | .badApp c w => s!"badapp cycle={c} why={match w with
            | .undefinedOnWay _ => "undefinedOnWay" | .spinoutOnWay => "spinoutOnWay"
            | .overBudget => "overBudget" | .notCanon => "notCanon" | .ok _ _ => "ok"}"
        | .appMismatch c => s!"appmismatch cycle={c}"
  | _, _ => none

end BB.Driver.OpsProver
