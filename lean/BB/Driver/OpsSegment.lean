/-
Driver ops for the Segment model (C05).

  seg_halt <segs> | prog          wrapper `py_segment_cant_halt` (params from defined keys: F2)
  seg_blank <segs> | prog
  seg_spin_out <segs> | prog
  seg_halt_fix <segs> | prog      driver only: the wrapper with `fixF2 = true`
  seg_blank_fix / seg_spin_out_fix
  segp_halt <states> <colors> <segs> | prog     trait API with explicit params
  segp_blank / segp_spin_out

output: halt | blank | repeat | spinout | depth_limit | segment_limit | refuted(<step>) | PANIC
        (FUEL if a model loop ran out of its computed fuel: never expected)
-/
import BB.Model.Instrs
import BB.Model.Segment

namespace BB.Driver.OpsSegment

open BB.Segment

def showSegmentResult : SegmentResult → String
  | .halt => "halt"
  | .blank => "blank"
  | .repeat => "repeat"
  | .spinout => "spinout"
  | .depthLimit => "depth_limit"
  | .segmentLimit => "segment_limit"
  | .refuted step => s!"refuted({step})"

def showRes : Except Err SegmentResult → String
  | .ok r => showSegmentResult r
  | .error .panic => "PANIC"
  | .error .fuel => "FUEL"

def withProg (text : String) (f : Prog → String) : String :=
  match Prog.fromStr text with
  | .error _ => "PANIC"
  | .ok p => f p

def goalOf : String → Option Term
  | "halt" => some .halt
  | "blank" => some .blank
  | "spin_out" => some .spinout
  | _ => none

def handle (op : String) (args : List String) (text : String) : Option String :=
  if op.startsWith "segp_" then
    match goalOf (op.drop 5).toString, args with
    | some goal, [states, colors, segs] =>
      some (withProg text fun p =>
        showRes (segmentCantReach p (states.toNat!, colors.toNat!) segs.toNat! goal))
    | _, _ => none
  else if op.startsWith "seg_" then
    let rest := (op.drop 4).toString
    let (name, fix) :=
      if rest.endsWith "_fix" then ((rest.dropEnd 4).toString, true) else (rest, false)
    match goalOf name, args with
    | some goal, [segs] =>
      some (withProg text fun p => showRes (pySegmentCantReach p segs.toNat! goal fix))
    | _, _ => none
  else none

end BB.Driver.OpsSegment
