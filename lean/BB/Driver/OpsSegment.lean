/- driver ops for the Segment model (filled in when the module is ported) -/
import BB.Model.Instrs

namespace BB.Driver.OpsSegment

def handle (_op : String) (_args : List String) (_text : String) : Option String := none

end BB.Driver.OpsSegment
