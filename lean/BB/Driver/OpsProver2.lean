/-
More driver ops for C03 (search side only: nothing here is used by a theorem).

  appcycle <q> <budget> <before> <after> | prog
      run the plain simulator from (q, before), at most <budget> cycles; tapes in the `Display`
      format with '_' for ' '
      -> reached <cycles>     (q, after) is met first
       | cycle <cycles>       the machine is back in (q, before) without having met (q, after): by
                              determinism it never will - the reported application is unreachable
       | undefined | spinout  the run ends first
       | open                 none of these within the budget
       | BAD-TAPE

  validateapp <q> <budget> <times> <before> <after> | prog
      the VERIFIED symbolic validator `Sym.validateApp` (BB/Model/SymRule.lean; theorem
      `validate_app_sound`, BB/Props/C03.lean): the rule behind a reported application is validated
      for all block counts and the application follows by induction, whatever `times` is
      -> ok steps=<n> canon=<bool>   |   refused   |   BAD-TAPE

  validateinf <q> <budget> <tape> | prog
      the VERIFIED `Sym.validateInf` (theorem `validate_inf_sound` / `replaySym_limit_inf`,
      BB/Props/C02.lean): from (q, tape) the machine never halts and never spins out
      -> true | false | BAD-TAPE
-/
import BB.Model.Instrs
import BB.Model.Validate
import BB.Model.SymRule
import BB.Lemmas.Canon

namespace BB.Driver.OpsProver2

open BB

def go (p : Prog) (q : Nat) (before after : Tape) : Nat → Nat → Nat → Tape → String
  | 0, _, _, _ => "open"
  | fuel + 1, n, cur, t =>
    match plainStep p cur t with
    | .undefined _ => "undefined"
    | .spinout => "spinout"
    | .next cur' t' _ =>
      if cur' == q && t' == after then s!"reached {n + 1}"
      else if cur' == q && t' == before then s!"cycle {n + 1}"
      else go p q before after fuel (n + 1) cur' t'

def handle (op : String) (args : List String) (text : String) : Option String :=
  match op, args with
  | "appcycle", [q, budget, before, after] =>
    some <| match Prog.fromStr text with
      | .error _ => "PANIC"
      | .ok p =>
        let un (s : String) : String := String.ofList (s.toList.map fun c => if c == '_' then ' ' else c)
        match Tape.parse (un before), Tape.parse (un after) with
        | some b, some a => go p q.toNat! b a budget.toNat! 0 q.toNat! b
        | _, _ => "BAD-TAPE"
  | "validateapp", [q, budget, times, before, after] =>
    some <| match Prog.fromStr text with
      | .error _ => "PANIC"
      | .ok p =>
        let un (s : String) : String := String.ofList (s.toList.map fun c => if c == '_' then ' ' else c)
        match Tape.parse (un before), Tape.parse (un after) with
        | some b, some a =>
          let canon := Span.canonB b.lspan && Span.canonB b.rspan
          match Sym.validateApp p q.toNat! b a times.toNat! budget.toNat! with
          | some n => s!"ok steps={n} canon={canon}"
          | none => "refused"
        | _, _ => "BAD-TAPE"
  | "validateinf", [q, budget, tape] =>
    some <| match Prog.fromStr text with
      | .error _ => "PANIC"
      | .ok p =>
        let un (s : String) : String := String.ofList (s.toList.map fun c => if c == '_' then ' ' else c)
        match Tape.parse (un tape) with
        | some t => toString (Sym.validateInf p q.toNat! t budget.toNat!)
        | none => "BAD-TAPE"
  | _, _ => none

end BB.Driver.OpsProver2
