/-
Driver ops for the Reason model (src/reason.rs, the backward reasoner).

  cant_halt <depth> | prog            cant_blank <depth> | prog       cant_spin_out <depth> | prog
      the unrepaired code (fixF1 = fixF2 = false); same ops exist in the harness
  cant_halt_fix <f1:0|1> <f2:0|1> <depth> | prog      (same for _blank_fix, _spin_out_fix)
      driver only: the model with the repair switches

output: refuted(<step>) | init | linrec | spinout | step_limit | depth_limit | PANIC
        (| limit:overflow when `CompProg::from_str` hits the `state as u8 - 65` underflow)
-/
import BB.Model.Instrs
import BB.Model.Reason

namespace BB.Driver.OpsReason

open BB.Reason

def showBackward : BackwardResult → String
  | .refuted step => s!"refuted({step})"
  | .init => "init"
  | .linRec => "linrec"
  | .spinout => "spinout"
  | .stepLimit => "step_limit"
  | .depthLimit => "depth_limit"

def showErr : PErr → String
  | .panic _ => "PANIC"
  | .overflow _ => "limit:overflow"

def showRes : PRes BackwardResult → String
  | .ok r => showBackward r
  | .error e => showErr e

def withProg (text : String) (f : Prog → String) : String :=
  match Prog.fromStr text with
  | .error e => showErr e
  | .ok p => f p

def flag (s : String) : Bool := s == "1"

def handle (op : String) (args : List String) (text : String) : Option String :=
  match op, args with
  | "cant_halt", [depth] =>
      some (withProg text fun p => showRes (cantHalt p depth.toNat!))
  | "cant_blank", [depth] =>
      some (withProg text fun p => showRes (cantBlank p depth.toNat!))
  | "cant_spin_out", [depth] =>
      some (withProg text fun p => showRes (cantSpinOut p depth.toNat!))
  | "cant_halt_fix", [f1, f2, depth] =>
      some (withProg text fun p => showRes (cantHalt p depth.toNat! (flag f1) (flag f2)))
  | "cant_blank_fix", [f1, _f2, depth] =>
      some (withProg text fun p => showRes (cantBlank p depth.toNat! (flag f1)))
  | "cant_spin_out_fix", [f1, _f2, depth] =>
      some (withProg text fun p => showRes (cantSpinOut p depth.toNat! (flag f1)))
  | _, _ => none

end BB.Driver.OpsReason
