/-
Line-protocol driver: one case per input line, one result per output line.
  <op> <arg>* | <program text>
-/
import BB.Model.Instrs
import BB.Model.Tape
import BB.Model.Machine
import BB.Oracle
import BB.Driver.OpsReason
import BB.Driver.OpsSegment
import BB.Driver.OpsCps
import BB.Driver.OpsBlocks
import BB.Driver.OpsMacros
import BB.Driver.OpsRules
import BB.Driver.OpsTree
import BB.Driver.OpsPy
import BB.Driver.OpsPyTape
import BB.Driver.OpsProver
import BB.Driver.OpsProver2
import BB.Driver.OpsPyRun

namespace BB.Driver

def showSlotOpt : Option Slot → String
  | none => "-"
  | some (q, s) => s!"{q},{s}"

def showBlanks (b : List (Nat × Nat)) : String :=
  ",".intercalate (b.map fun (q, n) => s!"{q}:{n}")

def showResult (r : MachineResult) : String :=
  if r.result == .overflow then "limit:overflow" else
  s!"{r.result.show} steps={r.steps} cycles={r.cycles} marks={r.marks} rulapp={r.rulapp} blanks={showBlanks r.blanks} last={showSlotOpt r.lastSlot}"

def showList (l : List Nat) : String := ",".intercalate (l.map toString)

def showCC : ColorCount → String
  | .just c => s!"[{c}]"
  | .mult c => s!"{c}"

def showSig (s : Signature) : String :=
  s!"{s.scan}|{",".intercalate (s.lspan.map showCC)}|{",".intercalate (s.rspan.map showCC)}"

/-- all observers of a tape, one canonical string (C12) -/
def showObs (t : Tape) : String :=
  s!"{t.show};m={t.marks};b={t.blank};eL={t.atEdge false};eR={t.atEdge true};n={t.blocks};c={showList t.counts.1}/{showList t.counts.2};sig={showSig t.signature};u={showList t.unroll}"

/-- ops string: groups of 3 chars  <L|R><colour digit><s|n>  -/
def parseOps (s : List Char) : List (Bool × Nat × Bool) :=
  match s with
  | d :: c :: k :: rest => (d == 'R', c.toNat - 48, k == 's') :: parseOps rest
  | _ => []

def showSlots (p : Prog) : String :=
  ";".intercalate (p.map fun ((q, c), (pr, sh, tr)) => s!"{q},{c}={pr},{if sh then 1 else 0},{tr}")

def showErr : PErr → String
  | .panic _ => "PANIC"
  | .overflow _ => "limit:overflow"

def withProg (text : String) (f : Prog → String) : String :=
  match Prog.fromStr text with
  | .error e => showErr e
  | .ok p => f p

/-- base steps executed by `quick_term_or_rec` up to its verdict (driver-side bookkeeping around
    the model's `recIter`; 1 = the initial `init_stepped` step) -/
def recSteps (p : Prog) (simLim : Nat) : String := Id.run do
  let mut s := RState.init
  let mut steps : Nat := 1
  for cycle in [1:simLim] do
    match recIter p cycle s with
    | .inl r =>
      -- the verdict is reached during this cycle: count its step when it is a recurrence
      let extra := match r with
        | .recur => match p.get (s.state, s.tape.tape.scan) with
          | some (color, shift, next) => (s.tape.step shift color (s.state == next)).2
          | none => 0
        | _ => 0
      return s!"{r.show} steps={steps + extra}"
    | .inr s' =>
      steps := steps + (s'.tape.head - s.tape.head).natAbs
      s := s'
  return s!"limit steps={steps}"

def handle (op : String) (args : List String) (text : String) : String :=
  match op, args with
  | "parse", [] => withProg text fun p => p.show none
  | "parsedims", [a, b] => withProg text fun p => p.show (some (a.toNat!, b.toNat!))
  | "runquick", [lim] => withProg text fun p => showResult (runQuick p lim.toNat!)
  | "qtrace", [n] => withProg text fun p =>
      "/".intercalate ((quickTrace p n.toNat! QState.init).map fun s => s!"{s.state};{s.tape.show};{s.steps}")
  | "rec", [lim] => withProg text fun p => (quickTermOrRec p lim.toNat!).show
  | "recpy", [lim] => withProg text fun p =>
      match quickTermOrRec p lim.toNat! with
      | .recur | .spinout => "true"
      | _ => "false"
  | "tapeops", [ops] =>
      let (_, outs) := (parseOps ops.toList).foldl (fun (acc : Tape × List String) o =>
        let (t', k) := acc.1.step o.1 o.2.1 o.2.2
        (t', s!"{k}:{showObs t'}" :: acc.2)) (Tape.init, [])
      " # ".intercalate outs.reverse
  | "sigcompat", [a, b] =>
      let build (ops : String) : Tape := (parseOps ops.toList).foldl (fun t o => (t.step o.1 o.2.1 o.2.2).1) Tape.init
      toString ((build a).sigCompatible (build b).signature)
  | "tapeopsh", [ops] =>
      let (t, h, n) := (parseOps ops.toList).foldl (fun (acc : Tape × UInt64 × Nat) o =>
        let (t', k) := acc.1.step o.1 o.2.1 o.2.2
        let str := s!"{k}:{t'.show}|"
        let h' := str.toUTF8.foldl (fun (h : UInt64) b => (h ^^^ b.toUInt64) * 0x100000001b3) acc.2.1
        (t', h', acc.2.2 + 1)) (Tape.init, (0xcbf29ce484222325 : UInt64), 0)
      let hex := String.ofList (Nat.toDigits 16 h.toNat)
      let hex := String.ofList (List.replicate (16 - hex.length) '0') ++ hex
      s!"{n} {hex} {showObs t}"
  | "l0run", [budget] => withProg text fun p => (Oracle.run p budget.toNat!).show
  | "l0linrec", [budget] => withProg text fun p => Oracle.linrec p budget.toNat!
  | "rec_steps", [lim] => withProg text fun p => recSteps p lim.toNat!
  | "l0match", [budget, cfgs] => withProg text fun p =>
      Oracle.matchSeq p budget.toNat! (cfgs.splitOn "/")
  | "l0cfgs", [ns] => withProg text fun p =>
      "/".intercalate (Oracle.cfgsAt p ((ns.splitOn ",").map String.toNat!))
  | "slots", [] => withProg text showSlots
  | "rt2", [a, b] => withProg text fun p =>
      match p.showChars (some (a.toNat!, b.toNat!)) with
      | .error e => showErr e
      | .ok cs => match Prog.fromChars cs with
        | .error e => showErr e
        | .ok p2 => showSlots p2
  | "tok", ["instr"] =>
      match readInstr text.toList with
      | .error e => showErr e
      | .ok i => match showInstr i with
        | .error e => showErr e
        | .ok shown => match i with
          | none => s!"none -> {String.ofList shown}"
          | some (c, sh, st) => s!"{c},{if sh then 1 else 0},{st} -> {String.ofList shown}"
  | "tok", ["slot"] =>
      match readSlot text.toList with
      | .error e => showErr e
      | .ok (q, c) => match showSlot (q, c) with
        | .error e => showErr e
        | .ok shown => s!"{q},{c} -> {String.ofList shown}"
  | "tok", ["state"] =>
      match text.toList with
      | [] => "PANIC"
      | ch :: _ => match readState ch with
        | .error e => showErr e
        | .ok q => match showState q with
          | .error e => showErr e
          | .ok c => s!"{q} -> {String.singleton c}"
  | _, _ =>
    match OpsReason.handle op args text with
    | some r => r
    | none => match OpsSegment.handle op args text with
    | some r => r
    | none => match OpsCps.handle op args text with
    | some r => r
    | none => match OpsMacros.handle op args text with
    | some r => r
    | none => match OpsRules.handle op args text with
    | some r => r
    | none => match OpsTree.handle op args text with
    | some r => r
    | none => match OpsPy.handle op args text with
    | some r => r
    | none => match OpsPyTape.handle op args text with
    | some r => r
    | none => match OpsProver.handle op args text with
    | some r => r
    | none => match OpsProver2.handle op args text with
    | some r => r
    | none => match OpsPyRun.handle op args text with
    | some r => r
    | none => match OpsBlocks.handle op args text with
    | some r => r
    | none => "BAD-OP"

def splitBar (line : String) : String × String :=
  match line.splitOn " | " with
  | [a] => (a, "")
  | a :: rest => (a, " | ".intercalate rest)
  | [] => ("", "")

partial def loop (hin hout : IO.FS.Stream) : IO Unit := do
  let line ← hin.getLine
  if line.isEmpty then return ()
  let line := (line.dropEndWhile (· == (Char.ofNat 10))).toString
  let (head, text) := splitBar line
  let out := match head.splitOn " " with
    | op :: args => handle op args text
    | [] => "BAD-OP"
  hout.putStrLn out
  loop hin hout

def main (_args : List String) : IO UInt32 := do
  let hin ← IO.getStdin
  let hout ← IO.getStdout
  loop hin hout
  hout.flush
  return 0

end BB.Driver
