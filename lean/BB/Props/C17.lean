/-
C17, step clause: the Python compressed-tape step (tm/tape.py `Tape.step`, modelled by
`pyStep`) agrees with the Rust one (src/tape.rs `Tape::step`, modelled by `Tape.step`).

The unconditional statement is FALSE: the two differ on a tape whose block arriving under the
head has count 0 (Rust tests `count > 1`, Python tests `count != 1`).  The exact condition is
`py_step_eq_iff`; `py_step_eq` is the statement for tapes without zero-count blocks, an invariant
of `Tape.step` (`step_noZero`) that holds on the blank tape, hence `py_run_eq` for every step
sequence from the blank tape without any hypothesis.
-/
import BB.Model.Tape
import BB.Model.PyTape
import BB.Model.PyMachine
import BB.Lemmas.PyMachine2
import BB.Lemmas.PyMachine3
import BB.Lemmas.PyMachine4

namespace BB

/-- the pull span after the sweep (same expression in both implementations) -/
def sweptPull (t : Tape) (shift skip : Bool) : Span :=
  (pySweep (if shift then t.rspan else t.lspan) t.scan skip).2

/-- the block the head lands on, if any -/
def nextPull (t : Tape) (shift skip : Bool) : Option Block :=
  (sweptPull t shift skip).head?

def Span.NoZero (s : Span) : Prop := ∀ b ∈ s, b.count ≠ 0

/-- no zero-count block anywhere on the tape -/
def Tape.NoZero (t : Tape) : Prop := Span.NoZero t.lspan ∧ Span.NoZero t.rspan

/-! ### the two span operations -/

/-- Python's push (with any of the three possible `push_block` provenances that leave
    `push_block.count + 1 = stepped`) is Rust's push. -/
private theorem pyPush_eq (push : Span) (color stepped : Nat) (pb : Option Block)
    (h : (match pb with | none => 1 | some b => b.count + 1) = stepped) :
    pyPush push color stepped pb = Span.push push color stepped := by
  cases push with
  | nil =>
    cases pb with
    | none => simp [pyPush, pyInsert, Span.push] at *; subst h; split <;> simp_all
    | some b => simp [pyPush, pyInsert, Span.push] at *; subst h; split <;> simp_all
  | cons top rest =>
    cases pb with
    | none =>
      simp [pyPush, pyInsert, Span.push] at *; subst h
      split <;> simp_all
    | some b =>
      simp [pyPush, pyInsert, Span.push] at *; subst h
      split <;> simp_all

/-- sweep + pull, Python against Rust, on a pull span `s`: under the side condition both give the
    same next scan, stepped count and remaining span, and Python's `push_block` ends with
    `count + 1 = stepped`. -/
private theorem pyPull_eq (s : Span) (scan : Nat) (skip : Bool)
    (h : ∀ b, (pySweep s scan skip).2.head? = some b → b.count ≠ 0) :
    let sw := pySweep s scan skip
    let nx := pyNext sw.2 sw.1
    Span.pull s scan skip = (nx.1, pyStepped sw.1, nx.2.1)
      ∧ (match nx.2.2 with | none => 1 | some b => b.count + 1) = pyStepped sw.1 := by
  cases s with
  | nil => simp [pySweep, pyNext, pyStepped, Span.pull]
  | cons b rest =>
    by_cases hs : (skip && b.color == scan) = true
    · -- swept
      cases rest with
      | nil => simp [pySweep, pyNext, pyStepped, Span.pull, hs]; exact Nat.add_comm _ _
      | cons n rest' =>
        have hn : n.count ≠ 0 := h n (by simp [pySweep, hs])
        by_cases h1 : n.count = 1
        · simp [pySweep, pyNext, pyStepped, Span.pull, hs, h1]; exact Nat.add_comm _ _
        · have : n.count > 1 := by omega
          simp [pySweep, pyNext, pyStepped, Span.pull, hs, h1, this]; exact Nat.add_comm _ _
    · -- not swept
      have hb : b.count ≠ 0 := h b (by simp [pySweep, hs])
      by_cases h1 : b.count = 1
      · simp [pySweep, pyNext, pyStepped, Span.pull, hs, h1]
      · have : b.count > 1 := by omega
        simp [pySweep, pyNext, pyStepped, Span.pull, hs, h1, this]

/-! ### the step -/

/-- **C17 (step clause), conditional form**: whenever the block arriving under the head does not
    have count 0, the Python step and the Rust step produce the same tape and the same count. -/
theorem py_step_eq_of_nextPull (t : Tape) (d : Bool) (c : Nat) (sk : Bool)
    (h : ∀ b, nextPull t d sk = some b → b.count ≠ 0) :
    pyStep t d c sk = t.step d c sk := by
  cases d with
  | true =>
    have hp := pyPull_eq t.rspan t.scan sk (by simpa [nextPull, sweptPull] using h)
    obtain ⟨h1, h2⟩ := hp
    simp only [pyStep, Tape.step, if_true, h1]
    rw [pyPush_eq _ _ _ _ h2]
  | false =>
    have hp := pyPull_eq t.lspan t.scan sk (by simpa [nextPull, sweptPull] using h)
    obtain ⟨h1, h2⟩ := hp
    simp only [pyStep, Tape.step, Bool.false_eq_true, if_false, h1]
    rw [pyPush_eq _ _ _ _ h2]

/-- on a zero-count arriving block the two steps differ: Python keeps the block (count `0 - 1`),
    Rust removes it, so the pull spans have different lengths. -/
theorem py_step_ne_of_zero (t : Tape) (d : Bool) (c : Nat) (sk : Bool) (b : Block)
    (hb : nextPull t d sk = some b) (h0 : b.count = 0) :
    pyStep t d c sk ≠ t.step d c sk := by
  intro heq
  have hlen : ∀ (s : Span) (scan : Nat),
      (pySweep s scan sk).2.head? = some b →
      (pyNext (pySweep s scan sk).2 (pySweep s scan sk).1).2.1.length
        ≠ (Span.pull s scan sk).2.2.length := by
    intro s scan hh
    cases s with
    | nil => simp [pySweep] at hh
    | cons x rest =>
      by_cases hs : (sk && x.color == scan) = true
      · cases rest with
        | nil => simp [pySweep, hs] at hh
        | cons n rest' =>
          have : n = b := by simpa [pySweep, hs] using hh
          subst this
          simp [pySweep, pyNext, Span.pull, hs, h0]
      · have : x = b := by simpa [pySweep, hs] using hh
        subst this
        simp [pySweep, pyNext, Span.pull, hs, h0]
  cases d with
  | true =>
    have := hlen t.rspan t.scan (by simpa [nextPull, sweptPull] using hb)
    apply this
    have h2 := congrArg (fun r => r.1.rspan.length) heq
    simpa [pyStep, Tape.step] using h2
  | false =>
    have := hlen t.lspan t.scan (by simpa [nextPull, sweptPull] using hb)
    apply this
    have h2 := congrArg (fun r => r.1.lspan.length) heq
    simpa [pyStep, Tape.step] using h2

/-- **the exact hypothesis**: the Python and the Rust step agree on `(t, d, c, sk)` if and only if
    the block arriving under the head (if there is one) has a non-zero count. -/
theorem py_step_eq_iff (t : Tape) (d : Bool) (c : Nat) (sk : Bool) :
    pyStep t d c sk = t.step d c sk ↔ ∀ b, nextPull t d sk = some b → b.count ≠ 0 := by
  constructor
  · intro heq b hb h0
    exact py_step_ne_of_zero t d c sk b hb h0 heq
  · exact py_step_eq_of_nextPull t d c sk

private theorem mem_sweptPull {t : Tape} {d sk : Bool} {b : Block} (h : b ∈ sweptPull t d sk) :
    b ∈ (if d then t.rspan else t.lspan) := by
  unfold sweptPull at h
  generalize (if d then t.rspan else t.lspan) = s at h ⊢
  cases s with
  | nil => simp [pySweep] at h
  | cons x rest =>
    by_cases hs : (sk && x.color == t.scan) = true
    · simp [pySweep, hs] at h; simp [h]
    · simpa [pySweep, hs] using h

/-- **C17 (step clause)**: for every tape without zero-count blocks (canonical or not: adjacent
    equal colours, blank blocks at the far end, any scan colour are all allowed), every shift,
    colour and skip flag, `tm/tape.py Tape.step` = `src/tape.rs Tape::step`. -/
theorem py_step_eq (t : Tape) (d : Bool) (c : Nat) (sk : Bool) (h : t.NoZero) :
    pyStep t d c sk = t.step d c sk := by
  apply py_step_eq_of_nextPull
  intro b hb
  have hm : b ∈ sweptPull t d sk := by
    unfold nextPull at hb
    cases hsp : sweptPull t d sk with
    | nil => simp [hsp] at hb
    | cons x xs => simp [hsp] at hb; simp [hb]
  have := mem_sweptPull hm
  cases d with
  | true => exact h.2 b (by simpa using this)
  | false => exact h.1 b (by simpa using this)

/-! ### the hypothesis is an invariant of stepping -/

private theorem pull_noZero (s : Span) (scan : Nat) (sk : Bool) (h : Span.NoZero s) :
    Span.NoZero (Span.pull s scan sk).2.2 := by
  intro b hb
  cases s with
  | nil => simp [Span.pull] at hb
  | cons x rest =>
    have hx : x.count ≠ 0 := h x (by simp)
    have hr : ∀ y ∈ rest, y.count ≠ 0 := fun y hy => h y (by simp [hy])
    by_cases hs : (sk && x.color == scan) = true
    · cases rest with
      | nil => simp [Span.pull, hs] at hb
      | cons n rest' =>
        have hn : n.count ≠ 0 := hr n (by simp)
        by_cases h1 : n.count > 1
        · simp [Span.pull, hs, h1] at hb
          rcases hb with hb | hb
          · subst hb; simp; omega
          · exact hr b (by simp [hb])
        · simp [Span.pull, hs, h1] at hb
          exact hr b (by simp [hb])
    · by_cases h1 : x.count > 1
      · simp [Span.pull, hs, h1] at hb
        rcases hb with hb | hb
        · subst hb; simp; omega
        · exact hr b hb
      · simp [Span.pull, hs, h1] at hb
        exact hr b hb

private theorem pull_stepped_pos (s : Span) (scan : Nat) (sk : Bool) : (Span.pull s scan sk).2.1 ≠ 0 := by
  cases s with
  | nil => simp [Span.pull]
  | cons x rest =>
    by_cases hs : (sk && x.color == scan) = true
    · cases rest with
      | nil => simp [Span.pull, hs]
      | cons n rest' => by_cases h1 : n.count > 1 <;> simp [Span.pull, hs, h1]
    · by_cases h1 : x.count > 1 <;> simp [Span.pull, hs, h1]

private theorem push_noZero (s : Span) (c k : Nat) (h : Span.NoZero s) (hk : k ≠ 0) :
    Span.NoZero (Span.push s c k) := by
  intro b hb
  cases s with
  | nil =>
    simp only [Span.push] at hb
    split at hb
    · simp at hb
    · simp at hb; subst hb; exact hk
  | cons x rest =>
    simp only [Span.push] at hb
    split at hb
    · simp at hb
      rcases hb with hb | hb
      · subst hb; simp; omega
      · exact h b (by simp [hb])
    · simp at hb
      rcases hb with hb | hb
      · subst hb; exact hk
      · rcases hb with hb | hb
        · subst hb; exact h b (by simp)
        · exact h b (by simp [hb])

theorem step_noZero (t : Tape) (d : Bool) (c : Nat) (sk : Bool) (h : t.NoZero) :
    (t.step d c sk).1.NoZero := by
  cases d with
  | true =>
    simp only [Tape.step, if_true]
    exact ⟨push_noZero _ _ _ h.1 (pull_stepped_pos _ _ _), pull_noZero _ _ _ h.2⟩
  | false =>
    simp only [Tape.step]
    exact ⟨pull_noZero _ _ _ h.1, push_noZero _ _ _ h.2 (pull_stepped_pos _ _ _)⟩

theorem init_noZero (scan : Nat) : (Tape.init scan).NoZero := by
  constructor <;> intro b hb <;> simp [Tape.init] at hb

/-! ### step sequences -/

abbrev StepOp := Bool × Nat × Bool

/-- run a sequence of (shift, colour, skip) through the Rust-model step, collecting the counts -/
def rsRun (t : Tape) : List StepOp → Tape × List Nat
  | [] => (t, [])
  | (d, c, sk) :: ops =>
    let (t', k) := t.step d c sk
    let (t'', ks) := rsRun t' ops
    (t'', k :: ks)

/-- the same through the Python-model step -/
def pyRun (t : Tape) : List StepOp → Tape × List Nat
  | [] => (t, [])
  | (d, c, sk) :: ops =>
    let (t', k) := pyStep t d c sk
    let (t'', ks) := pyRun t' ops
    (t'', k :: ks)

theorem py_run_eq_of_noZero (ops : List StepOp) : ∀ t : Tape, t.NoZero → pyRun t ops = rsRun t ops := by
  induction ops with
  | nil => intro t _; rfl
  | cons o ops ih =>
    intro t h
    obtain ⟨d, c, sk⟩ := o
    simp only [pyRun, rsRun, py_step_eq t d c sk h]
    rw [ih _ (step_noZero t d c sk h)]

/-- every step sequence from a blank tape (any scan colour, any skip flags — consistent with the
    scanned block or not) gives the same tape and the same step counts in both implementations. -/
theorem py_run_eq (scan : Nat) (ops : List StepOp) :
    pyRun (Tape.init scan) ops = rsRun (Tape.init scan) ops :=
  py_run_eq_of_noZero ops _ (init_noZero scan)

/-! ### witnesses -/

/-- the excluded case is real: a zero-count block under the arriving head -/
example : pyStep ⟨0, [], [⟨1, 0⟩]⟩ true 1 false ≠ Tape.step ⟨0, [], [⟨1, 0⟩]⟩ true 1 false := by
  decide

example : (pyStep ⟨0, [], [⟨1, 0⟩]⟩ true 1 false).1 = ⟨1, [⟨1, 1⟩], [⟨1, 0⟩]⟩
    ∧ (Tape.step ⟨0, [], [⟨1, 0⟩]⟩ true 1 false).1 = ⟨1, [⟨1, 1⟩], []⟩ := by
  decide

/-- non-vacuity: a non-canonical tape (adjacent equal colours, far blank block) satisfying the
    hypothesis, on which the step sweeps a block, lands on a single-cell block (the block-reuse
    branch) and pushes a new block -/
example : (⟨2, [⟨1, 3⟩, ⟨1, 2⟩, ⟨0, 4⟩], [⟨2, 5⟩, ⟨3, 1⟩, ⟨3, 1⟩]⟩ : Tape).NoZero := by
  simp [Tape.NoZero, Span.NoZero]

example : pyStep ⟨2, [⟨1, 3⟩, ⟨1, 2⟩, ⟨0, 4⟩], [⟨2, 5⟩, ⟨3, 1⟩, ⟨3, 1⟩]⟩ true 4 true
    = (⟨3, [⟨4, 6⟩, ⟨1, 3⟩, ⟨1, 2⟩, ⟨0, 4⟩], [⟨3, 1⟩]⟩, 6) := by decide

example : pyStep ⟨2, [⟨1, 3⟩], [⟨3, 1⟩, ⟨2, 2⟩]⟩ true 4 false
    = (⟨3, [⟨4, 1⟩, ⟨1, 3⟩], [⟨2, 2⟩]⟩, 1) := by decide

example : pyRun (Tape.init 0) [(true, 1, false), (true, 1, true), (false, 2, false), (false, 0, true)]
    = (⟨0, [], [⟨0, 2⟩, ⟨2, 1⟩]⟩, [1, 1, 1, 2]) := by decide

/-! ## C17, run clause: the Python machine runner against the Rust accelerated runner

`PyM.pyRun` (BB/Model/PyMachine.lean) models tm/machine.py `Machine.run` with the Python `Prover`
and the additive fragment of tm/rules.py; `runProver` (BB/Model/Prover.lean) models
src/machine.rs `run_prover`.  Compared (`PyM.RunAgree`): outcome kind, number of non-blank cells,
number of rule applications, blank-tape record (same states; same recorded step wherever Python's
step counter is still defined, it is -1 after the first rule application).

The unconditional statement

    theorem py_rs_run_eq (p : Prog) (lim : Nat) (r : PyM.PyResult) (r' : MachineResult)
        (h1 : PyM.pyRun p lim = .ok r) (h2 : runProver p lim = .ok r')
        (hl : PyM.rsLimit r' = false) : PyM.RunAgree r r'

is FALSE (`py_rs_run_eq_counterexample`): the two `try_rule`s do not compute the same function.
`py_rs_run_eq_partial` is the statement under the decidable condition `PyM.pyRunAgrees p lim`:
at every cycle of the Python run, `try_rule`, `apply_rule` and `Tape.step` of the two runners,
evaluated on the same prover, state and tape, give corresponding answers.  What the proof shows
beyond that condition: the two main loops (`Machine.run` / `run_prover`) are the same function of
those three answers -- order of the checks, spin-out test, blank-tape bookkeeping, outcome kinds
-- although `Machine.run` drives them by exceptions and keeps `step = -1` after a rule application.
Pieces of `try_rule` whose Python and Rust texts differ but which are proved equal or exactly
characterised: `py_get_rule_eq`, `py_sig_compatible_eq`. -/

/-- **C17 (run clause), counterexample to the unconditional statement**: the 2-state 4-colour
    tree leaf "1RB 0LA 1LA 0RA  2LB 2RB 3RB 0LA" (`PyM.runCex`, `PyM.runCex_parses`) with cycle limit
    821.  Python: `infrul` at cycle 820 (InfiniteRule raised by `make_rule` after skipping a count
    with constant second difference); Rust: `xlimit`, i.e. the Rust run is still going when the
    caller's cycle limit ends it.  Neither run ends in `cfglim` / `mulrul` / `limrul` / overflow and
    no non-integer operation is produced, so `rsLimit` alone does not exclude the pair; the check of
    C17 (vlib/c17.py) classifies it as `python_second_difference` (a count with constant second
    difference is not an additive form: outside the property's "only additive rules") and the other
    confirmed source of divergence, the Rust prover's undeclared 90 000-step delta cap, as
    `rust_delta_cap_90000_unreported`; both are counted in the evidence, neither is compared.  The
    no-divergence condition `pyRunAgrees` is false on this run. -/
theorem py_rs_run_eq_counterexample :
    ∃ (r : PyM.PyResult) (r' : MachineResult),
      PyM.pyRun PyM.runCex 821 = .ok r ∧ runProver PyM.runCex 821 = .ok r'
        ∧ PyM.rsLimit r' = false ∧ ¬ PyM.RunAgree r r'
        ∧ PyM.pyRunAgrees PyM.runCex 821 = false := by
  obtain ⟨r, h1, hk, _⟩ := PyM.runCex_py
  obtain ⟨r', h2, hres⟩ := PyM.runCex_rs
  refine ⟨r, r', h1, h2, ?_, ?_, PyM.runCex_flag⟩
  · simp [PyM.rsLimit, hres]
  · intro h
    have := h.1
    rw [hres, hk] at this
    simp [PyM.rsKind] at this

/-- **C17 (run clause), partial**: for every program and cycle limit, if the Python runner's model
    ends inside the additive fragment without a Python limit (`.ok r`), the Rust runner's model
    ends without panic, overflow or one of its limit outcomes (`cfglim`, `mulrul`), and no
    `try_rule` / `apply_rule` / `Tape.step` call of the Python run is answered differently by the
    Rust runner (`pyRunAgrees`), then the two report the same outcome kind, marks, rule
    applications and blank-tape record. -/
theorem py_rs_run_eq_partial (p : Prog) (lim : Nat) (r : PyM.PyResult) (r' : MachineResult)
    (h1 : PyM.pyRun p lim = .ok r) (ha : PyM.pyRunAgrees p lim = true)
    (h2 : runProver p lim = .ok r') (hl : PyM.rsLimit r' = false) : PyM.RunAgree r r' :=
  PyM.run_agree p lim r r' h1 ha h2 hl

/-- the Python `Prover.get_rule` (slice comparison) finds the same rule as the Rust one
    (`starts_with`), for every prover, state, tape and signature -/
theorem py_get_rule_eq (pv : Prover) (state : Nat) (tape : Tape) (sig : Option Signature) :
    PyM.pyGetRule pv state tape sig = pv.getRule state tape sig :=
  PyM.pyGetRule_eq pv state tape sig

/-- the Python `Tape.sig_compatible` is the Rust one AND equality of both span lengths with the
    signature's (Rust: at least as long) -/
theorem py_sig_compatible_eq (t : Tape) (sig : Signature) :
    PyM.pySigCompatible t sig
      = (t.sigCompatible sig && t.lspan.length == sig.lspan.length
          && t.rspan.length == sig.rspan.length) :=
  PyM.pySigCompatible_eq t sig

/-- non-vacuity of `py_rs_run_eq_partial`: "1RB 1LC  1RD 1RB  0RD 0RC  1LD 1LA" (`PyM.runWit`) with
    cycle limit 300 satisfies every hypothesis, on a run with 5073 rule applications -/
example : ∃ (r : PyM.PyResult) (r' : MachineResult),
    PyM.pyRun PyM.runWit 300 = .ok r ∧ PyM.pyRunAgrees PyM.runWit 300 = true
      ∧ runProver PyM.runWit 300 = .ok r' ∧ PyM.rsLimit r' = false ∧ r.rulapp = 5073 := by
  have h := PyM.runWit_ok
  simp only [Bool.and_eq_true] at h
  obtain ⟨ha, h⟩ := h
  generalize h1 : PyM.pyRun PyM.runWit 300 = o at h
  generalize h2 : runProver PyM.runWit 300 = o' at h
  cases o with
  | ok r =>
    cases o' with
    | ok r' =>
      simp only [Bool.and_eq_true, beq_iff_eq] at h
      refine ⟨r, r', rfl, ha, rfl, ?_, h.1.1.1.2⟩
      simp [PyM.rsLimit, h.1.1.2]
    | error e => simp at h
  | _ => simp at h

end BB
