/-
C08 — the block macro machine simulates the base machine exactly.

Property theorems only; lemmas live in BB/Lemmas/MacroSim1..5.lean.  The definitions used by the
statements (`innerOf`, `closedB`, `embed`, `InWindow`, `enterCfg`, `exitCfg`, `RunsIn`,
`HaltsInside`, `NeverLeaves`, `macroF`, `decL`, `decR`, `decCfg`) are at the top of
BB/Lemmas/MacroSim1.lean.

The macro is the stateless `pureInstr` over a base program `p : ProgF`
(`innerOf p = fun s => .ok (p s.1 s.2)`); its tie to the stateful `MacroProg` object is C16.
`lp : LogicParams` with `lp.kind = .block`: `k = lp.cells` cells per block, built with
`params = (lp.baseStates, lp.baseColors)`.

Hypotheses common to the theorems (all decidable):
  * `1 ≤ lp.cells`                                 (k ≥ 1)
  * `0 < lp.baseColors` (and `0 < lp.baseStates` for runs from the blank tape)
  * `closedB p lp.baseStates lp.baseColors = true`: on states `< S` and colours `< C` the base
    program prints only colours `< C` and enters only states `< S`, i.e. the macro was built with
    the `params` of its program
  * `ms < 2 * lp.baseStates`                        (the macro state is in range)
No hypothesis on the macro colour is needed: `decode` reads the `k` low digits.
-/
import BB.Lemmas.MacroSim5

namespace BB.MacroSim

open BB BB.Macros

/-- For a table `t : Prog` the one-level `pureChain` of the model is this `pureInstr`. -/
theorem block_pureChain (t : Prog) (params : Nat × Nat) (f : Bool) (k : Nat) (slot : Slot) :
    pureChain t params f [(.block, k)] slot =
      pureInstr (innerOf t.toF) ⟨.block, k, params.1, params.2⟩ f slot := rfl

/-- `closedB` says what it should. -/
theorem closedB_iff (p : ProgF) (S C : Nat) :
    closedB p S C = true ↔
      ∀ q s pr sh q', q < S → s < C → p q s = some (pr, sh, q') → pr < C ∧ q' < S :=
  ⟨closed_of_closedB, closedB_of_closed⟩

/-- **block_instr_some.**  If the macro instruction of slot `(ms, mc)` is `(mc', d, ms')`, then the
    base machine started in state `ms / 2` with the head on the left (`ms % 2 = 0`) or right
    (`ms % 2 = 1`) end cell of a `k`-cell window holding `decode mc`, with ARBITRARY cells `outL`,
    `outR` outside, runs `n ≥ 1` steps such that: at steps `0 .. n-1` the head is in the window
    (and no instruction is undefined), and step `n` puts the head on the first cell outside, on
    side `d`, in state `ms' / 2`, the window then holding `decode mc'` and `outL`, `outR` being
    unchanged.  `ms' % 2` is the end of the NEIGHBOURING block the head is then on: leaving to the
    right (`d = true`) it is on the neighbour's left end (`0`), leaving to the left on its right
    end (`1`).  The outputs are in range again. -/
theorem block_instr_some (p : ProgF) (lp : LogicParams) (fixF3 : Bool) (ms mc mc' ms' : Nat)
    (d : Bool) (hk : lp.kind = .block) (hc : 1 ≤ lp.cells) (hC : 0 < lp.baseColors)
    (hms : ms < 2 * lp.baseStates) (hcl : closedB p lp.baseStates lp.baseColors = true)
    (h : pureInstr (innerOf p) lp fixF3 (ms, mc) = .ok (some (mc', d, ms')))
    (outL outR : List Nat) :
    ∃ n, 1 ≤ n ∧
      RunsIn p lp.cells outL outR n
        (enterCfg (ms / 2) (ms % 2 == 1) (decode lp.baseColors lp.cells mc) outL outR)
        (exitCfg (ms' / 2) d (decode lp.baseColors lp.cells mc') outL outR) ∧
      ms' % 2 = (if d then 0 else 1) ∧ ms' < 2 * lp.baseStates ∧
      mc' < lp.baseColors ^ lp.cells :=
  block_instr_some' p lp fixF3 ms mc mc' ms' d hk hc hC hms hcl h outL outR

/-- The configuration `exitCfg ..` really is outside: the head is not on a window cell. -/
theorem exit_not_in_window (k q : Nat) (d : Bool) (t : List Nat) (ht : t.length = k)
    (outL outR : List Nat) : ¬ InWindow k outL outR (exitCfg q d t outL outR) :=
  exitCfg_not_inWindow q d ht outL outR

/-- **block_instr_none.**  The macro machine has no instruction for slot `(ms, mc)` exactly when the
    base machine, entering that block in that state from that side, halts inside it (stands in the
    window on an undefined instruction) or never leaves it.  The direction `→` is where `sim_lim`
    matters: `lp.simLim = S * k * C ^ k` is the number of (state, position, window) triples, so by
    pigeonhole a run still inside after that many loop iterations repeats a configuration. -/
theorem block_instr_none (p : ProgF) (lp : LogicParams) (fixF3 : Bool) (ms mc : Nat)
    (hk : lp.kind = .block) (hc : 1 ≤ lp.cells) (hC : 0 < lp.baseColors)
    (hms : ms < 2 * lp.baseStates) (hcl : closedB p lp.baseStates lp.baseColors = true)
    (outL outR : List Nat) :
    pureInstr (innerOf p) lp fixF3 (ms, mc) = .ok none ↔
      (HaltsInside p lp.cells outL outR
          (enterCfg (ms / 2) (ms % 2 == 1) (decode lp.baseColors lp.cells mc) outL outR) ∨
        NeverLeaves p lp.cells outL outR
          (enterCfg (ms / 2) (ms % 2 == 1) (decode lp.baseColors lp.cells mc) outL outR)) :=
  block_instr_none' p lp fixF3 ms mc hk hc hC hms hcl outL outR

/-- **block_instr_no_error.**  For `k ≥ 1` the block macro instruction is never an error
    (no panic, no `usize` underflow), for EVERY slot and every base program.
    (For `k = 0` a right-edge slot underflows `cells - 1`.) -/
theorem block_instr_no_error (p : ProgF) (lp : LogicParams) (fixF3 : Bool) (slot : Slot) (e : Err)
    (hk : lp.kind = .block) (hc : 1 ≤ lp.cells) :
    pureInstr (innerOf p) lp fixF3 slot ≠ .error e :=
  block_instr_no_error' p lp fixF3 slot e hk hc

/-- **block_macro_step.**  One step `c → c'` of the macro machine `macroF p lp` (an L0 machine over
    macro states and colours) is `n ≥ 1` steps of the base machine from `decCfg c` to a
    configuration equal, up to trailing blanks (`≈c`), to `decCfg c'`; during the first `n`
    configurations the head stays in the current block; the macro state stays in range. -/
theorem block_macro_step (p : ProgF) (lp : LogicParams) (fixF3 : Bool) (hk : lp.kind = .block)
    (hc : 1 ≤ lp.cells) (hC : 0 < lp.baseColors)
    (hcl : closedB p lp.baseStates lp.baseColors = true) (c c' : Cfg)
    (hms : c.state < 2 * lp.baseStates) (h : step1 (macroF p lp fixF3) c = some c') :
    c'.state < 2 * lp.baseStates ∧
    ∃ n b', 1 ≤ n ∧
      RunsIn p lp.cells (decL lp.baseColors lp.cells c.left) (decR lp.baseColors lp.cells c.right)
        n (decCfg lp c) b' ∧
      b' ≈c decCfg lp c' :=
  block_macro_step' p lp fixF3 hk hc hC hcl c c' hms h

/-- **block_macro_halt.**  The macro machine has no step in `c` exactly when the base machine, from
    the decoded configuration, halts inside the current block or never leaves it. -/
theorem block_macro_halt (p : ProgF) (lp : LogicParams) (fixF3 : Bool) (hk : lp.kind = .block)
    (hc : 1 ≤ lp.cells) (hC : 0 < lp.baseColors)
    (hcl : closedB p lp.baseStates lp.baseColors = true) (c : Cfg)
    (hms : c.state < 2 * lp.baseStates) :
    step1 (macroF p lp fixF3) c = none ↔
      (HaltsInside p lp.cells (decL lp.baseColors lp.cells c.left)
          (decR lp.baseColors lp.cells c.right) (decCfg lp c) ∨
        NeverLeaves p lp.cells (decL lp.baseColors lp.cells c.left)
          (decR lp.baseColors lp.cells c.right) (decCfg lp c)) :=
  block_macro_halt' p lp fixF3 hk hc hC hcl c hms

/-- **block_macro_sim.**  If the macro machine, from the blank tape, is in `C` after `N` macro
    steps, there are base step counts `t 0 = 0 < t 1 < … < t N` such that for every `i ≤ N` the
    macro configuration after `i` macro steps decodes (up to trailing blanks) to the base
    configuration after `t i` base steps: the macro run visits, in order, only configurations of
    the base run.  Also the macro state stays `< 2 * S`. -/
theorem block_macro_sim (p : ProgF) (lp : LogicParams) (fixF3 : Bool) (hk : lp.kind = .block)
    (hc : 1 ≤ lp.cells) (hC : 0 < lp.baseColors) (hS : 0 < lp.baseStates)
    (hcl : closedB p lp.baseStates lp.baseColors = true)
    (N : Nat) (C : Cfg) (hrun : RunAt (macroF p lp fixF3) N C) :
    C.state < 2 * lp.baseStates ∧
    ∃ t : Nat → Nat, t 0 = 0 ∧ (∀ i, i < N → t i < t (i + 1)) ∧
      ∀ i, i ≤ N → ∃ Ci b,
        RunAt (macroF p lp fixF3) i Ci ∧ RunAt p (t i) b ∧ b ≈c decCfg lp Ci :=
  block_macro_run' p lp fixF3 hk hc hC hS hcl N C hrun

/-! ### Non-vacuity: the hypotheses hold on concrete inputs -/

/-- `1RB 1LB  1LA 0RA` -/
def exProg : Prog :=
  [((0,0),(1,true,1)), ((0,1),(1,false,1)), ((1,0),(1,false,0)), ((1,1),(0,true,0))]

/-- `1RB 1LB  1LA ...` -/
def exProgH : Prog := [((0,0),(1,true,1)), ((0,1),(1,false,1)), ((1,0),(1,false,0))]

/-- `0RB ...  0LA ...`: bounces for ever between two blank cells -/
def exProgL : Prog := [((0,0),(0,true,1)), ((1,0),(0,false,0))]

def exLp : LogicParams := ⟨.block, 2, 2, 2⟩

/-- slot `(0,0)`: A on the left end of `00` → three base steps, leaves to the left with `11` in
    state B: instruction `(3, L, 3)`. -/
example : ∃ n, 1 ≤ n ∧
    RunsIn exProg.toF 2 [5, 7] [9] n (enterCfg 0 false [0, 0] [5, 7] [9])
      (exitCfg 1 false [1, 1] [5, 7] [9]) ∧ 3 % 2 = 1 ∧ 3 < 4 ∧ 3 < 2 ^ 2 :=
  block_instr_some exProg.toF exLp false 0 0 3 3 false rfl (by decide) (by decide) (by decide)
    (by decide) rfl [5, 7] [9]

example : ¬ InWindow 2 [5, 7] [9] (exitCfg 1 false [1, 1] [5, 7] [9]) :=
  exit_not_in_window 2 1 false [1, 1] rfl [5, 7] [9]

/-- an undefined base slot met inside the block: macro slot `(2, 3)` (B on the left end of `11`) -/
example : HaltsInside exProgH.toF 2 [] [] (enterCfg 1 false [1, 1] [] []) ∨
    NeverLeaves exProgH.toF 2 [] [] (enterCfg 1 false [1, 1] [] []) :=
  (block_instr_none exProgH.toF exLp false 2 3 rfl (by decide) (by decide) (by decide)
    (by decide) [] []).1 rfl

/-- never leaving: macro slot `(0, 0)` of the bouncer -/
example : HaltsInside exProgL.toF 2 [] [] (enterCfg 0 false [0, 0] [] []) ∨
    NeverLeaves exProgL.toF 2 [] [] (enterCfg 0 false [0, 0] [] []) :=
  (block_instr_none exProgL.toF exLp false 0 0 rfl (by decide) (by decide) (by decide)
    (by decide) [] []).1 rfl

example : pureInstr (innerOf exProg.toF) exLp false (1, 2) ≠ .error .panic :=
  block_instr_no_error exProg.toF exLp false (1, 2) .panic rfl (by decide)

/-- the first macro step of `exProg` with 2-cell blocks -/
example : ∃ n b', 1 ≤ n ∧ RunsIn exProg.toF 2 [] [] n (decCfg exLp Cfg.init) b' ∧
    b' ≈c decCfg exLp ⟨3, [], 0, [3]⟩ :=
  (block_macro_step exProg.toF exLp false rfl (by decide) (by decide) (by decide) Cfg.init
    ⟨3, [], 0, [3]⟩ (by decide) (by decide)).2

example : step1 (macroF exProgH.toF exLp false) ⟨2, [], 3, []⟩ = none :=
  (block_macro_halt exProgH.toF exLp false rfl (by decide) (by decide) (by decide) ⟨2, [], 3, []⟩
    (by decide)).2 ((block_instr_none exProgH.toF exLp false 2 3 rfl (by decide) (by decide)
      (by decide) (by decide) [] []).1 rfl)

/-- five macro steps of `exProg` exist, so `block_macro_sim` applies to them -/
example : ∃ C, RunAt (macroF exProg.toF exLp false) 5 C ∧
    ∃ t : Nat → Nat, t 0 = 0 ∧ (∀ i, i < 5 → t i < t (i + 1)) ∧
      ∀ i, i ≤ 5 → ∃ Ci b,
        RunAt (macroF exProg.toF exLp false) i Ci ∧ RunAt exProg.toF (t i) b ∧
          b ≈c decCfg exLp Ci := by
  have h : (stepN (macroF exProg.toF exLp false) 5 Cfg.init).isSome = true := by decide
  obtain ⟨C, hC⟩ := Option.isSome_iff_exists.1 h
  exact ⟨C, hC, (block_macro_sim exProg.toF exLp false rfl (by decide) (by decide) (by decide)
    (by decide) 5 C hC).2⟩

end BB.MacroSim
