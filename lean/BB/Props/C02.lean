/-
C02 — the rule-accelerated run reports the true outcome of the machine.

"When the rule-accelerated run says a machine stopped on an undefined instruction or spun out, the
real machine does exactly that, at the same slot and with the same number of non-blank cells on
the tape; when it says the machine provably never stops (infinite rule or repeated blank tape), the
real machine indeed never stops.  If no rule was applied, the reported step count, cycle count and
blank-tape steps are also the real ones."

The rule prover generalises from four observations; no universal soundness theorem for it is true
(and none is claimed).  What is machine-checked is each individual ANSWER: the check hands the
rule applications reported by the real run (hook `on_rule`) to `replay`
(BB/Model/ValidateTrace.lean), which re-runs the machine with the plain run-length simulator of C01
and lets a reported application in only through the validator `checkApp` of C03.  The theorems
below say that whatever `replay` ends in is true of the L0 machine (BB/Spec.lean), with the true
number of base steps.  The check then compares the real run's verdict (kind, slot, marks, and -
when no rule was applied - steps, cycles, blank record) with the replay's.

`replay` validates applications with `checkApp` only, at a cost that grows with the number of
times the rule was applied; `replaySym` (same loop, same theorems: section "Big applications and
infinite rules") falls back on the symbolic validator `Sym.validateApp` (C03, last section) when
`checkApp` runs over budget, so that applications of any size are accepted.

An `infrul` verdict that comes from an all-non-negative rule has no certificate in the code's
output; the replay confirms that the configuration in which it was given is reached
(`replaySym_limit`), and the verdict itself is certified from there by the symbolic validator
`Sym.validateInf` (`validate_inf_sound`, `replaySym_limit_inf`): when it answers `true` the machine
provably never halts; when it does not, the verdict stays falsifiable only (see DESIGN.md).

Property theorems only; helper lemmas live in BB/Lemmas/ValidateTrace.lean and
BB/Lemmas/SymRule1-5.lean.
-/
import BB.Lemmas.ValidateTrace

namespace BB

/-- **replay_undfnd.**  If the replay ends at an undefined instruction `(q, s)` after `n` base steps
    with `m` marks, the L0 machine started on the blank tape halts exactly there: after exactly
    `n` steps it is in state `q` scanning `s`, which has no instruction; its tape then holds `m`
    non-blank cells; and no configuration before step `n` is a spin-out configuration. -/
theorem replay_undfnd (p : Prog) (budget lim : Nat) (apps : List AppRec) (cyc q s m n : Nat)
    (bl : List (Nat × Nat)) (h : replay p budget lim apps = (.undfnd cyc (q, s) m n, bl)) :
    HaltsAt p.toF n q s ∧ (∃ c, RunAt p.toF n c ∧ c.marks = m) ∧
      (∀ j c, j < n → RunAt p.toF j c → ¬ SpinOutCfg p.toF c) ∧ cyc < lim :=
  replay_undfnd' p budget lim apps cyc q s m n bl h

/-- **replay_spnout.**  If the replay ends in a spin-out after `n` base steps with `m` marks, the
    L0 machine is, after exactly `n` steps, in a spin-out configuration with `m` non-blank cells,
    it did not halt before, and no earlier configuration is a spin-out configuration. -/
theorem replay_spnout (p : Prog) (budget lim : Nat) (apps : List AppRec) (cyc m n : Nat)
    (bl : List (Nat × Nat)) (h : replay p budget lim apps = (.spnout cyc m n, bl)) :
    (∃ c, RunAt p.toF n c ∧ SpinOutCfg p.toF c ∧ c.marks = m) ∧
      (∀ j c, j < n → RunAt p.toF j c → ¬ SpinOutCfg p.toF c) ∧ cyc < lim :=
  replay_spnout' p budget lim apps cyc m n bl h

/-- **replay_blankRec.**  If the replay ends because the tape is blank again in a state in which it
    was blank before (or in the start state), the L0 machine has a blank tape in that state after
    exactly `n ≥ 1` steps and it never halts. -/
theorem replay_blankRec (p : Prog) (budget lim : Nat) (apps : List AppRec) (cyc q n : Nat)
    (bl : List (Nat × Nat)) (h : replay p budget lim apps = (.blankRec cyc q n, bl)) :
    BlankAfter p.toF n q ∧ NeverHalts p.toF :=
  replay_blankRec' p budget lim apps cyc q n bl h

/-- **replay_limit.**  If all `lim` cycles are replayed, the L0 machine is after exactly `n` steps
    in the configuration `(q, t)` the replay stands in (up to trailing blanks), `t` is canonical,
    and neither a halt nor a spin-out configuration was met before. -/
theorem replay_limit (p : Prog) (budget lim : Nat) (apps : List AppRec) (q : Nat) (t : Tape)
    (n : Nat) (bl : List (Nat × Nat)) (h : replay p budget lim apps = (.limit q t n, bl)) :
    (∃ c, RunAt p.toF n c ∧ c ≈c t.toCfg q) ∧ t.Canon ∧
      (∀ j c, j < n → RunAt p.toF j c → ¬ SpinOutCfg p.toF c) :=
  replay_limit' p budget lim apps q t n bl h

/-- **replay_blanks.**  Whatever the replay ends in (validation failures included), every entry
    `(q, n)` of its blank record is true: the L0 machine has a blank tape in state `q` after
    exactly `n ≥ 1` steps; and the record holds each state at most once. -/
theorem replay_blanks (p : Prog) (budget lim : Nat) (apps : List AppRec) (e : ReplayEnd)
    (bl : List (Nat × Nat)) (h : replay p budget lim apps = (e, bl)) :
    (∀ q n, (q, n) ∈ bl → BlankAfter p.toF n q) ∧ (bl.map (·.1)).Nodup :=
  replay_blanks' p budget lim apps e bl h

/-- **replay_no_apps.**  With no application reported, the replay is the plain simulator: it never
    ends in a validation failure. -/
theorem replay_no_apps (p : Prog) (budget lim : Nat) (e : ReplayEnd) (bl : List (Nat × Nat))
    (h : replay p budget lim [] = (e, bl)) :
    (∀ c w, e ≠ .badApp c w) ∧ (∀ c, e ≠ .appMismatch c) :=
  replay_no_apps' p budget lim e bl h

/-! ### Non-vacuity

The 2-state 4-colour champion `1RB 2LA 1RA 1RA  1LB 1LA 3RB ...` of C03's example: its first rule
application (cycle 228) replayed, then the plain simulator to the cycle limit. -/

def exC02Prog : Prog :=
  [((0,0),(1,true,1)), ((0,1),(2,false,0)), ((0,2),(1,true,0)), ((0,3),(1,true,0)),
   ((1,0),(1,false,1)), ((1,1),(1,false,0)), ((1,2),(3,true,1))]
def exC02App : AppRec := ⟨228, 0, ⟨3, [⟨3,19⟩,⟨1,1⟩], [⟨2,22⟩]⟩, ⟨3, [⟨3,1⟩,⟨1,1⟩], [⟨2,52⟩]⟩, 6⟩

example : replay exC02Prog 1000 230 [exC02App]
    = (.limit 0 ⟨2, [⟨1,1⟩,⟨3,1⟩,⟨1,1⟩], [⟨2,51⟩]⟩ 2732, []) := by decide +kernel
/-- an application reported from a configuration the machine is not in is refused -/
example : (replay exC02Prog 1000 230 [{ exC02App with cycle := 227 }]).1 = .appMismatch 227 := by
  decide +kernel
/-- a halting run without applications: `1RB 1LB  1LA ...` reaches the undefined slot (B,1) after
    5 executed steps (cycle 5), 4 marks -/
example : replay [((0,0),(1,true,1)), ((0,1),(1,false,1)), ((1,0),(1,false,0))] 10 100 []
    = (.undfnd 5 (1, 1) 4 5, []) := by decide

/-! ### Big applications and infinite rules

`replaySym` is `replay` with the application validator `vaSym`: `checkApp` first and, when that
runs over budget, the symbolic validator `Sym.validateApp` with the reported `times` (the replay
loop is generic over the validator; all it uses is that an accepted application is a run of real
machine steps).  Whatever `replaySym` ends in is true of the L0 machine, exactly as for `replay`. -/

/-- **replaySym_undfnd.**  `replay_undfnd` for `replaySym`. -/
theorem replaySym_undfnd (p : Prog) (budget lim : Nat) (apps : List AppRec) (cyc q s m n : Nat)
    (bl : List (Nat × Nat)) (h : replaySym p budget lim apps = (.undfnd cyc (q, s) m n, bl)) :
    HaltsAt p.toF n q s ∧ (∃ c, RunAt p.toF n c ∧ c.marks = m) ∧
      (∀ j c, j < n → RunAt p.toF j c → ¬ SpinOutCfg p.toF c) ∧ cyc < lim :=
  replaySym_undfnd' p budget lim apps cyc q s m n bl h

/-- **replaySym_spnout.**  `replay_spnout` for `replaySym`. -/
theorem replaySym_spnout (p : Prog) (budget lim : Nat) (apps : List AppRec) (cyc m n : Nat)
    (bl : List (Nat × Nat)) (h : replaySym p budget lim apps = (.spnout cyc m n, bl)) :
    (∃ c, RunAt p.toF n c ∧ SpinOutCfg p.toF c ∧ c.marks = m) ∧
      (∀ j c, j < n → RunAt p.toF j c → ¬ SpinOutCfg p.toF c) ∧ cyc < lim :=
  replaySym_spnout' p budget lim apps cyc m n bl h

/-- **replaySym_blankRec.**  `replay_blankRec` for `replaySym`. -/
theorem replaySym_blankRec (p : Prog) (budget lim : Nat) (apps : List AppRec) (cyc q n : Nat)
    (bl : List (Nat × Nat)) (h : replaySym p budget lim apps = (.blankRec cyc q n, bl)) :
    BlankAfter p.toF n q ∧ NeverHalts p.toF :=
  replaySym_blankRec' p budget lim apps cyc q n bl h

/-- **replaySym_limit.**  `replay_limit` for `replaySym`: if all `lim` cycles are replayed, the L0
    machine is after exactly `n` steps in the configuration `(q, t)` the replay stands in (up to
    trailing blanks), `t` is canonical, and neither a halt nor a spin-out configuration was met
    before. -/
theorem replaySym_limit (p : Prog) (budget lim : Nat) (apps : List AppRec) (q : Nat) (t : Tape)
    (n : Nat) (bl : List (Nat × Nat)) (h : replaySym p budget lim apps = (.limit q t n, bl)) :
    (∃ c, RunAt p.toF n c ∧ c ≈c t.toCfg q) ∧ t.Canon ∧
      (∀ j c, j < n → RunAt p.toF j c → ¬ SpinOutCfg p.toF c) :=
  replaySym_limit' p budget lim apps q t n bl h

/-- **replaySym_blanks.**  `replay_blanks` for `replaySym`. -/
theorem replaySym_blanks (p : Prog) (budget lim : Nat) (apps : List AppRec) (e : ReplayEnd)
    (bl : List (Nat × Nat)) (h : replaySym p budget lim apps = (e, bl)) :
    (∀ q n, (q, n) ∈ bl → BlankAfter p.toF n q) ∧ (bl.map (·.1)).Nodup :=
  replaySym_blanks' p budget lim apps e bl h

/-- **replaySym_no_apps.**  `replay_no_apps` for `replaySym`. -/
theorem replaySym_no_apps (p : Prog) (budget lim : Nat) (e : ReplayEnd) (bl : List (Nat × Nat))
    (h : replaySym p budget lim [] = (e, bl)) :
    (∀ c w, e ≠ .badApp c w) ∧ (∀ c, e ≠ .appMismatch c) :=
  replaySym_no_apps' p budget lim e bl h

/-- **validate_inf_sound.**  If `validateInf` accepts `(q, t)`, the L0 machine started on the cells
    of `t` in state `q` never reaches an undefined instruction (it runs for ever), and if `t` is
    canonical it never reaches a spin-out configuration either. -/
theorem Sym.validate_inf_sound (p : Prog) (q : Nat) (t : Tape) (budget : Nat)
    (h : Sym.validateInf p q t budget = true) :
    (∀ n, ∃ c, stepN p.toF n (t.toCfg q) = some c) ∧
      (t.Canon → ∀ n c, stepN p.toF n (t.toCfg q) = some c → ¬ SpinOutCfg p.toF c) :=
  Sym.validate_inf_sound' p q t budget h

/-- **replaySym_limit_inf.**  An infinite-rule verdict, certified: if the replay reaches `(q, t)`
    (all `lim` cycles replayed) and `validateInf` accepts `(q, t)` - from there a rule that never
    decreases a block applies for ever - then the L0 machine started on the blank tape never halts
    and never reaches a spin-out configuration. -/
theorem replaySym_limit_inf (p : Prog) (budget lim : Nat) (apps : List AppRec) (q : Nat)
    (t : Tape) (n : Nat) (bl : List (Nat × Nat)) (budget' : Nat)
    (h : replaySym p budget lim apps = (.limit q t n, bl))
    (hinf : Sym.validateInf p q t budget' = true) :
    NeverHalts p.toF ∧ ¬ SpinsOut p.toF :=
  replaySym_limit_inf' p budget lim apps q t n bl budget' h hinf

/-! Non-vacuity.  With a budget of 60 cycles `checkApp` cannot validate the application of
`exC02App` (it needs 72 cycles): `replay` refuses it, `replaySym` validates it symbolically and
ends exactly as `replay` does with a sufficient budget. -/

example : (replay exC02Prog 60 230 [exC02App]).1 = .badApp 228 .overBudget := by decide +kernel
example : replaySym exC02Prog 60 230 [exC02App]
    = (.limit 0 ⟨2, [⟨1,1⟩,⟨3,1⟩,⟨1,1⟩], [⟨2,51⟩]⟩ 2732, []) := by decide +kernel
/-- a wrong `times` is refused -/
example : (replaySym exC02Prog 60 230 [{ exC02App with times := 5 }]).1
    = .badApp 228 .overBudget := by decide +kernel

/-- the bouncer `1RB 1LA  1LA 1RB`: after 7 cycles (10 steps) it is in state A on `[0] 1^4`; from
    there the rule `A: [0] 1^(4+x) → [0] 1^(6+x)` (found by plain simulation, validated
    symbolically for all `x ≥ 0`) applies for ever -/
def exC02Bouncer : Prog :=
  [((0,0),(1,true,1)), ((0,1),(1,false,0)), ((1,0),(1,false,0)), ((1,1),(1,true,1))]

example : replaySym exC02Bouncer 100 7 [] = (.limit 0 ⟨0, [], [⟨1,4⟩]⟩ 10, []) := by decide +kernel
example : Sym.validateInf exC02Bouncer 0 ⟨0, [], [⟨1,4⟩]⟩ 100 = true := by decide +kernel
example : NeverHalts exC02Bouncer.toF ∧ ¬ SpinsOut exC02Bouncer.toF :=
  replaySym_limit_inf exC02Bouncer 100 7 [] 0 ⟨0, [], [⟨1,4⟩]⟩ 10 [] 100 (by decide +kernel)
    (by decide +kernel)
/-- a halting machine has no infinite rule: `validateInf` answers `false` along its run -/
example : Sym.validateInf exC02Prog 0 ⟨2, [⟨1,1⟩,⟨3,1⟩,⟨1,1⟩], [⟨2,51⟩]⟩ 200 = false := by
  decide +kernel

end BB
