/-
C18 — symbolic count algebra agrees with integer arithmetic: the part that is PROVED for all inputs.

`Exp.__mod__` of tm/num.py computes `(base ** exp) % mod` for a power that is never evaluated
(exponents of thousands of digits): literal special cases, reduction of the exponent by the
multiplicative order of the base (`find_period`), for base 3 and a power-of-two modulus by the
known order `2^(n-2)`, then square-and-multiply.  `BB.NumMod.expModInt` (BB/Model/NumMod.lean) is
that function for an integer exponent, branch for branch; it is tied to the real code on every run
by the correspondence check of C18 (`expmod` cases: the real `Exp(base, exp).__mod__(mod)` against
the compiled model, incl. which inputs raise).  The theorems below say that whenever the model
returns a value it is the true residue - for EVERY base, exponent (>= 1) and modulus, not the sampled ones.

(The literal residue tables for symbolic exponents, `exp_mod_special_cases`, are proved one by one
in the generated BB/Generated/NumTables.lean.  The rest of the algebra - simplification of
Add/Mul/Div/Exp trees - is validated per answer, not proved: see DESIGN.md.)

Property theorems only; helper lemmas live in BB/Lemmas/NumMod.lean.
-/
import BB.Lemmas.NumMod

namespace BB.NumMod

/-- **expModInt_correct_partial.**  Whatever `Exp.__mod__` returns for an integer exponent `≥ 1` is
    the residue of the power: for all `base`, `mod`, and every `exp ≥ 1`.

    The hypothesis `1 ≤ exp` is forced: the three early returns (`mod == 1`, `mod == base`,
    `mod == 2`) come BEFORE `assert 1 < exp`, and for `exp = 0` two of them are wrong
    (`base ^ 0 % base = 1 % base`, the code returns 0; `base ^ 0 % 2 = 1`, the code returns
    `base % 2`) - see `expModInt_correct_counterexample`.  In the real library the hypothesis costs
    nothing: an `Exp` always has exponent `≥ 2` (smaller ones are folded to integers by the
    constructors), and every other branch sits behind `assert 1 < exp`.

    Original statement (FALSE for `exp = 0`, e.g. base 3, exp 0, mod 3; base 4, exp 0, mod 2):

      theorem expModInt_correct (base exp mod r : Nat) (h : expModInt base exp mod = some r) :
          r = base ^ exp % mod -/
theorem expModInt_correct_partial (base exp mod r : Nat) (he : 1 ≤ exp)
    (h : expModInt base exp mod = some r) : r = base ^ exp % mod :=
  expModInt_correct_partial' base exp mod r he h

/-- **expModInt_correct_counterexample.**  The unrestricted statement fails at exponent 0:
    `expModInt 3 0 3 = some 0` but `3 ^ 0 % 3 = 1` (the `mod == base` return), and
    `expModInt 4 0 2 = some 0` but `4 ^ 0 % 2 = 1` (the `mod == 2` return). -/
theorem expModInt_correct_counterexample :
    ¬ (∀ base exp mod r : Nat, expModInt base exp mod = some r → r = base ^ exp % mod) := by
  intro h
  exact absurd (h 3 0 3 0 (by decide)) (by decide)

/-- second witness, through the `mod == 2` return -/
theorem expModInt_correct_counterexample2 :
    expModInt 4 0 2 = some 0 ∧ 0 ≠ 4 ^ 0 % 2 := by decide

/-- **findPeriod_order.**  A positive answer of `find_period` is the multiplicative order of `base`
    modulo `mod`: `base^k ≡ 1`, and no smaller positive power is. -/
theorem findPeriod_order (base mod k : Nat) (h : findPeriod base mod = some k) (hk : 0 < k) :
    base ^ k % mod = 1 ∧ ∀ j, 0 < j → j < k → base ^ j % mod ≠ 1 :=
  findPeriod_order' base mod k h hk

/-- **findPeriod_zero.**  Answer 0 (outside the skipped case base 2, mod = 2 * 3^k) means that no
    positive power of `base` below `mod` is congruent to 1. -/
theorem findPeriod_zero (base mod : Nat) (h : findPeriod base mod = some 0)
    (hs : (base == 2 && isTwoPow3 mod) = false) :
    ∀ j, 0 < j → j < mod → base ^ j % mod ≠ 1 :=
  findPeriod_zero' base mod h hs

/-- **expModInt_defined.**  The function raises only where the Python does by design: it returns a
    value whenever `1 ≤ mod < 2^24`, `mod` does not divide `base`, and `1 < exp` (and also for
    `mod = 1`, `mod = base`, `mod = 2` whatever the rest). -/
theorem expModInt_defined (base exp mod : Nat) (hm : 1 ≤ mod) (hlim : mod < 2 ^ 24)
    (hb : base % mod ≠ 0 ∨ mod = 1 ∨ mod = base ∨ mod = 2) (he : 1 < exp ∨ mod = 1 ∨ mod = base ∨ mod = 2) :
    (expModInt base exp mod).isSome :=
  expModInt_defined' base exp mod hm hlim hb he

/-- **reduce3_sound.**  The `case 3:` shortcut: for a power-of-two modulus `2^n` (`n ≥ 2`) the
    exponent of 3 may be reduced modulo `2^max(n-2, 1)` (the repaired form of finding F8). -/
theorem reduce3_sound (exp n : Nat) (hn : 2 ≤ n) :
    3 ^ (exp % 2 ^ (max (n - 2) 1)) % 2 ^ n = 3 ^ exp % 2 ^ n :=
  reduce3_sound' exp n hn

/-! ### Non-vacuity (concrete values; `decide`) -/

example : expModInt 2 100 1000 = some 376 := by decide +kernel    -- 2^100 = ...205376 (period loop: 1000 steps, kernel evaluation)
example : expModInt 3 17 4 = some 3 := by decide                  -- the F8 witness, repaired code
example : expModInt 2 4 30 = some 16 := by decide                 -- the F7 witness, repaired code
example : expModInt 7 222 1001 = some (7 ^ 222 % 1001) := by decide +kernel
example : findPeriod 10 7 = some 6 := by decide
example : expModInt 6 5 3 = none := by decide                     -- `assert base % mod != 0` fails: the Python raises

end BB.NumMod
