/-
C18 — symbolic count algebra agrees with integer arithmetic: the part that is PROVED for all inputs.

`Exp.__mod__` of tm/num.py computes `(base ** exp) % mod` for a power that is never evaluated
(exponents of thousands of digits): literal special cases, reduction of the exponent by the
multiplicative order of the base (`find_period`), for base 3 and a power-of-two modulus by the
known order `2^(n-2)`, then square-and-multiply.  `BB.NumMod.expModInt` (BB/Model/NumMod.lean) is
that function for an integer exponent, branch for branch; it is tied to the real code on every run
by the correspondence check of C18 (`expmod` cases: the real `Exp(base, exp).__mod__(mod)` against
the compiled model, incl. which inputs raise).  The theorems below say that whenever the model
returns a value it is the true residue - for EVERY base, exponent (>= 1) and modulus, not the sampled ones.

(The literal residue tables for symbolic exponents, `exp_mod_special_cases`, are proved one by one
in the generated BB/Generated/NumTables.lean.  The rest of the algebra - simplification of
Add/Mul/Div/Exp trees - is validated per answer, not proved: see DESIGN.md.)

Second part (namespace BB.NumModTree, at the end of this file): the WHOLE `%` operator - `a % m` for
an arbitrary expression tree `a`: `int.__mod__`, `Add.__mod__`, `Mul.__mod__`, `Div.__mod__`,
`Exp.__mod__` with an integer or a symbolic (tree) exponent, `find_period`,
`exp_mod_special_cases` with its literal tables.  `BB.NumModTree.modE` (BB/Model/NumModTree.lean)
is that operator branch for branch; it is tied to the real code on every run by the `nummod`
correspondence of C18 (every `a % m` the harness executes: the real outcome, value or exception,
against the compiled model).  `modE_correct_partial` says that whatever it returns is the residue
of the tree's value - for EVERY tree and modulus, no depth bound.

Property theorems only; helper lemmas live in BB/Lemmas/NumMod.lean.
-/
import BB.Lemmas.NumMod
import BB.Lemmas.NumModTree

namespace BB.NumMod

/-- **expModInt_correct_partial.**  Whatever `Exp.__mod__` returns for an integer exponent `≥ 1` is
    the residue of the power: for all `base`, `mod`, and every `exp ≥ 1`.

    The hypothesis `1 ≤ exp` is forced: the three early returns (`mod == 1`, `mod == base`,
    `mod == 2`) come BEFORE `assert 1 < exp`, and for `exp = 0` two of them are wrong
    (`base ^ 0 % base = 1 % base`, the code returns 0; `base ^ 0 % 2 = 1`, the code returns
    `base % 2`) - see `expModInt_correct_counterexample`.  In the real library the hypothesis costs
    nothing: an `Exp` always has exponent `≥ 2` (smaller ones are folded to integers by the
    constructors), and every other branch sits behind `assert 1 < exp`.

    Original statement (FALSE for `exp = 0`, e.g. base 3, exp 0, mod 3; base 4, exp 0, mod 2):

      theorem expModInt_correct (base exp mod r : Nat) (h : expModInt base exp mod = some r) :
          r = base ^ exp % mod -/
theorem expModInt_correct_partial (base exp mod r : Nat) (he : 1 ≤ exp)
    (h : expModInt base exp mod = some r) : r = base ^ exp % mod :=
  expModInt_correct_partial' base exp mod r he h

/-- **expModInt_correct_counterexample.**  The unrestricted statement fails at exponent 0:
    `expModInt 3 0 3 = some 0` but `3 ^ 0 % 3 = 1` (the `mod == base` return), and
    `expModInt 4 0 2 = some 0` but `4 ^ 0 % 2 = 1` (the `mod == 2` return). -/
theorem expModInt_correct_counterexample :
    ¬ (∀ base exp mod r : Nat, expModInt base exp mod = some r → r = base ^ exp % mod) := by
  intro h
  exact absurd (h 3 0 3 0 (by decide)) (by decide)

/-- second witness, through the `mod == 2` return -/
theorem expModInt_correct_counterexample2 :
    expModInt 4 0 2 = some 0 ∧ 0 ≠ 4 ^ 0 % 2 := by decide

/-- **findPeriod_order.**  A positive answer of `find_period` is the multiplicative order of `base`
    modulo `mod`: `base^k ≡ 1`, and no smaller positive power is. -/
theorem findPeriod_order (base mod k : Nat) (h : findPeriod base mod = some k) (hk : 0 < k) :
    base ^ k % mod = 1 ∧ ∀ j, 0 < j → j < k → base ^ j % mod ≠ 1 :=
  findPeriod_order' base mod k h hk

/-- **findPeriod_zero.**  Answer 0 (outside the skipped case base 2, mod = 2 * 3^k) means that no
    positive power of `base` below `mod` is congruent to 1. -/
theorem findPeriod_zero (base mod : Nat) (h : findPeriod base mod = some 0)
    (hs : (base == 2 && isTwoPow3 mod) = false) :
    ∀ j, 0 < j → j < mod → base ^ j % mod ≠ 1 :=
  findPeriod_zero' base mod h hs

/-- **expModInt_defined.**  The function raises only where the Python does by design: it returns a
    value whenever `1 ≤ mod < 2^24`, `mod` does not divide `base`, and `1 < exp` (and also for
    `mod = 1`, `mod = base`, `mod = 2` whatever the rest). -/
theorem expModInt_defined (base exp mod : Nat) (hm : 1 ≤ mod) (hlim : mod < 2 ^ 24)
    (hb : base % mod ≠ 0 ∨ mod = 1 ∨ mod = base ∨ mod = 2) (he : 1 < exp ∨ mod = 1 ∨ mod = base ∨ mod = 2) :
    (expModInt base exp mod).isSome :=
  expModInt_defined' base exp mod hm hlim hb he

/-- **reduce3_sound.**  The `case 3:` shortcut: for a power-of-two modulus `2^n` (`n ≥ 2`) the
    exponent of 3 may be reduced modulo `2^max(n-2, 1)` (the repaired form of finding F8). -/
theorem reduce3_sound (exp n : Nat) (hn : 2 ≤ n) :
    3 ^ (exp % 2 ^ (max (n - 2) 1)) % 2 ^ n = 3 ^ exp % 2 ^ n :=
  reduce3_sound' exp n hn

/-! ### Non-vacuity (concrete values; `decide`) -/

example : expModInt 2 100 1000 = some 376 := by decide +kernel    -- 2^100 = ...205376 (period loop: 1000 steps, kernel evaluation)
example : expModInt 3 17 4 = some 3 := by decide                  -- the F8 witness, repaired code
example : expModInt 2 4 30 = some 16 := by decide                 -- the F7 witness, repaired code
example : expModInt 7 222 1001 = some (7 ^ 222 % 1001) := by decide +kernel
example : findPeriod 10 7 = some 6 := by decide
example : expModInt 6 5 3 = none := by decide                     -- `assert base % mod != 0` fails: the Python raises

end BB.NumMod

/-! ## The whole `%` operator on expression trees -/

namespace BB.NumModTree

open BB.NumEval

/-- **modE_correct_partial.**  Whatever `a % m` returns is the residue of the value of `a`: for
    every expression tree `e` (any nesting of `Add`, `Mul`, `Div`, `Exp`, also inside exponents),
    every modulus `m > 0`, if the model of the operator returns `r` and the tree has the integer
    value `v` (`eval`: divisions exact, exponents non-negative) then `r = v % m`.

    The hypothesis `expsOk e` is forced (see the two counterexamples): every `Exp` node must have
    an exponent `≥ 1` if the exponent is an integer, and of value `≥ 2` if it is a tree.
    * integer exponent: the three early returns of `Exp.__mod__` (`mod == 1`, `mod == base`,
      `mod == 2`) come before `assert 1 < exp` and two of them are wrong for exponent 0;
    * tree exponent: `assert 1 < exp` is `Num.__gt__`, a sign heuristic (`negH`: an `Exp` is never
      `< k`, an `Add` with an integer left operand is `< k` iff its right operand is, ...) that
      never looks at the magnitude, so an exponent tree of value `≤ 1` passes it and the literal
      special case `2 ** exp % 4 = 0` is wrong for value 1.
    No other hypothesis: no bound on depth or size, any sign of `base` and of the integer leaves;
    an inexact `Div`, a `Div` with `den ≤ 0`, a negative exponent have no `eval` or make the model
    raise.

    Original statement (FALSE, e.g. `Exp(3, 0) % 3`, `Exp(2, -1 + Exp(2, 1)) % 4`):

      theorem modE_correct (e : NExpr) (m : Nat) (r v : Int) (h : modE e m = some r)
          (hv : eval e = some v) (hm : 0 < m) : r = v % m -/
theorem modE_correct_partial (e : NExpr) (m : Nat) (r v : Int) (hwf : expsOk e = true)
    (h : modE e m = some r) (hv : eval e = some v) (hm : 0 < m) : r = v % (m : Int) :=
  modE_correct' e m r v hwf h hv hm

/-- **modE_correct_counterexample.**  Without `expsOk` the statement fails on a symbolic exponent
    of value 1 that passes the sign heuristic of `assert 1 < exp`:
    `Exp(2, Add(-1, Exp(2, 1))) % 4` - the model (and the Python) return 0 by the literal case
    `base 2, mod 4`, the value is `2 ^ (-1 + 2) = 2`, `2 % 4 = 2`. -/
theorem modE_correct_counterexample :
    ¬ (∀ (e : NExpr) (m : Nat) (r v : Int), modE e m = some r → eval e = some v → 0 < m →
        r = v % (m : Int)) := by
  intro h
  exact absurd (h (.exp 2 (.add (.int (-1)) (.exp 2 (.int 1)))) 4 0 2 (by decide) (by decide)
    (by decide)) (by decide)

/-- second witness, an integer exponent 0 through the `mod == base` return:
    `Exp(3, 0) % 3` gives 0, the value is 1 -/
theorem modE_correct_counterexample2 :
    modE (.exp 3 (.int 0)) 3 = some 0 ∧ eval (.exp 3 (.int 0)) = some 1 ∧
      (0 : Int) ≠ 1 % ((3 : Nat) : Int) := by decide

/-- **modE_defined_simple.**  A definedness statement for the simple trees: on sums and products
    of integers and of powers `base ** k` with `base ≥ 0`, an integer exponent `k ≥ 2` and
    `base % m ≠ 0` (`simpleOk m e`), the operator never raises for `1 ≤ m < 2^24`.  (Outside this
    class it raises by design: `PeriodLimit` for `m ≥ 2^24`, `assert base % mod != 0`,
    `ModDepthLimit` / `assert rem == 0` in `Div`, `ExpModLimit` and the comparison heuristic for
    symbolic exponents.) -/
theorem modE_defined_simple (e : NExpr) (m : Nat) (hm : 1 ≤ m) (hlim : m < 2 ^ 24)
    (hs : simpleOk m e = true) : (modE e m).isSome = true :=
  modE_defined_simple' e m hm hlim hs

/-! ### Non-vacuity (concrete trees; `decide`) -/

-- `(2 ** (1 + 3 ** 4)) % 54`: symbolic exponent 82, `find_period` skipped (mod = 2 * 3^3), the
-- literal table of `exp_mod_special_cases` at `82 % 18 = 10`
example : modE (.exp 2 (.add (.int 1) (.exp 3 (.int 4)))) 54 = some 52 := by decide +kernel
example : expsOk (.exp 2 (.add (.int 1) (.exp 3 (.int 4)))) = true := by decide
-- `(1 + 3 ** 2) // 4`: an inexact `Div` raises (`assert rem == 0`)
example : modE (.div (.add (.int 1) (.exp 3 (.int 2))) 4) 5 = none := by decide +kernel
-- `((2 + 7 ** 3) // 5 * 3 ** (2 ** 5)) % 1000`
example : modE (.mul (.div (.add (.int 2) (.exp 7 (.int 3))) 5) (.exp 3 (.exp 2 (.int 5)))) 1000
    = some 29 := by decide +kernel
-- a negative exponent tree fails `assert 1 < exp`
example : modE (.exp 5 (.mul (.int (-2)) (.exp 2 (.int 3)))) 7 = none := by decide +kernel
example : simpleOk 1000 (.add (.int (-7)) (.mul (.int 12) (.exp 3 (.int 40)))) = true := by decide

end BB.NumModTree
