/-
C01 — Run-length simulator equals cell-by-cell Turing machine semantics.
Property theorems only; helper lemmas live in BB/Lemmas.
(`quickAfter p n` = the loop state after `n` full iterations of `run_quick_machine`'s loop, `none`
once it stopped: the definition lives, text unchanged, in BB/Lemmas/RunQuick.lean.)
-/
import BB.Lemmas.Refine
import BB.Lemmas.RunQuick
import BB.Lemmas.RunQuick2

namespace BB

/-- **step_refines.** One step of the compressed tape with instruction `(pr, d, q')` fired in state
    `q` (sweeping iff `q = q'`) is `k ≥ 1` steps of the cell-by-cell machine; during the first `k`
    configurations the machine is in state `q` scanning the same colour (so the same instruction
    fires), and the `k`-th configuration is the unrolled new tape in state `q'`. -/
theorem step_refines (p : ProgF) (t : Tape) (q pr : Nat) (d : Bool) (q' : Nat)
    (hpos : t.Pos) (hi : p q t.scan = some (pr, d, q')) :
    0 < (t.step d pr (q == q')).2 ∧
    (∀ j, j < (t.step d pr (q == q')).2 →
        ∃ c, stepN p j (t.toCfg q) = some c ∧ c.state = q ∧ c.scan = t.scan) ∧
    (∃ c', stepN p (t.step d pr (q == q')).2 (t.toCfg q) = some c' ∧
        c' ≈c (t.step d pr (q == q')).1.toCfg q') ∧
    (t.step d pr (q == q')).1.Pos :=
  Tape.step_refines p t q pr d q' hpos hi

/-- **every_cycle.** At every intermediate cycle the compressed tape unrolls to the real tape:
    the L0 machine after `s.steps` steps is the unrolled model configuration, and the tape is
    canonical. -/
theorem every_cycle (p : Prog) (n : Nat) (s : QState) (h : quickAfter p n = some s) :
    s.tape.Canon ∧ ∃ c, RunAt p.toF s.steps c ∧ c ≈c s.tape.toCfg s.state :=
  ⟨(quickAfter_inv p n s h).canon, (quickAfter_inv p n s h).run⟩

/-! ### The result record of `run_quick_machine` -/

/-- **Steps and marks.** Unless the run stopped on u64 overflow, the L0 machine run for `steps`
    base steps exists (so no undefined instruction was met before), and its tape holds exactly
    `marks` non-blank cells. -/
theorem run_quick_steps_marks (p : Prog) (lim : Nat) (h : (runQuick p lim).result ≠ .overflow) :
    ∃ c, RunAt p.toF (runQuick p lim).steps c ∧ c.marks = (runQuick p lim).marks :=
  (runQuick_spec p lim).marks h

/-- **Undefined instruction.** `undfnd` is reported exactly with the halting slot, at the real step. -/
theorem run_quick_undfnd (p : Prog) (lim : Nat) (h : (runQuick p lim).result = .undfnd) :
    ∃ q s, (runQuick p lim).lastSlot = some (q, s) ∧ HaltsAt p.toF (runQuick p lim).steps q s :=
  (runQuick_spec p lim).undfnd h

/-- **Spin-out.** -/
theorem run_quick_spnout (p : Prog) (lim : Nat) (h : (runQuick p lim).result = .spnout) :
    ∃ c, RunAt p.toF (runQuick p lim).steps c ∧ SpinOutCfg p.toF c :=
  (runQuick_spec p lim).spnout h

/-- **Blank-tape record.** Every recorded (state, step) is a real blank tape in that state. -/
theorem run_quick_blanks (p : Prog) (lim : Nat) (q n : Nat) (h : (q, n) ∈ (runQuick p lim).blanks) :
    BlankAfter p.toF n q :=
  (runQuick_spec p lim).blanks q n h

/-- **Return to blank.** `infrul` (only produced here by a repeated blank state, or a blank tape in
    the start state) means the machine never halts. -/
theorem run_quick_infrul (p : Prog) (lim : Nat) (h : (runQuick p lim).result = .infrul) :
    NeverHalts p.toF :=
  (runQuick_spec p lim).infrul h

/-- **Step limit.** `xlimit` means all `lim` cycles were executed. -/
theorem run_quick_xlimit (p : Prog) (lim : Nat) (h : (runQuick p lim).result = .xlimit) :
    (quickAfter p lim).isSome ∧ (runQuick p lim).cycles = 0 :=
  (runQuick_spec p lim).xlimit h

/-- **Cycles.** When the run stops on an undefined instruction or a spin-out, `cycles` is the number
    of loop iterations completed before. -/
theorem run_quick_cycles (p : Prog) (lim : Nat)
    (h : (runQuick p lim).result = .undfnd ∨ (runQuick p lim).result = .spnout) :
    (quickAfter p (runQuick p lim).cycles).isSome ∧ (runQuick p lim).cycles < lim :=
  (runQuick_spec p lim).cycles h

/-! ### Nothing is missed inside a sweep -/

/-- **First blank.** A recorded (state, step) is the FIRST step `≥ 1` at which the tape is blank in
    that state. -/
theorem run_quick_blanks_first (p : Prog) (lim q n : Nat) (h : (q, n) ∈ (runQuick p lim).blanks) :
    ∀ m, 0 < m → m < n → ¬ ∃ c, RunAt p.toF m c ∧ c.state = q ∧ c.Blank :=
  (runQuick_spec2 p lim).first q n h

/-- **Blank record complete.** Every blank tape met at a step `1 ≤ m ≤ steps` has its state recorded,
    at a step not later than `m`. -/
theorem run_quick_blanks_complete (p : Prog) (lim : Nat) (h : (runQuick p lim).result ≠ .overflow) (m q : Nat)
    (hm : 0 < m) (hle : m ≤ (runQuick p lim).steps) (hb : ∃ c, RunAt p.toF m c ∧ c.state = q ∧ c.Blank) :
    ∃ n, n ≤ m ∧ (q, n) ∈ (runQuick p lim).blanks :=
  (runQuick_spec2 p lim).complete h m q hm hle hb

/-- **No spin-out missed.** No configuration strictly before the reported step is a spin-out
    configuration. -/
theorem run_quick_no_early_spinout (p : Prog) (lim : Nat) (h : (runQuick p lim).result ≠ .overflow) :
    ∀ m c, m < (runQuick p lim).steps → RunAt p.toF m c → ¬ SpinOutCfg p.toF c :=
  (runQuick_spec2 p lim).noSpin h

/-- **No halt missed.** No undefined instruction is met strictly before the reported step. -/
theorem run_quick_no_early_halt (p : Prog) (lim : Nat) (h : (runQuick p lim).result ≠ .overflow) :
    ∀ m, m < (runQuick p lim).steps → ∀ q s, ¬ HaltsAt p.toF m q s := by
  obtain ⟨c, hc, _⟩ := (runQuick_spec p lim).marks h
  exact fun m hm q s => no_halt_before hc hm q s

/- Non-vacuity: a concrete machine that exercises sweeps, halts, and meets every hypothesis. -/
example : (runQuick [((0,0),(1,true,1)), ((0,1),(1,false,1)), ((1,0),(1,false,0))] 100).result = .undfnd := by decide

end BB
