/-
C07 — quick recurrence check: every verdict is true.
Property theorems only; helper lemmas live in BB/Lemmas/Rec*.lean.
-/
import BB.Lemmas.RunQuick
import BB.Lemmas.RecRun

namespace BB

/-- the (state, scanned colour) sequence of the run from the blank tape is periodic from step `n`
    on with period `m`: a genuine recurrence (for a translated cycle the tape contents shift, the
    slot sequence repeats) -/
def SlotPeriodic (p : ProgF) (n m : Nat) : Prop :=
  0 < m ∧ ∀ j, ∃ c c', RunAt p (n + j) c ∧ RunAt p (n + m + j) c' ∧
    c.state = c'.state ∧ c.scan = c'.scan

/-- **undefined.** For a program in normal form (A0 = 1RB), an `undefined(slot)` verdict means the
    machine halts exactly at that slot. -/
theorem rec_undefined (p : Prog) (lim q s : Nat) (h0 : p.get (0, 0) = some (1, true, 1))
    (h : quickTermOrRec p lim = .undefined (q, s)) : ∃ n, HaltsAt p.toF n q s := by
  have := quickTermOrRec_spec p lim h0
  rw [h] at this
  exact this

/-- **spin-out.** -/
theorem rec_spinout (p : Prog) (lim : Nat) (h0 : p.get (0, 0) = some (1, true, 1))
    (h : quickTermOrRec p lim = .spinout) : SpinsOut p.toF := by
  have := quickTermOrRec_spec p lim h0
  rw [h] at this
  exact this

/-- **recurrence.** A `recur` verdict means the machine is in a genuine recurrence: its slot
    sequence is eventually periodic, it never halts and it never spins out. -/
theorem rec_recur (p : Prog) (lim : Nat) (h0 : p.get (0, 0) = some (1, true, 1))
    (h : quickTermOrRec p lim = .recur) :
    (∃ n m, SlotPeriodic p.toF n m) ∧ NeverHalts p.toF ∧ ¬ SpinsOut p.toF := by
  have := quickTermOrRec_spec p lim h0
  rw [h] at this
  exact (this : LinWitness p.toF).spec

/- Non-vacuity: the hypotheses are met by a concrete machine for each verdict. -/
example : quickTermOrRec [((0,0),(1,true,1)), ((1,0),(0,false,1)), ((1,1),(0,false,0))] 100 = .recur := by
  decide
example : quickTermOrRec [((0,0),(1,true,1)), ((1,0),(1,false,0)), ((0,1),(1,false,1))] 100 = .undefined (1, 1) := by
  decide

end BB
