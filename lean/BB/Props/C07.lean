/-
C07 — quick recurrence check: every verdict is true.
Property theorems only; helper lemmas live in BB/Lemmas/Rec*.lean.
-/
import BB.Lemmas.RunQuick
import BB.Lemmas.RecRun

namespace BB

/-- the (state, scanned colour) sequence of the run from the blank tape is periodic from step `n`
    on with period `m`: a genuine recurrence (for a translated cycle the tape contents shift, the
    slot sequence repeats) -/
def SlotPeriodic (p : ProgF) (n m : Nat) : Prop :=
  0 < m ∧ ∀ j, ∃ c c', RunAt p (n + j) c ∧ RunAt p (n + m + j) c' ∧
    c.state = c'.state ∧ c.scan = c'.scan

/-- **undefined.** For a program in normal form (A0 = 1RB), an `undefined(slot)` verdict means the
    machine halts exactly at that slot. -/
theorem rec_undefined (p : Prog) (lim q s : Nat) (h0 : p.get (0, 0) = some (1, true, 1))
    (h : quickTermOrRec p lim = .undefined (q, s)) : ∃ n, HaltsAt p.toF n q s := by
  have := quickTermOrRec_spec p lim h0
  rw [h] at this
  exact this

/-- **spin-out.** -/
theorem rec_spinout (p : Prog) (lim : Nat) (h0 : p.get (0, 0) = some (1, true, 1))
    (h : quickTermOrRec p lim = .spinout) : SpinsOut p.toF := by
  have := quickTermOrRec_spec p lim h0
  rw [h] at this
  exact this

/-- **recurrence.** A `recur` verdict means the machine is in a genuine recurrence: its slot
    sequence is eventually periodic, it never halts and it never spins out. -/
theorem rec_recur (p : Prog) (lim : Nat) (h0 : p.get (0, 0) = some (1, true, 1))
    (h : quickTermOrRec p lim = .recur) :
    (∃ n m, SlotPeriodic p.toF n m) ∧ NeverHalts p.toF ∧ ¬ SpinsOut p.toF := by
  have := quickTermOrRec_spec p lim h0
  rw [h] at this
  exact (this : LinWitness p.toF).spec

/-- **recurrence, as a translated cycle.**  The certificate behind `rec_recur`, stated outright
    (definitions in BB/Lemmas/LinRec.lean: `hd p t` is the absolute head position at time `t` of
    the run from the blank tape, `AgreeW W h c c'` says that `c` and `c'` are in the same state and
    hold the same cells, relative to their heads, at every absolute position of the window `W`):
    there are times `n < n + m`, a head displacement `δ` and a window `W` of tape positions such
    that the configuration at time `n + m` is the configuration at time `n` translated by `δ` on
    `W`; `W` is closed under translation by `δ`, contains every head position of the interval
    `[n, n + m]`, and extends to infinity on each side the cycle drifts towards or is bounded
    there.  This is the "genuine translated-cycle recurrence" of the property. -/
theorem rec_recur_translated (p : Prog) (lim : Nat) (h0 : p.get (0, 0) = some (1, true, 1))
    (h : quickTermOrRec p lim = .recur) :
    ∃ (W : Int → Prop) (δ : Int) (n m : Nat),
      0 < m ∧ (∀ x, W x → W (x + δ)) ∧
      (∃ c0 c1, RunAt p.toF n c0 ∧ RunAt p.toF (n + m) c1 ∧ AgreeW W (hd p.toF n) c0 c1) ∧
      hd p.toF (n + m) = hd p.toF n + δ ∧
      (∀ t, n ≤ t → t ≤ n + m → W (hd p.toF t)) ∧
      ((∀ x, W x → W (x + 1)) ∨ ∃ B, ∀ x, W x → x ≤ B) ∧
      ((∀ x, W x → W (x - 1)) ∨ ∃ B, ∀ x, W x → B ≤ x) := by
  have := quickTermOrRec_spec p lim h0
  rw [h] at this
  obtain ⟨W, δ, n, m, H, hR, hL, _⟩ := (this : LinWitness p.toF)
  exact ⟨W, δ, n, m, H.mpos, H.closed, H.run0, H.shift, H.win, hR, hL⟩

/- Non-vacuity: the hypotheses are met by a concrete machine for each verdict. -/
example : quickTermOrRec [((0,0),(1,true,1)), ((1,0),(0,false,1)), ((1,1),(0,false,0))] 100 = .recur := by
  decide
example : quickTermOrRec [((0,0),(1,true,1)), ((1,0),(1,false,0)), ((0,1),(1,false,1))] 100 = .undefined (1, 1) := by
  decide

end BB
