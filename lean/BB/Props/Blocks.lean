/-
Auxiliary theorems about src/blocks.rs (`opt_block`, the block size the callers hand to
`make_block_macro`; model: BB/Model/Blocks.lean).  No listed property is anchored in blocks.rs;
these facts are the glue below C08: whatever `opt_block` answers is a legal block size for the
block macro, it never panics, and it is the first minimiser of the compression measure.
Theorems only; helper lemmas live in BB/Lemmas/BlocksLemmas.lean.
-/
import BB.Lemmas.BlocksLemmas

namespace BB.Blocks

/-- `unroll_tape` indexes the program with `comp[&slot]` (a panic on an undefined slot): after
    `measure_blocks` succeeded this cannot happen, so `opt_block` never panics. -/
theorem optBlock_isSome (p : Prog) (steps : Nat) : (optBlock p steps).isSome = true :=
  optBlock_isSome' p steps

/-- the cycle number `measure_blocks` reports is at most the number of cycles run -/
theorem measureBlocks_le (p : Prog) (steps ms : Nat) (h : measureBlocks p steps = some ms) :
    ms ≤ steps :=
  measureBlocks_le' p steps ms h

/-- the answer is a positive block size -/
theorem optBlock_pos (p : Prog) (steps k : Nat) (h : optBlock p steps = some k) : 1 ≤ k :=
  optBlock_pos' p steps k h

/-- `compr_eff` never exceeds the tape length (so the `usize` subtraction `compr_size -= k` cannot
    wrap), and what it removes is `k` cells for every aligned pair of equal neighbouring chunks. -/
theorem comprEff_eq (tape : List Nat) (k : Nat) (hk : 1 ≤ k) (h2 : 2 * k ≤ tape.length) :
    comprEff tape k + k * ((List.range (comprIters tape.length k)).filter
        (fun j => chunk tape (j * k) k == chunk tape (j * k + k) k)).length = tape.length := by
  have _ := hk  -- not needed: for k = 0 both sides are `tape.length` as well
  exact comprEff_eq' tape k h2

/-- **first minimiser**: the block size chosen by the loop of `opt_block` over `1 .. n` has the
    smallest compression measure among them, strictly smaller than every earlier size; when no
    size is tried (tape shorter than 4 cells) the answer is 1. -/
theorem optGo_first_min (tape : List Nat) (n : Nat) :
    let k := (optGo tape n 1 (1, 1 + tape.length)).1
    (n = 0 → k = 1) ∧
    (0 < n → 1 ≤ k ∧ k ≤ n ∧
      (∀ b, 1 ≤ b → b ≤ n → comprEff tape k ≤ comprEff tape b) ∧
      (∀ b, 1 ≤ b → b < k → comprEff tape k < comprEff tape b)) :=
  optGo_first_min' tape n

/-- the answer is a legal block size for the measured tape: 1, or less than half its length -/
theorem optBlock_legal (p : Prog) (steps k ms : Nat) (cells : List Nat)
    (hm : measureBlocks p steps = some ms) (hu : unrollTape p ms = some cells)
    (h : optBlock p steps = some k) : k = 1 ∨ 2 * k < cells.length :=
  optBlock_legal' p steps k ms cells hm hu h

/-- non-vacuity: a machine on which the loop really runs (measured tape `[1,1,0,0,1,1]`, sizes 1
    and 2 are tried); here the first minimiser is 1 -/
example : optBlock [((0,0),(1,true,1)), ((0,1),(1,false,1)), ((1,0),(1,false,0)), ((1,1),(0,false,1))] 40 = some 1 := by
  decide +kernel

/-- non-vacuity: a machine ("1RB 1LC  1RC 1RB  1RD 0LE  1LA 1LD  ... 0LA") on which the loop picks
    a size above 1 (`measureBlocks` answers cycle 153) -/
example : optBlock [((0,0),(1,true,1)), ((0,1),(1,false,2)), ((1,0),(1,true,2)), ((1,1),(1,true,1)), ((2,0),(1,true,3)), ((2,1),(0,false,4)), ((3,0),(1,false,0)), ((3,1),(1,false,3)), ((4,1),(0,false,0))] 200 = some 3 := by
  decide +kernel

end BB.Blocks
