/-
C09 — the backsymbol macro machine simulates the base machine (repaired split index, `fixF3 = true`),
and the witness that the code as written (`fixF3 = false`) does not (finding F3).

Property theorems only; lemmas live in BB/Lemmas/MacroSim1..7.lean.  Definitions used by the
statements: those of C08 (top of BB/Lemmas/MacroSim1.lean) and `bsState`, `bsSpan`, `bsTape`,
`bsRe`, `bsExitTape`, `decCfgB`, `StaysFor`, `CellsBelow` (top of BB/Lemmas/MacroSim6.lean).

`lp : LogicParams` with `lp.kind = .backsymbol`: `k = lp.cells` remembered cells,
`B = lp.backsymbols = C ^ k`.  A macro state is `ms = atRight + 2 * (q * B + span)`; the window has
`k + 1` cells: the scanned cell `mc` (a base colour) and the `k` remembered cells
`decode span`, which lie right of the scanned cell when `atRight = 1`.  The macro tape is mirrored.

Hypotheses (all decidable): `0 < C`; `closedB p S C` (see C08); slot in range:
`ms < 2 * S * B`, `mc < C`.  `k = 0` is allowed.
-/
import BB.Lemmas.MacroSim7

namespace BB.MacroSim

open BB BB.Macros

/-- For a table `t : Prog` the one-level `pureChain` of the model is this `pureInstr`. -/
theorem backsym_pureChain (t : Prog) (params : Nat × Nat) (f : Bool) (k : Nat) (slot : Slot) :
    pureChain t params f [(.backsymbol, k)] slot =
      pureInstr (innerOf t.toF) ⟨.backsymbol, k, params.1, params.2⟩ f slot := rfl

/-- **backsym_instr_some_fixF3.**  If the (repaired) macro instruction of slot `(ms, mc)` is
    `(mc', sh, ms')`, then the base machine started in state `bsState ms` on the end cell (right
    end iff `ms % 2 = 0`) of the `k+1`-cell window holding `bsTape ms mc`, with arbitrary cells
    outside, runs `n ≥ 1` steps with the head in the window at steps `0 .. n-1` (no undefined
    instruction), and step `n` takes the head out of the window on the side OPPOSITE to the macro
    shift `sh` (mirrored tape) in state `bsState ms'`; the old window then holds
    `bsExitTape ms' mc'` = the new remembered cells `bsSpan ms'` next to the head plus the printed
    colour `mc'` at the far end; outside cells are unchanged; `ms' % 2` records the side of the
    remembered cells; the outputs are in range. -/
theorem backsym_instr_some_fixF3 (p : ProgF) (lp : LogicParams) (ms mc mc' ms' : Nat) (sh : Bool)
    (hk : lp.kind = .backsymbol) (hC : 0 < lp.baseColors)
    (hms : ms < 2 * lp.baseStates * lp.backsymbols) (hmc : mc < lp.baseColors)
    (hcl : closedB p lp.baseStates lp.baseColors = true)
    (h : pureInstr (innerOf p) lp true (ms, mc) = .ok (some (mc', sh, ms')))
    (outL outR : List Nat) :
    ∃ n, 1 ≤ n ∧
      RunsIn p (lp.cells + 1) outL outR n
        (enterCfg (bsState lp ms) (bsRe ms) (bsTape lp ms mc) outL outR)
        (exitCfg (bsState lp ms') (!sh) (bsExitTape lp ms' mc') outL outR) ∧
      ms' % 2 = (if sh then 1 else 0) ∧ ms' < 2 * lp.baseStates * lp.backsymbols ∧
      mc' < lp.baseColors :=
  backsym_instr_some' p lp ms mc mc' ms' sh hk hC hms hmc hcl h outL outR

/- The full statement for undefined slots (kept visible):

   theorem backsym_instr_none_fixF3 … (no bound on lp.cells) :
     pureInstr (innerOf p) lp true (ms, mc) = .ok none ↔
       (HaltsInside p (lp.cells + 1) outL outR (enterCfg …) ∨ NeverLeaves p (lp.cells + 1) outL outR (enterCfg …))

   Direction `←` is proved for every `k` (`backsym_instr_none_of_fixF3`).  Direction `→` needs
   `sim_lim ≥` the number of window configurations `S * (k+1) * C^(k+1)`; the code's
   `sim_lim = macro_states * macro_colors = 2 * S * C^(k+1)` is smaller as soon as `k ≥ 2`
   (`backsym_simLim_short`), so the pigeonhole argument only gives `k ≤ 1`
   (`backsym_instr_none_fixF3_partial`).  For every `k` the weaker conclusion "halts inside, or is
   still inside after `sim_lim` steps" holds (`backsym_instr_none_weak_fixF3`).  No concrete
   machine that leaves the window after more than `sim_lim` loop iterations was found (exhaustive
   search 2x2, 3x2 `k ≤ 6`, 2x3 `k ≤ 4`, 1xC; sampled 4x2, 5x2, 6x2, 3x3), so no counterexample
   theorem is given. -/

/-- **backsym_instr_none_fixF3_partial** (`k ≤ 1`): no instruction ⇔ halts inside or never leaves. -/
theorem backsym_instr_none_fixF3_partial (p : ProgF) (lp : LogicParams) (ms mc : Nat)
    (hk : lp.kind = .backsymbol) (hc : lp.cells ≤ 1) (hC : 0 < lp.baseColors)
    (hms : ms < 2 * lp.baseStates * lp.backsymbols) (hmc : mc < lp.baseColors)
    (hcl : closedB p lp.baseStates lp.baseColors = true) (outL outR : List Nat) :
    pureInstr (innerOf p) lp true (ms, mc) = .ok none ↔
      (HaltsInside p (lp.cells + 1) outL outR
          (enterCfg (bsState lp ms) (bsRe ms) (bsTape lp ms mc) outL outR) ∨
        NeverLeaves p (lp.cells + 1) outL outR
          (enterCfg (bsState lp ms) (bsRe ms) (bsTape lp ms mc) outL outR)) :=
  backsym_instr_none_small' p lp ms mc hk hc hC hms hmc hcl outL outR

/-- **backsym_instr_none_of_fixF3** (every `k`): a base machine that halts inside the window or
    never leaves it gives an undefined macro slot. -/
theorem backsym_instr_none_of_fixF3 (p : ProgF) (lp : LogicParams) (ms mc : Nat)
    (hk : lp.kind = .backsymbol) (hC : 0 < lp.baseColors)
    (hms : ms < 2 * lp.baseStates * lp.backsymbols) (hmc : mc < lp.baseColors)
    (hcl : closedB p lp.baseStates lp.baseColors = true) (outL outR : List Nat)
    (h : HaltsInside p (lp.cells + 1) outL outR
          (enterCfg (bsState lp ms) (bsRe ms) (bsTape lp ms mc) outL outR) ∨
        NeverLeaves p (lp.cells + 1) outL outR
          (enterCfg (bsState lp ms) (bsRe ms) (bsTape lp ms mc) outL outR)) :
    pureInstr (innerOf p) lp true (ms, mc) = .ok none :=
  backsym_instr_none_of' p lp ms mc hk hC hms hmc hcl outL outR h

/-- **backsym_instr_none_weak_fixF3** (every `k`): an undefined macro slot means the base machine
    halts inside the window or keeps the head in it for at least `sim_lim` steps. -/
theorem backsym_instr_none_weak_fixF3 (p : ProgF) (lp : LogicParams) (ms mc : Nat)
    (hk : lp.kind = .backsymbol) (hC : 0 < lp.baseColors)
    (hms : ms < 2 * lp.baseStates * lp.backsymbols) (hmc : mc < lp.baseColors)
    (hcl : closedB p lp.baseStates lp.baseColors = true) (outL outR : List Nat)
    (h : pureInstr (innerOf p) lp true (ms, mc) = .ok none) :
    HaltsInside p (lp.cells + 1) outL outR
        (enterCfg (bsState lp ms) (bsRe ms) (bsTape lp ms mc) outL outR) ∨
      StaysFor p (lp.cells + 1) outL outR lp.simLim
        (enterCfg (bsState lp ms) (bsRe ms) (bsTape lp ms mc) outL outR) :=
  backsym_instr_none_weak' p lp ms mc hk hC hms hmc hcl outL outR h

/-- For `k ≥ 2` the code's `sim_lim` is smaller than the number of (state, position, window)
    triples, so it is not justified by pigeonhole. -/
theorem backsym_simLim_short (lp : LogicParams) (hk : lp.kind = .backsymbol) (hc : 2 ≤ lp.cells)
    (hS : 0 < lp.baseStates) (hC : 0 < lp.baseColors) :
    lp.simLim < lp.baseStates * (lp.cells + 1) * lp.baseColors ^ (lp.cells + 1) := by
  rw [simLim_backsym hk, Nat.pow_succ]
  have hp : 0 < lp.baseColors ^ lp.cells * lp.baseColors := Nat.mul_pos (Nat.pow_pos hC) hC
  have h1 : lp.baseStates * 2 < lp.baseStates * (lp.cells + 1) :=
    Nat.mul_lt_mul_of_pos_left (by omega) hS
  have h2 := Nat.mul_lt_mul_of_pos_right h1 hp
  have h3 : lp.baseStates * 2 * (lp.baseColors ^ lp.cells * lp.baseColors) =
      2 * lp.baseStates * lp.baseColors ^ lp.cells * lp.baseColors := by ac_rfl
  omega

/-- **backsym_instr_no_error_fixF3.**  With the repaired split index the backsymbol macro
    instruction is never an error, for every slot, every `k ≥ 0` and every base program. -/
theorem backsym_instr_no_error_fixF3 (p : ProgF) (lp : LogicParams) (slot : Slot) (e : Err)
    (hk : lp.kind = .backsymbol) (hC : 0 < lp.baseColors) :
    pureInstr (innerOf p) lp true slot ≠ .error e :=
  backsym_instr_no_error' p lp slot e hk hC

/-- **backsym_macro_step_fixF3.**  One step `c → c'` of the macro machine is `n ≥ 1` base steps from
    `decCfgB c` to `decCfgB c'` (literally equal), the head staying in the `k+1`-cell window until
    the last step; range invariants are kept. -/
theorem backsym_macro_step_fixF3 (p : ProgF) (lp : LogicParams) (hk : lp.kind = .backsymbol)
    (hC : 0 < lp.baseColors) (hcl : closedB p lp.baseStates lp.baseColors = true) (c c' : Cfg)
    (hms : c.state < 2 * lp.baseStates * lp.backsymbols) (hcb : CellsBelow lp.baseColors c)
    (h : step1 (macroF p lp true) c = some c') :
    c'.state < 2 * lp.baseStates * lp.backsymbols ∧ CellsBelow lp.baseColors c' ∧
    ∃ n, 1 ≤ n ∧ RunsIn p (lp.cells + 1) c.right c.left n (decCfgB lp c) (decCfgB lp c') :=
  backsym_macro_step' p lp hk hC hcl c c' hms hcb h

/-- **backsym_macro_halt_fixF3_partial** (`k ≤ 1`): the macro machine has no step in `c` exactly when
    the base machine, from the decoded configuration, halts inside the window or never leaves it.
    (For every `k`: `step1 … c = none ↔ pureInstr … = .ok none`, then the three theorems above.) -/
theorem backsym_macro_halt_fixF3_partial (p : ProgF) (lp : LogicParams)
    (hk : lp.kind = .backsymbol) (hc : lp.cells ≤ 1) (hC : 0 < lp.baseColors)
    (hcl : closedB p lp.baseStates lp.baseColors = true) (c : Cfg)
    (hms : c.state < 2 * lp.baseStates * lp.backsymbols) (hcb : CellsBelow lp.baseColors c) :
    step1 (macroF p lp true) c = none ↔
      (HaltsInside p (lp.cells + 1) c.right c.left (decCfgB lp c) ∨
        NeverLeaves p (lp.cells + 1) c.right c.left (decCfgB lp c)) :=
  (backsym_macro_none_iff p lp hk hC c).trans
    (backsym_instr_none_small' p lp c.state c.scan hk hc hC hms hcb.1 hcl c.right c.left)

theorem backsym_macro_none_iff_fixF3 (p : ProgF) (lp : LogicParams) (hk : lp.kind = .backsymbol)
    (hC : 0 < lp.baseColors) (c : Cfg) :
    step1 (macroF p lp true) c = none ↔
      pureInstr (innerOf p) lp true (c.state, c.scan) = .ok none :=
  backsym_macro_none_iff p lp hk hC c

/-- **backsym_macro_sim_fixF3.**  If the (repaired) backsymbol macro machine, from the blank tape,
    is in `C` after `N` macro steps, there are base step counts `t 0 = 0 < t 1 < … < t N` such that
    for every `i ≤ N` the macro configuration after `i` macro steps decodes (up to trailing
    blanks) to the base configuration after `t i` base steps. -/
theorem backsym_macro_sim_fixF3 (p : ProgF) (lp : LogicParams) (hk : lp.kind = .backsymbol)
    (hC : 0 < lp.baseColors) (hS : 0 < lp.baseStates)
    (hcl : closedB p lp.baseStates lp.baseColors = true)
    (N : Nat) (C : Cfg) (hrun : RunAt (macroF p lp true) N C) :
    (C.state < 2 * lp.baseStates * lp.backsymbols ∧ CellsBelow lp.baseColors C) ∧
    ∃ t : Nat → Nat, t 0 = 0 ∧ (∀ i, i < N → t i < t (i + 1)) ∧
      ∀ i, i ≤ N → ∃ Ci b,
        RunAt (macroF p lp true) i Ci ∧ RunAt p (t i) b ∧ b ≈c decCfgB lp Ci :=
  backsym_macro_run' p lp hk hC hS hcl N C hrun

/-! ### Finding F3: the code as written loses the remembered cell -/

/-- `1RB 1LB  1LA 0RA` -/
def bsProg : Prog :=
  [((0,0),(1,true,1)), ((0,1),(1,false,1)), ((1,0),(1,false,0)), ((1,1),(0,true,0))]

/-- one remembered cell -/
def bsLp1 : LogicParams := ⟨.backsymbol, 1, 2, 2⟩

/-- **backsym_F3_witness.**  Base `1RB 1LB  1LA 0RA`, 1 remembered cell, slot `(0, 1)` (state A on
    the right cell of the window `01`): the base machine leaves to the left after 2 steps in state
    A with the window holding `11`.  The repaired split gives macro state `3` (remembered cell
    `1`); the code as written gives macro state `1`, whose remembered cell is `0`. -/
theorem backsym_F3_witness :
    pureInstr (innerOf bsProg.toF) bsLp1 false (0, 1) = .ok (some (1, true, 1)) ∧
    pureInstr (innerOf bsProg.toF) bsLp1 true (0, 1) = .ok (some (1, true, 3)) ∧
    stepN bsProg.toF 2 (enterCfg (bsState bsLp1 0) (bsRe 0) (bsTape bsLp1 0 1) [] []) =
      some (exitCfg 0 false [1, 1] [] []) ∧
    bsSpan bsLp1 3 = [1] ∧ bsSpan bsLp1 1 = [0] := by
  refine ⟨rfl, rfl, by decide, by decide, by decide⟩

/-- **backsym_instr_some_F3_counterexample.**  The conclusion of `backsym_instr_some_fixF3` fails
    for the instruction computed with `fixF3 = false` on that slot. -/
theorem backsym_instr_some_F3_counterexample :
    pureInstr (innerOf bsProg.toF) bsLp1 false (0, 1) = .ok (some (1, true, 1)) ∧
    ¬ ∃ n, 1 ≤ n ∧
      RunsIn bsProg.toF (bsLp1.cells + 1) [] [] n
        (enterCfg (bsState bsLp1 0) (bsRe 0) (bsTape bsLp1 0 1) [] [])
        (exitCfg (bsState bsLp1 1) (!true) (bsExitTape bsLp1 1 1) [] []) := by
  refine ⟨rfl, ?_⟩
  rintro ⟨n, _, hr⟩
  obtain ⟨m, _, hr', _⟩ := backsym_instr_some_fixF3 bsProg.toF bsLp1 0 1 1 3 true rfl (by decide)
    (by decide) (by decide) (by decide) rfl [] []
  have h := (exit_unique hr (exitCfg_not_inWindow _ _ (bsExitTape_length bsLp1 1 1) [] [])
    hr' (exitCfg_not_inWindow _ _ (bsExitTape_length bsLp1 3 1) [] [])).2
  revert h
  decide

/-! ### Non-vacuity -/

/-- `1RB 1LB  1LA ...` -/
def bsProgH : Prog := [((0,0),(1,true,1)), ((0,1),(1,false,1)), ((1,0),(1,false,0))]

def bsLp2 : LogicParams := ⟨.backsymbol, 2, 2, 2⟩

/-- slot `(1, 0)`, two remembered cells: A on the left end of `000` → three steps, out to the left
    in state B, window `110`: instruction `(0, R, 15)` (`15 = 1 + 2 * (1 * 4 + 3)`). -/
example : ∃ n, 1 ≤ n ∧
    RunsIn bsProg.toF 3 [5] [7] n (enterCfg 0 false [0, 0, 0] [5] [7])
      (exitCfg 1 false [1, 1, 0] [5] [7]) ∧ 15 % 2 = 1 ∧ 15 < 2 * 2 * 4 ∧ 0 < 2 :=
  backsym_instr_some_fixF3 bsProg.toF bsLp2 1 0 0 15 true rfl (by decide) (by decide) (by decide)
    (by decide) rfl [5] [7]

/-- slot `(4, 1)`, one remembered cell: B on the right end of `01`, `B1` undefined -/
example : HaltsInside bsProgH.toF 2 [] [] (enterCfg 1 true [0, 1] [] []) ∨
    NeverLeaves bsProgH.toF 2 [] [] (enterCfg 1 true [0, 1] [] []) :=
  (backsym_instr_none_fixF3_partial bsProgH.toF bsLp1 4 1 rfl (by decide) (by decide) (by decide)
    (by decide) (by decide) [] []).1 rfl

example : pureInstr (innerOf bsProgH.toF) bsLp1 true (4, 1) = .ok none :=
  backsym_instr_none_of_fixF3 bsProgH.toF bsLp1 4 1 rfl (by decide) (by decide) (by decide)
    (by decide) [] []
    ((backsym_instr_none_fixF3_partial bsProgH.toF bsLp1 4 1 rfl (by decide) (by decide)
      (by decide) (by decide) (by decide) [] []).1 rfl)

/-- two remembered cells: slot `(8, 1)` = B on the right end of `001`, `B1` undefined -/
example : HaltsInside bsProgH.toF 3 [] [] (enterCfg 1 true [0, 0, 1] [] []) ∨
    StaysFor bsProgH.toF 3 [] [] bsLp2.simLim (enterCfg 1 true [0, 0, 1] [] []) :=
  backsym_instr_none_weak_fixF3 bsProgH.toF bsLp2 8 1 rfl (by decide) (by decide) (by decide)
    (by decide) [] [] rfl

example : bsLp2.simLim < 2 * 3 * 2 ^ 3 :=
  backsym_simLim_short bsLp2 rfl (by decide) (by decide) (by decide)

example : pureInstr (innerOf bsProg.toF) bsLp2 true (7, 1) ≠ .error .panic :=
  backsym_instr_no_error_fixF3 bsProg.toF bsLp2 (7, 1) .panic rfl (by decide)

/-- the first macro step of `bsProg` with two remembered cells -/
example : ∃ c', step1 (macroF bsProg.toF bsLp2 true) Cfg.init = some c' ∧
    ∃ n, 1 ≤ n ∧ RunsIn bsProg.toF 3 [] [] n (decCfgB bsLp2 Cfg.init) (decCfgB bsLp2 c') := by
  have h : (step1 (macroF bsProg.toF bsLp2 true) Cfg.init).isSome = true := by decide
  obtain ⟨c', hc'⟩ := Option.isSome_iff_exists.1 h
  exact ⟨c', hc', (backsym_macro_step_fixF3 bsProg.toF bsLp2 rfl (by decide) (by decide) Cfg.init c'
    (by decide) (by decide) hc').2.2⟩

example : step1 (macroF bsProgH.toF bsLp1 true) ⟨4, [], 1, []⟩ = none :=
  (backsym_macro_halt_fixF3_partial bsProgH.toF bsLp1 rfl (by decide) (by decide) (by decide)
    ⟨4, [], 1, []⟩ (by decide) (by decide)).2
    ((backsym_instr_none_fixF3_partial bsProgH.toF bsLp1 4 1 rfl (by decide) (by decide)
      (by decide) (by decide) (by decide) [] []).1 rfl)

/-- five macro steps of `bsProg` exist, so `backsym_macro_sim_fixF3` applies to them -/
example : ∃ C, RunAt (macroF bsProg.toF bsLp2 true) 5 C ∧
    ∃ t : Nat → Nat, t 0 = 0 ∧ (∀ i, i < 5 → t i < t (i + 1)) ∧
      ∀ i, i ≤ 5 → ∃ Ci b,
        RunAt (macroF bsProg.toF bsLp2 true) i Ci ∧ RunAt bsProg.toF (t i) b ∧
          b ≈c decCfgB bsLp2 Ci := by
  have h : (stepN (macroF bsProg.toF bsLp2 true) 5 Cfg.init).isSome = true := by decide
  obtain ⟨C, hC⟩ := Option.isSome_iff_exists.1 h
  exact ⟨C, hC, (backsym_macro_sim_fixF3 bsProg.toF bsLp2 rfl (by decide) (by decide) (by decide)
    5 C hC).2⟩

end BB.MacroSim
