/-
C14 — the connectivity filter only discards genuinely disconnected programs.
Property theorems only; helper lemmas live in BB/Lemmas/GraphConn*.lean.
(The definitions `Edge`, `Reach`, `Path`, `StronglyConnected`, `HasExit`, `wf`, `noShadow`,
`WalkGenerated` of the statements live at the top of BB/Lemmas/GraphConn.lean,
`UsesAllStatesForever` at the top of BB/Lemmas/GraphConn5.lean.)
-/
import BB.Lemmas.GraphConn5

namespace BB.Graph

open BB

/-! ### Test programs -/

/-- `1RB 1LB  1LA 1LC  1RC 0LC` (first `UNCONNECTED` test of graph.rs) -/
def progU3 : Prog :=
  [((0,0),(1,true,1)), ((0,1),(1,false,1)), ((1,0),(1,false,0)), ((1,1),(1,false,2)),
   ((2,0),(1,true,2)), ((2,1),(0,false,2))]

/-- `1RB 0LB  0LC 0RD  1RD 1LB  1LE 0RA  ... 1LA` (second `CONNECTED` test of graph.rs) -/
def progC5 : Prog :=
  [((0,0),(1,true,1)), ((0,1),(0,false,1)), ((1,0),(0,false,2)), ((1,1),(0,true,3)),
   ((2,0),(1,true,3)), ((2,1),(1,false,1)), ((3,0),(1,false,4)), ((3,1),(0,true,0)),
   ((4,1),(1,false,0))]

/-! ### `false` is only answered for disconnected graphs -/

/-- **isConnected_false_cause.** On a program whose entries only mention states `< n` (`n ≥ 1`),
    the answer `false` means what the property says: some state `< n` has no way out (no defined
    instruction to a different state), or the last state `n - 1` cannot get back to state 0.
    In particular the bounded loop (`n` pops) never runs out of fuel with an unexplored path left. -/
theorem isConnected_false_cause (p : Prog) (n : Nat) (hn : 1 ≤ n) (hwf : wf p n = true)
    (h : isConnected p n = .ok false) :
    (∃ q, q < n ∧ ¬ HasExit p q) ∨ ¬ Path p (n - 1) 0 :=
  isConnected_false_cause' p n hn hwf h

example : wf progU3 3 = true ∧ isConnected progU3 3 = .ok false := by decide

/- The statement asked for (kept visible; FALSE for `n = 1`, see the counterexample below):

   theorem isConnected_false_sound (p : Prog) (n : Nat) (hn : 1 ≤ n) (hwf : wf p n = true)
       (h : isConnected p n = .ok false) : ¬ StronglyConnected p n
-/

/-- **isConnected_false_sound_partial.** For `n ≥ 2` states the answer `false` implies that the
    transition graph on the states `0..n-1` is not strongly connected. -/
theorem isConnected_false_sound_partial (p : Prog) (n : Nat) (hn : 2 ≤ n) (hwf : wf p n = true)
    (h : isConnected p n = .ok false) : ¬ StronglyConnected p n :=
  isConnected_false_sound' p n hn hwf h

example : 2 ≤ 3 ∧ wf progU3 3 = true ∧ isConnected progU3 3 = .ok false := by decide

/-- With one state the filter rejects everything (a single state has no exit to a *different*
    state), although the one-vertex graph is trivially strongly connected. -/
theorem isConnected_false_sound_counterexample :
    wf [((0,0),(1,true,0))] 1 = true ∧ isConnected [((0,0),(1,true,0))] 1 = .ok false ∧
      StronglyConnected [((0,0),(1,true,0))] 1 := by
  refine ⟨by decide, by decide, ?_⟩
  intro a b ha hb
  have : a = b := by omega
  subst this
  exact .refl a

/-- **strong_of_uses_all_states.** (L0) If the run from the blank tape visits each of the states
    `0..n-1` at arbitrarily late times, the transition graph on them is strongly connected. -/
theorem strong_of_uses_all_states (p : Prog) (n : Nat) (h : UsesAllStatesForever p n) :
    StronglyConnected p n :=
  strong_of_recurrent' p n h

/-- **isConnected_false_loses_nothing.** Discarding on `false` loses no machine that uses all its
    states forever (`n ≥ 2`). -/
theorem isConnected_false_loses_nothing (p : Prog) (n : Nat) (hn : 2 ≤ n) (hwf : wf p n = true)
    (h : isConnected p n = .ok false) : ¬ UsesAllStatesForever p n :=
  isConnected_false_loses_nothing' p n hn hwf h

example : 2 ≤ 3 ∧ wf progU3 3 = true ∧ isConnected progU3 3 = .ok false := by decide

/-! ### No panic on well-formed input -/

/-- **isConnected_panic_free.** For `n ≥ 1` and a program that only mentions states `< n`, neither
    `exitpoints[&k]` panics nor `states - 1` overflows: the function returns a Boolean. -/
theorem isConnected_panic_free (p : Prog) (n : Nat) (hn : 1 ≤ n) (hwf : wf p n = true) :
    ∃ b, isConnected p n = .ok b :=
  isConnected_panic_free' p n hn hwf

example : 1 ≤ 5 ∧ wf progC5 5 = true := by decide

/-- `states - 1` overflows exactly when `states = 0` (for every program). -/
theorem isConnected_overflow_iff (p : Prog) (n : Nat) : isConnected p n = .overflow ↔ n = 0 :=
  isConnected_overflow_iff' p n

/-- Without well-formedness the index panics do happen: a missing key for the last state
    (`exitpoints[&(states - 1)]`), and a missing key for a popped state (`exitpoints[&state]`). -/
theorem isConnected_panic_witness :
    isConnected [((0,0),(1,true,2)), ((2,0),(1,true,0))] 2 = .panic ∧
    isConnected [((0,0),(1,true,1)), ((1,0),(1,true,2))] 2 = .panic := by decide

/-! ### What `true` means -/

/-- **isConnected_true_iff.** For every well-formed table without shadowed keys and `n ≥ 1`, the
    answer is `true` exactly when every state `< n` has an exit to a different state and the last
    state reaches state 0.  (This is all the function checks; it is weaker than strong
    connectivity, see `isConnected_true_not_strong_witness`.) -/
theorem isConnected_true_iff (p : Prog) (n : Nat) (hn : 1 ≤ n) (hwf : wf p n = true)
    (hns : noShadow p = true) :
    isConnected p n = .ok true ↔ (∀ q, q < n → HasExit p q) ∧ Path p (n - 1) 0 :=
  isConnected_true_iff' p n hn hwf hns

example : 1 ≤ 5 ∧ wf progC5 5 = true ∧ noShadow progC5 = true := by decide

/-- **isConnected_of_strong.** No strongly connected program on `n ≥ 2` states is discarded. -/
theorem isConnected_of_strong (p : Prog) (n : Nat) (hn : 2 ≤ n) (hwf : wf p n = true)
    (hsc : StronglyConnected p n) : isConnected p n = .ok true :=
  isConnected_of_strong' p n hn hwf hsc

/-- **isConnected_true_of_walk.** For a program generated along a walk `w` from state 0 that
    introduces the states in increasing order and mentions the last state (as tree generation
    does; `WalkGenerated` also contains `2 ≤ n`, `wf` and `noShadow`), the answer is `true` exactly
    when the transition graph is strongly connected. -/
theorem isConnected_true_of_walk (p : Prog) (n : Nat) (w : List Nat)
    (hw : WalkGenerated p n w = true) :
    isConnected p n = .ok true ↔ StronglyConnected p n :=
  isConnected_true_of_walk' p n w hw

example : WalkGenerated progC5 5 [0, 1, 2, 3, 4] = true ∧ isConnected progC5 5 = .ok true := by
  decide

/-- a walk-generated table that the filter rejects (both sides of the equivalence false) -/
example : WalkGenerated progU3 3 [0, 1, 2] = true ∧ isConnected progU3 3 = .ok false := by
  decide

/-- the hypotheses of `isConnected_of_strong` are satisfiable -/
example : 2 ≤ 5 ∧ wf progC5 5 = true ∧ StronglyConnected progC5 5 :=
  ⟨by decide, by decide,
    (isConnected_true_of_walk progC5 5 [0, 1, 2, 3, 4] (by decide)).mp (by decide)⟩

/-- **walkGenerated_chain.** What `WalkGenerated` contributes, as a property of the graph alone:
    each state reaches the next one. -/
theorem walkGenerated_chain (p : Prog) (n : Nat) (w : List Nat) (hw : WalkGenerated p n w = true)
    (k : Nat) (hk : k + 1 < n) : Path p k (k + 1) :=
  chain_of_walk p n w hw k hk

/-- **isConnected_true_iff_strong_of_chain.** The same equivalence under the graph-level
    hypothesis (which strong connectivity itself implies, so it is the weakest possible): each
    state `k` reaches state `k + 1`. -/
theorem isConnected_true_iff_strong_of_chain (p : Prog) (n : Nat) (hn : 2 ≤ n)
    (hwf : wf p n = true) (hns : noShadow p = true)
    (hchain : ∀ k, k + 1 < n → Path p k (k + 1)) :
    isConnected p n = .ok true ↔ StronglyConnected p n :=
  isConnected_true_iff_strong_of_chain' p n hn hwf hns hchain

example : 2 ≤ 5 ∧ wf progC5 5 = true ∧ noShadow progC5 = true ∧
    ∀ k, k + 1 < 5 → Path progC5 k (k + 1) :=
  ⟨by decide, by decide, by decide, walkGenerated_chain progC5 5 [0, 1, 2, 3, 4] (by decide)⟩

/-- The order of introduction matters.  `A: →B,→D  B: →C  C: →B  D: →A` on 4 states: well-formed,
    no shadowed keys, every state is reachable from A, every state has an exit, D reaches A — the
    filter answers `true` — but B and C never get back to A.  (No walk from A introduces D after C,
    so this table is not walk-generated.) -/
theorem isConnected_true_not_strong_witness :
    let p : Prog := [((0,0),(1,true,1)), ((0,1),(1,true,3)), ((1,0),(1,true,2)),
                     ((2,0),(1,true,1)), ((3,0),(1,true,0))]
    wf p 4 = true ∧ noShadow p = true ∧ isConnected p 4 = .ok true ∧ ¬ StronglyConnected p 4 := by
  intro p
  refine ⟨by decide, by decide, by decide, ?_⟩
  intro hsc
  refine not_path_of_closed p (fun x => x = 1 ∨ x = 2) ?_ 1 0 (Or.inl rfl) (by simp)
    (hsc 1 0 (by omega) (by omega))
  rintro a b ha ⟨kv, hkv, h1, h2⟩
  simp only [p, List.mem_cons, List.mem_nil_iff, or_false] at hkv
  rcases hkv with rfl | rfl | rfl | rfl | rfl <;> simp at h1 h2 <;> omega

/-- With a single state the filter rejects every well-formed table, so neither
    `isConnected_false_sound` nor the `←` direction of the equivalence extends to `n = 1`. -/
theorem isConnected_one_state (p : Prog) (hwf : wf p 1 = true) : isConnected p 1 = .ok false :=
  isConnected_one_state' p hwf

example : wf [((0,0),(1,true,0))] 1 = true := by decide

end BB.Graph
