/-
C11 — rule arithmetic is exact.

"Inferring a rule from four successive count vectors yields additive differences that reproduce
all four vectors, and applying an additive rule to a tape changes every affected block by exactly
difference x times, where times is the largest number of applications that leaves every
decreasing block with at least one cell; a rule that cannot be applied at least once leaves the
tape untouched."

Property theorems only, about the L1 model BB/Model/Rules.lean (port of src/rules.rs after the
repairs of F4, F5, F6); helper lemmas live in BB/Lemmas/RuleArith*.lean.  The definitions used by
the statements (`tspan`, `InRange`, `keys`, `AllPlus`, `Sorted`, `cside`, `CountsInRange`,
`AllPositive`, `Passes`, `PanicsAt`) are at the top of BB/Lemmas/RuleArith.lean.

Conventions.  Counts are `Nat`, differences are `Int`; every theorem holds for ALL naturals, in
particular for every `u64`.  Where the model's answer depends on a count being a `u64`
(`checked_mul` on a decreasing block) the hypothesis `CountsInRange t` (every count `≤ 2^64 - 1`)
is explicit.  "`(idx, Op.plus δ) ∈ rule`" reads "the rule has the entry `idx ↦ Plus(δ)`";
`t.getCount idx = .ok c` says that block `idx` exists and has `c` cells (no totalised default).
A `Rule` is a `BTreeMap` in the code; the model's association list is given the weaker
hypothesis "keys pairwise distinct" (`(keys rule).Nodup`) where one is needed; `Sorted` rules, and
in particular every rule made by `makeRule`, satisfy it.
-/
import BB.Lemmas.RuleArith7

namespace BB.RuleArith

open BB

/-! ### 1. `calculate_diff` -/

/-- **calc_diff_plus_exact.**  A `Plus(δ)` answer reproduces the four counts exactly: they are in
    arithmetic progression with difference `δ`.  No guard is needed (the differences are taken
    exactly and narrowed with `try_from`). -/
theorem calc_diff_plus_exact (a b c d : Nat) (δ : Int)
    (h : calculateDiff a b c d = .ok (some (.got (.plus δ)))) :
    (b : Int) = a + δ ∧ (c : Int) = b + δ ∧ (d : Int) = c + δ :=
  calc_diff_plus_exact' a b c d δ h

/-- **calc_diff_plus_iff.**  Exactly when the answer is `Plus(δ)`: the counts are in arithmetic
    progression with a non-zero difference `δ` that is an `i32`. -/
theorem calc_diff_plus_iff (a b c d : Nat) (δ : Int) :
    calculateDiff a b c d = .ok (some (.got (.plus δ))) ↔
      δ ≠ 0 ∧ diffMin ≤ δ ∧ δ ≤ diffMax ∧
        (b : Int) = a + δ ∧ (c : Int) = b + δ ∧ (d : Int) = c + δ :=
  calc_diff_plus_iff' a b c d δ

example : calculateDiff 3 5 7 9 = .ok (some (.got (.plus 2))) := by decide
example : calculateDiff (2 ^ 63 + 9) (2 ^ 63 + 6) (2 ^ 63 + 3) (2 ^ 63) = .ok (some (.got (.plus (-3)))) := by
  decide

/-- **calc_diff_none_iff.**  `None` (block not part of the rule) exactly when the four counts are
    equal. -/
theorem calc_diff_none_iff (a b c d : Nat) :
    calculateDiff a b c d = .ok none ↔ a = b ∧ b = c ∧ c = d :=
  calc_diff_none_iff' a b c d

example : calculateDiff 7 7 7 7 = .ok none := by decide

/-- **calc_diff_mult_exact.**  A `Mult((q, r))` answer reproduces the counts multiplicatively,
    `next = q * prev + r`, with `2 ≤ q` and `0 ≤ r < a`; it is only given when all four counts are
    non-negative `i32`s (the `try_from` guards of the code). -/
theorem calc_diff_mult_exact (a b c d : Nat) (q r : Int)
    (h : calculateDiff a b c d = .ok (some (.got (.mult q r)))) :
    ((a : Int) ≤ diffMax ∧ (b : Int) ≤ diffMax ∧ (c : Int) ≤ diffMax ∧ (d : Int) ≤ diffMax) ∧
      (0 : Int) < a ∧ 2 ≤ q ∧ 0 ≤ r ∧ r < a ∧
      (b : Int) = q * a + r ∧ (c : Int) = q * b + r ∧ (d : Int) = q * c + r :=
  calc_diff_mult_exact' a b c d q r h

/-- **calc_diff_mult_iff.**  Exactly when the answer is `Mult((q, r))`. -/
theorem calc_diff_mult_iff (a b c d : Nat) (q r : Int) :
    calculateDiff a b c d = .ok (some (.got (.mult q r))) ↔
      (0 : Int) < a ∧ (d : Int) ≤ diffMax ∧ 2 ≤ q ∧ 0 ≤ r ∧ r < a ∧
        (b : Int) = q * a + r ∧ (c : Int) = q * b + r ∧ (d : Int) = q * c + r :=
  calc_diff_mult_iff' a b c d q r

example : calculateDiff 2 5 11 23 = .ok (some (.got (.mult 2 1))) := by decide

/-- **calc_diff_no_error.**  `calculate_diff` never panics: the division by zero and every other
    error branch of the model are unreachable, for all inputs. -/
theorem calc_diff_no_error (a b c d : Nat) (e : PErr) : calculateDiff a b c d ≠ .error e :=
  calc_diff_no_error' a b c d e

/-- regression case of finding F6 (`as i32` truncation gave `Plus(0)`): now `Unknown` -/
example : calculateDiff 1 (2 ^ 32 + 1) (2 ^ 33 + 1) (3 * 2 ^ 32 + 1) = .ok (some .unknown) := by
  decide

/-! ### 2. `make_rule` -/

/-- **make_rule_lookup.**  At every index `(s, i)` inside all four count vectors of side `s`, the
    rule holds exactly what `calculate_diff` says about the four counts there (no entry when it
    says `None`).  Indices beyond the shortest of the four vectors are ignored by the code (`zip`
    stops at the shortest); they get no entry (`make_rule_keys_in_range`). -/
theorem make_rule_lookup (c1 c2 c3 c4 : Counts) (rule : Rule)
    (h : makeRule c1 c2 c3 c4 = .ok (some rule)) (s : Bool) (i a b c d : Nat)
    (ha : (cside c1 s)[i]? = some a) (hb : (cside c2 s)[i]? = some b)
    (hc : (cside c3 s)[i]? = some c) (hd : (cside c4 s)[i]? = some d) :
    calculateDiff a b c d = .ok ((List.lookup (s, i) rule).map DiffResult.got) :=
  make_rule_lookup' c1 c2 c3 c4 rule h s i a b c d ha hb hc hd

/-- **make_rule_reproduces.**  The rule reproduces all four count vectors: at every index inside
    the four vectors, no entry means the four counts are equal, an entry `Plus(δ)` means they are
    in arithmetic progression with difference `δ ≠ 0`, an entry `Mult((q, r))` means
    `next = q * prev + r`.  (Indices beyond the shortest vector are ignored, see above.) -/
theorem make_rule_reproduces (c1 c2 c3 c4 : Counts) (rule : Rule)
    (h : makeRule c1 c2 c3 c4 = .ok (some rule)) (s : Bool) (i a b c d : Nat)
    (ha : (cside c1 s)[i]? = some a) (hb : (cside c2 s)[i]? = some b)
    (hc : (cside c3 s)[i]? = some c) (hd : (cside c4 s)[i]? = some d) :
    match List.lookup (s, i) rule with
    | none => a = b ∧ b = c ∧ c = d
    | some (.plus δ) => δ ≠ 0 ∧ (b : Int) = a + δ ∧ (c : Int) = b + δ ∧ (d : Int) = c + δ
    | some (.mult q r) =>
      2 ≤ q ∧ 0 ≤ r ∧ r < a ∧
        (b : Int) = q * a + r ∧ (c : Int) = q * b + r ∧ (d : Int) = q * c + r :=
  make_rule_reproduces' c1 c2 c3 c4 rule h s i a b c d ha hb hc hd

/-- **make_rule_keys_in_range.**  Every key of the rule lies inside all four count vectors of its
    side. -/
theorem make_rule_keys_in_range (c1 c2 c3 c4 : Counts) (rule : Rule)
    (h : makeRule c1 c2 c3 c4 = .ok (some rule)) (s : Bool) (i : Nat)
    (hk : (s, i) ∈ keys rule) :
    i < (cside c1 s).length ∧ i < (cside c2 s).length ∧
      i < (cside c3 s).length ∧ i < (cside c4 s).length :=
  make_rule_keys_in_range' c1 c2 c3 c4 rule h s i hk

/-- **make_rule_sorted.**  The rule is strictly sorted by key (the `BTreeMap` invariant of the
    association list), hence its keys are distinct and `lookup` agrees with membership. -/
theorem make_rule_sorted (c1 c2 c3 c4 : Counts) (rule : Rule)
    (h : makeRule c1 c2 c3 c4 = .ok (some rule)) : Sorted rule :=
  make_rule_sorted' c1 c2 c3 c4 rule h

theorem sorted_keys_nodup (rule : Rule) (h : Sorted rule) : (keys rule).Nodup := sorted_nodup h

theorem rule_mem_iff_lookup (rule : Rule) (hnd : (keys rule).Nodup) (idx : Index) (op : Op) :
    (idx, op) ∈ rule ↔ List.lookup idx rule = some op :=
  mem_iff_lookup hnd idx op

/-- **make_rule_none_iff.**  `make_rule` gives up (`None`) exactly when `calculate_diff` answers
    `Unknown` at some index inside the four vectors. -/
theorem make_rule_none_iff (c1 c2 c3 c4 : Counts) :
    makeRule c1 c2 c3 c4 = .ok none ↔
      ∃ (s : Bool) (i a b c d : Nat), (cside c1 s)[i]? = some a ∧ (cside c2 s)[i]? = some b ∧
        (cside c3 s)[i]? = some c ∧ (cside c4 s)[i]? = some d ∧
        calculateDiff a b c d = .ok (some .unknown) :=
  make_rule_none_iff' c1 c2 c3 c4

/-- **make_rule_no_error.**  `make_rule` never panics. -/
theorem make_rule_no_error (c1 c2 c3 c4 : Counts) (e : PErr) : makeRule c1 c2 c3 c4 ≠ .error e :=
  make_rule_no_error' c1 c2 c3 c4 e

/-- the counts of `[0] 2^10 3^10 4^5` under the rule R0-1 R1-2 R2+1, four successive times, with
    an unchanged left block; the fourth right vector is longer (its extra entry is ignored) -/
example :
    makeRule ([7], [10, 10, 5]) ([7], [9, 8, 6]) ([7], [8, 6, 7]) ([7], [7, 4, 8, 99])
      = .ok (some [((true, 0), .plus (-1)), ((true, 1), .plus (-2)), ((true, 2), .plus 1)]) := by
  decide

example : makeRule ([1], []) ([2], []) ([4], []) ([7], []) = .ok none := by decide

/-! ### 3. `count_apps` -/

/-- **count_apps_max.**  When `count_apps` answers `(times, pos, minRes)`: the rule is additive;
    `times ≥ 1`; every decreasing block exists and keeps at least one cell after `times`
    applications; the block at `pos` is a decreasing block of the rule that one more application
    would exhaust (maximality), `minRes` is exactly what `times` applications leave of it, and `pos`
    is the first such entry in map order (every decreasing entry before it survives `times + 1`
    applications). -/
theorem count_apps_max (t : Tape) (rule : Rule) (times : Nat) (pos : Index) (minRes : Nat)
    (h : countApps t rule = .ok (some (times, pos, minRes))) :
    AllPlus rule ∧ 1 ≤ times ∧
      (∀ idx δ, (idx, Op.plus δ) ∈ rule → δ < 0 →
        ∃ c, t.getCount idx = .ok c ∧ 1 ≤ (c : Int) + δ * times) ∧
      ∃ pre δp post c, rule = pre ++ (pos, Op.plus δp) :: post ∧ δp < 0 ∧
        t.getCount pos = .ok c ∧
        (c : Int) + δp * (times + 1) < 1 ∧ (minRes : Int) = c + δp * times ∧
        ∀ idx δ, (idx, Op.plus δ) ∈ pre → δ < 0 →
          ∃ c', t.getCount idx = .ok c' ∧ 1 ≤ (c' : Int) + δ * (times + 1) :=
  count_apps_max' t rule times pos minRes h

/-- **count_apps_largest.**  `times` is the largest number of applications that leaves every
    decreasing block with at least one cell: `n` applications do so exactly when `n ≤ times`. -/
theorem count_apps_largest (t : Tape) (rule : Rule) (times : Nat) (pos : Index) (minRes : Nat)
    (h : countApps t rule = .ok (some (times, pos, minRes))) (n : Nat) :
    (∀ idx δ, (idx, Op.plus δ) ∈ rule → δ < 0 →
        ∃ c, t.getCount idx = .ok c ∧ 1 ≤ (c : Int) + δ * n) ↔ n ≤ times :=
  count_apps_largest' t rule times pos minRes h n

/-- **count_apps_none_iff.**  For an additive rule whose decreasing entries name blocks of the
    tape: `count_apps` answers `None` exactly when the rule has no decreasing entry, or some
    decreasing block has at most `|δ|` cells (not even one application leaves it a cell). -/
theorem count_apps_none_iff (t : Tape) (rule : Rule) (hp : AllPlus rule)
    (hr : ∀ idx δ, (idx, Op.plus δ) ∈ rule → δ < 0 → InRange t idx) :
    countApps t rule = .ok none ↔
      (∀ idx δ, (idx, Op.plus δ) ∈ rule → 0 ≤ δ) ∨
        ∃ idx δ c, (idx, Op.plus δ) ∈ rule ∧ δ < 0 ∧ t.getCount idx = .ok c ∧ c ≤ δ.natAbs :=
  count_apps_none_iff' t rule hp hr

/-- **count_apps_no_error.**  Under the same hypotheses `count_apps` does not panic; in particular
    the unchecked `div - 1` never underflows. -/
theorem count_apps_no_error (t : Tape) (rule : Rule) (hp : AllPlus rule)
    (hr : ∀ idx δ, (idx, Op.plus δ) ∈ rule → δ < 0 → InRange t idx) (e : PErr) :
    countApps t rule ≠ .error e :=
  count_apps_no_error' t rule hp hr e

/-- the tape `[0] 2^10 3^10 4^5` of the property text -/
def exTape : Tape := ⟨0, [], [⟨2, 10⟩, ⟨3, 10⟩, ⟨4, 5⟩]⟩
/-- the rule R0-1 R1-2 R2+1 of the property text -/
def exRule : Rule := [((true, 0), .plus (-1)), ((true, 1), .plus (-2)), ((true, 2), .plus 1)]

example : countApps exTape exRule = .ok (some (4, (true, 1), 2)) := by decide
example := count_apps_max exTape exRule 4 (true, 1) 2 (by decide)
example := count_apps_largest exTape exRule 4 (true, 1) 2 (by decide)
/-- a tie (both decreasing blocks allow 4 applications): the first in map order is returned -/
example : countApps ⟨0, [⟨1, 5⟩], [⟨2, 9⟩]⟩ [((false, 0), .plus (-1)), ((true, 0), .plus (-2))]
    = .ok (some (4, (false, 0), 1)) := by decide
example : AllPlus exRule ∧ ∀ e ∈ exRule, InRange exTape e.1 := by decide
example : countApps ⟨0, [], [⟨2, 1⟩, ⟨3, 10⟩, ⟨4, 5⟩]⟩ exRule = .ok none := by decide

/-! ### 4. `apply_rule`, applied -/

/-- **apply_exact.**  When `apply_rule` answers `Some(times)` (rule with distinct keys): the rule is
    additive, `times` is the number `count_apps` computes (so it is the largest number of
    applications that leaves every decreasing block a cell, `count_apps_largest`); every block
    named by the rule changes by exactly `δ * times`; every block not named by the rule is the same
    block as before; scan, number of blocks and colours are unchanged. -/
theorem apply_exact (t t' : Tape) (rule : Rule) (times : Nat) (hnd : (keys rule).Nodup)
    (h : applyRule t rule = .ok (some times, t')) :
    AllPlus rule ∧
      (∃ pos minRes, countApps t rule = .ok (some (times, pos, minRes))) ∧
      (∀ idx δ, (idx, Op.plus δ) ∈ rule →
        ∃ c c', t.getCount idx = .ok c ∧ t'.getCount idx = .ok c' ∧
          (c' : Int) = c + δ * times) ∧
      (∀ s j, (s, j) ∉ keys rule → (tspan t' s)[j]? = (tspan t s)[j]?) ∧
      t'.scan = t.scan ∧ t'.lspan.map (·.color) = t.lspan.map (·.color) ∧
      t'.rspan.map (·.color) = t.rspan.map (·.color) :=
  apply_exact' t t' rule times hnd h

/-- **apply_keeps_positive.**  No block is ever driven to zero: if every block of the tape has at
    least one cell, so has every block afterwards. -/
theorem apply_keeps_positive (t t' : Tape) (rule : Rule) (times : Nat)
    (hnd : (keys rule).Nodup) (h : applyRule t rule = .ok (some times, t'))
    (hp : AllPositive t) : AllPositive t' :=
  apply_keeps_positive' t t' rule times hnd h hp

/-- the example of the property text: `2^10 3^10 4^5` becomes `2^6 3^2 4^9`, `times = 4`
    (finding F4 gave `2^14`) -/
example : applyRule exTape exRule = .ok (some 4, ⟨0, [], [⟨2, 6⟩, ⟨3, 2⟩, ⟨4, 9⟩]⟩) := by decide
example : (keys exRule).Nodup ∧ AllPositive exTape := by decide
/-- `apply_exact` and `apply_keeps_positive` instantiated on the example (hypotheses satisfiable) -/
example := apply_exact exTape ⟨0, [], [⟨2, 6⟩, ⟨3, 2⟩, ⟨4, 9⟩]⟩ exRule 4 (by decide) (by decide)
example : AllPositive ⟨0, [], [⟨2, 6⟩, ⟨3, 2⟩, ⟨4, 9⟩]⟩ :=
  apply_keeps_positive exTape _ exRule 4 (by decide) (by decide) (by decide)

/-- the hypothesis "distinct keys" cannot be dropped for an arbitrary association list (a
    `BTreeMap` always has it): with a repeated key both writes store the minimal result -/
example : applyRule ⟨0, [⟨1, 5⟩], []⟩ [((false, 0), .plus (-1)), ((false, 0), .plus (-2))]
    = .ok (some 2, ⟨0, [⟨1, 1⟩], []⟩) := by decide

/-! ### 5. `apply_rule`, not applied -/

/-- **apply_none_untouched.**  A rule that cannot be applied leaves the tape untouched. -/
theorem apply_none_untouched (t t' : Tape) (rule : Rule)
    (h : applyRule t rule = .ok (none, t')) : t' = t :=
  apply_none_untouched' t t' rule h

/-- **apply_none_cases.**  `None` has only two causes (counts of the tape being `u64`s):
    `count_apps` said `None`, or some non-decreasing block would leave the `u64` range. -/
theorem apply_none_cases (t t' : Tape) (rule : Rule) (hc : CountsInRange t)
    (h : applyRule t rule = .ok (none, t')) :
    countApps t rule = .ok none ∨
      ∃ times pos minRes, countApps t rule = .ok (some (times, pos, minRes)) ∧
        ∃ idx δ c, (idx, Op.plus δ) ∈ rule ∧ 0 ≤ δ ∧ t.getCount idx = .ok c ∧
          (countMax : Int) < c + δ * times :=
  apply_none_cases' t t' rule hc h

/-- **apply_none_iff.**  For a rule with distinct keys that all name blocks of the tape, the
    counts of the tape being `u64`s: `None` exactly in those two cases. -/
theorem apply_none_iff (t : Tape) (rule : Rule) (hr : ∀ idx ∈ keys rule, InRange t idx)
    (hnd : (keys rule).Nodup) (hc : CountsInRange t) :
    applyRule t rule = .ok (none, t) ↔
      countApps t rule = .ok none ∨
        ∃ times pos minRes, countApps t rule = .ok (some (times, pos, minRes)) ∧
          ∃ idx δ c, (idx, Op.plus δ) ∈ rule ∧ 0 ≤ δ ∧ t.getCount idx = .ok c ∧
            (countMax : Int) < c + δ * times :=
  apply_none_iff' t rule hr hnd hc

/-- **apply_succeeds.**  Conversely, when `count_apps` gives `times` and no non-decreasing block
    would leave the `u64` range, the rule is applied `times` times. -/
theorem apply_succeeds (t : Tape) (rule : Rule) (hr : ∀ idx ∈ keys rule, InRange t idx)
    (hnd : (keys rule).Nodup) (hc : CountsInRange t) (times : Nat) (pos : Index) (minRes : Nat)
    (hca : countApps t rule = .ok (some (times, pos, minRes)))
    (hfit : ∀ idx δ c, (idx, Op.plus δ) ∈ rule → 0 ≤ δ → t.getCount idx = .ok c →
      (c : Int) + δ * times ≤ countMax) :
    ∃ t', applyRule t rule = .ok (some times, t') :=
  apply_succeeds' t rule hr hnd hc times pos minRes hca hfit

example : applyRule ⟨0, [], [⟨2, 1⟩, ⟨3, 10⟩, ⟨4, 5⟩]⟩ exRule
    = .ok (none, ⟨0, [], [⟨2, 1⟩, ⟨3, 10⟩, ⟨4, 5⟩]⟩) := by decide
/-- `checked_add` overflow (regression case of finding F5): the tape is not touched -/
example : applyRule ⟨0, [], [⟨2, 10⟩, ⟨3, 10⟩, ⟨4, 2 ^ 64 - 3⟩]⟩ exRule
    = .ok (none, ⟨0, [], [⟨2, 10⟩, ⟨3, 10⟩, ⟨4, 2 ^ 64 - 3⟩]⟩) := by decide
example : (∀ idx ∈ keys exRule, InRange exTape idx) ∧ CountsInRange exTape := by decide

/-! ### 6. `apply_rule`, panics -/

/-- **apply_no_error.**  An additive rule with distinct keys that all name blocks of the tape is
    applied without panic (no `unimplemented!()`, no index out of bounds, no failed
    `assert!(plus < 0)`, no arithmetic overflow). -/
theorem apply_no_error (t : Tape) (rule : Rule) (hp : AllPlus rule)
    (hr : ∀ idx ∈ keys rule, InRange t idx) (hnd : (keys rule).Nodup) (e : PErr) :
    applyRule t rule ≠ .error e :=
  apply_no_error' t rule hp hr hnd e

/-- **apply_error_iff.**  Exactly when `apply_rule` panics, and with what (rule with distinct keys,
    counts of the tape `u64`s).  Either in `count_apps`: the first entry that is not stepped over
    (`Passes`: additive and non-decreasing, or decreasing with an existing block of more than `|δ|`
    cells) is a `Mult` op or a decreasing entry that names no block (`PanicsAt`) — if that first
    entry is a decreasing block with at most `|δ|` cells the answer is `None` instead.  Or
    `count_apps` succeeds with `times` and the loop computing the results reaches a non-decreasing
    entry that names no block before any non-decreasing block would leave the `u64` range.  There
    is no other panic: the `assert!`, the `div - 1` and the writes never fail. -/
theorem apply_error_iff (t : Tape) (rule : Rule) (hnd : (keys rule).Nodup)
    (hc : CountsInRange t) (e : PErr) :
    applyRule t rule = .error e ↔
      (∃ pre pos op post, rule = pre ++ (pos, op) :: post ∧ (∀ x ∈ pre, Passes t x) ∧
        PanicsAt t (pos, op) e) ∨
      (∃ times minPos minRes, countApps t rule = .ok (some (times, minPos, minRes)) ∧
        ∃ pre pos δ post, rule = pre ++ (pos, Op.plus δ) :: post ∧ 0 ≤ δ ∧ ¬ InRange t pos ∧
          e = .panic "index out of bounds" ∧
          ∀ idx δ', (idx, Op.plus δ') ∈ pre → 0 ≤ δ' →
            ∃ c, t.getCount idx = .ok c ∧ (c : Int) + δ' * times ≤ countMax) :=
  apply_error_iff' t rule hnd hc e

example : applyRule exTape [((true, 0), .plus (-1)), ((true, 1), .mult 2 1)]
    = .error (.panic "not implemented") := by decide
example : applyRule exTape [((true, 0), .plus (-1)), ((true, 7), .plus 1)]
    = .error (.panic "index out of bounds") := by decide
/-- without distinct keys the `assert!(plus < 0)` can fail (never for a `BTreeMap`) -/
example : applyRule exTape [((true, 0), .plus (-1)), ((true, 0), .plus 1)]
    = .error (.panic "assertion failed: plus < 0") := by decide

end BB.RuleArith
