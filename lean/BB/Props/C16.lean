/-
C16 — lazily compiled macro programs are history-independent.
Property theorems only; helper lemmas live in BB/Lemmas/MacroHist*.lean.

The definitions the statements use live (with doc comments) at the top of
BB/Lemmas/MacroHist.lean (`progFn`, `ColorsLt`, `progColorsLt`, `CacheInv`, `handedOut`,
`slotColor`, `ownLegal`, `slotLegal`, `legalSeq`, `answers`, `pureAnswers`, `Mono`, `Agree`,
`AnsLegal`, `HistIndep`, `MLS`, `MLC`, `MInv`, `Inv`), BB/Lemmas/MacroHistSeq.lean (`LegalRun`,
`mlsB`, `mlcB`, `slotLegal2`, `getInstrsTwo`, `slotsOf`, `pickAnswers`, `AnswersAre`) and
BB/Lemmas/MacroHistMain.lean (`freshMacro`, `pure1`, `pure2`, `fixOk`, `Inv2`).

Model: BB/Model/Macros.lean.  A macro object is a value `m : MacroProg σ`; `get_instr` is
`MacroProg.getInstr get m slot fixF3 : Res (Option Instr × MacroProg σ)` (answer and new state);
`getInstrs` runs a list of queries.  The stateless reference is `pureInstr` (`pure1 p lp fix` over a
base table `p`, `pure2` for a macro over a macro).

Side conditions that appear below, all decidable:
  * `0 < lp.baseColors`                      at least one base colour;
  * `progColorsLt p lp.baseColors`           the table prints only colours `< base_colors`
                                              (necessary: `get_instr_bigcolor_witness`);
  * `fixOk lp fixF3`                         block macro, or backsymbol macro with the repaired split
                                              index (necessary: `get_instr_history_dependent_F3_witness`);
  * `lpi.macroColors ≤ lpo.baseColors`       (nesting) the outer macro has at least the inner macro's
                                              colours (necessary: `get_instr_nested_base_params_witness`);
  * `legalSeq .. slotLegal m qs`             every queried slot looks up a colour that was handed out
                                              by this object before (or is 0) and, for the backsymbol
                                              macro, scans a base colour; otherwise the real code
                                              panics (`get_instr_not_handed_out_panics`).

Non-interference of two objects: in this model two macro objects are two VALUES; `getInstr` takes
one of them and returns its successor, so a query to one object cannot read or change the other —
there is nothing to prove, it is the shape of the model (the Rust objects own their `RefCell`s and
only share the immutable `&P`).  What is proved instead is `get_instr_two_objects`: running an
arbitrary interleaving of queries to two objects gives each object exactly the answers and the
final state it gets when run alone on its own queries.
-/
import BB.Lemmas.MacroHistTotal

namespace BB.Macros

/-! ## 1. The invariant -/

/-- **inv_init.** A freshly built macro object over the base table `p` satisfies `Inv`
    (memo empty; `color_to_tape = {0 ↦ blank}`; `tape_to_color` empty). -/
theorem inv_init (p : Prog) (kind : LogicKind) (cells : Nat) (params : Nat × Nat) (fixF3 : Bool)
    (hb : 0 < params.2) :
    Inv p ⟨kind, cells, params.1, params.2⟩ fixF3 (MacroProg.new p (Logic.new kind cells params)) :=
  inv_init' p ⟨kind, cells, params.1, params.2⟩ fixF3 hb

/-- `inv_init` for `make_block_macro` -/
theorem inv_init_block (p : Prog) (params : Nat × Nat) (blocks : Nat) (fixF3 : Bool)
    (hb : 0 < params.2) :
    Inv p ⟨.block, blocks, params.1, params.2⟩ fixF3 (makeBlockMacro p params blocks) :=
  inv_init' p ⟨.block, blocks, params.1, params.2⟩ fixF3 hb

/-- `inv_init` for `make_backsymbol_macro` -/
theorem inv_init_backsymbol (p : Prog) (params : Nat × Nat) (backsymbols : Nat) (fixF3 : Bool)
    (hb : 0 < params.2) :
    Inv p ⟨.backsymbol, backsymbols, params.1, params.2⟩ fixF3
      (makeBacksymbolMacro p params backsymbols) :=
  inv_init' p ⟨.backsymbol, backsymbols, params.1, params.2⟩ fixF3 hb

/-- **inv_step (block).** A legal `get_instr` of a block macro object that satisfies `Inv` and
    returns (does not panic): the new state satisfies `Inv`, the answer is `pureInstr` of the slot,
    no handed-out colour is forgotten, and the slot the answer leads to (state entered, colour
    printed) is legal in the new state.  Holds for the code as it is (`fixF3` arbitrary). -/
theorem inv_step_block (p : Prog) (lp : LogicParams) (fixF3 : Bool) (hk : lp.kind = .block)
    (hb : 0 < lp.baseColors) (hcol : progColorsLt p lp.baseColors = true)
    (m : MacroProg Prog) (hI : Inv p lp fixF3 m) (slot : Slot) (hl : slotLegal m slot = true)
    (a : Option Instr) (m' : MacroProg Prog)
    (hget : MacroProg.getInstr compGet m slot fixF3 = .ok (a, m')) :
    Inv p lp fixF3 m' ∧ pure1 p lp fixF3 slot = .ok a ∧
      (∀ c, handedOut m c = true → handedOut m' c = true) ∧
      (∀ pr sh nx, a = some (pr, sh, nx) → slotLegal m' (nx, pr) = true) :=
  inv_step' p lp fixF3 hb hcol (by simp only [fixOk, hk]) m hI slot hl a m' hget

/-- **inv_step (backsymbol), PARTIAL: only for the repaired split index `fixF3 = true`.**
    For `fixF3 = false` (the code as it is) the invariant is broken by the first left exit: a tape
    of length `cells - 1` enters the cache (`get_instr_history_dependent_F3_witness`). -/
theorem inv_step_backsymbol_fixF3_partial (p : Prog) (lp : LogicParams)
    (hk : lp.kind = .backsymbol)
    (hb : 0 < lp.baseColors) (hcol : progColorsLt p lp.baseColors = true)
    (m : MacroProg Prog) (hI : Inv p lp true m) (slot : Slot) (hl : slotLegal m slot = true)
    (a : Option Instr) (m' : MacroProg Prog)
    (hget : MacroProg.getInstr compGet m slot true = .ok (a, m')) :
    Inv p lp true m' ∧ pure1 p lp true slot = .ok a ∧
      (∀ c, handedOut m c = true → handedOut m' c = true) ∧
      (∀ pr sh nx, a = some (pr, sh, nx) → slotLegal m' (nx, pr) = true) :=
  inv_step' p lp true hb hcol (by simp only [fixOk, hk]) m hI slot hl a m' hget

/-! ## 2. Answers are a function of base program, parameters and slot -/

/-- **get_instr_pure (block).** For every base table, every block size, every sequence of queries
    to a fresh block macro object in which each queried colour was handed out before (or is 0):
    the list of answers — up to and including the first error, if any — is exactly what the
    stateless reference `pureInstr` gives slot by slot.  Hence no answer depends on the other
    queries, their order or their number. -/
theorem get_instr_pure_block (p : Prog) (params : Nat × Nat) (blocks : Nat) (fixF3 : Bool)
    (hb : 0 < params.2) (hcol : progColorsLt p params.2 = true) (qs : List Slot)
    (hl : legalSeq (macroGet compGet fixF3) slotLegal (makeBlockMacro p params blocks) qs = true) :
    answers (getInstrs (macroGet compGet fixF3) (makeBlockMacro p params blocks) qs) =
      pureAnswers (pure1 p ⟨.block, blocks, params.1, params.2⟩ fixF3) qs :=
  answers_of_agree (get_instr_pure' p ⟨.block, blocks, params.1, params.2⟩ fixF3 hb hcol rfl _
    (inv_init' p _ fixF3 hb) qs hl)

/- The full statement for the backsymbol macro (kept visible) is FALSE for the code as it is:

   theorem get_instr_pure_backsymbol (p) (params) (k) (hb) (hcol) (qs)
       (hl : legalSeq (macroGet compGet false) slotLegal (makeBacksymbolMacro p params k) qs = true) :
       answers (getInstrs (macroGet compGet false) (makeBacksymbolMacro p params k) qs) =
         pureAnswers (pure1 p ⟨.backsymbol, k, params.1, params.2⟩ false) qs

   see `get_instr_history_dependent_F3_witness`. -/

/-- **get_instr_pure (backsymbol), PARTIAL: for the repaired split index `fixF3 = true`.** -/
theorem get_instr_pure_backsymbol_fixF3_partial (p : Prog) (params : Nat × Nat) (backsymbols : Nat)
    (hb : 0 < params.2) (hcol : progColorsLt p params.2 = true) (qs : List Slot)
    (hl : legalSeq (macroGet compGet true) slotLegal
      (makeBacksymbolMacro p params backsymbols) qs = true) :
    answers (getInstrs (macroGet compGet true) (makeBacksymbolMacro p params backsymbols) qs) =
      pureAnswers (pure1 p ⟨.backsymbol, backsymbols, params.1, params.2⟩ true) qs :=
  answers_of_agree (get_instr_pure' p ⟨.backsymbol, backsymbols, params.1, params.2⟩ true hb hcol
    rfl _ (inv_init' p _ true hb) qs hl)

/-- **No error on legal sequences (block, size ≥ 1).** The run returns, the final state satisfies
    `Inv`, and every answer is the (error-free) `pureInstr` of its slot.  (With `blocks = 0` the
    window is empty and the real code underflows `cells - 1` for right-edge slots; that case is
    covered by `get_instr_pure_block`, where the reference errs in the same way.) -/
theorem get_instr_total_block (p : Prog) (params : Nat × Nat) (blocks : Nat) (fixF3 : Bool)
    (hb : 0 < params.2) (hcells : 0 < blocks) (hcol : progColorsLt p params.2 = true)
    (qs : List Slot)
    (hl : legalSeq (macroGet compGet fixF3) slotLegal (makeBlockMacro p params blocks) qs = true) :
    ∃ as m', getInstrs (macroGet compGet fixF3) (makeBlockMacro p params blocks) qs = .ok (as, m') ∧
      Inv p ⟨.block, blocks, params.1, params.2⟩ fixF3 m' ∧
      AnswersAre (pure1 p ⟨.block, blocks, params.1, params.2⟩ fixF3) qs as :=
  get_instr_total' p ⟨.block, blocks, params.1, params.2⟩ fixF3 hb hcol rfl hcells _
    (inv_init' p _ fixF3 hb) qs hl

/-- **No error on legal sequences (backsymbol), PARTIAL: `fixF3 = true`.** -/
theorem get_instr_total_backsymbol_fixF3_partial (p : Prog) (params : Nat × Nat)
    (backsymbols : Nat) (hb : 0 < params.2) (hcol : progColorsLt p params.2 = true)
    (qs : List Slot)
    (hl : legalSeq (macroGet compGet true) slotLegal
      (makeBacksymbolMacro p params backsymbols) qs = true) :
    ∃ as m', getInstrs (macroGet compGet true) (makeBacksymbolMacro p params backsymbols) qs =
        .ok (as, m') ∧
      Inv p ⟨.backsymbol, backsymbols, params.1, params.2⟩ true m' ∧
      AnswersAre (pure1 p ⟨.backsymbol, backsymbols, params.1, params.2⟩ true) qs as :=
  get_instr_total' p ⟨.backsymbol, backsymbols, params.1, params.2⟩ true hb hcol rfl
    (Nat.succ_pos _) _ (inv_init' p _ true hb) qs hl

/-- **The illegal case.** A slot whose looked-up colour (`slotColor`: the slot's colour for the
    block macro, the back-span component of the slot's state for the backsymbol macro) was never
    handed out by this object: `get_instr` panics (`color_to_tape_cache[&color]`, or division by
    zero when `base_colors = 0`).  Any inner program, any `fixF3`; `m` only has to satisfy the
    invariant (which says that memoised slots were legal). -/
theorem get_instr_not_handed_out_panics {σ : Type} (get : GetFn σ)
    (f : Slot → Res (Option Instr)) (lp : LogicParams) (fixF3 : Bool) (IInv : σ → Prop)
    (LS LC : σ → Nat → Prop) (m : MacroProg σ) (hI : MInv f lp fixF3 IInv LS LC m) (slot : Slot)
    (hl : ownLegal m slot = false) : MacroProg.getInstr get m slot fixF3 = .error .panic :=
  not_handed_out_panics get m hI slot hl

/-- **get_instr_order_irrelevant.** Two legal query sequences to two objects built from the same
    table and parameters (e.g. both fresh; block macro, or backsymbol macro with `fixF3 = true`),
    both returning: wherever the same slot `s` occurs — position `i` of the first, `j` of the
    second — the answers are the same, namely `pureInstr` of `s`. -/
theorem get_instr_order_irrelevant (p : Prog) (lp : LogicParams) (fixF3 : Bool)
    (hb : 0 < lp.baseColors) (hcol : progColorsLt p lp.baseColors = true)
    (hfix : fixOk lp fixF3 = true) (qs1 qs2 : List Slot)
    (hl1 : legalSeq (macroGet compGet fixF3) slotLegal (freshMacro p lp) qs1 = true)
    (hl2 : legalSeq (macroGet compGet fixF3) slotLegal (freshMacro p lp) qs2 = true)
    (as1 as2 : List (Option Instr)) (m1 m2 : MacroProg Prog)
    (h1 : getInstrs (macroGet compGet fixF3) (freshMacro p lp) qs1 = .ok (as1, m1))
    (h2 : getInstrs (macroGet compGet fixF3) (freshMacro p lp) qs2 = .ok (as2, m2))
    (i j : Nat) (s : Slot) (hi : qs1[i]? = some s) (hj : qs2[j]? = some s) :
    ∃ a, as1[i]? = some a ∧ as2[j]? = some a ∧ pure1 p lp fixF3 s = .ok a :=
  get_instr_order_irrelevant' p lp fixF3 hb hcol hfix _ _ (inv_init' p lp fixF3 hb)
    (inv_init' p lp fixF3 hb) qs1 qs2 hl1 hl2 as1 as2 m1 m2 h1 h2 i j s hi hj

/-- **get_instr_repeat.** In one legal returning query sequence, two positions that query the
    same slot get the same answer. -/
theorem get_instr_repeat (p : Prog) (lp : LogicParams) (fixF3 : Bool)
    (hb : 0 < lp.baseColors) (hcol : progColorsLt p lp.baseColors = true)
    (hfix : fixOk lp fixF3 = true) (qs : List Slot)
    (hl : legalSeq (macroGet compGet fixF3) slotLegal (freshMacro p lp) qs = true)
    (as : List (Option Instr)) (m' : MacroProg Prog)
    (h : getInstrs (macroGet compGet fixF3) (freshMacro p lp) qs = .ok (as, m'))
    (i j : Nat) (s : Slot) (hi : qs[i]? = some s) (hj : qs[j]? = some s) :
    ∃ a, as[i]? = some a ∧ as[j]? = some a :=
  let ⟨a, h1, h2, _⟩ := get_instr_order_irrelevant' p lp fixF3 hb hcol hfix _ _
    (inv_init' p lp fixF3 hb) (inv_init' p lp fixF3 hb) qs qs hl hl as as m' m' h h i j s hi hj
  ⟨a, h1, h2⟩

/-! ### Witnesses -/

/-- `1RB 1LB  1LA 0RA` -/
def progF3 : Prog :=
  [((0, 0), (1, true, 1)), ((0, 1), (1, false, 1)), ((1, 0), (1, false, 0)), ((1, 1), (0, true, 0))]

/-- **F3: the backsymbol macro of the code as it is (`fixF3 = false`) is history-dependent.**
    `1RB 1LB  1LA 0RA`, parameters (2, 2), one backsymbol cell: slot `(1, 0)` is answered
    `(1, R, 5)` by a fresh object but `(1, L, 4)` after slot `(0, 1)` was queried; both sequences
    are legal.  (Confirmed on the real code.) -/
theorem get_instr_history_dependent_F3_witness :
    legalSeq (macroGet compGet false) slotLegal (makeBacksymbolMacro progF3 (2, 2) 1)
      [(0, 1), (1, 0)] = true ∧
    legalSeq (macroGet compGet false) slotLegal (makeBacksymbolMacro progF3 (2, 2) 1) [(1, 0)] = true ∧
    progColorsLt progF3 2 = true ∧
    answers (getInstrs (macroGet compGet false) (makeBacksymbolMacro progF3 (2, 2) 1)
      [(0, 1), (1, 0)]) = .ok [some (1, true, 1), some (1, false, 4)] ∧
    answers (getInstrs (macroGet compGet false) (makeBacksymbolMacro progF3 (2, 2) 1) [(1, 0)]) =
      .ok [some (1, true, 5)] := by decide

/-- `0RA 2RA  1LA ...` read with 2 colours: the table prints colour 2 -/
def progBig : Prog := [((0, 0), (0, true, 0)), ((0, 1), (2, true, 0)), ((1, 0), (1, false, 0))]

/-- **`progColorsLt` is necessary.** The table `0RA 2RA  1LA ...` with `params = (2, 2)` (it prints
    colour 2), block size 2: slots `(2, 0)` and `(3, 0)` produce the blocks `[1, 0]` and `[0, 2]`,
    both of positional value 2; macro colour 2 means whichever was produced last, so the answer to
    slot `(0, 2)` (`none` or `(4, R, 0)`) depends on the order of the two earlier queries.  Both
    sequences are legal.  (The real code accepts such `params`: they are passed by the caller.) -/
theorem get_instr_bigcolor_witness :
    progColorsLt progBig 2 = false ∧
    legalSeq (macroGet compGet false) slotLegal (makeBlockMacro progBig (2, 2) 2)
      [(2, 0), (3, 0), (0, 2)] = true ∧
    legalSeq (macroGet compGet false) slotLegal (makeBlockMacro progBig (2, 2) 2)
      [(3, 0), (2, 0), (0, 2)] = true ∧
    answers (getInstrs (macroGet compGet false) (makeBlockMacro progBig (2, 2) 2)
      [(2, 0), (3, 0), (0, 2)]) = .ok [some (2, false, 1), some (2, true, 0), none] ∧
    answers (getInstrs (macroGet compGet false) (makeBlockMacro progBig (2, 2) 2)
      [(3, 0), (2, 0), (0, 2)]) = .ok [some (2, true, 0), some (2, false, 1), some (4, true, 0)] := by
  decide

/-! ## 3. Colours decode to the cells that produced them -/

/-- `encode (decode c) = c` for `c < base ^ cells` -/
theorem encode_decode (base cells c : Nat) (hc : c < base ^ cells) :
    encode base (decode base cells c) = c :=
  encode_decode' base cells c hc

/-- `decode (encode t) = t` for tapes with entries `< base` -/
theorem decode_encode (base : Nat) (t : MTape) (ht : ∀ x ∈ t, x < base) :
    decode base t.length (encode base t) = t :=
  decode_encode' base t ht

/-- the colour of an in-range tape is `< base ^ length` -/
theorem encode_lt (base : Nat) (t : MTape) (ht : ∀ x ∈ t, x < base) :
    encode base t < base ^ t.length :=
  encode_lt' base t ht

/-- **handed_out_decodes.** In every state satisfying `Inv`, a handed-out colour `c` is cached
    with a tape `t` (so `color_to_tape c` does not panic) of length `cells` with entries
    `< base_colors`; `t` is the positional decoding of `c`, `c` is the positional value of `t`,
    `c < base_colors ^ cells`, and (unless `c = 0`, whose entry is the initial one) `tape_to_color t`
    is a cache hit returning `c`.  By `inv_step_*`, the colour in an answer IS the positional value
    of the tape the simulator produced (`pureReconstructOutputs`), and is handed out. -/
theorem handed_out_decodes (p : Prog) (lp : LogicParams) (fixF3 : Bool) (m : MacroProg Prog)
    (hI : Inv p lp fixF3 m) (c : Nat) (hc : handedOut m c = true) :
    ∃ t, m.logic.converter.colorToTape c = .ok t ∧ t = decode lp.baseColors lp.cells c ∧
      encode lp.baseColors t = c ∧ c < lp.baseColors ^ lp.cells ∧ t.length = lp.cells ∧
      (∀ x ∈ t, x < lp.baseColors) ∧
      (c ≠ 0 → (m.logic.converter.tapeToColor t) = (c, m.logic.converter)) :=
  handed_out_decodes' p lp fixF3 m hI c hc

/-! ## 4. Nesting -/

/-- **Lifting one level.** If the inner stateful program `get` is history-independent with stateless
    answers `f` (in the sense of `HistIndep`: invariant `IInv`, legal states `LS`, legal colours
    `LC`), its legal colours are `< lp.baseColors`, and the macro is a block macro or has the
    repaired split, then the macro object over it is history-independent with stateless answers
    `pureInstr f lp fixF3`, invariant `MInv ..`, legal states `MLS LS` and legal colours `MLC LC`.
    Iterating this gives `pureChain`-style references for every nesting depth. -/
theorem macro_histIndep_lift {σ : Type} (get : GetFn σ) (f : Slot → Res (Option Instr))
    (IInv : σ → Prop) (LS LC : σ → Nat → Prop) (lp : LogicParams) (fixF3 : Bool)
    (H : HistIndep get f IInv LS LC)
    (hbound : ∀ st c, IInv st → LC st c → c < lp.baseColors) (hb : 0 < lp.baseColors)
    (hfix : fixOk lp fixF3 = true) :
    HistIndep (macroGet get fixF3) (pureInstr f lp fixF3) (MInv f lp fixF3 IInv LS LC)
      (MLS LS) (MLC LC) ∧
    (∀ m c, MInv f lp fixF3 IInv LS LC m → MLC LC m c → c < lp.macroColors) :=
  ⟨macro_histIndep H hbound hb (fixOk_imp hfix), fun m c hI hc => macro_bound hbound m c hI hc⟩

/-- a base table is history-independent (the base case of the lifting) -/
theorem base_histIndep (p : Prog) (base : Nat) (hb : 0 < base)
    (hcol : progColorsLt p base = true) :
    HistIndep compGet (progFn p) (fun st => st = p) TrueLeg (LtLeg base) :=
  histIndep_comp p base hb (progColorsLt_sound p base hcol)

/-- **A macro over any inner program whose answers do not depend on its state** (`hpure`: in every
    state `st` the answer to `s` is `f s`, errors included, with some new state): legal query
    sequences to a fresh macro object are answered as `pureInstr f lp` answers them. -/
theorem get_instr_pure_stateless_inner {σ : Type} (get : GetFn σ) (f : Slot → Res (Option Instr))
    (hpure : ∀ st s, Agree (get st s) (pureGet f () s) (fun _ _ => True))
    (lp : LogicParams) (fixF3 : Bool) (hb : 0 < lp.baseColors) (hcol : ColorsLt f lp.baseColors)
    (hfix : fixOk lp fixF3 = true) (st0 : σ) (qs : List Slot)
    (hl : legalSeq (macroGet get fixF3) slotLegal (freshMacro st0 lp) qs = true) :
    answers (getInstrs (macroGet get fixF3) (freshMacro st0 lp) qs) =
      pureAnswers (pureInstr f lp fixF3) qs :=
  answers_of_agree (get_instr_pure_stateless' get f hpure lp fixF3 hb hcol hfix st0 qs hl)

/-- **Macro over macro over a base table.** Inner parameters `lpi`, outer parameters `lpo` with
    `lpi.macroColors ≤ lpo.baseColors` (true when the outer macro is built with the inner macro's
    `params()`); each level a block macro or repaired backsymbol macro.  Legal (`slotLegal2`) query
    sequences to the fresh nested object are answered as the two-level stateless reference
    `pure2` answers them, errors included. -/
theorem get_instr_pure_nested (p : Prog) (lpi lpo : LogicParams) (fixF3 : Bool)
    (hbi : 0 < lpi.baseColors) (hcol : progColorsLt p lpi.baseColors = true)
    (hle : lpi.macroColors ≤ lpo.baseColors)
    (hfixi : fixOk lpi fixF3 = true) (hfixo : fixOk lpo fixF3 = true) (qs : List Slot)
    (hl : legalSeq (macroGet (macroGet compGet fixF3) fixF3) slotLegal2
      (freshMacro (freshMacro p lpi) lpo) qs = true) :
    answers (getInstrs (macroGet (macroGet compGet fixF3) fixF3)
      (freshMacro (freshMacro p lpi) lpo) qs) = pureAnswers (pure2 p lpi lpo fixF3) qs :=
  answers_of_agree (get_instr_pure_nested' p lpi lpo fixF3 hbi hcol hle hfixi hfixo _
    (inv2_init p lpi lpo fixF3 hbi hcol hle hfixi) qs hl)

/-- `0RA ...  1RA ...` -/
def progNest : Prog := [((0, 0), (0, true, 0)), ((1, 0), (1, true, 0))]

/-- **`lpi.macroColors ≤ lpo.baseColors` is necessary: nesting with the BASE params at both levels
    (as the repository's tests and `machine.rs` do) is history-dependent.**  `0RA ...  1RA ...`,
    block macro of size 2 over block macro of size 2, both built with `params = (2, 2)`: the inner
    macro has 4 colours, the outer one encodes blocks of them in base 2, so different blocks get
    the same outer colour.  Slot `(1, 2)` is answered `(2, R, 0)` or `none` depending on the order
    of the two earlier queries `(5, 0)`, `(6, 0)`; both sequences are legal (`slotLegal2`).  Holds
    for `fixF3 = false` and `true` alike (no backsymbol macro involved).  (Confirmed on the real
    code.) -/
theorem get_instr_nested_base_params_witness :
    legalSeq (macroGet (macroGet compGet false) false) slotLegal2
      (makeBlockMacro (makeBlockMacro progNest (2, 2) 2) (2, 2) 2) [(5, 0), (6, 0), (1, 2)] = true ∧
    legalSeq (macroGet (macroGet compGet false) false) slotLegal2
      (makeBlockMacro (makeBlockMacro progNest (2, 2) 2) (2, 2) 2) [(6, 0), (5, 0), (1, 2)] = true ∧
    progColorsLt progNest 2 = true ∧
    answers (getInstrs (macroGet (macroGet compGet false) false)
      (makeBlockMacro (makeBlockMacro progNest (2, 2) 2) (2, 2) 2) [(5, 0), (6, 0), (1, 2)]) =
      .ok [some (2, true, 0), some (2, true, 0), some (2, true, 0)] ∧
    answers (getInstrs (macroGet (macroGet compGet false) false)
      (makeBlockMacro (makeBlockMacro progNest (2, 2) 2) (2, 2) 2) [(6, 0), (5, 0), (1, 2)]) =
      .ok [some (2, true, 0), some (2, true, 0), none] := by decide

/-- `pureChain` (every level built with the BASE params, as the repository's tests do) is `pure1`
    / `pure2` with those parameters -/
theorem pureChain_eq (p : Prog) (params : Nat × Nat) (fixF3 : Bool) (k1 k2 : LogicKind)
    (c1 c2 : Nat) :
    pureChain p params fixF3 [(k1, c1)] = pure1 p ⟨k1, c1, params.1, params.2⟩ fixF3 ∧
    pureChain p params fixF3 [(k2, c2), (k1, c1)] =
      pure2 p ⟨k1, c1, params.1, params.2⟩ ⟨k2, c2, params.1, params.2⟩ fixF3 :=
  ⟨rfl, rfl⟩

/-! ## 5. Two objects -/

/-- **get_instr_two_objects.** Any interleaving `qs` of queries to two stateful programs (tag
    `false` = first, `true` = second), e.g. two macro objects over the same base table: the
    interleaved run returns iff both runs alone return, and then each program gave exactly the
    answers, and ends in exactly the state, of its run alone on its own slots. -/
theorem get_instr_two_objects {σ τ : Type} (g1 : GetFn σ) (g2 : GetFn τ) (a : σ) (b : τ)
    (qs : List (Bool × Slot)) :
    (∀ as a' b', getInstrsTwo g1 g2 (a, b) qs = .ok (as, (a', b')) →
      getInstrs g1 a (slotsOf false qs) = .ok (pickAnswers false qs as, a') ∧
      getInstrs g2 b (slotsOf true qs) = .ok (pickAnswers true qs as, b')) ∧
    (∀ as1 as2 a' b', getInstrs g1 a (slotsOf false qs) = .ok (as1, a') →
      getInstrs g2 b (slotsOf true qs) = .ok (as2, b') →
      ∃ as, getInstrsTwo g1 g2 (a, b) qs = .ok (as, (a', b'))) :=
  ⟨fun as a' b' h => getInstrsTwo_ok g1 g2 qs a b as a' b' h,
   fun as1 as2 a' b' h1 h2 => getInstrsTwo_of_alone g1 g2 qs a b as1 as2 a' b' h1 h2⟩

/-- **Two macro objects over one base table, interleaved.** If the queries addressed to each object
    are legal for it (alone), every answer of the interleaved run is `pureInstr` of its slot with
    the parameters of the object it was addressed to. -/
theorem get_instr_two_objects_pure (p : Prog) (lp1 lp2 : LogicParams) (fixF3 : Bool)
    (hb1 : 0 < lp1.baseColors) (hb2 : 0 < lp2.baseColors)
    (hcol1 : progColorsLt p lp1.baseColors = true) (hcol2 : progColorsLt p lp2.baseColors = true)
    (hfix1 : fixOk lp1 fixF3 = true) (hfix2 : fixOk lp2 fixF3 = true)
    (qs : List (Bool × Slot))
    (hl1 : legalSeq (macroGet compGet fixF3) slotLegal (freshMacro p lp1) (slotsOf false qs) = true)
    (hl2 : legalSeq (macroGet compGet fixF3) slotLegal (freshMacro p lp2) (slotsOf true qs) = true)
    (as : List (Option Instr)) (m1 m2 : MacroProg Prog)
    (hrun : getInstrsTwo (macroGet compGet fixF3) (macroGet compGet fixF3)
      (freshMacro p lp1, freshMacro p lp2) qs = .ok (as, (m1, m2))) :
    AnswersAre (pure1 p lp1 fixF3) (slotsOf false qs) (pickAnswers false qs as) ∧
    AnswersAre (pure1 p lp2 fixF3) (slotsOf true qs) (pickAnswers true qs as) :=
  get_instr_two_objects_pure' p lp1 lp2 fixF3 hb1 hb2 hcol1 hcol2 hfix1 hfix2 qs hl1 hl2 as m1 m2
    hrun

/-! ## Non-vacuity: the hypotheses of each theorem hold on a concrete non-trivial input

`progF3 = 1RB 1LB  1LA 0RA`. -/

/-- query sequences used below: repetitions, and slots whose colour (3) / state (10, 15) were
    handed out by earlier answers -/
def qsBlock : List Slot := [(0, 0), (1, 0), (2, 0), (3, 0), (3, 3), (0, 3), (3, 3), (0, 0)]
def qsBack : List Slot := [(0, 0), (1, 0), (0, 1), (1, 1), (10, 0), (15, 1), (0, 0)]

-- inv_init, inv_init_block, inv_init_backsymbol: `0 < params.2`
example : (0 : Nat) < ((2, 2) : Nat × Nat).2 := by decide

-- inv_step_block
example : progColorsLt progF3 2 = true ∧
    slotLegal (makeBlockMacro progF3 (2, 2) 2) (1, 0) = true ∧
    ∃ a m', MacroProg.getInstr compGet (makeBlockMacro progF3 (2, 2) 2) (1, 0) false = .ok (a, m') :=
  ⟨by decide, by decide, _, _, rfl⟩

-- inv_step_backsymbol_fixF3_partial
example : slotLegal (makeBacksymbolMacro progF3 (2, 2) 2) (1, 1) = true ∧
    ∃ a m', MacroProg.getInstr compGet (makeBacksymbolMacro progF3 (2, 2) 2) (1, 1) true =
      .ok (a, m') :=
  ⟨by decide, _, _, rfl⟩

-- get_instr_pure_block, get_instr_total_block
example : progColorsLt progF3 2 = true ∧
    legalSeq (macroGet compGet false) slotLegal (makeBlockMacro progF3 (2, 2) 2) qsBlock = true := by
  decide

-- get_instr_pure_backsymbol_fixF3_partial, get_instr_total_backsymbol_fixF3_partial
example : legalSeq (macroGet compGet true) slotLegal (makeBacksymbolMacro progF3 (2, 2) 2) qsBack =
    true := by decide

-- get_instr_not_handed_out_panics (the fresh object satisfies the invariant by `inv_init_block`)
example : ownLegal (makeBlockMacro progF3 (2, 2) 2) (0, 3) = false := by decide

-- get_instr_order_irrelevant: the same two slots in both orders
example :
    legalSeq (macroGet compGet false) slotLegal (freshMacro progF3 ⟨.block, 2, 2, 2⟩)
      [(0, 0), (3, 0), (0, 3)] = true ∧
    legalSeq (macroGet compGet false) slotLegal (freshMacro progF3 ⟨.block, 2, 2, 2⟩)
      [(3, 0), (0, 0), (0, 3)] = true ∧
    (∃ as m, getInstrs (macroGet compGet false) (freshMacro progF3 ⟨.block, 2, 2, 2⟩)
      [(0, 0), (3, 0), (0, 3)] = .ok (as, m)) ∧
    (∃ as m, getInstrs (macroGet compGet false) (freshMacro progF3 ⟨.block, 2, 2, 2⟩)
      [(3, 0), (0, 0), (0, 3)] = .ok (as, m)) ∧
    ([(0, 0), (3, 0), (0, 3)] : List Slot)[2]? = some (0, 3) ∧
    ([(3, 0), (0, 0), (0, 3)] : List Slot)[2]? = some (0, 3) :=
  ⟨by decide, by decide, ⟨_, _, rfl⟩, ⟨_, _, rfl⟩, rfl, rfl⟩

-- get_instr_repeat: `qsBlock` queries `(3, 3)` at positions 4 and 6
example : qsBlock[4]? = some (3, 3) ∧ qsBlock[6]? = some (3, 3) ∧
    ∃ as m, getInstrs (macroGet compGet false) (freshMacro progF3 ⟨.block, 2, 2, 2⟩) qsBlock =
      .ok (as, m) :=
  ⟨rfl, rfl, _, _, rfl⟩

-- handed_out_decodes: colour 3 after the first query
example : ∃ a m', MacroProg.getInstr compGet (makeBlockMacro progF3 (2, 2) 2) (0, 0) false =
    .ok (a, m') ∧ handedOut m' 3 = true :=
  ⟨_, _, rfl, by decide⟩

-- macro_histIndep_lift: its hypotheses are the conclusion of `base_histIndep`
example : HistIndep compGet (progFn progF3) (fun st => st = progF3) TrueLeg (LtLeg 2) ∧
    (∀ (st : Prog) (c : Nat), st = progF3 → LtLeg 2 st c → c < 2) :=
  ⟨base_histIndep progF3 2 (by decide) (by decide), fun _ _ _ h => h⟩

-- get_instr_pure_stateless_inner: the inner program is the table wrapped as a `GetFn Unit`
example : (∀ (st : Unit) s, Agree (pureGet (progFn progF3) st s) (pureGet (progFn progF3) () s)
      (fun _ _ => True)) ∧
    ColorsLt (progFn progF3) 2 ∧
    legalSeq (macroGet (pureGet (progFn progF3)) false) slotLegal
      (freshMacro () ⟨.block, 2, 2, 2⟩) qsBlock = true :=
  ⟨fun _ _ => ⟨(), rfl, trivial⟩, progColorsLt_sound _ _ (by decide), by decide⟩

-- get_instr_pure_nested: block-of-block and backsymbol-of-block, outer built with the inner params
example : (⟨.block, 2, 2, 2⟩ : LogicParams).macroColors ≤ (⟨.block, 2, 4, 4⟩ : LogicParams).baseColors ∧
    legalSeq (macroGet (macroGet compGet true) true) slotLegal2
      (freshMacro (freshMacro progF3 ⟨.block, 2, 2, 2⟩) ⟨.block, 2, 4, 4⟩)
      [(0, 0), (1, 0), (2, 0), (3, 0), (0, 12), (0, 0)] = true ∧
    legalSeq (macroGet (macroGet compGet true) true) slotLegal2
      (freshMacro (freshMacro progF3 ⟨.block, 2, 2, 2⟩) ⟨.backsymbol, 1, 4, 4⟩)
      [(0, 0), (1, 0), (31, 3), (0, 0)] = true := by
  decide

-- get_instr_two_objects, get_instr_two_objects_pure: a block and a backsymbol macro, interleaved
example :
    legalSeq (macroGet compGet true) slotLegal (freshMacro progF3 ⟨.block, 2, 2, 2⟩)
      (slotsOf false [(false, (0, 0)), (true, (0, 0)), (true, (1, 1)), (false, (0, 3))]) = true ∧
    legalSeq (macroGet compGet true) slotLegal (freshMacro progF3 ⟨.backsymbol, 2, 2, 2⟩)
      (slotsOf true [(false, (0, 0)), (true, (0, 0)), (true, (1, 1)), (false, (0, 3))]) = true ∧
    ∃ as m1 m2, getInstrsTwo (macroGet compGet true) (macroGet compGet true)
      (freshMacro progF3 ⟨.block, 2, 2, 2⟩, freshMacro progF3 ⟨.backsymbol, 2, 2, 2⟩)
      [(false, (0, 0)), (true, (0, 0)), (true, (1, 1)), (false, (0, 3))] = .ok (as, (m1, m2)) :=
  ⟨by decide, by decide, _, _, _, rfl⟩

end BB.Macros
