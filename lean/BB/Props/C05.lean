/-
C05 — segment analysis verdicts are true of the real machine.
Property theorems only; helper lemmas live in BB/Lemmas/SegSound*.lean.
(The definitions `Span.unroll`, `Config.toCfg`, `ExactAt`, `InitExact`, `paramsCover` used by the
statements live at the top of BB/Lemmas/SegSound1.lean; `CfgOK`, `TodoOK` in SegSound5.lean;
`RefutedClaim` in SegSound22.lean.)
-/
import BB.Lemmas.SegSound22

namespace BB.Segment

open BB

/-! ### Positive verdicts

The four theorems hold for every program (any association list), every explicit `params`, every
segment limit and every goal: the verdicts `halt`, `spinout`, `repeat` can be returned whatever the
goal is (an exact configuration that halts / spins out / repeats ends the search). -/

/-- **seg_halt_true.** If the segment analysis (any goal) answers that the machine halts, the real
    machine, started on the blank tape, reaches an undefined instruction. -/
theorem seg_halt_true (prog : Prog) (params : Nat × Nat) (segs : Nat) (goal : Term)
    (h : segmentCantReach prog params segs goal = .ok .halt) : Halts prog.toF :=
  seg_halt_true' prog params segs goal h

/-- **seg_blank_true.** If the analysis answers `blank`, the real machine's tape is all blank after
    some `n ≥ 1` steps. -/
theorem seg_blank_true (prog : Prog) (params : Nat × Nat) (segs : Nat) (goal : Term)
    (h : segmentCantReach prog params segs goal = .ok .blank) :
    ∃ n q, BlankAfter prog.toF n q :=
  seg_blank_true' prog params segs goal h

/-- **seg_spinout_true.** If the analysis answers `spinout`, the real machine reaches a spin-out
    configuration. -/
theorem seg_spinout_true (prog : Prog) (params : Nat × Nat) (segs : Nat) (goal : Term)
    (h : segmentCantReach prog params segs goal = .ok .spinout) : SpinsOut prog.toF :=
  seg_spinout_true' prog params segs goal h

/-- **seg_repeat_forever.** If the analysis answers `repeat`, the real machine runs forever without
    halting. -/
theorem seg_repeat_forever (prog : Prog) (params : Nat × Nat) (segs : Nat) (goal : Term)
    (h : segmentCantReach prog params segs goal = .ok .repeat) : NeverHalts prog.toF :=
  seg_repeat_forever' prog params segs goal h

/-- **init_exact.** The invariant behind the four theorems, on one iteration of the search loop
    (`searchStep` = one `while let` iteration of `all_segments_reached`): if the configuration taken
    from the stack and every pending configuration are well formed and satisfy `InitExact` — a set
    `init` flag means: cell for cell inside the window, blank outside, the configuration of the real
    machine after some number of steps — then so does every pending configuration afterwards.
    (Initially the stack is empty, and the initial configurations satisfy it at time 0.) -/
theorem init_exact (ap : AnalyzedProg) (goal : Term) (fuel : Nat) (config : Config)
    (configs configs' : Configs) (hok : CfgOK ap.prog config) (hc : TodoOK ap.prog configs)
    (h : searchStep ap goal fuel config configs = .ok (.cont configs')) : TodoOK ap.prog configs' :=
  init_exact' ap goal fuel config configs configs' hok hc h

/-! ### Non-vacuity: each verdict occurs -/

/-- `1RB ...  1LA ...` -/
def progHalt : Prog := [((0,0),(1,true,1)), ((1,0),(1,false,0))]
/-- `1RB ...  0RB ...` -/
def progSpin : Prog := [((0,0),(1,true,1)), ((1,0),(0,true,1))]
/-- `1LB 0LA  0RA ...` -/
def progBlank : Prog := [((0,0),(1,false,1)), ((0,1),(0,false,0)), ((1,0),(0,true,0))]
/-- `1RB 1LB  1LB 1RA` -/
def progRepeat : Prog :=
  [((0,0),(1,true,1)), ((0,1),(1,false,1)), ((1,0),(1,false,1)), ((1,1),(1,true,0))]

set_option maxRecDepth 100000 in
example : segCantHalt progHalt (2, 2) 2 = .ok .halt := by decide
set_option maxRecDepth 100000 in
example : segCantSpinOut progSpin (2, 2) 2 = .ok .spinout := by decide
set_option maxRecDepth 100000 in
example : segCantBlank progBlank (2, 2) 2 = .ok .blank := by decide
set_option maxRecDepth 100000 in
example : segCantSpinOut progRepeat (2, 2) 2 = .ok .repeat := by decide

/-! ### Soundness of `refuted`

Hypothesis `paramsCover prog params` (decidable, BB/Lemmas/SegSound1.lean): `params` has at least
state 0 and colour 0, and every state / colour occurring in a key *or inside an instruction* of
the program is below `params`.  No bound on `segs`; the program is any association list. -/

/-- **seg_refuted_sound (halt).** If the segment analysis with explicit, covering `params` answers
    `refuted` for the goal halt, the real machine never reaches an undefined instruction. -/
theorem seg_refuted_sound_halt (prog : Prog) (params : Nat × Nat) (segs k : Nat)
    (hpc : paramsCover prog params = true)
    (h : segCantHalt prog params segs = .ok (.refuted k)) : ¬ Halts prog.toF :=
  seg_refuted_halt' prog params segs k hpc h

/-- **seg_refuted_sound (spin-out).** If the analysis with covering `params` answers `refuted` for
    the goal spin-out, the real machine never reaches a spin-out configuration. -/
theorem seg_refuted_sound_spinout (prog : Prog) (params : Nat × Nat) (segs k : Nat)
    (hpc : paramsCover prog params = true)
    (h : segCantSpinOut prog params segs = .ok (.refuted k)) : ¬ SpinsOut prog.toF :=
  seg_refuted_spinout' prog params segs k hpc h

/-- **seg_blank_never_refuted.** For the goal blank the analysis *never* answers `refuted` — for
    any program, any `params`, any limit.  (The initial positions are tried in order; position
    `seg - 1` can only enter `blanks[0]` when it is tried itself, and at that moment all `seg`
    positions are in the union of the `blanks` sets, so `check_reached_blank` answers `reached`
    and the next segment size is tried, until a positive verdict or a limit.)  So a refutation of
    "blank" by this analysis is vacuously sound, and the analysis cannot refute blanking. -/
theorem seg_blank_never_refuted (prog : Prog) (params : Nat × Nat) (segs k : Nat) :
    segCantBlank prog params segs ≠ .ok (.refuted k) :=
  seg_blank_never_refuted' prog params segs k

/-- **seg_refuted_sound (blank).** Held to the erase event as the design requires; true because the
    hypothesis never holds (`seg_blank_never_refuted`), hence no `example` for it. -/
theorem seg_refuted_sound_blank (prog : Prog) (params : Nat × Nat) (segs k : Nat)
    (h : segCantBlank prog params segs = .ok (.refuted k)) : ¬ ∃ n, ErasesAt prog.toF n :=
  absurd h (seg_blank_never_refuted' prog params segs k)

/-- **seg_refuted_sound**, all goals at once: `RefutedClaim p goal` is `¬ Halts p`,
    `¬ ∃ n, ErasesAt p n`, `¬ SpinsOut p` for the goals halt, blank, spin-out. -/
theorem seg_refuted_sound (prog : Prog) (params : Nat × Nat) (segs k : Nat) (goal : Term)
    (hpc : paramsCover prog params = true)
    (h : segmentCantReach prog params segs goal = .ok (.refuted k)) :
    RefutedClaim prog.toF goal :=
  seg_refuted_sound' prog params segs k goal hpc h

/-- **The repaired wrapper is sound.** With `fixF2 = true` the string wrapper's parameters cover the
    program (`paramsCover_fix`), so its `refuted` needs no hypothesis at all. -/
theorem py_segment_fixed_sound (prog : Prog) (segs k : Nat) (goal : Term)
    (h : pySegmentCantReach prog segs goal true = .ok (.refuted k)) :
    RefutedClaim prog.toF goal :=
  py_segment_fixed_sound' prog segs k goal h

/-- `0LB ...  1LA 0RB`: the halting slot `A1` is never reached -/
def progNoHalt : Prog := [((0,0),(0,false,1)), ((1,0),(1,false,0)), ((1,1),(0,true,1))]
/-- `1LB 0LA  1RB 1LB` -/
def progNoSpin : Prog :=
  [((0,0),(1,false,1)), ((0,1),(0,false,0)), ((1,0),(1,true,1)), ((1,1),(1,false,1))]

set_option maxRecDepth 100000 in
example : paramsCover progNoHalt (2, 2) = true ∧
    segCantHalt progNoHalt (2, 2) 3 = .ok (.refuted 2) := by decide
set_option maxRecDepth 100000 in
example : paramsCover progNoSpin (2, 2) = true ∧
    segCantSpinOut progNoSpin (2, 2) 3 = .ok (.refuted 3) := by decide

/-- why `paramsCover` asks for at least one state and one colour: with the empty table size the
    analysis finds no halting slot although the (empty) program halts at once -/
theorem seg_refuted_needs_positive_params :
    segCantHalt [] (0, 0) 2 = .ok (.refuted 0) ∧ HaltsAt (Prog.toF []) 0 0 0 :=
  ⟨by decide, ⟨Cfg.init, rfl, rfl, rfl, rfl⟩⟩

/-! ### Witness for finding F2: the string wrapper's table size -/

/-- **F2 witness.** For `1RB ...  1LA ...` the unrepaired wrapper derives `params = (2, 1)` from the
    defined keys only — colour 1, which the program prints, is not covered — finds no halting slot
    and answers `refuted 0`, although the machine halts after 2 steps (in state A on colour 1).
    With `fixF2` the answer is `halt`. -/
theorem seg_cant_halt_F2_witness :
    paramsCover progHalt (getCompParams progHalt) = false ∧
    pySegmentCantReach progHalt 2 .halt = .ok (.refuted 0) ∧ HaltsAt progHalt.toF 2 0 1 ∧
    pySegmentCantReach progHalt 2 .halt true = .ok .halt := by
  refine ⟨by decide, by decide, ⟨⟨0, [], 1, [1]⟩, ?_, rfl, rfl, by decide⟩, ?_⟩
  · unfold RunAt; decide
  · set_option maxRecDepth 100000 in decide

end BB.Segment
