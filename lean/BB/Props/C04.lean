/-
C04 — the backward reasoner never refutes something the machine does.
Property theorems only; helper lemmas live in BB/Lemmas/Reason*.lean.
(The definitions `SpanMatch`, `Gamma`, `ErasePoint`, `HaltPoint` of the statement live, text
unchanged, at the top of BB/Lemmas/ReasonGamma.lean, because the lemma files need them.)
-/
import BB.Lemmas.ReasonErase
import BB.Lemmas.ReasonFull

namespace BB.Reason

open BB

/-! ### Targets cover the events -/

theorem targets_cover_halt (p : Prog) (n : Nat) (c : Cfg) (hrun : RunAt p.toF n c)
    (hh : HaltPoint p.toF c) :
    ∃ cfg ∈ haltConfigs p true, Gamma cfg c :=
  targets_cover_halt' p n c hrun hh

theorem targets_cover_erase (p : Prog) (c : Cfg) (he : ErasePoint p.toF c) :
    ∃ cfg ∈ eraseConfigs p, Gamma cfg c :=
  targets_cover_erase' p c he

theorem targets_cover_spinout (p : Prog) (c : Cfg) (hs : SpinOutCfg p.toF c) :
    ∃ cfg ∈ zeroReflexiveConfigs p, Gamma cfg c :=
  targets_cover_spinout' p c hs

/-! ### One backward step -/

/-- **backstep_sound.** If L0 steps `c → c'` by the instruction `(q, r) ↦ (pr, sh, q')` and `c'` is
    in γ of an abstract configuration whose pull side does not start with an indefinite block, then
    the predecessor filter accepts the step and `c` is in γ of the back-stepped configuration. -/
theorem backstep_sound (p : ProgF) (cfg : Config) (c c' : Cfg) (pr : Nat) (sh : Bool)
    (hi : p c.state c.scan = some (pr, sh, cfg.state)) (hstep : step1 p c = some c')
    (hg : Gamma cfg c') :
    cfg.tape.checkStep sh pr = true ∧
    (cfg.tape.pullsIndef sh = false →
      Gamma ⟨c.state, cfg.tape.backstep sh c.scan, 0, []⟩ c) :=
  backstep_sound' p cfg c c' pr sh hi hstep hg

/-- **init_detected.** The initial configuration is in γ of an abstract configuration only if that
    configuration is `blank` in state 0 (which makes `step_configs` answer `init`). -/
theorem init_detected (cfg : Config) (h : Gamma cfg Cfg.init) :
    cfg.state = 0 ∧ cfg.tape.blank = true :=
  init_detected' cfg h

/-! ### Soundness of `refuted` (repaired model) -/

/- The full statement (kept visible):

   theorem cant_halt_sound (p : Prog) (depth k : Nat) (h0 : (p.get (0,0)).isSome)
       (h : cantHalt p depth true true = .ok (.refuted k)) : ¬ Halts p.toF

   and likewise for erase and spin-out.  It is proved below under the extra hypothesis
   `noUnknownPrune`, see docs/C04_PROOF_NOTES.md: the blank-state pruning against a tape with an
   `unknown` end has no known justification.
   (Further below, `cant_halt_sound` and `cant_spin_out_sound` prove the full statements for every
   table without shadowed duplicate keys, where `noUnknownPrune` is shown to hold always.) -/

/-- `true` when, in the run of `cant_reach` on these target configurations, no configuration was
    discarded by blank-state pruning while its tape had an `unknown` end.  (Defined by an
    instrumented copy of the loop in BB/Lemmas; the definition is part of the statement.)

    Precisely (BB/Lemmas/ReasonInstr.lean): `cantReachI` is a copy of `cantReach` (same answer:
    `cantReachI_fst`) that remembers the blank tapes it kept, not only their states; the flag becomes
    `false` when a configuration is skipped by `isBlank && blanks.contains state` and no kept blank
    tape `y` of the same state satisfies `blankSub y z` for the skipped tape `z`, i.e. on each side:
    `z` ends in `blanks`, or `y` ends in `unknown` and stands for no more cells than `z`
    (`minLenB`).  This is weaker than "the skipped tape has no `unknown` end": a skipped tape whose
    ends are both `blanks` never clears the flag. -/
def noUnknownPrune (fixF1 : Bool) (comp : Prog) (depth : Nat) (configs : Configs) : Bool :=
  (cantReachI fixF1 comp depth configs).2

theorem cant_halt_sound_partial (p : Prog) (depth k : Nat) (h0 : (p.get (0, 0)).isSome)
    (h : cantHalt p depth true true = .ok (.refuted k))
    (hp : noUnknownPrune true p depth (haltConfigs p true) = true) : ¬ Halts p.toF :=
  cant_halt_sound' p depth k h0 h hp

/-- erase targets have `blanks` ends, so no side condition is needed -/
theorem cant_blank_sound (p : Prog) (depth k : Nat)
    (h : cantBlank p depth true = .ok (.refuted k)) : ¬ ∃ n, ErasesAt p.toF n :=
  cant_blank_sound' p depth k h

theorem cant_spin_out_sound_partial (p : Prog) (depth k : Nat)
    (h : cantSpinOut p depth true = .ok (.refuted k))
    (hp : noUnknownPrune true p depth (zeroReflexiveConfigs p) = true) : ¬ SpinsOut p.toF :=
  cant_spin_out_sound' p depth k h hp

/-! ### Soundness without the side condition, for well-formed tables

`Prog.functionalB p` (BB/Lemmas/ReasonDet.lean) is the decidable check
`p.all fun kv => p.get kv.1 == some kv.2`: every listed entry is the one `get` finds, i.e. the
association list has no shadowed duplicate key.  It holds for every strictly sorted list (the
`BTreeMap` invariant, `functionalB_of_sorted`), in particular for every parsed program.  For such
tables blank-state pruning is always justified: by determinism of the machine a pruned blank tape
has the same spans as the kept blank tape of its state, so `noUnknownPrune` is `true` and the full
statements hold. -/

theorem functionalB_of_sorted (p : Prog)
    (h : List.Pairwise (fun a b => slotLt a.1 b.1 = true) p) : p.functionalB = true :=
  functionalB_of_sorted' p h

theorem noUnknownPrune_halt (p : Prog) (hwf : p.functionalB = true) (fixF1 fixF2 : Bool)
    (depth : Nat) : noUnknownPrune fixF1 p depth (haltConfigs p fixF2) = true :=
  halt_flag p hwf fixF1 fixF2 depth

theorem noUnknownPrune_spinout (p : Prog) (hwf : p.functionalB = true) (fixF1 : Bool)
    (depth : Nat) : noUnknownPrune fixF1 p depth (zeroReflexiveConfigs p) = true :=
  spinout_flag p hwf fixF1 depth

/-- **cant_halt_sound** (the full statement, for a table without shadowed duplicate keys) -/
theorem cant_halt_sound (p : Prog) (hwf : p.functionalB = true) (depth k : Nat)
    (h0 : (p.get (0, 0)).isSome) (h : cantHalt p depth true true = .ok (.refuted k)) :
    ¬ Halts p.toF :=
  cant_halt_sound_functional p hwf depth k h0 h

/-- **cant_spin_out_sound** (the full statement, for a table without shadowed duplicate keys) -/
theorem cant_spin_out_sound (p : Prog) (hwf : p.functionalB = true) (depth k : Nat)
    (h : cantSpinOut p depth true = .ok (.refuted k)) : ¬ SpinsOut p.toF :=
  cant_spin_out_sound_functional p hwf depth k h

/-! ### Witnesses: the unrepaired model refutes reachable events (findings F1, F2) -/

def progF1 : Prog :=
  [((0,0),(1,true,1)), ((0,1),(1,false,0)), ((1,0),(0,true,2)), ((1,1),(1,true,2)), ((2,0),(1,false,0))]

set_option maxRecDepth 100000 in
theorem cant_halt_F1_witness :
    cantHalt progF1 10 false false = .ok (.refuted 9) ∧ HaltsAt progF1.toF 11 2 1 := by
  refine ⟨by decide, ⟨2, [1, 1], 1, [1, 1]⟩, ?_, rfl, rfl, by decide⟩
  unfold RunAt; decide

def progF2 : Prog := [((0,0),(1,true,1)), ((1,0),(1,false,0))]

theorem cant_halt_F2_witness :
    cantHalt progF2 1 false false = .ok (.refuted 0) ∧ HaltsAt progF2.toF 2 0 1 := by
  refine ⟨by decide, ⟨0, [], 1, [1]⟩, ?_, rfl, rfl, by decide⟩
  unfold RunAt; decide

end BB.Reason
