/-
C03 — every rule application is a run of real machine steps.

"Whenever the accelerated run replaces simulation by applying a proved rule some number of times,
the configuration after the application is one the real machine actually reaches from the
configuration before it, passing through no halt or spin-out on the way, and no block of the tape
is ever driven to zero or below by it."

The rule prover generalises from four observations; no universal soundness theorem for its rules
is true.  What is machine-checked is each individual application: the real run reports
`(state q, tape before, tape after, times)` through a hook, and the check re-validates it with
`checkApp p q before after budget` (BB/Model/Validate.lean), which re-runs the plain run-length
simulator (`plainStep`, the loop body of `run_quick_machine`, verified in C01) from `before` until
it stands in state `q` on the tape `after`.  The theorems below make that validator trustworthy:
an `ok` answer IS a run of the L0 machine (BB/Spec.lean).

Property theorems only; helper lemmas live in BB/Lemmas/Validate.lean,
BB/Lemmas/ValidateRule.lean and (symbolic validation, last section) BB/Lemmas/SymRule1-5.lean.  Definitions used by the statements: `Tape.toCfg` (Model/Tape.lean: the
L0 configuration a (state, run-length tape) pair denotes), `Tape.Pos` (Lemmas/Refine.lean: every
block has at least one cell), `Tape.Canon` (Lemmas/Canon.lean: moreover adjacent blocks differ in
colour and the far-end block of each side is not blank; decidable, `Tape.canonB`), `plainIter`
(Lemmas/Validate.lean: `n` cycles of the plain simulator).

Hypotheses.  `before.Pos` is needed for everything (a block of count 0 makes the run-length tape
mean something else than its cells).  The clause "no spin-out on the way" needs `before.Canon`:
`check_app_canon_needed` is a witness.  Every tape of the real run is canonical (C12 for the
steps, `apply_rule_canon` below for the rule applications), and the driver op `checkapp` reports
`canon=` for the `before` it was given.
-/
import BB.Lemmas.Validate
import BB.Lemmas.ValidateRule
import BB.Lemmas.SymRule5
import BB.Lemmas.TapeParse

namespace BB

/-- **check_app_sound.**  When `checkApp` answers `ok cycles steps` for an application reported in
    state `q` from tape `before` (all counts positive) to tape `after`:
    * at least one plain cycle was needed and not more than the budget, and `steps ≥ cycles ≥ 1`;
    * the L0 machine started on the cells of `before` in state `q` is, after exactly `steps`
      steps, on the cells of `after` in state `q` (up to trailing blanks, `≈c`);
    * each of the `steps` configurations before that (the first one included) has a defined
      instruction: no halt on the way;
    * `after` has no block of count 0. -/
theorem check_app_sound (p : Prog) (q : Nat) (before after : Tape) (budget cycles steps : Nat)
    (hpos : before.Pos) (h : checkApp p q before after budget = .ok cycles steps) :
    1 ≤ cycles ∧ cycles ≤ budget ∧ cycles ≤ steps ∧
      (∃ c', stepN p.toF steps (before.toCfg q) = some c' ∧ c' ≈c after.toCfg q) ∧
      (∀ j, j < steps → ∃ c, stepN p.toF j (before.toCfg q) = some c ∧
        (p.toF c.state c.scan).isSome) ∧
      after.Pos := by
  obtain ⟨h1, h2, h3, hrun, hp, _⟩ := check_app_sound' p q before after budget cycles steps hpos h
  refine ⟨h1, h2, h3, hrun.1, fun j hj => ?_, hp⟩
  obtain ⟨c, hc, hw⟩ := hrun.2 j hj
  exact ⟨c, hc, hw.1⟩

/-- **check_app_no_spinout.**  If moreover `before` is canonical, none of the `steps`
    configurations on the way (the first one included) is a spin-out configuration, and `after` is
    canonical again. -/
theorem check_app_no_spinout (p : Prog) (q : Nat) (before after : Tape)
    (budget cycles steps : Nat) (hcan : before.Canon)
    (h : checkApp p q before after budget = .ok cycles steps) :
    (∀ j c, j < steps → stepN p.toF j (before.toCfg q) = some c → ¬ SpinOutCfg p.toF c) ∧
      after.Canon := by
  obtain ⟨_, _, _, hrun, _, hc⟩ :=
    check_app_sound' p q before after budget cycles steps hcan.pos h
  refine ⟨fun j c hj hcj => ?_, hc hcan⟩
  obtain ⟨c1, hc1, hw⟩ := hrun.2 j hj
  rw [hcj] at hc1
  simp only [Option.some.injEq] at hc1
  subst hc1
  exact hw.2 hcan

/-- **check_app_canon_needed.**  Canonicity of `before` cannot be dropped from
    `check_app_no_spinout`: with a blank block at the far end (`[0] 0^2`, all counts positive) the
    validator accepts a run whose first configuration is a spin-out configuration.  (Not a tape of
    the real run: those are canonical.) -/
theorem check_app_canon_needed :
    let p : Prog := [((0, 0), (1, true, 0))]
    let before : Tape := ⟨0, [], [⟨0, 2⟩]⟩
    let after : Tape := ⟨0, [⟨1, 3⟩], []⟩
    checkApp p 0 before after 10 = .ok 1 3 ∧ before.Pos ∧ ¬ before.Canon ∧
      SpinOutCfg p.toF (before.toCfg 0) := by
  refine ⟨by decide, by decide, by decide, rfl, 1, true, rfl, ?_⟩
  exact (allZeroB_iff _).1 (by decide)

/-- **check_app_complete** (sanity: the validator is not vacuous).  If `n` cycles of the plain
    simulator, `1 ≤ n ≤ budget`, lead from `(q, before)` to `(q, after)` without meeting an
    undefined instruction or a spin-out, and `after` has no block of count 0, then `checkApp`
    answers `ok` (with the first such cycle count). -/
theorem check_app_complete (p : Prog) (q : Nat) (before after : Tape) (budget n : Nat)
    (hafter : after.Pos) (hn : 1 ≤ n) (hb : n ≤ budget)
    (h : plainIter p n q before = some (q, after)) :
    ∃ cycles steps, checkApp p q before after budget = .ok cycles steps ∧ cycles ≤ n :=
  check_app_complete' p q before after budget n hafter hn hb h

/-- **apply_rule_positive** (C11's `apply_keeps_positive`, in the vocabulary of C01).  The model's
    `applyRule` never drives a block to zero or below: if every block had at least one cell before
    an application, every block has afterwards.  (`(keys rule).Nodup`: a `BTreeMap` has distinct
    keys; every rule made by `makeRule` has, C11 `make_rule_sorted`.) -/
theorem apply_rule_positive (t t' : Tape) (rule : Rule) (times : Nat)
    (hnd : (RuleArith.keys rule).Nodup) (h : applyRule t rule = .ok (some times, t'))
    (hp : t.Pos) : t'.Pos :=
  apply_rule_positive' t t' rule times hnd h hp

/-- **apply_rule_canon.**  A rule application keeps the tape canonical (colours are untouched,
    counts stay positive): the hypothesis `before.Canon` of `check_app_no_spinout` holds all along
    the accelerated run. -/
theorem apply_rule_canon (t t' : Tape) (rule : Rule) (times : Nat)
    (hnd : (RuleArith.keys rule).Nodup) (h : applyRule t rule = .ok (some times, t'))
    (hc : t.Canon) : t'.Canon :=
  apply_rule_canon' t t' rule times hnd h hc

/-! ### Non-vacuity

The 2-state 4-colour champion `1RB 2LA 1RA 1RA  1LB 1LA 3RB ...`; the first rule application of
its accelerated run (cycle 228, state A, 6 times): `1 3^19 [3] 2^22` to `1 3 [3] 2^52`.  The
validator needs 72 plain cycles = 1356 machine steps. -/

def exC03Prog : Prog :=
  [((0,0),(1,true,1)), ((0,1),(2,false,0)), ((0,2),(1,true,0)), ((0,3),(1,true,0)),
   ((1,0),(1,false,1)), ((1,1),(1,false,0)), ((1,2),(3,true,1))]
def exC03Before : Tape := ⟨3, [⟨3,19⟩,⟨1,1⟩], [⟨2,22⟩]⟩
def exC03After : Tape := ⟨3, [⟨3,1⟩,⟨1,1⟩], [⟨2,52⟩]⟩

example : checkApp exC03Prog 0 exC03Before exC03After 1000 = .ok 72 1356 := by decide
example := check_app_sound exC03Prog 0 exC03Before exC03After 1000 72 1356 (by decide) (by decide)
example := check_app_no_spinout exC03Prog 0 exC03Before exC03After 1000 72 1356 (by decide) (by decide)
/-- a wrong `after` (one cell too many) is not accepted -/
example : checkApp exC03Prog 0 exC03Before ⟨3, [⟨3,1⟩,⟨1,1⟩], [⟨2,53⟩]⟩ 200 = .overBudget := by decide
/-- an `after` with a block driven to zero is refused outright -/
example : checkApp exC03Prog 0 exC03Before ⟨3, [⟨3,0⟩,⟨1,1⟩], [⟨2,52⟩]⟩ 200 = .notCanon := by decide
example : plainIter exC03Prog 72 0 exC03Before = some (0, exC03After) := by decide
example := check_app_complete exC03Prog 0 exC03Before exC03After 1000 72 (by decide) (by decide) (by decide)
  (by decide)
/-- the rule `L0-3 R0+5` applied to `exC03Before`: 6 times, giving `exC03After` -/
def exC03Rule : Rule := [((false, 0), .plus (-3)), ((true, 0), .plus 5)]
example : applyRule exC03Before exC03Rule = .ok (some 6, exC03After) := by decide
example : exC03After.Pos ∧ exC03After.Canon :=
  ⟨apply_rule_positive exC03Before exC03After exC03Rule 6 (by decide) (by decide) (by decide),
   apply_rule_canon exC03Before exC03After exC03Rule 6 (by decide) (by decide) (by decide)⟩

end BB

/-! ### Symbolic validation: rule applications of any size

`checkApp` costs as many plain cycles as the application replaces.  `Sym.validateApp`
(BB/Model/SymRule.lean) validates the RULE instead: the changed block counts become linear forms
`c + xᵢ`, one period of the rule is run once by the symbolic version `symStep` of the plain
simulator cycle (every decision must be determined by colours and constant parts, for all
`xᵢ ≥ 0`), and the application made `times` times follows by induction over the periods, with the
exact number of machine steps `Σ_{j<times} f(x + j·δ)` (`totalSteps`).  The cost does not depend on
`times`.  The theorems say that an accepted application IS a run of the L0 machine. -/

namespace BB.Sym

/-- **sym_step_sound** (the core).  If one symbolic cycle is determined, then for EVERY valuation
    of the variables the plain simulator, run on the instantiated tape, takes exactly that cycle:
    same next state, the instantiated next tape, the instantiated number of base steps. -/
theorem sym_step_sound (p : Prog) (q : Nat) (s : STape) (q' : Nat) (s' : STape) (k : Form)
    (hpos : s.posB = true) (h : symStep p q s = .next q' s' k) (v : Val) :
    plainStep p q (s.inst v) = .next q' (s'.inst v) (k.eval v) ∧ s'.posB = true :=
  sym_step_sound' p q s q' s' k hpos h v

/-- **sym_period_sound.**  A validated period holds for every valuation: from the instantiated
    tape in state `q` the L0 machine reaches, in exactly `f.eval v ≥ 1` steps, the same state on the
    instantiated shifted tape; every configuration on the way has a defined instruction, and - when
    the instantiated start tape is canonical - none is a spin-out configuration and the end tape is
    canonical again. -/
theorem sym_period_sound (p : Prog) (q : Nat) (s target : STape) (dl dr : List Int)
    (budget cycles : Nat) (f : Form) (h : symPeriod p q s dl dr budget = some (cycles, f))
    (ht : s.shift dl dr = some target) (v : Val) :
    1 ≤ f.eval v ∧ (s.inst v).Pos ∧ (target.inst v).Pos ∧
      RunVia p.toF (OnWay p.toF (s.inst v).Canon) ((s.inst v).toCfg q) (f.eval v)
        ((target.inst v).toCfg q) ∧
      ((s.inst v).Canon → (target.inst v).Canon) :=
  sym_period_sound' p q s target dl dr budget cycles f h ht v

/-- **validate_app_sound.**  If the symbolic validator accepts a reported application
    `(q, before) → (q, after)` made `times` times and answers `n`, the L0 machine started on the
    cells of `before` in state `q` is, after exactly `n ≥ 1` steps, on the cells of `after` in state
    `q`; every configuration on the way has a defined instruction; if `before` is canonical none of
    them is a spin-out configuration and `after` is canonical.  No bound on `times`. -/
theorem validate_app_sound (p : Prog) (q : Nat) (before after : Tape) (times budget n : Nat)
    (h : validateApp p q before after times budget = some n) :
    1 ≤ n ∧ before.Pos ∧ after.Pos ∧
      RunVia p.toF (OnWay p.toF before.Canon) (before.toCfg q) n (after.toCfg q) ∧
      (before.Canon → after.Canon) :=
  validate_app_sound' p q before after times budget n h

/-! Non-vacuity: the application of C03's example (6 times) validated symbolically - the same
1356 machine steps as `checkApp` counts; and an application of the same rule made 633 times
(6 096 423 machine steps), validated at the same cost. -/

example : validateApp exC03Prog 0 exC03Before exC03After 6 1000 = some 1356 := by decide +kernel
example := validate_app_sound exC03Prog 0 exC03Before exC03After 6 1000 1356 (by decide +kernel)
example : validateApp exC03Prog 0 ⟨3, [⟨3,1900⟩,⟨1,1⟩], [⟨2,22⟩]⟩ ⟨3, [⟨3,1⟩,⟨1,1⟩], [⟨2,3187⟩]⟩
    633 1000 = some 6096423 := by decide +kernel
/-- the rule itself: one period `1 3^(4+x) [3] 2^(22+y)` to `1 3^(1+x) [3] 2^(27+y)` takes 12
    symbolic cycles -/
example : (symPeriod exC03Prog 0
    ⟨3, [⟨3, Form.var 4 0⟩, ⟨1, Form.const 1⟩], [⟨2, Form.var 22 1⟩]⟩ [-3, 0] [5] 1000).map (·.1)
    = some 12 := by decide +kernel
/-- a wrong `times` (the differences are not divisible) or a wrong `after` is refused -/
example : validateApp exC03Prog 0 exC03Before exC03After 5 1000 = none := by decide +kernel
example : validateApp exC03Prog 0 exC03Before ⟨3, [⟨3,1⟩,⟨1,1⟩], [⟨2,58⟩]⟩ 6 1000 = none := by
  decide +kernel

end BB.Sym

/-! ### The input path of the validators: printed tapes are read back exactly

The driver hands the tapes reported by the real code to `checkApp` / `Sym.validateApp` as the
`Display` strings of the Rust `Tape` (`Tape.show`, BB/Model/Tape.lean: left span far-to-near,
`[scan]`, right span near-to-far, one blank between tokens; a block is `c` for count 1, `c..` for
count 0, `c^n` otherwise) and reads them with `Tape.parse` (BB/Model/Validate.lean).  The two are
inverse to each other on EVERY tape: no hypothesis on colours (two and more digits included), on
counts (0 and 1 included) or on the spans (either may be empty).  So the tape the validators judge
is the tape that was printed.  Helper lemmas: BB/Lemmas/TapeParse.lean (technical core
`TapeParse.parseNat_D`: `parseNat?` inverts decimal printing). -/

namespace BB

/-- **tape_parse_show.** Parsing the printed form of a tape gives the tape back, for EVERY tape
    (any colours, any counts, count 0 included). -/
theorem tape_parse_show (t : Tape) : Tape.parse t.show = some t :=
  TapeParse.tape_parse_show' t

/-- **tape_show_injective.** Hence two tapes that print alike are the same tape. -/
theorem tape_show_injective (a b : Tape) (h : a.show = b.show) : a = b :=
  TapeParse.tape_show_injective' a b h

/-! Non-vacuity: a tape with a count-0 block (`7..`), a count-1 block (`1`), multi-digit counts
(`3^1900`, `2^22`) and a two-digit colour (`12^5`); and the two corner tapes with empty spans. -/

example : (⟨3, [⟨3, 1900⟩, ⟨1, 1⟩, ⟨7, 0⟩], [⟨2, 22⟩, ⟨12, 5⟩]⟩ : Tape).show
    = "7.. 1 3^1900 [3] 2^22 12^5" := by decide +kernel
example : Tape.parse "7.. 1 3^1900 [3] 2^22 12^5"
    = some ⟨3, [⟨3, 1900⟩, ⟨1, 1⟩, ⟨7, 0⟩], [⟨2, 22⟩, ⟨12, 5⟩]⟩ := by decide +kernel
example : Tape.parse (⟨3, [⟨3, 1900⟩, ⟨1, 1⟩, ⟨7, 0⟩], [⟨2, 22⟩, ⟨12, 5⟩]⟩ : Tape).show
    = some ⟨3, [⟨3, 1900⟩, ⟨1, 1⟩, ⟨7, 0⟩], [⟨2, 22⟩, ⟨12, 5⟩]⟩ := tape_parse_show _
example : Tape.parse (Tape.init 0).show = some (Tape.init 0) := tape_parse_show _
example : (Tape.init 0).show = "[0]" := by decide +kernel
/-- the parser is not total: what is not a printed tape is refused -/
example : Tape.parse "1^ [0]" = none ∧ Tape.parse "1 2" = none ∧ Tape.parse "1  [0]" = none := by
  decide +kernel

end BB
