/-
C03 — every rule application is a run of real machine steps.

"Whenever the accelerated run replaces simulation by applying a proved rule some number of times,
the configuration after the application is one the real machine actually reaches from the
configuration before it, passing through no halt or spin-out on the way, and no block of the tape
is ever driven to zero or below by it."

The rule prover generalises from four observations; no universal soundness theorem for its rules
is true.  What is machine-checked is each individual application: the real run reports
`(state q, tape before, tape after, times)` through a hook, and the check re-validates it with
`checkApp p q before after budget` (BB/Model/Validate.lean), which re-runs the plain run-length
simulator (`plainStep`, the loop body of `run_quick_machine`, verified in C01) from `before` until
it stands in state `q` on the tape `after`.  The theorems below make that validator trustworthy:
an `ok` answer IS a run of the L0 machine (BB/Spec.lean).

Property theorems only; helper lemmas live in BB/Lemmas/Validate.lean and
BB/Lemmas/ValidateRule.lean.  Definitions used by the statements: `Tape.toCfg` (Model/Tape.lean: the
L0 configuration a (state, run-length tape) pair denotes), `Tape.Pos` (Lemmas/Refine.lean: every
block has at least one cell), `Tape.Canon` (Lemmas/Canon.lean: moreover adjacent blocks differ in
colour and the far-end block of each side is not blank; decidable, `Tape.canonB`), `plainIter`
(Lemmas/Validate.lean: `n` cycles of the plain simulator).

Hypotheses.  `before.Pos` is needed for everything (a block of count 0 makes the run-length tape
mean something else than its cells).  The clause "no spin-out on the way" needs `before.Canon`:
`check_app_canon_needed` is a witness.  Every tape of the real run is canonical (C12 for the
steps, `apply_rule_canon` below for the rule applications), and the driver op `checkapp` reports
`canon=` for the `before` it was given.
-/
import BB.Lemmas.Validate
import BB.Lemmas.ValidateRule

namespace BB

/-- **check_app_sound.**  When `checkApp` answers `ok cycles steps` for an application reported in
    state `q` from tape `before` (all counts positive) to tape `after`:
    * at least one plain cycle was needed and not more than the budget, and `steps ≥ cycles ≥ 1`;
    * the L0 machine started on the cells of `before` in state `q` is, after exactly `steps`
      steps, on the cells of `after` in state `q` (up to trailing blanks, `≈c`);
    * each of the `steps` configurations before that (the first one included) has a defined
      instruction: no halt on the way;
    * `after` has no block of count 0. -/
theorem check_app_sound (p : Prog) (q : Nat) (before after : Tape) (budget cycles steps : Nat)
    (hpos : before.Pos) (h : checkApp p q before after budget = .ok cycles steps) :
    1 ≤ cycles ∧ cycles ≤ budget ∧ cycles ≤ steps ∧
      (∃ c', stepN p.toF steps (before.toCfg q) = some c' ∧ c' ≈c after.toCfg q) ∧
      (∀ j, j < steps → ∃ c, stepN p.toF j (before.toCfg q) = some c ∧
        (p.toF c.state c.scan).isSome) ∧
      after.Pos := by
  obtain ⟨h1, h2, h3, hrun, hp, _⟩ := check_app_sound' p q before after budget cycles steps hpos h
  refine ⟨h1, h2, h3, hrun.1, fun j hj => ?_, hp⟩
  obtain ⟨c, hc, hw⟩ := hrun.2 j hj
  exact ⟨c, hc, hw.1⟩

/-- **check_app_no_spinout.**  If moreover `before` is canonical, none of the `steps`
    configurations on the way (the first one included) is a spin-out configuration, and `after` is
    canonical again. -/
theorem check_app_no_spinout (p : Prog) (q : Nat) (before after : Tape)
    (budget cycles steps : Nat) (hcan : before.Canon)
    (h : checkApp p q before after budget = .ok cycles steps) :
    (∀ j c, j < steps → stepN p.toF j (before.toCfg q) = some c → ¬ SpinOutCfg p.toF c) ∧
      after.Canon := by
  obtain ⟨_, _, _, hrun, _, hc⟩ :=
    check_app_sound' p q before after budget cycles steps hcan.pos h
  refine ⟨fun j c hj hcj => ?_, hc hcan⟩
  obtain ⟨c1, hc1, hw⟩ := hrun.2 j hj
  rw [hcj] at hc1
  simp only [Option.some.injEq] at hc1
  subst hc1
  exact hw.2 hcan

/-- **check_app_canon_needed.**  Canonicity of `before` cannot be dropped from
    `check_app_no_spinout`: with a blank block at the far end (`[0] 0^2`, all counts positive) the
    validator accepts a run whose first configuration is a spin-out configuration.  (Not a tape of
    the real run: those are canonical.) -/
theorem check_app_canon_needed :
    let p : Prog := [((0, 0), (1, true, 0))]
    let before : Tape := ⟨0, [], [⟨0, 2⟩]⟩
    let after : Tape := ⟨0, [⟨1, 3⟩], []⟩
    checkApp p 0 before after 10 = .ok 1 3 ∧ before.Pos ∧ ¬ before.Canon ∧
      SpinOutCfg p.toF (before.toCfg 0) := by
  refine ⟨by decide, by decide, by decide, rfl, 1, true, rfl, ?_⟩
  exact (allZeroB_iff _).1 (by decide)

/-- **check_app_complete** (sanity: the validator is not vacuous).  If `n` cycles of the plain
    simulator, `1 ≤ n ≤ budget`, lead from `(q, before)` to `(q, after)` without meeting an
    undefined instruction or a spin-out, and `after` has no block of count 0, then `checkApp`
    answers `ok` (with the first such cycle count). -/
theorem check_app_complete (p : Prog) (q : Nat) (before after : Tape) (budget n : Nat)
    (hafter : after.Pos) (hn : 1 ≤ n) (hb : n ≤ budget)
    (h : plainIter p n q before = some (q, after)) :
    ∃ cycles steps, checkApp p q before after budget = .ok cycles steps ∧ cycles ≤ n :=
  check_app_complete' p q before after budget n hafter hn hb h

/-- **apply_rule_positive** (C11's `apply_keeps_positive`, in the vocabulary of C01).  The model's
    `applyRule` never drives a block to zero or below: if every block had at least one cell before
    an application, every block has afterwards.  (`(keys rule).Nodup`: a `BTreeMap` has distinct
    keys; every rule made by `makeRule` has, C11 `make_rule_sorted`.) -/
theorem apply_rule_positive (t t' : Tape) (rule : Rule) (times : Nat)
    (hnd : (RuleArith.keys rule).Nodup) (h : applyRule t rule = .ok (some times, t'))
    (hp : t.Pos) : t'.Pos :=
  apply_rule_positive' t t' rule times hnd h hp

/-- **apply_rule_canon.**  A rule application keeps the tape canonical (colours are untouched,
    counts stay positive): the hypothesis `before.Canon` of `check_app_no_spinout` holds all along
    the accelerated run. -/
theorem apply_rule_canon (t t' : Tape) (rule : Rule) (times : Nat)
    (hnd : (RuleArith.keys rule).Nodup) (h : applyRule t rule = .ok (some times, t'))
    (hc : t.Canon) : t'.Canon :=
  apply_rule_canon' t t' rule times hnd h hc

/-! ### Non-vacuity

The 2-state 4-colour champion `1RB 2LA 1RA 1RA  1LB 1LA 3RB ...`; the first rule application of
its accelerated run (cycle 228, state A, 6 times): `1 3^19 [3] 2^22` to `1 3 [3] 2^52`.  The
validator needs 72 plain cycles = 1356 machine steps. -/

def exC03Prog : Prog :=
  [((0,0),(1,true,1)), ((0,1),(2,false,0)), ((0,2),(1,true,0)), ((0,3),(1,true,0)),
   ((1,0),(1,false,1)), ((1,1),(1,false,0)), ((1,2),(3,true,1))]
def exC03Before : Tape := ⟨3, [⟨3,19⟩,⟨1,1⟩], [⟨2,22⟩]⟩
def exC03After : Tape := ⟨3, [⟨3,1⟩,⟨1,1⟩], [⟨2,52⟩]⟩

example : checkApp exC03Prog 0 exC03Before exC03After 1000 = .ok 72 1356 := by decide
example := check_app_sound exC03Prog 0 exC03Before exC03After 1000 72 1356 (by decide) (by decide)
example := check_app_no_spinout exC03Prog 0 exC03Before exC03After 1000 72 1356 (by decide) (by decide)
/-- a wrong `after` (one cell too many) is not accepted -/
example : checkApp exC03Prog 0 exC03Before ⟨3, [⟨3,1⟩,⟨1,1⟩], [⟨2,53⟩]⟩ 200 = .overBudget := by decide
/-- an `after` with a block driven to zero is refused outright -/
example : checkApp exC03Prog 0 exC03Before ⟨3, [⟨3,0⟩,⟨1,1⟩], [⟨2,52⟩]⟩ 200 = .notCanon := by decide
example : plainIter exC03Prog 72 0 exC03Before = some (0, exC03After) := by decide
example := check_app_complete exC03Prog 0 exC03Before exC03After 1000 72 (by decide) (by decide) (by decide)
  (by decide)
/-- the rule `L0-3 R0+5` applied to `exC03Before`: 6 times, giving `exC03After` -/
def exC03Rule : Rule := [((false, 0), .plus (-3)), ((true, 0), .plus 5)]
example : applyRule exC03Before exC03Rule = .ok (some 6, exC03After) := by decide
example : exC03After.Pos ∧ exC03After.Canon :=
  ⟨apply_rule_positive exC03Before exC03After exC03Rule 6 (by decide) (by decide) (by decide),
   apply_rule_canon exC03Before exC03After exC03Rule 6 (by decide) (by decide) (by decide)⟩

end BB
