/-
C12 — the compressed tape stays canonical and its observers tell the truth.
Property theorems only; helper lemmas live in BB/Lemmas.
(`Tape.canon_init`, `Tape.canon_step`, `Tape.canon_runOps` are in BB/Lemmas/Canon.lean and are
re-exported here as the first half of the property.)
(`trimZ` = remove trailing blanks, `rleCells` = run-length encoding of a cell list: the two
definitions live, text unchanged, in BB/Lemmas/Unroll.lean.)
-/
import BB.Lemmas.Canon
import BB.Lemmas.Refine
import BB.Lemmas.Unroll

namespace BB

/-- **Canonical invariant over all histories** (re-export). -/
theorem C12_canon_reachable (ops : List (Bool × Nat × Bool)) : ((Tape.init 0).runOps ops).Canon :=
  Tape.canon_runOps (Tape.canon_init 0) ops

/-- A canonical span *is* the run-length encoding of its cells. -/
theorem rle_unroll (s : Span) (h : Span.Canon s) : rleCells (trimZ (Span.unroll s)) = s :=
  h.rle_trim_unroll

/-- **Equality is cell equality**: two canonical spans are equal exactly when they hold the same
    cells. -/
theorem canon_eq_iff (a b : Span) (ha : Span.Canon a) (hb : Span.Canon b) :
    a = b ↔ SameCells (Span.unroll a) (Span.unroll b) :=
  ⟨fun h => h ▸ SameCells.refl _, ha.eq_of_sameCells hb⟩

theorem tape_eq_iff (t u : Tape) (ht : t.Canon) (hu : u.Canon) (q : Nat) :
    t = u ↔ t.toCfg q ≈c u.toCfg q := by
  constructor
  · rintro rfl; exact Cfg.Equiv.refl _
  · rintro ⟨-, hs, hl, hr⟩
    obtain ⟨ts, tl, tr⟩ := t
    obtain ⟨us, ul, ur⟩ := u
    have h1 : tl = ul := ht.1.eq_of_sameCells hu.1 hl
    have h2 : tr = ur := ht.2.eq_of_sameCells hu.2 hr
    have h3 : ts = us := hs
    rw [h1, h2, h3]

/-- **Observers.** `marks` is the number of non-blank cells (no hypothesis needed). -/
theorem marks_truth (t : Tape) (q : Nat) : t.marks = (t.toCfg q).marks :=
  t.marks_toCfg q

theorem blank_truth (t : Tape) (h : t.Canon) (q : Nat) : t.blank = true ↔ (t.toCfg q).Blank :=
  Tape.blank_iff h q

theorem atEdge_truth (t : Tape) (h : t.Canon) (d : Bool) :
    t.atEdge d = true ↔
      t.scan = 0 ∧ AllZero (if d then Span.unroll t.rspan else Span.unroll t.lspan) :=
  Tape.atEdge_iff h d

/-- block counts, block number, span lengths and signature are what one reads off the cells -/
theorem counts_truth (t : Tape) (h : t.Canon) :
    t.counts = (Span.counts (rleCells (trimZ (Span.unroll t.lspan))),
                Span.counts (rleCells (trimZ (Span.unroll t.rspan)))) := by
  rw [h.1.rle_trim_unroll, h.2.rle_trim_unroll]; rfl

theorem spanLens_truth (t : Tape) (h : t.Canon) :
    t.spanLens = ((rleCells (trimZ (Span.unroll t.lspan))).length,
                  (rleCells (trimZ (Span.unroll t.rspan))).length)
    ∧ t.blocks = (rleCells (trimZ (Span.unroll t.lspan))).length
                 + (rleCells (trimZ (Span.unroll t.rspan))).length := by
  rw [h.1.rle_trim_unroll, h.2.rle_trim_unroll]; exact ⟨rfl, rfl⟩

theorem signature_truth (t : Tape) (h : t.Canon) :
    t.signature = ⟨t.scan, Span.signature (rleCells (trimZ (Span.unroll t.lspan))),
                          Span.signature (rleCells (trimZ (Span.unroll t.rspan)))⟩ := by
  rw [h.1.rle_trim_unroll, h.2.rle_trim_unroll]; rfl

/-- `sig_compatible` is: same scan, at least as many blocks on each side, and the colours of the
    first blocks agree with the signature's. -/
theorem sigCompatible_iff (t : Tape) (sig : Signature) :
    t.sigCompatible sig = true ↔
      t.scan = sig.scan ∧ sig.lspan.length ≤ t.lspan.length ∧ sig.rspan.length ≤ t.rspan.length ∧
      (∀ i (hi : i < sig.lspan.length) (hj : i < t.lspan.length), (t.lspan[i]).color = (sig.lspan[i]).color) ∧
      (∀ i (hi : i < sig.rspan.length) (hj : i < t.rspan.length), (t.rspan[i]).color = (sig.rspan[i]).color) := by
  simp only [Tape.sigCompatible, Bool.and_eq_true, beq_iff_eq, decide_eq_true_eq, ge_iff_le,
    Span.sigCompatible_iff, and_assoc]

/- Non-vacuity: a reachable, non-trivial canonical tape. -/
example : ((Tape.init 0).runOps [(true, 1, false), (true, 1, false), (false, 2, false), (false, 0, true)]).Canon :=
  C12_canon_reachable _

end BB
