/-
C13 — program text and compiled form round-trip.
Property theorems only; helper lemmas live in BB/Lemmas/Parse.lean.
-/
import BB.Lemmas.Parse

namespace BB

/-- a table cell: undefined, or an instruction with colour < 10 and state < 26 -/
def CellOk : Option Instr → Prop
  | none => True
  | some (c, _, q) => c < 10 ∧ q < 26

/-- A rectangular table: `S ≥ 1` rows of `C ≥ 1` cells each. -/
structure Table where
  rows : List (List (Option Instr))
deriving Repr

def Table.WF (t : Table) (S C : Nat) : Prop :=
  0 < S ∧ 0 < C ∧ S ≤ 26 ∧ C ≤ 10 ∧ t.rows.length = S ∧
  (∀ r ∈ t.rows, r.length = C ∧ ∀ c ∈ r, CellOk c)

/-- the text of a table in the standard notation: cells separated by one space, rows by two -/
def Table.text (t : Table) : List Char :=
  joinWith [' ', ' '] (t.rows.map fun r => joinWith [' '] (r.map fun c =>
    match c with
    | none => ['.', '.', '.']
    | some (co, sh, q) => [Char.ofNat (48 + co), if sh then 'R' else 'L', Char.ofNat (65 + q)]))

/-- cell (i, j) of a table (`none` outside) -/
def Table.cell (t : Table) (i j : Nat) : Option Instr := ((t.rows.getD i []).getD j none)

/-- **Tokens: instructions.** print-then-parse and parse-then-print are the identity on every
    instruction token with a one-digit colour and a letter A..Z. -/
theorem instr_token_roundtrip (c : Nat) (sh : Bool) (q : Nat) (hc : c < 10) (hq : q < 26) :
    ∃ s, showInstr (some (c, sh, q)) = .ok s ∧ readInstr s = .ok (some (c, sh, q)) ∧
      s = [Char.ofNat (48 + c), if sh then 'R' else 'L', Char.ofNat (65 + q)] := by
  have hg : Parse.GoodCell (some (c, sh, q)) := ⟨hc, hq⟩
  exact ⟨_, Parse.showInstr_good _ hg, Parse.readInstr_tok _ hg, rfl⟩

theorem undef_token_roundtrip :
    showInstr none = .ok ['.', '.', '.'] ∧ readInstr ['.', '.', '.'] = .ok none := by
  exact ⟨rfl, rfl⟩

/-- **Tokens: slots and state letters.** -/
theorem slot_token_roundtrip (q c : Nat) (hq : q < 26) (hc : c < 10) :
    ∃ s, showSlot (q, c) = .ok s ∧ readSlot s = .ok (q, c) := by
  refine ⟨Char.ofNat (65 + q) :: [Char.ofNat (48 + c)], ?_, ?_⟩
  · simp only [showSlot, Parse.showState_letter q hq, Parse.natDigits_lt10 c hc]
  · simp only [readSlot, Parse.readState_letter q hq, Parse.readColor_digit c hc]

theorem state_token_roundtrip (q : Nat) (hq : q < 26) :
    ∃ ch, showState q = .ok ch ∧ readState ch = .ok q ∧ ch = Char.ofNat (65 + q) := by
  exact ⟨_, Parse.showState_letter q hq, Parse.readState_letter q hq, rfl⟩

/-- **Parsing puts every instruction at the slot given by its row and column.** -/
theorem from_slots (t : Table) (S C : Nat) (h : t.WF S C) :
    ∃ p, Prog.fromChars t.text = .ok p ∧ ∀ i j, p.get (i, j) = t.cell i j := by
  obtain ⟨h1, h2, _⟩ := Parse.table_roundtrip t.rows S C CellOk (fun _ hc => hc) h
  exact ⟨_, h1, h2⟩

/-- **Text → table → text.** Parsing a well-formed text and printing it with its table size gives
    back the same text. -/
theorem show_from (t : Table) (S C : Nat) (h : t.WF S C) :
    ∃ p, Prog.fromChars t.text = .ok p ∧ p.showChars (some (S, C)) = .ok t.text := by
  obtain ⟨h1, _, h3⟩ := Parse.table_roundtrip t.rows S C CellOk (fun _ hc => hc) h
  exact ⟨_, h1, h3⟩

/-- **Table → text → table.** Printing a compiled table (as produced by parsing: any table is) and
    parsing it again gives back a table with the same contents at every slot. -/
theorem from_show (t : Table) (S C : Nat) (h : t.WF S C) :
    ∃ p s p', Prog.fromChars t.text = .ok p ∧ p.showChars (some (S, C)) = .ok s ∧
      Prog.fromChars s = .ok p' ∧ p' = p := by
  obtain ⟨p, hp, hs⟩ := show_from t S C h
  exact ⟨p, t.text, p, hp, hs, hp, rfl⟩

/-- a compiled table as the code holds it: keys strictly increasing (BTreeMap order), all keys
    inside the S x C rectangle, entries printable -/
def Prog.WFIn (p : Prog) (S C : Nat) : Prop :=
  List.Pairwise (fun a b => slotLt a.1 b.1 = true) p ∧
  ∀ kv ∈ p, kv.1.1 < S ∧ kv.1.2 < C ∧ CellOk (some kv.2)

/-- **Compiled table → text → the same compiled table.** Printing an arbitrary compiled table with
    its size and parsing the text gives back the same association list. -/
theorem from_show_prog (p : Prog) (S C : Nat) (hS : 0 < S) (hC : 0 < C) (h : p.WFIn S C) :
    ∃ s, p.showChars (some (S, C)) = .ok s ∧ Prog.fromChars s = .ok p :=
  Parse.prog_roundtrip p S C CellOk (fun _ hc => hc) hS hC h

/- Non-vacuity: a concrete 2x2 table. -/
example : (Table.mk [[some (1, true, 1), none], [some (1, false, 0), some (0, true, 1)]]).WF 2 2 := by
  refine ⟨by decide, by decide, by decide, by decide, rfl, ?_⟩
  intro r hr
  simp at hr
  rcases hr with rfl | rfl <;> simp [CellOk]

example : String.ofList (Table.mk [[some (1, true, 1), none], [some (1, false, 0), some (0, true, 1)]]).text
    = "1RB ...  1LA 0RB" := by decide

/- Non-vacuity of `Prog.WFIn`: the program parsed from "1RB ...  1LA 0RB" is a compiled 2x2 table. -/
example : ∃ p, Prog.fromStr "1RB ...  1LA 0RB" = .ok p ∧
    p = [((0, 0), (1, true, 1)), ((1, 0), (1, false, 0)), ((1, 1), (0, true, 1))] ∧ p.WFIn 2 2 := by
  refine ⟨[((0, 0), (1, true, 1)), ((1, 0), (1, false, 0)), ((1, 1), (0, true, 1))], by rfl, rfl, ?_⟩
  refine ⟨by decide, ?_⟩
  intro kv hkv
  simp at hkv
  rcases hkv with rfl | rfl | rfl <;> simp [CellOk]

end BB
