/-
C15 — raising a limit never changes an answer already given.

Property theorems only; the lemmas live in BB/Lemmas/Mono{Base,Reason,Segment,Cps}.lean,
BB/Lemmas/ReasonMono.lean and BB/Lemmas/RecMono.lean.  The example programs `progA` .. `progQ`
are defined (with their source text) in BB/Lemmas/MonoBase.lean.

Every theorem is about the entry points the driver calls, for ALL programs (any association list,
parsed or not), ALL pairs of limits `l₁ ≤ l₂`, both values of the repair switches, and (CPS) every
iteration order.  In each model the limit is only the fuel of the outermost loop; the inner fuels
(`runFuel`, `searchFuel`, `innerFuelFor`) are computed from the loop variable of the iteration, not
from the limit, so no hypothesis about them is needed.

The "limit reached" answers are
  reasoner  `.ok .stepLimit`   (NOT `.depthLimit`: that is the MAX_STACK_DEPTH answer, and it is
                                preserved like every other answer),
  segment   `.ok .segmentLimit` (`.depthLimit` = MAX_DEPTH answer, preserved),
  CPS       `.ok false`,
  recurrence `.limit`.

Outcomes that are not answers (panics, model fuel): preserved as well, with one exception, stated
and witnessed below: the panic of the *entry assertion on the limit itself*
(`assert!(segs >= 2)`, `assert!(rad > 1)`) is of course not preserved.  The reasoner has no such
assertion, so there every outcome except `stepLimit` is preserved.
-/
import BB.Lemmas.MonoReason
import BB.Lemmas.MonoSegment
import BB.Lemmas.MonoCps
import BB.Lemmas.RecMono

namespace BB.C15

open BB

/-! ### 1. Backward reasoner (depth limit) -/

/-- **cant_halt.** Any outcome at depth `d₁` other than `step_limit` — an answer `refuted k`
    (same `k`), `init`, `linRec`, `spinout`, `depthLimit`, or the panic `.error _` — is the outcome
    at every depth `d₂ ≥ d₁`; for both values of both repair switches. -/
theorem cantHalt_mono (p : Prog) (d₁ d₂ : Nat) (fixF1 fixF2 : Bool)
    (r : PRes Reason.BackwardResult)
    (h : Reason.cantHalt p d₁ fixF1 fixF2 = r) (hne : r ≠ .ok .stepLimit) (hle : d₁ ≤ d₂) :
    Reason.cantHalt p d₂ fixF1 fixF2 = r :=
  Reason.cantHalt_mono' p d₁ d₂ fixF1 fixF2 r h hne hle

/-- **cant_blank.** As `cantHalt_mono`. -/
theorem cantBlank_mono (p : Prog) (d₁ d₂ : Nat) (fixF1 : Bool) (r : PRes Reason.BackwardResult)
    (h : Reason.cantBlank p d₁ fixF1 = r) (hne : r ≠ .ok .stepLimit) (hle : d₁ ≤ d₂) :
    Reason.cantBlank p d₂ fixF1 = r :=
  Reason.cantBlank_mono' p d₁ d₂ fixF1 r h hne hle

/-- **cant_spin_out.** As `cantHalt_mono`. -/
theorem cantSpinOut_mono (p : Prog) (d₁ d₂ : Nat) (fixF1 : Bool) (r : PRes Reason.BackwardResult)
    (h : Reason.cantSpinOut p d₁ fixF1 = r) (hne : r ≠ .ok .stepLimit) (hle : d₁ ≤ d₂) :
    Reason.cantSpinOut p d₂ fixF1 = r :=
  Reason.cantSpinOut_mono' p d₁ d₂ fixF1 r h hne hle

/-- The property in its own words: the larger depth gives the same outcome, or the smaller depth's
    answer was `step_limit`. -/
theorem cantHalt_dichotomy (p : Prog) (d₁ d₂ : Nat) (fixF1 fixF2 : Bool) (hle : d₁ ≤ d₂) :
    Reason.cantHalt p d₂ fixF1 fixF2 = Reason.cantHalt p d₁ fixF1 fixF2 ∨
      Reason.cantHalt p d₁ fixF1 fixF2 = .ok .stepLimit :=
  Reason.cantHalt_dichotomy' p d₁ d₂ fixF1 fixF2 hle

theorem cantBlank_dichotomy (p : Prog) (d₁ d₂ : Nat) (fixF1 : Bool) (hle : d₁ ≤ d₂) :
    Reason.cantBlank p d₂ fixF1 = Reason.cantBlank p d₁ fixF1 ∨
      Reason.cantBlank p d₁ fixF1 = .ok .stepLimit :=
  Reason.cantBlank_dichotomy' p d₁ d₂ fixF1 hle

theorem cantSpinOut_dichotomy (p : Prog) (d₁ d₂ : Nat) (fixF1 : Bool) (hle : d₁ ≤ d₂) :
    Reason.cantSpinOut p d₂ fixF1 = Reason.cantSpinOut p d₁ fixF1 ∨
      Reason.cantSpinOut p d₁ fixF1 = .ok .stepLimit :=
  Reason.cantSpinOut_dichotomy' p d₁ d₂ fixF1 hle

/-- A refutation found at depth `d₁` is returned with the same step number at every depth above. -/
theorem cantHalt_refuted_mono (p : Prog) (d₁ d₂ k : Nat) (fixF1 fixF2 : Bool)
    (h : Reason.cantHalt p d₁ fixF1 fixF2 = .ok (.refuted k)) (hle : d₁ ≤ d₂) :
    Reason.cantHalt p d₂ fixF1 fixF2 = .ok (.refuted k) :=
  Reason.cantHalt_mono' p d₁ d₂ fixF1 fixF2 _ h (by simp) hle

theorem cantBlank_refuted_mono (p : Prog) (d₁ d₂ k : Nat) (fixF1 : Bool)
    (h : Reason.cantBlank p d₁ fixF1 = .ok (.refuted k)) (hle : d₁ ≤ d₂) :
    Reason.cantBlank p d₂ fixF1 = .ok (.refuted k) :=
  Reason.cantBlank_mono' p d₁ d₂ fixF1 _ h (by simp) hle

theorem cantSpinOut_refuted_mono (p : Prog) (d₁ d₂ k : Nat) (fixF1 : Bool)
    (h : Reason.cantSpinOut p d₁ fixF1 = .ok (.refuted k)) (hle : d₁ ≤ d₂) :
    Reason.cantSpinOut p d₂ fixF1 = .ok (.refuted k) :=
  Reason.cantSpinOut_mono' p d₁ d₂ fixF1 _ h (by simp) hle

/-- A panic (the `assert!(*state == 0)` of `get_valid_steps`) at depth `d₁` is a panic at every
    depth above: errors persist. -/
theorem cantHalt_error_mono (p : Prog) (d₁ d₂ : Nat) (fixF1 fixF2 : Bool) (e : PErr)
    (h : Reason.cantHalt p d₁ fixF1 fixF2 = .error e) (hle : d₁ ≤ d₂) :
    Reason.cantHalt p d₂ fixF1 fixF2 = .error e :=
  Reason.cantHalt_mono' p d₁ d₂ fixF1 fixF2 _ h (by simp) hle

theorem cantBlank_error_mono (p : Prog) (d₁ d₂ : Nat) (fixF1 : Bool) (e : PErr)
    (h : Reason.cantBlank p d₁ fixF1 = .error e) (hle : d₁ ≤ d₂) :
    Reason.cantBlank p d₂ fixF1 = .error e :=
  Reason.cantBlank_mono' p d₁ d₂ fixF1 _ h (by simp) hle

theorem cantSpinOut_error_mono (p : Prog) (d₁ d₂ : Nat) (fixF1 : Bool) (e : PErr)
    (h : Reason.cantSpinOut p d₁ fixF1 = .error e) (hle : d₁ ≤ d₂) :
    Reason.cantSpinOut p d₂ fixF1 = .error e :=
  Reason.cantSpinOut_mono' p d₁ d₂ fixF1 _ h (by simp) hle

section ReasonExamples
set_option maxRecDepth 100000

/-- `1RB 1LA  0RC 1RC  1LA ...`: `step_limit` at depth 9, `refuted(9)` at depth 10, hence at 10000 -/
example : Reason.cantHalt progH 9 = .ok .stepLimit ∧
    Reason.cantHalt progH 10000 = .ok (.refuted 9) :=
  ⟨by decide, cantHalt_refuted_mono progH 10 10000 9 false false (by decide) (by decide)⟩

/-- the same with both repairs on: `init` from depth 3 -/
example : Reason.cantHalt progA 2 true true = .ok .stepLimit ∧
    Reason.cantHalt progA 10000 true true = .ok .init :=
  ⟨by decide, cantHalt_mono progA 3 10000 true true _ (by decide) (by decide) (by decide)⟩

/-- `1RB 0RC  1LB 1RC  0LA ...`: `step_limit` at depth 2, `refuted(2)` from depth 3 -/
example : Reason.cantBlank progA 2 = .ok .stepLimit ∧
    Reason.cantBlank progA 10000 = .ok (.refuted 2) :=
  ⟨by decide, cantBlank_refuted_mono progA 3 10000 2 false (by decide) (by decide)⟩

example : Reason.cantBlank progA 10000 true = .ok (.refuted 2) :=
  cantBlank_mono progA 3 10000 true _ (by decide) (by decide) (by decide)

/-- `step_limit` at depth 1, `refuted(1)` from depth 2 -/
example : Reason.cantSpinOut progA 1 = .ok .stepLimit ∧
    Reason.cantSpinOut progA 10000 = .ok (.refuted 1) :=
  ⟨by decide, cantSpinOut_refuted_mono progA 2 10000 1 false (by decide) (by decide)⟩

example : Reason.cantSpinOut progA 10000 true = .ok (.refuted 1) :=
  cantSpinOut_mono progA 2 10000 true _ (by decide) (by decide) (by decide)

/-- the dichotomy is not vacuous on either side -/
example : Reason.cantBlank progA 3 = Reason.cantBlank progA 2 ∨
    Reason.cantBlank progA 2 = .ok .stepLimit :=
  cantBlank_dichotomy progA 2 3 false (by decide)

example : Reason.cantHalt progH 12 = Reason.cantHalt progH 10 ∨
    Reason.cantHalt progH 10 = .ok .stepLimit :=
  cantHalt_dichotomy progH 10 12 false false (by decide)

example : Reason.cantSpinOut progA 5 = Reason.cantSpinOut progA 2 ∨
    Reason.cantSpinOut progA 2 = .ok .stepLimit :=
  cantSpinOut_dichotomy progA 2 5 false (by decide)

/-- `1RA ...  1LA 1LA` (state B is never entered): `step_limit` at depth 1, the panic from depth 2
    on (confirmed on the real code: `cant_halt 2..30` all panic). -/
example : Reason.cantHalt progP 1 = .ok .stepLimit ∧
    Reason.cantHalt progP 10000 = .error (.panic "assert!(*state == 0)") :=
  ⟨by decide, cantHalt_error_mono progP 2 10000 false false _ (by decide) (by decide)⟩

/-- `... 0RA  0LA ...`: `step_limit` at depth 1, the panic from depth 2 on (the same on the real
    code) -/
example : Reason.cantBlank [((0,1),(0,true,0)), ((1,0),(0,false,0))] 1 = .ok .stepLimit ∧
    Reason.cantBlank [((0,1),(0,true,0)), ((1,0),(0,false,0))] 10000
      = .error (.panic "assert!(*state == 0)") :=
  ⟨by decide, cantBlank_error_mono _ 2 10000 false _ (by decide) (by decide)⟩

/-- `... ...  ... 1RC  0RC ...`: `step_limit` at depth 1, the panic from depth 2 on (the same on
    the real code) -/
example : Reason.cantSpinOut [((1,1),(1,true,2)), ((2,0),(0,true,2))] 1 = .ok .stepLimit ∧
    Reason.cantSpinOut [((1,1),(1,true,2)), ((2,0),(0,true,2))] 10000
      = .error (.panic "assert!(*state == 0)") :=
  ⟨by decide, cantSpinOut_error_mono _ 2 10000 false _ (by decide) (by decide)⟩

end ReasonExamples

/-! ### 2. Finite-segment analysis (segment limit) -/

/-- **segment `cant_halt`.** An answer at `s₁` other than `segment_limit` — `refuted k` (same `k`),
    `halt`, `blank`, `repeat`, `spinout`, `depthLimit` — is the answer at every `s₂ ≥ s₁`. -/
theorem segCantHalt_mono (prog : Prog) (params : Nat × Nat) (s₁ s₂ : Nat)
    (r : Segment.SegmentResult)
    (h : Segment.segCantHalt prog params s₁ = .ok r) (hne : r ≠ .segmentLimit) (hle : s₁ ≤ s₂) :
    Segment.segCantHalt prog params s₂ = .ok r :=
  Segment.segmentCantReach_ok_mono' prog params .halt s₁ s₂ r h hne hle

/-- **segment `cant_blank`.** -/
theorem segCantBlank_mono (prog : Prog) (params : Nat × Nat) (s₁ s₂ : Nat)
    (r : Segment.SegmentResult)
    (h : Segment.segCantBlank prog params s₁ = .ok r) (hne : r ≠ .segmentLimit) (hle : s₁ ≤ s₂) :
    Segment.segCantBlank prog params s₂ = .ok r :=
  Segment.segmentCantReach_ok_mono' prog params .blank s₁ s₂ r h hne hle

/-- **segment `cant_spin_out`.** -/
theorem segCantSpinOut_mono (prog : Prog) (params : Nat × Nat) (s₁ s₂ : Nat)
    (r : Segment.SegmentResult)
    (h : Segment.segCantSpinOut prog params s₁ = .ok r) (hne : r ≠ .segmentLimit) (hle : s₁ ≤ s₂) :
    Segment.segCantSpinOut prog params s₂ = .ok r :=
  Segment.segmentCantReach_ok_mono' prog params .spinout s₁ s₂ r h hne hle

/-- **the wrapper `py_segment_cant_*`** (params derived by `get_comp`), every goal, both values of
    `fixF2`. -/
theorem pySegmentCantReach_mono (prog : Prog) (goal : Segment.Term) (fixF2 : Bool) (s₁ s₂ : Nat)
    (r : Segment.SegmentResult)
    (h : Segment.pySegmentCantReach prog s₁ goal fixF2 = .ok r) (hne : r ≠ .segmentLimit)
    (hle : s₁ ≤ s₂) :
    Segment.pySegmentCantReach prog s₂ goal fixF2 = .ok r :=
  Segment.segmentCantReach_ok_mono' prog _ goal s₁ s₂ r h hne hle

/- Outcomes in general (answers, panics, model fuel).  The unrestricted statement

     theorem segmentCantReach_outcome_mono (prog params goal s₁ s₂ r)
         (h : Segment.segmentCantReach prog params s₁ goal = r) (hne : r ≠ .ok .segmentLimit)
         (hle : s₁ ≤ s₂) : Segment.segmentCantReach prog params s₂ goal = r

   is FALSE: `segs < 2` fails the entry assertion (`.error .panic`), `segs = 2` does not
   (`segmentCantReach_outcome_mono_counterexample`).  It holds under `2 ≤ s₁`. -/

/-- every outcome other than `segment_limit` of a call with `segs ≥ 2` — in particular a panic or a
    fuel exhaustion inside the loop — is the outcome for every larger `segs`
    (`segCantHalt/Blank/SpinOut` are this with `goal` fixed, `pySegmentCantReach` with `params`
    computed from the program). -/
theorem segmentCantReach_outcome_mono_partial (prog : Prog) (params : Nat × Nat)
    (goal : Segment.Term) (s₁ s₂ : Nat) (r : Except Segment.Err Segment.SegmentResult)
    (h2 : 2 ≤ s₁)
    (h : Segment.segmentCantReach prog params s₁ goal = r) (hne : r ≠ .ok .segmentLimit)
    (hle : s₁ ≤ s₂) :
    Segment.segmentCantReach prog params s₂ goal = r :=
  Segment.segmentCantReach_mono' prog params goal s₁ s₂ r h2 h hne hle

theorem pySegmentCantReach_outcome_mono_partial (prog : Prog) (goal : Segment.Term) (fixF2 : Bool)
    (s₁ s₂ : Nat) (r : Except Segment.Err Segment.SegmentResult) (h2 : 2 ≤ s₁)
    (h : Segment.pySegmentCantReach prog s₁ goal fixF2 = r) (hne : r ≠ .ok .segmentLimit)
    (hle : s₁ ≤ s₂) :
    Segment.pySegmentCantReach prog s₂ goal fixF2 = r :=
  Segment.segmentCantReach_mono' prog _ goal s₁ s₂ r h2 h hne hle

/-- the entry assertion `segs >= 2`: below 2 every call panics, whatever the program and goal -/
theorem segmentCantReach_lt_two (prog : Prog) (params : Nat × Nat) (goal : Segment.Term) (s : Nat)
    (h : s < 2) : Segment.segmentCantReach prog params s goal = .error .panic :=
  Segment.segmentCantReach_lt_two prog params goal s h

section SegmentExamples
set_option maxRecDepth 100000

/-- witness: `1RB ...  1LB 1LC  1RC 0RB`, `segs = 1` panics, `segs = 2` answers `refuted(2)`
    (the same on the real code). -/
theorem segmentCantReach_outcome_mono_counterexample :
    ¬ (∀ (prog : Prog) (params : Nat × Nat) (goal : Segment.Term) (s₁ s₂ : Nat)
        (r : Except Segment.Err Segment.SegmentResult),
        Segment.segmentCantReach prog params s₁ goal = r → r ≠ .ok .segmentLimit → s₁ ≤ s₂ →
        Segment.segmentCantReach prog params s₂ goal = r) := by
  intro hall
  have h := hall progB (3, 2) .halt 1 2 (.error .panic) (by decide) (by decide) (by decide)
  revert h
  decide

/-- `1RB ...  1LB 1LC  1RC 0RB`: `refuted(2)` at `segs = 2`, hence at 10000 -/
example : Segment.segCantHalt progB (3, 2) 10000 = .ok (.refuted 2) :=
  segCantHalt_mono progB (3, 2) 2 10000 _ (by decide) (by decide) (by decide)

/-- `1RB 0RA  1LA 1RB`: `segment_limit` at 2, `blank` from 3 -/
example : Segment.segCantBlank progD (2, 2) 2 = .ok .segmentLimit ∧
    Segment.segCantBlank progD (2, 2) 10000 = .ok .blank :=
  ⟨by decide, segCantBlank_mono progD (2, 2) 3 10000 _ (by decide) (by decide) (by decide)⟩

/-- `1RB ...  1LB 1LC  1RC 0RB`: `segment_limit` at 3, `refuted(4)` from 4 -/
example : Segment.segCantSpinOut progB (3, 2) 3 = .ok .segmentLimit ∧
    Segment.segCantSpinOut progB (3, 2) 10000 = .ok (.refuted 4) :=
  ⟨by decide, segCantSpinOut_mono progB (3, 2) 4 10000 _ (by decide) (by decide) (by decide)⟩

example : Segment.pySegmentCantReach progB 10000 .spinout true = .ok (.refuted 4) :=
  pySegmentCantReach_mono progB .spinout true 4 10000 _ (by decide) (by decide) (by decide)

/-- `1RB ...  0RC 0LC  ... ...`: the wrapper panics inside the loop at `segs = 2` (state C is
    missing from the analysed table, finding F2), hence at every `segs ≥ 2` (the same on the real
    code for `segs = 2..6`). -/
example : Segment.pySegmentCantReach progQ 10000 .blank = .error .panic :=
  pySegmentCantReach_outcome_mono_partial progQ .blank false 2 10000 _ (by decide) (by decide)
    (by decide) (by decide)

example : Segment.segmentCantReach progQ (2, 2) 10000 .blank = .error .panic :=
  segmentCantReach_outcome_mono_partial progQ (2, 2) .blank 2 10000 _ (by decide) (by decide)
    (by decide) (by decide)

example : Segment.segmentCantReach progB (3, 2) 1 .halt = .error .panic :=
  segmentCantReach_lt_two progB (3, 2) .halt 1 (by decide)

end SegmentExamples

/-! ### 3. Closed position sets (radius limit) -/

/-- **`cps_cant_halt`.** A closed-set proof found with radius limit `r₁` is found with every
    `r₂ ≥ r₁` (both values of `fixF2`, every iteration order of the `HashSet`). -/
theorem cpsCantHalt_true_mono (p : Prog) (fixF2 : Bool) (order : List Cps.Config → List Cps.Config)
    (r₁ r₂ : Nat) (h : Cps.cpsCantHalt p r₁ fixF2 order = .ok true) (hle : r₁ ≤ r₂) :
    Cps.cpsCantHalt p r₂ fixF2 order = .ok true :=
  Cps.cpsCantHalt_true_mono' p fixF2 order r₁ r₂ h hle

/-- **`cps_cant_blank`.** -/
theorem cpsCantBlank_true_mono (p : Prog) (order : List Cps.Config → List Cps.Config)
    (r₁ r₂ : Nat) (h : Cps.cpsCantBlank p r₁ order = .ok true) (hle : r₁ ≤ r₂) :
    Cps.cpsCantBlank p r₂ order = .ok true :=
  Cps.cpsCantBlank_true_mono' p order r₁ r₂ h hle

/-- **`cps_cant_spin_out`.** -/
theorem cpsCantSpinOut_true_mono (p : Prog) (order : List Cps.Config → List Cps.Config)
    (r₁ r₂ : Nat) (h : Cps.cpsCantSpinOut p r₁ order = .ok true) (hle : r₁ ≤ r₂) :
    Cps.cpsCantSpinOut p r₂ order = .ok true :=
  Cps.cpsCantSpinOut_true_mono' p order r₁ r₂ h hle

/-- **`cps_run`** itself, for every value of the inner constants `MAX_LOOPS`, `MAX_DEPTH`. -/
theorem cpsRun_true_mono (p : Prog) (goal : Cps.Goal) (maxLoops maxDepth : Nat)
    (order : List Cps.Config → List Cps.Config) (r₁ r₂ : Nat)
    (h : Cps.cpsRun p r₁ goal maxLoops maxDepth order = .ok true) (hle : r₁ ≤ r₂) :
    Cps.cpsRun p r₂ goal maxLoops maxDepth order = .ok true :=
  Cps.cpsRun_true_mono' p goal maxLoops maxDepth order r₁ r₂ h hle

/- Outcomes in general: `CpsOut` is `ok true | ok false | panic | fuel`; `ok false` is the
   limit answer.  The unrestricted statement

     theorem cpsCantHalt_outcome_mono (p fixF2 order r₁ r₂ out)
         (h : Cps.cpsCantHalt p r₁ fixF2 order = out) (hne : out ≠ .ok false) (hle : r₁ ≤ r₂) :
         Cps.cpsCantHalt p r₂ fixF2 order = out

   is FALSE for `out = .panic`: `rad ≤ 1` fails `assert!(rad > 1)`, `rad = 2` answers `false`
   and `rad = 3` may answer `true` (`cpsCantHalt_outcome_mono_counterexample`).  It holds under
   `2 ≤ r₁`: a panic or a fuel exhaustion *inside* a run at some radius persists. -/

theorem cpsCantHalt_outcome_mono_partial (p : Prog) (fixF2 : Bool)
    (order : List Cps.Config → List Cps.Config) (r₁ r₂ : Nat) (out : Cps.CpsOut) (h2 : 2 ≤ r₁)
    (h : Cps.cpsCantHalt p r₁ fixF2 order = out) (hne : out ≠ .ok false) (hle : r₁ ≤ r₂) :
    Cps.cpsCantHalt p r₂ fixF2 order = out :=
  Cps.cpsCantHalt_mono' p fixF2 order r₁ r₂ out h2 h hne hle

theorem cpsCantBlank_outcome_mono_partial (p : Prog)
    (order : List Cps.Config → List Cps.Config) (r₁ r₂ : Nat) (out : Cps.CpsOut) (h2 : 2 ≤ r₁)
    (h : Cps.cpsCantBlank p r₁ order = out) (hne : out ≠ .ok false) (hle : r₁ ≤ r₂) :
    Cps.cpsCantBlank p r₂ order = out :=
  Cps.cpsCantBlank_mono' p order r₁ r₂ out h2 h hne hle

theorem cpsCantSpinOut_outcome_mono_partial (p : Prog)
    (order : List Cps.Config → List Cps.Config) (r₁ r₂ : Nat) (out : Cps.CpsOut) (h2 : 2 ≤ r₁)
    (h : Cps.cpsCantSpinOut p r₁ order = out) (hne : out ≠ .ok false) (hle : r₁ ≤ r₂) :
    Cps.cpsCantSpinOut p r₂ order = out :=
  Cps.cpsCantSpinOut_mono' p order r₁ r₂ out h2 h hne hle

theorem cpsRun_outcome_mono_partial (p : Prog) (goal : Cps.Goal) (maxLoops maxDepth : Nat)
    (order : List Cps.Config → List Cps.Config) (r₁ r₂ : Nat) (out : Cps.CpsOut) (h2 : 2 ≤ r₁)
    (h : Cps.cpsRun p r₁ goal maxLoops maxDepth order = out) (hne : out ≠ .ok false)
    (hle : r₁ ≤ r₂) :
    Cps.cpsRun p r₂ goal maxLoops maxDepth order = out :=
  Cps.cpsRun_mono' p goal maxLoops maxDepth order r₁ r₂ out h2 h hne hle

/-- the dichotomy, for limits that pass the entry assertion -/
theorem cpsCantHalt_dichotomy (p : Prog) (fixF2 : Bool) (order : List Cps.Config → List Cps.Config)
    (r₁ r₂ : Nat) (h2 : 2 ≤ r₁) (hle : r₁ ≤ r₂) :
    Cps.cpsCantHalt p r₂ fixF2 order = Cps.cpsCantHalt p r₁ fixF2 order ∨
      Cps.cpsCantHalt p r₁ fixF2 order = .ok false :=
  Cps.cpsCantHalt_dichotomy' p fixF2 order r₁ r₂ h2 hle

theorem cpsCantBlank_dichotomy (p : Prog) (order : List Cps.Config → List Cps.Config)
    (r₁ r₂ : Nat) (h2 : 2 ≤ r₁) (hle : r₁ ≤ r₂) :
    Cps.cpsCantBlank p r₂ order = Cps.cpsCantBlank p r₁ order ∨
      Cps.cpsCantBlank p r₁ order = .ok false :=
  Cps.cpsCantBlank_dichotomy' p order r₁ r₂ h2 hle

theorem cpsCantSpinOut_dichotomy (p : Prog) (order : List Cps.Config → List Cps.Config)
    (r₁ r₂ : Nat) (h2 : 2 ≤ r₁) (hle : r₁ ≤ r₂) :
    Cps.cpsCantSpinOut p r₂ order = Cps.cpsCantSpinOut p r₁ order ∨
      Cps.cpsCantSpinOut p r₁ order = .ok false :=
  Cps.cpsCantSpinOut_dichotomy' p order r₁ r₂ h2 hle

/-- the entry assertion `rad > 1`, and the empty range `2..2` -/
theorem cpsRun_le_one (p : Prog) (goal : Cps.Goal) (maxLoops maxDepth : Nat)
    (order : List Cps.Config → List Cps.Config) (rad : Nat) (h : rad ≤ 1) :
    Cps.cpsRun p rad goal maxLoops maxDepth order = .panic :=
  Cps.cpsRun_le_one p goal maxLoops maxDepth order rad h

theorem cpsRun_two (p : Prog) (goal : Cps.Goal) (maxLoops maxDepth : Nat)
    (order : List Cps.Config → List Cps.Config) :
    Cps.cpsRun p 2 goal maxLoops maxDepth order = .ok false :=
  Cps.cpsRun_two p goal maxLoops maxDepth order

section CpsExamples
set_option maxRecDepth 100000

/-- witness: `1RB ...  1LB 0RB`: `rad = 1` panics, `rad = 2` answers `false`, `rad = 3` answers
    `true` (the same on the real code). -/
theorem cpsCantHalt_outcome_mono_counterexample :
    ¬ (∀ (p : Prog) (fixF2 : Bool) (order : List Cps.Config → List Cps.Config) (r₁ r₂ : Nat)
        (out : Cps.CpsOut),
        Cps.cpsCantHalt p r₁ fixF2 order = out → out ≠ .ok false → r₁ ≤ r₂ →
        Cps.cpsCantHalt p r₂ fixF2 order = out) := by
  intro hall
  have h := hall progC false id 1 3 .panic (by decide) (by decide) (by decide)
  revert h
  decide

/-- `1RB ...  1LB 0RB`: `false` at radius limit 2, `true` from 3 -/
example : Cps.cpsCantHalt progC 2 = .ok false ∧ Cps.cpsCantHalt progC 10000 = .ok true :=
  ⟨by decide, cpsCantHalt_true_mono progC false id 3 10000 (by decide) (by decide)⟩

/-- with `fixF2` and the reversed work-list order -/
example : Cps.cpsCantHalt progC 10000 true List.reverse = .ok true :=
  cpsCantHalt_true_mono progC true List.reverse 3 10000 (by decide) (by decide)

/-- `1RB 0RC  1LB 1RC  0LA ...`: `false` at 2, `true` from 3 -/
example : Cps.cpsCantBlank progA 2 = .ok false ∧ Cps.cpsCantBlank progA 10000 = .ok true :=
  ⟨by decide, cpsCantBlank_true_mono progA id 3 10000 (by decide) (by decide)⟩

example : Cps.cpsCantSpinOut progA 2 = .ok false ∧ Cps.cpsCantSpinOut progA 10000 = .ok true :=
  ⟨by decide, cpsCantSpinOut_true_mono progA id 3 10000 (by decide) (by decide)⟩

/-- `cps_run` with small inner constants -/
example : Cps.cpsRun progC 10000 .halt 50 1000 id = .ok true :=
  cpsRun_true_mono progC .halt 50 1000 id 3 10000 (by decide) (by decide)

example : Cps.cpsCantHalt progC 10000 = .ok true :=
  cpsCantHalt_outcome_mono_partial progC false id 3 10000 _ (by decide) (by decide) (by decide)
    (by decide)

example : Cps.cpsCantBlank progA 10000 = .ok true :=
  cpsCantBlank_outcome_mono_partial progA id 3 10000 _ (by decide) (by decide) (by decide)
    (by decide)

example : Cps.cpsCantSpinOut progA 10000 = .ok true :=
  cpsCantSpinOut_outcome_mono_partial progA id 3 10000 _ (by decide) (by decide) (by decide)
    (by decide)

/-- the general form on `cps_run` with small inner constants and the reversed order -/
example : Cps.cpsRun progC 10000 .halt 50 1000 List.reverse = .ok true :=
  cpsRun_outcome_mono_partial progC .halt 50 1000 List.reverse 3 10000 _ (by decide) (by decide)
    (by decide) (by decide)

example : Cps.cpsCantHalt progC 5 = Cps.cpsCantHalt progC 3 ∨ Cps.cpsCantHalt progC 3 = .ok false :=
  cpsCantHalt_dichotomy progC false id 3 5 (by decide) (by decide)

example : Cps.cpsCantBlank progA 3 = Cps.cpsCantBlank progA 2 ∨
    Cps.cpsCantBlank progA 2 = .ok false :=
  cpsCantBlank_dichotomy progA id 2 3 (by decide) (by decide)

example : Cps.cpsCantSpinOut progA 3 = Cps.cpsCantSpinOut progA 2 ∨
    Cps.cpsCantSpinOut progA 2 = .ok false :=
  cpsCantSpinOut_dichotomy progA id 2 3 (by decide) (by decide)

example : Cps.cpsRun progC 1 .halt 50 1000 id = .panic :=
  cpsRun_le_one progC .halt 50 1000 id 1 (by decide)

end CpsExamples

/-! ### 4. Quick recurrence check (cycle limit) -/

/-- **`quick_term_or_rec`.** A verdict other than `limit` (`recur`, `spinout`, `undefined slot`) is
    unchanged by a larger cycle limit.  (`BB.quickTermOrRec_mono`, BB/Lemmas/RecMono.lean.) -/
theorem quickTermOrRec_mono (p : Prog) (l₁ l₂ : Nat) (h : l₁ ≤ l₂)
    (hne : quickTermOrRec p l₁ ≠ .limit) : quickTermOrRec p l₂ = quickTermOrRec p l₁ :=
  BB.quickTermOrRec_mono p l₁ l₂ h hne

/-- `1RB ...  1LB 1LC  1RC 0RB`: `limit` with 3 cycles, `recur` with 50, hence with 10000 -/
example : quickTermOrRec progB 3 = .limit ∧ quickTermOrRec progB 10000 = .recur := by
  refine ⟨by decide, ?_⟩
  have h50 : quickTermOrRec progB 50 = .recur := by decide
  rw [quickTermOrRec_mono progB 50 10000 (by decide) (by rw [h50]; decide), h50]

end BB.C15
