/-
C06 — closed-position-set analysis never claims a reachable event unreachable.
Property theorems only; helper lemmas live in BB/Lemmas/CpsSound1..4.lean.
(The definitions used by the statements — `cellsFrom`, `windowAt`, `viewOf`, `Covers`,
`Goal.Never`, `paramsCover`, `OrderOK` — live, with doc comments, at the top of
BB/Lemmas/CpsSound1.lean, because the lemma files need them.)

Reading of the events (DESIGN section 3): halt = `Halts`, blank = the erase event `ErasesAt`,
spin-out = `SpinsOut`.  Only the answer `CpsOut.ok true` / `CpsRes.yes` is a "true" answer;
`panic` and `fuel` are not.
-/
import BB.Lemmas.CpsSound4

namespace BB.Cps

open BB

/-! ### The mathematical core: a closed triple is an invariant of the run -/

/-- **closed_sound.**  If the triple (`seen`, `lspans`, `rspans`) passes the model's closure check
    for radius `rad` (it contains the view of the initial configuration and the all-blank windows,
    every view's push-side window is registered, every successor view licensed by the span maps is
    in `seen`, no view is goal-compatible), then every configuration `c` that the machine reaches
    from the blank tape is covered: its local view is in `seen` and every window of `rad` cells
    further out on either side is licensed by the span maps; hence the goal event never happens. -/
theorem closed_sound (p : Prog) (goal : Goal) (rad : Nat) (seen : List Config)
    (lspans rspans : Spans) (h : closedCheck p goal rad seen lspans rspans = none) :
    (∀ n c, RunAt p.toF n c → Covers rad seen lspans rspans c) ∧ goal.Never p.toF :=
  ⟨closed_covers' p goal rad seen lspans rspans h, closed_check_sound' p goal rad seen lspans rspans h⟩

/-- **closed_check_sound** (the part of `closed_sound` a driver can use per instance): a triple that
    passes `closedCheck` excludes the goal event. -/
theorem closed_check_sound (p : Prog) (goal : Goal) (rad : Nat) (seen : List Config)
    (lspans rspans : Spans) (h : closedCheck p goal rad seen lspans rspans = none) :
    goal.Never p.toF :=
  closed_check_sound' p goal rad seen lspans rspans h

/-- For the goal `blank` a closed triple excludes more than the erase event: no step of the run
    lands on a blank tape (the "is blank again" reading of DESIGN section 3). -/
theorem closed_check_sound_blankAfter (p : Prog) (rad : Nat) (seen : List Config)
    (lspans rspans : Spans) (h : closedCheck p .blank rad seen lspans rspans = none) :
    ¬ ∃ n q, BlankAfter p.toF n q :=
  closed_check_sound_blankAfter' p rad seen lspans rspans h

/-! ### A `true` run ends in a closed triple -/

/-- the work-list orders the driver uses satisfy `OrderOK` -/
theorem orderOK_id : OrderOK id := orderOK_id'
theorem orderOK_reverse : OrderOK List.reverse := orderOK_reverse'

/-- **cps_true_closed.**  Whatever the limits, the inner fuel and the (membership-preserving)
    work-list order: when `cps_cant_reach` answers true, its final triple passes the closure check
    (the last pass made no update, so it ran with static span maps). -/
theorem cps_true_closed (p : Prog) (rad : Nat) (goal : Goal) (maxLoops maxDepth innerFuel : Nat)
    (order : List Config → List Config) (hord : OrderOK order) (cs : Configs)
    (h : cpsCantReach p rad goal maxLoops maxDepth innerFuel order = .yes cs) :
    closedCheck p goal rad cs.seen cs.lspans cs.rspans = none :=
  cps_true_closed' p rad goal maxLoops maxDepth innerFuel order hord cs h

/-- **cps_run_sound**: `cps_run` (the `any` over the radii `2 .. rad-1`) answers true only if the
    goal event never happens. -/
theorem cps_run_sound (p : Prog) (rad : Nat) (goal : Goal) (maxLoops maxDepth : Nat)
    (order : List Config → List Config) (hord : OrderOK order)
    (h : cpsRun p rad goal maxLoops maxDepth order = .ok true) : goal.Never p.toF :=
  cpsRun_sound' p rad goal maxLoops maxDepth order hord h

/-- For the goal `blank`, a true answer of `cps_run` (i.e. a true answer of `cps_cant_blank` that
    does not come from the early-true shortcut) excludes every return to the blank tape. -/
theorem cps_run_blank_sound_blankAfter (p : Prog) (rad : Nat) (maxLoops maxDepth : Nat)
    (order : List Config → List Config) (hord : OrderOK order)
    (h : cpsRun p rad .blank maxLoops maxDepth order = .ok true) :
    ¬ ∃ n q, BlankAfter p.toF n q :=
  cpsRun_blankAfter' p rad maxLoops maxDepth order hord h

/-! ### The three entry points -/

/-- **cps_cant_halt_sound** (the unrepaired code, `fixF2 = false`): for every radius, if
    `cps_cant_halt` answers true and the table size inferred from the defined keys covers every
    state and colour mentioned in an instruction (`paramsCover`, finding F2), the machine never
    halts. -/
theorem cps_cant_halt_sound (p : Prog) (rad : Nat) (order : List Config → List Config)
    (hord : OrderOK order) (hcov : paramsCover p = true)
    (h : cpsCantHalt p rad false order = .ok true) : ¬ Halts p.toF :=
  cps_cant_halt_sound' p rad false order hord (Or.inr hcov) h

/-- **cps_cant_halt_sound_fix** (repaired `halt_slots`, `fixF2 = true`): no side condition. -/
theorem cps_cant_halt_sound_fix (p : Prog) (rad : Nat) (order : List Config → List Config)
    (hord : OrderOK order) (h : cpsCantHalt p rad true order = .ok true) : ¬ Halts p.toF :=
  cps_cant_halt_sound' p rad true order hord (Or.inl rfl) h

/-- **cps_cant_blank_sound**: for every radius, if `cps_cant_blank` answers true, no step of the
    machine turns a non-blank tape blank. -/
theorem cps_cant_blank_sound (p : Prog) (rad : Nat) (order : List Config → List Config)
    (hord : OrderOK order) (h : cpsCantBlank p rad order = .ok true) :
    ¬ ∃ n, ErasesAt p.toF n :=
  cps_cant_blank_sound' p rad order hord h

/-- **cps_cant_spin_out_sound**: for every radius, if `cps_cant_spin_out` answers true, the
    machine never reaches a spin-out configuration. -/
theorem cps_cant_spin_out_sound (p : Prog) (rad : Nat) (order : List Config → List Config)
    (hord : OrderOK order) (h : cpsCantSpinOut p rad order = .ok true) : ¬ SpinsOut p.toF :=
  cps_cant_spin_out_sound' p rad order hord h

/-! ### Non-vacuity: the hypotheses hold on concrete runs that are not early-true -/

/-- `1RB 1LB  0LA ...` -/
def exHalt : Prog := [((0,0),(1,true,1)), ((0,1),(1,false,1)), ((1,0),(0,false,0))]
/-- `1RB 0LA  1LA 0RB` -/
def exBlank : Prog := [((0,0),(1,true,1)), ((0,1),(0,false,0)), ((1,0),(1,false,0)), ((1,1),(0,true,1))]
/-- `1RB 0LA  0LB 1RA` -/
def exSpin : Prog := [((0,0),(1,true,1)), ((0,1),(0,false,0)), ((1,0),(0,false,1)), ((1,1),(1,true,0))]

set_option maxRecDepth 100000 in
example : (exHalt.haltSlots false).isEmpty = false ∧ paramsCover exHalt = true ∧
    cpsCantHalt exHalt 3 false id = .ok true := by decide

set_option maxRecDepth 100000 in
example : (exHalt.haltSlots true).isEmpty = false ∧ cpsCantHalt exHalt 3 true id = .ok true := by
  decide

set_option maxRecDepth 100000 in
example : exBlank.eraseSlots.isEmpty = false ∧ cpsCantBlank exBlank 3 id = .ok true := by decide

set_option maxRecDepth 100000 in
example : exSpin.zrShifts.isEmpty = false ∧ cpsCantSpinOut exSpin 3 id = .ok true := by decide

set_option maxRecDepth 100000 in
example : cpsRun exBlank 3 .blank MAX_LOOPS MAX_DEPTH id = .ok true := by decide

set_option maxRecDepth 100000 in
example : ∃ cs, cpsCantReach exBlank 2 .blank = .yes cs ∧
    closedCheck exBlank .blank 2 cs.seen cs.lspans cs.rspans = none := by
  refine ⟨_, rfl, ?_⟩
  decide

/-! ### Witness: the unrepaired `cps_cant_halt` claims a halting machine cannot halt (finding F2) -/

/-- `1RB ...  1LA ...` -/
def progF2 : Prog := [((0,0),(1,true,1)), ((1,0),(1,false,0))]

/-- the table inferred from the keys has one colour, so no halt slot is seen: the answer is true for
    every radius although the machine halts at step 2 in slot A1; `paramsCover` excludes it, and the
    repaired test does not answer true -/
theorem cps_cant_halt_F2_witness :
    (∀ rad, cpsCantHalt progF2 rad false id = .ok true) ∧ HaltsAt progF2.toF 2 0 1 ∧
      paramsCover progF2 = false := by
  refine ⟨fun rad => by simp only [cpsCantHalt]; rfl, ⟨⟨0, [], 1, [1]⟩, ?_, rfl, rfl, by decide⟩,
    by decide⟩
  unfold RunAt; decide

set_option maxRecDepth 100000 in
theorem cps_cant_halt_F2_repaired : cpsCantHalt progF2 3 true id = .ok false := by decide

end BB.Cps
