/-
C10 — tree generation enumerates exactly the normal-form programs, once each.
Property theorems only; helper lemmas live in BB/Lemmas/TreeGen*.lean.

The definitions of the statements live, with doc comments, at the top of
BB/Lemmas/TreeGenDefs.lean:
  `Interleaving`  merges of the per-task harvests (what the parallel harvest can produce),
  `Avail`, `SpecFrom`, `SpecRaw`, `UsesLast`, `SpecEmits`  the declarative generation process,
  `Node`, `ProcFrom`, `ProcEmits`  the same process with the code's availability counters,
  `InTable`  all entries inside the `S × C` table,
  `SizeOk`  the size guard.
(`WalkGenerated` is C14's, BB/Lemmas/GraphConn.lean.)

All theorems are for ALL table sizes, both halt flags and ALL step limits.  Where the real code can
panic (overflow-checked build), the theorems are stated for a successful call
(`buildTreeSeq … = .ok l`), `tree_ok` shows that `SizeOk` suffices for success and
`tree_error_iff` says exactly when the call fails.
-/
import BB.Lemmas.TreeGenErr
import BB.Lemmas.TreeGenWalk

namespace BB.Tree

open BB

/-! ### When the call succeeds -/

/-- **tree_ok.** If `states * colors` fits `u64` and `states * colors ≥ 3 + halt` (the slot budget
    `states * colors - 1 - (1 + halt)` does not underflow and is at least one), `build_tree` does
    not panic, for any step limit. -/
theorem tree_ok (S C : Nat) (halt : Bool) (lim : Nat) (h : SizeOk S C halt) :
    ∃ l, buildTreeSeq S C halt lim = .ok l :=
  buildTreeSeq_ok_of_sizeOk lim h

example : SizeOk 2 2 true ∧ SizeOk 5 2 false ∧ SizeOk 1 4 true := by decide

/-- **tree_error_iff.** Exactly when `build_tree` fails: `states * colors` overflows `u64`; or the
    budget underflows (`1 ≤ states * colors < 2 + halt`; with `states * colors = 0` there is no
    task at all and the call returns without output); or the budget is exactly zero
    (`states * colors = 2 + halt`, i.e. 1x2, 2x1 without and 1x3, 3x1 with the halt flag) and the
    step limit is at least 2, because then a task reaches an undefined slot and
    `remaining_slots - 1` underflows. -/
theorem tree_error_iff (S C : Nat) (halt : Bool) (lim : Nat) :
    (∃ e, buildTreeSeq S C halt lim = .error e) ↔
      u64Size ≤ S * C ∨ (1 ≤ S * C ∧ S * C < 2 + (if halt then 1 else 0)) ∨
      (S * C = 2 + (if halt then 1 else 0) ∧ 2 ≤ lim) :=
  buildTreeSeq_error_iff' S C halt lim

/-- the zero-budget failure on a size with `states * colors ≥ 3` -/
example : buildTreeSeq 3 1 true 2 = .error (.overflow "remaining_slots - 1") := by rfl

/-! ### Exactly the programs of the process -/

/-- **tree_complete_sound.** A successful call emits exactly the programs that the declarative
    process `SpecEmits` produces: start from `A0 ↦ 1RB` executed on the blank tape; each time
    the run (cycles counted from the configuration at the slot filled last, at most `lim`)
    reaches an undefined slot and the budget allows, fill it with any instruction whose state and
    colour are inside the table and at most one more than the largest mentioned so far; the
    result is emitted when the run ends otherwise or the budget is spent, provided it mentions the
    last state and the last colour. -/
theorem tree_complete_sound (S C : Nat) (halt : Bool) (lim : Nat) (l : List Prog)
    (hok : buildTreeSeq S C halt lim = .ok l) (p : Prog) :
    p ∈ l ↔ SpecEmits S C halt lim p :=
  tree_complete_sound' S C halt lim l hok p

example : ∃ l, buildTreeSeq 2 2 true 2 = .ok l := tree_ok 2 2 true 2 (by decide)

/-- **tree_counters.** The same with the availability *counters* of the code (`growAvail`: a
    counter grows by one iff it is below its maximum and one more than the larger of the reached
    slot's index and the latest instruction's index equals it). -/
theorem tree_counters (S C : Nat) (halt : Bool) (lim : Nat) (l : List Prog)
    (hok : buildTreeSeq S C halt lim = .ok l) (p : Prog) :
    p ∈ l ↔ ProcEmits S C halt lim p :=
  tree_proc' S C halt lim l hok p

/-- **avail_counters_declarative.** On every node of the process the two readings of "available"
    agree: the counters after their update offer exactly the instructions of `Avail`. -/
theorem avail_counters_declarative (S C : Nat) (halt : Bool) (lim : Nat) (p : Prog) :
    ProcEmits S C halt lim p ↔ SpecEmits S C halt lim p :=
  procEmits_iff_specEmits S C halt lim p

/-! ### No program twice -/

/-- **tree_nodup.** No program is emitted twice — for every size on which the call succeeds
    (no further guard is needed: two choices at an undefined slot give tables that differ at that
    slot for ever). -/
theorem tree_nodup (S C : Nat) (halt : Bool) (lim : Nat) (l : List Prog)
    (hok : buildTreeSeq S C halt lim = .ok l) : l.Nodup :=
  tree_nodup' S C halt lim l hok

/-! ### Scheduling -/

/-- **schedule_indep.** Every interleaving of the per-task harvests (each task's harvest is
    sequential; the tasks run in any order on any number of threads) is a permutation of the
    sequential harvest: same programs, none twice.
    Trusted: the harvester's `push` is mutually exclusive (Rust `Mutex`), so the parallel harvest
    *is* an interleaving of the per-task harvests. -/
theorem schedule_indep (S C : Nat) (halt : Bool) (lim : Nat) (ls : List (List Prog))
    (l out : List Prog) (hls : buildTreeLists S C halt lim = .ok ls)
    (hl : buildTreeSeq S C halt lim = .ok l) (hout : Interleaving ls out) :
    out.Perm l ∧ out.Nodup ∧ ∀ p, p ∈ out ↔ p ∈ l :=
  schedule_indep' S C halt lim ls l out hls hl hout

/-- the sequential harvest is an interleaving (the hypothesis of `schedule_indep` is satisfiable),
    and an interleaving keeps each task's order -/
theorem interleaving_flatten {α : Type} (ls : List (List α)) : Interleaving ls ls.flatten :=
  Interleaving.flatten ls

theorem interleaving_sublist {α : Type} (ls : List (List α)) (out : List α)
    (h : Interleaving ls out) : ∀ l ∈ ls, l.Sublist out :=
  h.sublist

example : Interleaving [[1, 2], [3]] [1, 3, 2] :=
  .pick [] 1 [2] [[3]] _ (.pick [[2]] 3 [] [] _ (.pick [] 2 [] [[]] _ (.nil _ (by simp))))

/-- **tree_error_iff_task.** The call fails exactly when some task fails (a panic in any task
    makes `build_tree` panic, whatever the schedule). -/
theorem tree_error_iff_task (S C : Nat) (halt : Bool) (lim : Nat) :
    (∃ e, buildTreeLists S C halt lim = .error e) ↔
      ∃ i ∈ makeInstrs (min 3 S) (min 3 C), ∃ e, buildTask S C halt lim i = .error e :=
  buildTreeLists_error_iff_task S C halt lim

/-! ### The leaf filter -/

/-- **leaf_filter.** Every emitted program has an instruction into a state `≥ S - 1` and an
    instruction printing a colour `≥ C - 1`; and every result of the process that has both is
    emitted. -/
theorem leaf_filter (S C : Nat) (halt : Bool) (lim : Nat) (l : List Prog)
    (hok : buildTreeSeq S C halt lim = .ok l) :
    (∀ p ∈ l, UsesLast S C p) ∧ (∀ p, SpecRaw S C halt lim p → UsesLast S C p → p ∈ l) :=
  ⟨fun p hp => ((tree_complete_sound' S C halt lim l hok p).mp hp).2,
   fun p h1 h2 => (tree_complete_sound' S C halt lim l hok p).mpr ⟨h1, h2⟩⟩

/-! ### Inside the table; different as tables (`S, C ≥ 2`) -/

/-- a program of the 2x2 tree with halt slot, limit 2 (used in the examples below) -/
def prog22 : Prog := [((0, 0), (1, true, 1)), ((0, 1), (0, false, 0)), ((1, 0), (0, false, 0))]

/-- the hypotheses of the theorems of this section are satisfiable -/
example : 2 ≤ 2 ∧ ∃ l, buildTreeSeq 2 2 true 2 = .ok l ∧ prog22 ∈ l := ⟨by decide, _, rfl, by decide⟩

/-- **tree_inTable.** For `S, C ≥ 2` every emitted program lies inside the `S × C` table (key
    states and next states `< S`, key colours and printed colours `< C`), its entries are strictly
    sorted by key (the `BTreeMap` invariant) and no key occurs twice. -/
theorem tree_inTable (S C : Nat) (halt : Bool) (lim : Nat) (l : List Prog) (hS : 2 ≤ S)
    (hC : 2 ≤ C) (hok : buildTreeSeq S C halt lim = .ok l) (p : Prog) (hp : p ∈ l) :
    InTable S C p ∧ List.Pairwise (fun a b => slotLt a.1 b.1 = true) p ∧
      ∀ kv ∈ p, p.get kv.1 = some kv.2 :=
  tree_inTable' S C halt lim l hS hC hok p hp

/-- **leaf_filter_exact.** For `S, C ≥ 2` every emitted program has an instruction into the last
    state `S - 1` and an instruction printing the last colour `C - 1`. -/
theorem leaf_filter_exact (S C : Nat) (halt : Bool) (lim : Nat) (l : List Prog) (hS : 2 ≤ S)
    (hC : 2 ≤ C) (hok : buildTreeSeq S C halt lim = .ok l) (p : Prog) (hp : p ∈ l) :
    (∃ kv ∈ p, kv.2.2.2 = S - 1) ∧ (∃ kv ∈ p, kv.2.1 = C - 1) :=
  usesLast_exact (tree_inTable' S C halt lim l hS hC hok p hp).1
    ((tree_complete_sound' S C halt lim l hok p).mp hp).2

/-- **tree_table_inj.** For `S, C ≥ 2` two emitted programs that agree on every slot of the
    `S × C` table are the same program: the emitted programs are pairwise different as tables (as
    printed), not only as key-value lists (`tree_nodup`). -/
theorem tree_table_inj (S C : Nat) (halt : Bool) (lim : Nat) (l : List Prog) (hS : 2 ≤ S)
    (hC : 2 ≤ C) (hok : buildTreeSeq S C halt lim = .ok l) (p p' : Prog) (hp : p ∈ l)
    (hp' : p' ∈ l) (h : ∀ q c, q < S → c < C → p.get (q, c) = p'.get (q, c)) : p = p' :=
  tree_table_inj' S C halt lim l hS hC hok p p' hp hp' h

/-- Outside `S, C ≥ 2` this fails.  With one state the emitted programs still contain a row for
    state `B` (from `A0 ↦ 1RB`), which lies outside the 1x3 table: two different emitted programs
    agree on the whole table and print the same. -/
theorem tree_table_inj_counterexample_1x3 :
    let p : Prog := [((0, 0), (1, true, 1)), ((0, 1), (2, false, 0)), ((1, 0), (0, false, 0))]
    let p' : Prog := [((0, 0), (1, true, 1)), ((0, 1), (2, false, 0)), ((1, 0), (1, false, 0))]
    ∃ l, buildTreeSeq 1 3 false 2 = .ok l ∧ p ∈ l ∧ p' ∈ l ∧ p ≠ p' ∧
      (∀ q, q < 1 → ∀ c, c < 3 → p.get (q, c) = p'.get (q, c)) ∧
      p.show (some (1, 3)) = p'.show (some (1, 3)) :=
  ⟨_, rfl, by decide, by decide, by decide, by decide, by decide⟩

/-- With one colour the emitted programs contain entries for the scanned colour 1 (printed by
    `A0 ↦ 1RB`), outside the 3x1 table. -/
theorem tree_table_inj_counterexample_3x1 :
    let p : Prog := [((0, 0), (1, true, 1)), ((0, 1), (0, false, 2)), ((1, 0), (0, false, 0))]
    let p' : Prog := [((0, 0), (1, true, 1)), ((0, 1), (0, true, 2)), ((1, 0), (0, false, 0))]
    ∃ l, buildTreeSeq 3 1 false 2 = .ok l ∧ p ∈ l ∧ p' ∈ l ∧ p ≠ p' ∧
      (∀ q, q < 3 → ∀ c, c < 1 → p.get (q, c) = p'.get (q, c)) ∧
      p.show (some (3, 1)) = p'.show (some (3, 1)) :=
  ⟨_, rfl, by decide, by decide, by decide, by decide, by decide⟩

/-! ### Bridge to C14 -/

/-- **walkGenerated_of_mem.** For `S, C ≥ 2` every emitted program is `WalkGenerated` for some
    walk `w` (the states visited by the runs of the generation process, followed by the next state
    of the instruction inserted last), so C14's `isConnected_true_of_walk` applies to tree output:
    on it the connectivity filter answers `true` exactly for the strongly connected programs. -/
theorem walkGenerated_of_mem (S C : Nat) (halt : Bool) (lim : Nat) (l : List Prog) (hS : 2 ≤ S)
    (hC : 2 ≤ C) (hok : buildTreeSeq S C halt lim = .ok l) (p : Prog) (hp : p ∈ l) :
    ∃ w, Graph.WalkGenerated p S w = true :=
  walkGenerated_of_mem' S C halt lim l hS hC hok p hp

example : Graph.WalkGenerated prog22 2 [0, 1, 0] = true := by decide

end BB.Tree
