import BB.Props.Blocks
#print axioms BB.Blocks.optBlock_isSome
#print axioms BB.Blocks.measureBlocks_le
#print axioms BB.Blocks.optBlock_pos
#print axioms BB.Blocks.comprEff_eq
#print axioms BB.Blocks.optGo_first_min
#print axioms BB.Blocks.optBlock_legal
