import BB.Props.C04
#print axioms BB.Reason.targets_cover_halt
#print axioms BB.Reason.targets_cover_erase
#print axioms BB.Reason.targets_cover_spinout
#print axioms BB.Reason.backstep_sound
#print axioms BB.Reason.init_detected
#print axioms BB.Reason.cant_halt_sound_partial
#print axioms BB.Reason.cant_blank_sound
#print axioms BB.Reason.cant_spin_out_sound_partial
#print axioms BB.Reason.functionalB_of_sorted
#print axioms BB.Reason.noUnknownPrune_halt
#print axioms BB.Reason.noUnknownPrune_spinout
#print axioms BB.Reason.cant_halt_sound
#print axioms BB.Reason.cant_spin_out_sound
#print axioms BB.Reason.cant_halt_F1_witness
#print axioms BB.Reason.cant_halt_F2_witness
