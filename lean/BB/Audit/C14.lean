import BB.Props.C14
#print axioms BB.Graph.isConnected_false_cause
#print axioms BB.Graph.isConnected_false_sound_partial
#print axioms BB.Graph.isConnected_false_sound_counterexample
#print axioms BB.Graph.isConnected_panic_free
#print axioms BB.Graph.isConnected_overflow_iff
#print axioms BB.Graph.isConnected_panic_witness
#print axioms BB.Graph.isConnected_true_iff
#print axioms BB.Graph.isConnected_of_strong
#print axioms BB.Graph.isConnected_true_of_walk
#print axioms BB.Graph.isConnected_true_not_strong_witness
#print axioms BB.Graph.isConnected_one_state
#print axioms BB.Graph.strong_of_uses_all_states
#print axioms BB.Graph.isConnected_false_loses_nothing
#print axioms BB.Graph.walkGenerated_chain
#print axioms BB.Graph.isConnected_true_iff_strong_of_chain
