import BB.Props.C18

#print axioms BB.NumMod.expModInt_correct_partial
#print axioms BB.NumMod.expModInt_correct_counterexample
#print axioms BB.NumMod.expModInt_correct_counterexample2
#print axioms BB.NumMod.findPeriod_order
#print axioms BB.NumMod.findPeriod_zero
#print axioms BB.NumMod.expModInt_defined
#print axioms BB.NumMod.reduce3_sound
#print axioms BB.NumModTree.modE_correct_partial
#print axioms BB.NumModTree.modE_correct_counterexample
#print axioms BB.NumModTree.modE_correct_counterexample2
#print axioms BB.NumModTree.modE_defined_simple
