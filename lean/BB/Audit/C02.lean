import BB.Props.C02

#print axioms BB.replay_undfnd
#print axioms BB.replay_spnout
#print axioms BB.replay_blankRec
#print axioms BB.replay_limit
#print axioms BB.replay_blanks
#print axioms BB.replay_no_apps
