import BB.Props.C02

#print axioms BB.replay_undfnd
#print axioms BB.replay_spnout
#print axioms BB.replay_blankRec
#print axioms BB.replay_limit
#print axioms BB.replay_blanks
#print axioms BB.replay_no_apps
#print axioms BB.replaySym_undfnd
#print axioms BB.replaySym_spnout
#print axioms BB.replaySym_blankRec
#print axioms BB.replaySym_limit
#print axioms BB.replaySym_blanks
#print axioms BB.replaySym_no_apps
#print axioms BB.Sym.validate_inf_sound
#print axioms BB.replaySym_limit_inf
