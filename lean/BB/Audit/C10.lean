import BB.Props.C10
#print axioms BB.Tree.tree_ok
#print axioms BB.Tree.tree_error_iff
#print axioms BB.Tree.tree_complete_sound
#print axioms BB.Tree.tree_counters
#print axioms BB.Tree.avail_counters_declarative
#print axioms BB.Tree.tree_nodup
#print axioms BB.Tree.schedule_indep
#print axioms BB.Tree.interleaving_flatten
#print axioms BB.Tree.interleaving_sublist
#print axioms BB.Tree.tree_error_iff_task
#print axioms BB.Tree.leaf_filter
#print axioms BB.Tree.tree_inTable
#print axioms BB.Tree.leaf_filter_exact
#print axioms BB.Tree.tree_table_inj
#print axioms BB.Tree.tree_table_inj_counterexample_1x3
#print axioms BB.Tree.tree_table_inj_counterexample_3x1
#print axioms BB.Tree.walkGenerated_of_mem
