import BB.Props.C01
#print axioms BB.step_refines
#print axioms BB.every_cycle
#print axioms BB.run_quick_steps_marks
#print axioms BB.run_quick_undfnd
#print axioms BB.run_quick_spnout
#print axioms BB.run_quick_blanks
#print axioms BB.run_quick_infrul
#print axioms BB.run_quick_xlimit
#print axioms BB.run_quick_cycles
#print axioms BB.run_quick_blanks_first
#print axioms BB.run_quick_blanks_complete
#print axioms BB.run_quick_no_early_spinout
#print axioms BB.run_quick_no_early_halt
