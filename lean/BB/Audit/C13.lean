import BB.Props.C13
#print axioms BB.instr_token_roundtrip
#print axioms BB.undef_token_roundtrip
#print axioms BB.slot_token_roundtrip
#print axioms BB.state_token_roundtrip
#print axioms BB.from_slots
#print axioms BB.show_from
#print axioms BB.from_show
#print axioms BB.from_show_prog
