import BB.Props.C03
#print axioms BB.check_app_sound
#print axioms BB.check_app_no_spinout
#print axioms BB.check_app_canon_needed
#print axioms BB.check_app_complete
#print axioms BB.apply_rule_positive
#print axioms BB.apply_rule_canon
#print axioms BB.Sym.sym_step_sound
#print axioms BB.Sym.sym_period_sound
#print axioms BB.Sym.validate_app_sound
#print axioms BB.tape_parse_show
#print axioms BB.tape_show_injective
