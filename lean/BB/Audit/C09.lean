import BB.Props.C09
#print axioms BB.MacroSim.backsym_pureChain
#print axioms BB.MacroSim.backsym_instr_some_fixF3
#print axioms BB.MacroSim.backsym_instr_none_fixF3_partial
#print axioms BB.MacroSim.backsym_instr_none_of_fixF3
#print axioms BB.MacroSim.backsym_instr_none_weak_fixF3
#print axioms BB.MacroSim.backsym_simLim_short
#print axioms BB.MacroSim.backsym_instr_no_error_fixF3
#print axioms BB.MacroSim.backsym_macro_step_fixF3
#print axioms BB.MacroSim.backsym_macro_halt_fixF3_partial
#print axioms BB.MacroSim.backsym_macro_none_iff_fixF3
#print axioms BB.MacroSim.backsym_macro_sim_fixF3
#print axioms BB.MacroSim.backsym_F3_witness
#print axioms BB.MacroSim.backsym_instr_some_F3_counterexample
