import BB.Props.C12
#print axioms BB.C12_canon_reachable
#print axioms BB.rle_unroll
#print axioms BB.canon_eq_iff
#print axioms BB.tape_eq_iff
#print axioms BB.marks_truth
#print axioms BB.blank_truth
#print axioms BB.atEdge_truth
#print axioms BB.counts_truth
#print axioms BB.spanLens_truth
#print axioms BB.signature_truth
#print axioms BB.sigCompatible_iff
