import BB.Props.C06
#print axioms BB.Cps.closed_sound
#print axioms BB.Cps.closed_check_sound
#print axioms BB.Cps.closed_check_sound_blankAfter
#print axioms BB.Cps.orderOK_id
#print axioms BB.Cps.orderOK_reverse
#print axioms BB.Cps.cps_true_closed
#print axioms BB.Cps.cps_run_sound
#print axioms BB.Cps.cps_run_blank_sound_blankAfter
#print axioms BB.Cps.cps_cant_halt_sound
#print axioms BB.Cps.cps_cant_halt_sound_fix
#print axioms BB.Cps.cps_cant_blank_sound
#print axioms BB.Cps.cps_cant_spin_out_sound
#print axioms BB.Cps.cps_cant_halt_F2_witness
#print axioms BB.Cps.cps_cant_halt_F2_repaired
