import BB.Props.C05
#print axioms BB.Segment.seg_halt_true
#print axioms BB.Segment.seg_blank_true
#print axioms BB.Segment.seg_spinout_true
#print axioms BB.Segment.seg_repeat_forever
#print axioms BB.Segment.init_exact
#print axioms BB.Segment.seg_refuted_sound_halt
#print axioms BB.Segment.seg_refuted_sound_spinout
#print axioms BB.Segment.seg_blank_never_refuted
#print axioms BB.Segment.seg_refuted_sound_blank
#print axioms BB.Segment.seg_refuted_sound
#print axioms BB.Segment.py_segment_fixed_sound
#print axioms BB.Segment.seg_refuted_needs_positive_params
#print axioms BB.Segment.seg_cant_halt_F2_witness
