import BB.Props.C05
#print axioms BB.Segment.seg_halt_true
#print axioms BB.Segment.seg_blank_true
#print axioms BB.Segment.seg_spinout_true
#print axioms BB.Segment.seg_repeat_forever
#print axioms BB.Segment.init_exact
#print axioms BB.Segment.seg_cant_halt_F2_witness
