import BB.Props.C08
#print axioms BB.MacroSim.block_pureChain
#print axioms BB.MacroSim.closedB_iff
#print axioms BB.MacroSim.block_instr_some
#print axioms BB.MacroSim.exit_not_in_window
#print axioms BB.MacroSim.block_instr_none
#print axioms BB.MacroSim.block_instr_no_error
#print axioms BB.MacroSim.block_macro_step
#print axioms BB.MacroSim.block_macro_halt
#print axioms BB.MacroSim.block_macro_sim
