import BB.Props.C17
#print axioms BB.py_step_eq
#print axioms BB.py_step_eq_iff
#print axioms BB.step_noZero
#print axioms BB.py_run_eq
#print axioms BB.py_rs_run_eq_counterexample
#print axioms BB.py_rs_run_eq_partial
#print axioms BB.py_get_rule_eq
#print axioms BB.py_sig_compatible_eq
