import BB.Props.C17
#print axioms BB.py_step_eq
#print axioms BB.py_step_eq_iff
#print axioms BB.step_noZero
#print axioms BB.py_run_eq
