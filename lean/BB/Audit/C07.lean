import BB.Props.C07

#print axioms BB.rec_undefined
#print axioms BB.rec_spinout
#print axioms BB.rec_recur
#print axioms BB.rec_recur_translated
