/-
Executable ground-truth oracle: the L0 machine run cell by cell with a step budget.
Half-tapes are kept trimmed (a blank is never stored at the far end), so "all zero" is
"empty"; `Oracle.step` is `BB.step1` up to `≈c` (theorem `Oracle.step_equiv` in Lemmas).
Import-free.
-/
import BB.Spec
import BB.Model.Instrs

namespace BB.Oracle

def consT (x : Nat) (l : List Nat) : List Nat := if x == 0 && l.isEmpty then [] else x :: l

def move (c : Cfg) (pr : Nat) (right : Bool) (q : Nat) : Cfg :=
  if right then ⟨q, consT pr c.left, c.right.headD 0, c.right.tail⟩
  else ⟨q, c.left.tail, c.left.headD 0, consT pr c.right⟩

def isBlank (c : Cfg) : Bool := c.scan == 0 && c.left.isEmpty && c.right.isEmpty

structure Facts where
  steps   : Nat := 0                       -- steps executed
  halt    : Option (Nat × Nat × Nat) := none  -- (step, state, colour)
  spin    : Option Nat := none             -- first step at which a spin-out configuration holds
  erase   : Option Nat := none             -- first n such that step n turned a non-blank tape blank
  blanks  : List (Nat × Nat) := []         -- state ↦ first n ≥ 1 with blank tape in that state
  final   : Cfg := Cfg.init
deriving Inhabited

def insBlank (b : List (Nat × Nat)) (q n : Nat) : List (Nat × Nat) :=
  if b.any (·.1 == q) then b else
  let rec ins : List (Nat × Nat) → List (Nat × Nat)
    | [] => [(q, n)]
    | (k, v) :: r => if q < k then (q, n) :: (k, v) :: r else (k, v) :: ins r
  ins b

/-- run until halt, spin-out or budget. -/
def run (p : Prog) (budget : Nat) : Facts := Id.run do
  let mut c : Cfg := Cfg.init
  let mut f : Facts := {}
  for n in [0:budget] do
    match p.get (c.state, c.scan) with
    | none =>
      f := { f with halt := some (n, c.state, c.scan), steps := n, final := c }
      return f
    | some (pr, sh, q) =>
      if c.scan == 0 && q == c.state && (if sh then c.right else c.left).isEmpty then
        f := { f with spin := some n, steps := n, final := c }
        return f
      let wasBlank := isBlank c
      c := move c pr sh q
      if isBlank c then
        if !wasBlank && f.erase.isNone then f := { f with erase := some (n + 1) }
        f := { f with blanks := insBlank f.blanks q (n + 1) }
  -- budget exhausted: still check halt/spin at the final configuration
  match p.get (c.state, c.scan) with
  | none => return { f with halt := some (budget, c.state, c.scan), steps := budget, final := c }
  | some (_, sh, q) =>
    if c.scan == 0 && q == c.state && (if sh then c.right else c.left).isEmpty then
      return { f with spin := some budget, steps := budget, final := c }
    return { f with steps := budget, final := c }

/-- the configuration after exactly `n` steps (none if it halts earlier) -/
def cfgAt (p : Prog) (n : Nat) : Option Cfg := Id.run do
  let mut c : Cfg := Cfg.init
  for _ in [0:n] do
    match p.get (c.state, c.scan) with
    | none => return none
    | some (pr, sh, q) => c := move c pr sh q
  return some c

def showCfg (c : Cfg) : String :=
  s!"{c.state}:{",".intercalate (c.left.map toString)}|{c.scan}|{",".intercalate (c.right.map toString)}"

/-- configurations at the given (ascending) step numbers; "halted" once the machine has halted -/
def cfgsAt (p : Prog) (ns : List Nat) : List String := Id.run do
  let mut c : Cfg := Cfg.init
  let mut n := 0
  let mut halted := false
  let mut out : Array String := #[]
  for target in ns do
    while n < target && !halted do
      match p.get (c.state, c.scan) with
      | none => halted := true
      | some (pr, sh, q) =>
        c := move c pr sh q
        n := n + 1
    out := out.push (if halted && n < target then "halted" else showCfg c)
  return out.toList

/-- first `n` cells of a half-tape (blank-padded) -/
def takePad (l : List Nat) (n : Nat) : List Nat :=
  match n with
  | 0 => []
  | n + 1 => l.headD 0 :: takePad l.tail n

def trimEq (a b : List Nat) : Bool :=
  -- equality up to trailing blanks
  let rec go : List Nat → List Nat → Bool
    | [], [] => true
    | [], y :: ys => y == 0 && go [] ys
    | x :: xs, [] => x == 0 && go xs []
    | x :: xs, y :: ys => x == y && go xs ys
  go a b

/-- Brute-force search for a translated-cycle (Lin) recurrence certificate on L0 within `budget`
    steps: steps n < k with equal state and scan, the cells visited during [n,k] equal after the
    shift δ = pos k − pos n, and the whole half-line on the side moved towards equal.
    Returns (n, k − n, δ). Independent of blocks, cycles and the code's reset schedule. -/
def linrec (p : Prog) (budget : Nat) : String := Id.run do
  -- history of (state, pos, cfg)
  let mut hist : Array (Nat × Int × Cfg) := #[]
  let mut c : Cfg := Cfg.init
  let mut pos : Int := 0
  let mut term : String := ""
  for n in [0:budget + 1] do
    hist := hist.push (c.state, pos, c)
    match p.get (c.state, c.scan) with
    | none => term := s!"term=halt@{n}"; break
    | some (pr, sh, q) =>
      if c.scan == 0 && q == c.state && (if sh then c.right else c.left).isEmpty then
        term := s!"term=spin@{n}"; break
      c := move c pr sh q
      pos := if sh then pos + 1 else pos - 1
  if term != "" then return term
  let N := hist.size
  for n in [0:N] do
    let (qn, pn, cn) := hist[n]!
    let mut lo := pn
    let mut hi := pn
    for k in [n + 1:N] do
      let (qk, pk, ck) := hist[k]!
      -- extent visited during steps n .. k-1 (positions of the head while executing them)
      let (_, pprev, _) := hist[k - 1]!
      if pprev < lo then lo := pprev
      if pprev > hi then hi := pprev
      if qk == qn && ck.scan == cn.scan then
        let L := (pn - lo).toNat
        let R := (hi - pn).toNat
        let d := pk - pn
        let ok :=
          if d > 0 then takePad ck.left L == takePad cn.left L && trimEq ck.right cn.right
          else if d < 0 then takePad ck.right R == takePad cn.right R && trimEq ck.left cn.left
          else takePad ck.left L == takePad cn.left L && takePad ck.right R == takePad cn.right R
        if ok then return s!"cert={n},{k - n},{d}"
  return "none"

def trimList (l : List Nat) : List Nat := (l.reverse.dropWhile (· == 0)).reverse

def parseCfg (s : String) : Option Cfg :=
  match s.splitOn ":" with
  | [q, rest] =>
    match rest.splitOn "|" with
    | [l, sc, r] =>
      let nums (x : String) : List Nat := if x.isEmpty then [] else (x.splitOn ",").map String.toNat!
      some ⟨q.toNat!, nums l, sc.toNat!, nums r⟩
    | _ => none
  | _ => none

/-- `a` is a parsed target (trimmed here once), `b` a configuration of the run, whose half-tapes are
    always trimmed (`consT` never stores a trailing blank): plain list equality, which stops at the
    first difference (comparing up to trailing blanks cell by cell made long sweeps quadratic). -/
def cfgSame (a b : Cfg) : Bool :=
  a.state == b.state && a.scan == b.scan && a.left == b.left && a.right == b.right

/-- search the given configurations (strings in `showCfg` format), in order, along the L0
    trajectory within `budget` steps; returns how many were found and the steps at which. -/
def matchSeq (p : Prog) (budget : Nat) (targets : List String) : String := Id.run do
  let mut c : Cfg := Cfg.init
  let mut n := 0
  let mut found : Array Nat := #[]
  let mut rest := (targets.filterMap parseCfg).map fun t => { t with left := trimList t.left, right := trimList t.right }
  if rest.length != targets.length then return "bad-targets"
  let mut halted := false
  while !rest.isEmpty && n ≤ budget && !halted do
    match rest with
    | t :: ts =>
      if cfgSame t c then
        found := found.push n
        rest := ts
    | [] => pure ()
    match p.get (c.state, c.scan) with
    | none => halted := true
    | some (pr, sh, q) =>
      c := move c pr sh q
      n := n + 1
  let ending := if rest.isEmpty then "done" else if halted then "halt" else "budget"
  s!"matched={found.size}/{targets.length} end={ending} at={",".intercalate (found.toList.map toString)}"

def showOptNat : Option Nat → String
  | none => "none"
  | some n => toString n

def Facts.show (f : Facts) : String :=
  let h := match f.halt with
    | none => "none"
    | some (n, q, s) => s!"{n}:{q},{s}"
  let b := ",".intercalate (f.blanks.map fun (q, n) => s!"{q}:{n}")
  s!"steps={f.steps} halt={h} spin={showOptNat f.spin} erase={showOptNat f.erase} blanks={b} marks={f.final.marks}"

end BB.Oracle
