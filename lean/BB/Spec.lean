/-
L0 — the specification layer.

A Turing machine on a two-sided tape, one cell at a time.  Nothing in this file
mentions blocks, sweeps, signatures, rules or macros.  Every property theorem in
`BB/Props` is stated in terms of the definitions below; this file is meant to be
read in a few minutes.

Import-free (core Lean only) so that the executable oracle in the driver can use
the very same definitions.
-/

namespace BB

/-- An instruction: colour to print, direction (`true` = right), next state. -/
abbrev Instr := Nat × Bool × Nat

/-- A program as a partial function from (state, scanned colour). `none` = undefined
    instruction = the machine halts there. -/
abbrev ProgF := Nat → Nat → Option Instr

/-- A configuration.  `left`/`right` list the cells next to the head, nearest first;
    every cell beyond the end of a list is blank (0). -/
structure Cfg where
  state : Nat
  left  : List Nat
  scan  : Nat
  right : List Nat
deriving Repr, DecidableEq, Inhabited

/-- The initial configuration: state 0 on the blank tape. -/
def Cfg.init : Cfg := ⟨0, [], 0, []⟩

/-- i-th cell of a half-tape (0 beyond the list). -/
def cellAt (l : List Nat) (i : Nat) : Nat := l.getD i 0

/-- Two half-tapes hold the same cells (equal up to trailing blanks). -/
def SameCells (a b : List Nat) : Prop := ∀ i, cellAt a i = cellAt b i

/-- Two configurations are the same machine configuration. -/
def Cfg.Equiv (a b : Cfg) : Prop :=
  a.state = b.state ∧ a.scan = b.scan ∧ SameCells a.left b.left ∧ SameCells a.right b.right

infix:50 " ≈c " => Cfg.Equiv

/-- All cells of a half-tape are blank. -/
def AllZero (l : List Nat) : Prop := ∀ i, cellAt l i = 0

def allZeroB (l : List Nat) : Bool := l.all (· == 0)

/-- The whole tape is blank. -/
def Cfg.Blank (c : Cfg) : Prop := c.scan = 0 ∧ AllZero c.left ∧ AllZero c.right

def Cfg.blankB (c : Cfg) : Bool := c.scan == 0 && allZeroB c.left && allZeroB c.right

/-- Number of non-blank cells. -/
def countNZ (l : List Nat) : Nat := (l.filter (· != 0)).length

def Cfg.marks (c : Cfg) : Nat := countNZ c.left + (if c.scan != 0 then 1 else 0) + countNZ c.right

/-- Move the head after printing `pr`. -/
def Cfg.move (c : Cfg) (pr : Nat) (right : Bool) (q : Nat) : Cfg :=
  if right then ⟨q, pr :: c.left, c.right.headD 0, c.right.tail⟩
  else ⟨q, c.left.tail, c.left.headD 0, pr :: c.right⟩

/-- One machine step; `none` when the instruction is undefined (halt). -/
def step1 (p : ProgF) (c : Cfg) : Option Cfg :=
  match p c.state c.scan with
  | none => none
  | some (pr, sh, q) => some (c.move pr sh q)

/-- `n` machine steps; `none` if an undefined instruction is met before `n` steps are done. -/
def stepN (p : ProgF) : Nat → Cfg → Option Cfg
  | 0, c => some c
  | n + 1, c => match step1 p c with
    | none => none
    | some c' => stepN p n c'

/-- `c'` is reached from `c` in exactly `n` steps. -/
def ReachesIn (p : ProgF) (n : Nat) (c c' : Cfg) : Prop := stepN p n c = some c'

def Reaches (p : ProgF) (c c' : Cfg) : Prop := ∃ n, ReachesIn p n c c'

/-- The machine, from the blank tape, is in `c` after `n` steps. -/
def RunAt (p : ProgF) (n : Nat) (c : Cfg) : Prop := stepN p n Cfg.init = some c

/-- Halting: after exactly `n` steps the machine is at slot `(q,s)` which has no instruction. -/
def HaltsAt (p : ProgF) (n : Nat) (q s : Nat) : Prop :=
  ∃ c, RunAt p n c ∧ c.state = q ∧ c.scan = s ∧ p q s = none

def Halts (p : ProgF) : Prop := ∃ n q s, HaltsAt p n q s

def NeverHalts (p : ProgF) : Prop := ∀ n, ∃ c, RunAt p n c

/-- A spin-out configuration: scanning a blank, the instruction keeps the state, and there is
    nothing but blanks in the direction of travel. -/
def SpinOutCfg (p : ProgF) (c : Cfg) : Prop :=
  c.scan = 0 ∧ ∃ pr sh, p c.state 0 = some (pr, sh, c.state) ∧
    AllZero (if sh then c.right else c.left)

def SpinsOut (p : ProgF) : Prop := ∃ n c, RunAt p n c ∧ SpinOutCfg p c

/-- The tape is blank after `n ≥ 1` steps, in state `q`. -/
def BlankAfter (p : ProgF) (n q : Nat) : Prop :=
  0 < n ∧ ∃ c, RunAt p n c ∧ c.state = q ∧ c.Blank

/-- Erase event: step `n+1` turns a non-blank tape blank. -/
def ErasesAt (p : ProgF) (n : Nat) : Prop :=
  ∃ c c', RunAt p n c ∧ ¬ c.Blank ∧ step1 p c = some c' ∧ c'.Blank

end BB
