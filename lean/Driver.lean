import BB.Driver.Main

def main (args : List String) : IO UInt32 := BB.Driver.main args
