#!/usr/bin/env python3
"""Regenerate /verif/theorems.json (the registry that pins which theorems each property's audit
must show) from the `#print axioms` lines of lean/BB/Audit/*.lean.  Run by hand after adding
theorems; the checks only READ the registry, so deleting a theorem from an audit file is noticed."""
import json, os, re
V = os.path.dirname(os.path.dirname(os.path.abspath(__file__)))
reg = {}
d = os.path.join(V, "lean", "BB", "Audit")
for fn in sorted(os.listdir(d)):
    if fn.endswith(".lean"):
        reg[fn[:-5]] = re.findall(r"^#print axioms\s+(\S+)", open(os.path.join(d, fn)).read(), re.M)
json.dump(reg, open(os.path.join(V, "theorems.json"), "w"), indent=1)
print({k: len(v) for k, v in reg.items()})
