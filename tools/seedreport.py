#!/usr/bin/env python3
"""Print the markdown table of DESIGN.md section 12 from /verif/seeded/*/{meta,confirm,detect}.json."""
import json, os, re, sys
V = os.path.dirname(os.path.dirname(os.path.abspath(__file__)))
S = os.path.join(V, "seeded")
rows = []
for name in sorted(os.listdir(S)):
    d = os.path.join(S, name)
    if not os.path.isdir(d):
        continue
    def load(f):
        try:
            return json.load(open(os.path.join(d, f)))
        except Exception:
            return {}
    meta, conf, det = load("meta.json"), load("confirm.json"), load("detect.json")
    summ = re.sub(r"\s+", " ", str(meta.get("summary", "")))[:230]
    needs = re.sub(r"\s+", " ", str(meta.get("needs_to_manifest", "")))[:200]
    cells = []
    nested = "without_corpus" in det
    items = []
    if nested:
        items += [(k, v, "") for k, v in det["without_corpus"].items()]
        items += [(k, v, " [with regression corpus]") for k, v in det.get("with_corpus", {}).items()]
    else:
        items = [(k, v, "") for k, v in det.items()]
    for pid, r, tag in items:
        if not isinstance(r, dict):
            continue
        if r.get("rc") == 1:
            kinds = r.get("kinds", [])
            line = (r.get("lines") or [""])[0]
            how = "failing input found" if "no-failing-input-found" not in line else "broken correspondence / theorem, no failing input"
            cells.append(f"{pid}{tag}: VIOLATION ({', '.join(kinds)}; {how}; {r.get('wall')} s)")
        else:
            cells.append(f"{pid}{tag}: not detected ({r.get('wall')} s)")
    rows.append(f"| {name} | {', '.join(conf.get('files', meta.get('files', [])))} | {summ} | {needs} | {'; '.join(cells)} |")
print("| seeded change | files | what was changed | needs to manifest | checks run against it (quick tier) |")
print("|---|---|---|---|---|")
print("\n".join(rows))
