#!/usr/bin/env python3
"""tools/mutate.py --n N --seed S [--workers K] [--files a.rs,b.rs]
Mechanical mutation experiment (development only; nothing here is a registered check).
For N single-token mutants of /repo/src/*.rs (outside #[cfg(test)] code and comments):
  1. copy /repo to /tmp/mut/w<k>/repo, apply the mutant, run the quick checks of the properties
     anchored in that file against the copy (VERIF_REPO, VERIF_SLOT=<k>, no extra rounds);
  2. a mutant that fails to build is dropped; one that a check reports is `detected`;
  3. for a mutant NO check reports, run the pinned suite on the copy: `suite-kills` or `survives-both`
     (the interesting class: equivalent mutant, or a gap).
Result lines are appended to /verif/.cache/mutants.jsonl; scratch copies are removed at the end."""
import argparse, hashlib, json, os, random, re, shutil, subprocess, sys, threading, time

V = os.path.dirname(os.path.dirname(os.path.abspath(__file__)))
PROPS = {"tape.rs": ["C12", "C01", "C07"], "machine.rs": ["C01", "C07", "C02"], "rules.rs": ["C11", "C03"],
         "prover.rs": ["C02", "C03"], "reason.rs": ["C04", "C15"], "segment.rs": ["C05", "C15"], "cps.rs": ["C06", "C15"],
         "macros.rs": ["C08", "C09", "C16"], "tree.rs": ["C10"], "graph.rs": ["C14"], "instrs.rs": ["C13", "C04", "C06"],
         # Python side (files of /repo/tm): `--files num.py,...`
         "num.py": ["C18"], "tape.py": ["C17"], "prover.py": ["C17"], "rules.py": ["C17"], "machine.py": ["C17"]}
PY_OPS = [(r" < ", " <= "), (r" <= ", " < "), (r" > ", " >= "), (r" >= ", " > "), (r" == ", " != "), (r" != ", " == "),
          (r" \+ ", " - "), (r" - ", " + "), (r" and ", " or "), (r" or ", " and "), (r" \* ", " + "), (r" // ", " * "),
          (r" % ", " // "), (r"\bcontinue\b", "break"), (r" is None", " is not None"), (r" is not None", " is None"),
          (r"\bmin\(", "max("), (r"\bmax\(", "min("), (r" - 1\b", " - 0"), (r" \+ 1\b", " + 0"), (r"\bTrue\b", "False"),
          (r"\bFalse\b", "True"), (r"\bnot ", ""), (r"return 0\b", "return 1"), (r"return 1\b", "return 0")]
PY_SKIP = ("#", "assert", "import", "from ", "raise", "class ", "def ", "@", "type ", chr(39) * 3, chr(34) * 3)


def src_path(root, fn):
    return os.path.join(root, "tm" if fn.endswith(".py") else "src", fn)
OPS = [(r" < ", " <= "), (r" <= ", " < "), (r" > ", " >= "), (r" >= ", " > "), (r" == ", " != "), (r" != ", " == "),
       (r" \+ ", " - "), (r" - ", " + "), (r" && ", " || "), (r" \|\| ", " && "), (r" \+= ", " -= "), (r" -= ", " += "),
       (r"\bcontinue;", "break;"), (r"\.is_some\(\)", ".is_none()"), (r"\.is_none\(\)", ".is_some()"),
       (r"\bmin\(", "max("), (r"\bmax\(", "min("), (r"\b0\.\.=", "1..="), (r"\.\.=", ".."), (r" - 1\b", " - 0"), (r" \+ 1\b", " + 0"),
       (r"\btrue\b", "false"), (r"\bfalse\b", "true"), (r"!self\.", "self."), (r"\.first\(\)", ".last()"), (r"\.is_empty\(\)", ".len() == 1")]


def candidates(files):
    out = []
    for fn in files:
        path = src_path("/repo", fn)
        lines = open(path).read().split("\n")
        in_test = False
        py = fn.endswith(".py")
        for i, l in enumerate(lines):
            if "#[cfg(test)]" in l:
                in_test = True          # test code is at the end of these files
            st = l.strip()
            if py:
                if not st or st.startswith(PY_SKIP) or "no-cover" in l or "isinstance" in l:
                    continue
                code = l.split("#")[0]
            else:
                if in_test or st.startswith("//") or st.startswith("#[") or st.startswith("assert") or st.startswith("use "):
                    continue
                code = l.split("//")[0]
            for pat, rep in (PY_OPS if py else OPS):
                for m in re.finditer(pat, code):
                    out.append((fn, i, m.start(), m.end(), rep, l))
    return out


def sh(cmd, cwd=None, env=None, timeout=3600):
    e = dict(os.environ)
    e.update(env or {})
    p = subprocess.run(cmd, shell=True, cwd=cwd, env=e, capture_output=True, text=True, timeout=timeout)
    return p.returncode, p.stdout + p.stderr


def work(k, queue, results, lock):
    base = f"/tmp/mut/w{k}"
    repo = os.path.join(base, "repo")
    shutil.rmtree(base, ignore_errors=True)
    os.makedirs(base)
    sh(f"rsync -a --exclude target --exclude .git /repo/ {repo}/")
    env = {"VERIF_REPO": repo, "VERIF_SLOT": str(k), "VERIF_NO_EXTRA": "1", "VERIF_NO_CORPUS": "1",
           "CARGO_NET_OFFLINE": "true"}
    while True:
        with lock:
            if not queue:
                break
            mut = queue.pop()
        fn, i, a, b, rep, line = mut
        path = src_path(repo, fn)
        orig = open(src_path("/repo", fn)).read()
        lines = orig.split("\n")
        lines[i] = lines[i][:a] + rep + lines[i][b:]
        open(path, "w").write("\n".join(lines))
        rec = {"file": fn, "line": i + 1, "from": line.strip()[:120], "to": lines[i].strip()[:120], "checks": {}}
        t = time.time()
        verdict = "missed"
        for pid in PROPS[fn]:
            rc, out = sh(f"python3 check.py {pid} --tier quick", cwd=V, env=env, timeout=2400)
            vio = [l for l in out.splitlines() if l.startswith("VIOLATION")]
            if "harness-build-failed" in out or "error[E" in out or "error: could not compile" in out:
                verdict = "no-build"
                break
            rp = os.path.join(V, ".cache", f"slot{k}", "replays", f"{pid}-0.json")
            kinds = []
            if vio and os.path.exists(rp):
                try:
                    kinds = sorted({v["kind"] for v in json.load(open(rp))["violations"]})
                except Exception:
                    pass
            if "harness-build-failed" in kinds:
                verdict = "no-build"
                break
            rec["checks"][pid] = ("VIOLATION" + ("" if "no-failing-input-found" not in " ".join(vio) else " (no input)") + " " + ",".join(kinds)) if vio else "ok"
            if vio:
                verdict = "detected"
                break
        rec["check_wall_s"] = round(time.time() - t, 1)
        if verdict == "missed":
            t = time.time()
            if fn.endswith(".py"):
                rc, out = sh(os.path.expanduser("~/.pyenv/versions/3.12.1/bin/python3") + " -m unittest test.test_num test.test_tape test.test_rules test.test_program 2>&1 | tail -4",
                             cwd=repo, timeout=3000)
                out = ("test result: ok" if "\nOK" in "\n" + out else "test result: FAILED; 1 failed;") + " " + out.replace("error", "err").replace("FAILED", "failed")[-200:]
            else:
                rc, out = sh("cargo test --offline --no-fail-fast 2>&1 | grep -E 'test result|FAILED|error' | head -20", cwd=repo,
                             env={"CARGO_TARGET_DIR": os.path.join(base, "target"), "CARGO_NET_OFFLINE": "true"}, timeout=3000)
            rec["suite"] = out.strip()[-300:]
            rec["suite_wall_s"] = round(time.time() - t, 1)
            if "error" in out and "test result" not in out:
                verdict = "no-build"
            elif "FAILED" in out or "failed; " in out and " 0 failed" not in out:
                verdict = "suite-kills"
            else:
                verdict = "survives-both"
        rec["verdict"] = verdict
        open(path, "w").write(orig)
        with lock:
            results.append(rec)
            with open(os.path.join(V, ".cache", "mutants.jsonl"), "a") as f:
                f.write(json.dumps(rec) + "\n")
            print(f"[{len(results)}] {verdict:14s} {fn}:{i+1}  {rec['from'][:60]}  ->  {rec['to'][:60]}  {rec['checks']}", flush=True)
    shutil.rmtree(base, ignore_errors=True)


def main():
    ap = argparse.ArgumentParser()
    ap.add_argument("--n", type=int, default=40)
    ap.add_argument("--seed", type=int, default=1)
    ap.add_argument("--workers", type=int, default=3)
    ap.add_argument("--files", default=",".join(k for k in PROPS if k.endswith(".rs")))
    ap.add_argument("--slot-base", type=int, default=0)
    a = ap.parse_args()
    rng = random.Random(a.seed)
    cands = candidates(a.files.split(","))
    rng.shuffle(cands)
    # spread over files
    by = {}
    for c in cands:
        by.setdefault(c[0], []).append(c)
    queue = []
    while len(queue) < a.n and any(by.values()):
        for fn in list(by):
            if by[fn] and len(queue) < a.n:
                queue.append(by[fn].pop())
    print(f"{len(cands)} candidate mutants, running {len(queue)}", flush=True)
    results, lock = [], threading.Lock()
    ths = [threading.Thread(target=work, args=(a.slot_base + k + 1, queue, results, lock)) for k in range(a.workers)]
    for t in ths:
        t.start()
    for t in ths:
        t.join()
    tally = {}
    for r in results:
        tally[r["verdict"]] = tally.get(r["verdict"], 0) + 1
    print(tally)


if __name__ == "__main__":
    main()
