#!/usr/bin/env python3
"""tools/confirm_seed.py <dir with patch.diff, demo.diff|demo.py, meta.json> [--keep-as NAME]
Confirms a seeded change in a scratch worktree of /repo (never in /repo itself):
  1. patch.diff applies; with patch (+ the added demo tests) the crate compiles and every one of
     the 40 pinned tests passes (per-test results are parsed, the pinned list is BASELINE.json's);
  2. the demonstration FAILS with the change;
  3. the demonstration PASSES without it.
Writes confirm.json into the directory and, with --keep-as, copies the directory to
/verif/seeded/NAME/.  The scratch worktree and its build output are removed afterwards."""
import json, os, re, shutil, subprocess, sys, time

V = os.path.dirname(os.path.dirname(os.path.abspath(__file__)))
PINNED = [t.split("::", 1)[1] for t in json.load(open("/root/.vp/BASELINE.json"))["stable_pass"]]
TARGET = os.environ.get("VS_TARGET", "/tmp/vs_target")
PY312 = os.path.expanduser("~/.pyenv/versions/3.12.1/bin/python3")
PYENV = {"PYENV_VERSION": "3.12.1", "PYO3_USE_ABI3_FORWARD_COMPATIBILITY": "1",
         "PATH": os.path.dirname(PY312) + os.pathsep + os.environ.get("PATH", "")}


def sh(cmd, cwd=None, timeout=3000, env=None):
    e = dict(os.environ)
    e.update({"CARGO_NET_OFFLINE": "true", "CARGO_TARGET_DIR": TARGET})
    if env:
        e.update(env)
    p = subprocess.run(cmd, shell=True, cwd=cwd, capture_output=True, text=True, timeout=timeout, env=e)
    return p.returncode, p.stdout + p.stderr


def parse_tests(out):
    return {m.group(1): m.group(2) for m in
            re.finditer(r"^test (\S+)(?: - should panic)? \.\.\. (ok|FAILED|ignored)", out, re.M)}


def main():
    d = os.path.abspath(sys.argv[1])
    keep = sys.argv[sys.argv.index("--keep-as") + 1] if "--keep-as" in sys.argv else None
    meta = json.load(open(os.path.join(d, "meta.json"))) if os.path.exists(os.path.join(d, "meta.json")) else {}
    wt = f"/tmp/vs_wt_{os.getpid()}"
    res = {"dir": d, "at": time.strftime("%Y-%m-%d %H:%M:%S")}
    rc, o = sh(f"git -C /repo worktree add -q --detach {wt} HEAD")
    if rc:
        print(o)
        return 2
    try:
        rust_demo = os.path.exists(os.path.join(d, "demo.diff"))
        py_demo = os.path.exists(os.path.join(d, "demo.py"))
        rc, o = sh(f"git apply {d}/patch.diff", cwd=wt)
        res["patch_applies"] = rc == 0
        if rc:
            res["error"] = o[-500:]
            return finish(res, d, keep)
        touched = subprocess.run("git diff --name-only", shell=True, cwd=wt, capture_output=True, text=True).stdout.split()
        res["files"] = touched
        if rust_demo:
            rc, o = sh(f"git apply {d}/demo.diff", cwd=wt)
            res["demo_applies_on_patch"] = rc == 0
            if rc:
                res["error"] = o[-500:]
                return finish(res, d, keep)
        # 1+2: full suite with patch (+demo tests)
        t = time.time()
        rc, out = sh("cargo test --offline --no-fail-fast 2>&1", cwd=wt)
        res["suite_wall_s"] = round(time.time() - t, 1)
        tests = parse_tests(out)
        res["compiles"] = bool(tests)
        if not tests:
            res["error"] = out[-1500:]
            return finish(res, d, keep)
        pinned_bad = [t for t in PINNED if tests.get(t) != "ok"]
        res["pinned_passed"] = len(PINNED) - len(pinned_bad)
        res["pinned_not_ok"] = pinned_bad
        extra = {k: v for k, v in tests.items() if k not in PINNED and v != "ignored"}
        res["demo_tests_with_patch"] = extra
        if rust_demo:
            res["demo_fails_with_patch"] = any(v == "FAILED" for v in extra.values())
        if py_demo:
            res.update(py_demo_run(d, wt, "with_patch"))
            res["demo_fails_with_patch"] = res["py_demo_with_patch_rc"] != 0
        # 3: without the change
        sh("git checkout -q -- . && git clean -fdq -e target", cwd=wt)
        if rust_demo:
            rc, o = sh(f"git apply {d}/demo.diff", cwd=wt)
            res["demo_applies_on_clean"] = rc == 0
            names = " ".join(extra.keys()) if extra else ""
            flt = meta.get("demo_filter") or ""
            rc, out = sh(f"cargo test --offline --no-fail-fast {flt} 2>&1" if flt else
                         "cargo test --offline --no-fail-fast -- " + " ".join(n.split("::")[-1] for n in extra) + " 2>&1", cwd=wt)
            t2 = parse_tests(out)
            ex2 = {k: v for k, v in t2.items() if k in extra}
            res["demo_tests_without_patch"] = ex2
            res["demo_passes_without_patch"] = bool(ex2) and all(v == "ok" for v in ex2.values())
        if py_demo:
            res.update(py_demo_run(d, wt, "without_patch"))
            res["demo_passes_without_patch"] = res["py_demo_without_patch_rc"] == 0
        res["confirmed"] = bool(res.get("pinned_passed") == len(PINNED) and res.get("demo_fails_with_patch")
                                and res.get("demo_passes_without_patch"))
        return finish(res, d, keep)
    finally:
        subprocess.run(f"git -C /repo worktree remove --force {wt}", shell=True, capture_output=True)
        shutil.rmtree(wt, ignore_errors=True)


def py_demo_run(d, wt, tag):
    """python demos: run demo.py from the repo root under CPython 3.12; build the extension when
    Rust sources are touched or the demo imports it"""
    src = open(os.path.join(d, "demo.py")).read()
    out = {}
    if "rust_stuff" in src or any(f.startswith("src/") for f in subprocess.run(
            "git diff --name-only", shell=True, cwd=wt, capture_output=True, text=True).stdout.split()):
        rc, o = sh("cargo build --release --offline 2>&1 && cp " + TARGET + "/release/librust_stuff.so tm/rust_stuff.so",
                   cwd=wt, env=PYENV)
        out[f"py_ext_build_{tag}"] = rc == 0
    shutil.copy(os.path.join(d, "demo.py"), os.path.join(wt, "demo.py"))
    rc, o = sh("timeout 1800 " + PY312 + " demo.py 2>&1", cwd=wt, env=PYENV)
    out[f"py_demo_{tag}_rc"] = rc
    out[f"py_demo_{tag}_tail"] = o[-400:]
    os.remove(os.path.join(wt, "demo.py"))
    return out


def finish(res, d, keep):
    json.dump(res, open(os.path.join(d, "confirm.json"), "w"), indent=1)
    print(json.dumps({k: v for k, v in res.items() if k not in ("demo_tests_with_patch",)}, indent=1))
    if keep and res.get("confirmed"):
        dst = os.path.join(V, "seeded", keep)
        shutil.rmtree(dst, ignore_errors=True)
        shutil.copytree(d, dst)
        print("kept as", dst)
    return 0 if res.get("confirmed") else 1


if __name__ == "__main__":
    sys.exit(main())
