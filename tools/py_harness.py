#!/usr/bin/env python3
"""Python side of the C17 correspondence (run with PYENV_VERSION=3.12.1).

usage: py_harness.py <dir containing the scratch `tm` package>   < cases   > results

Line protocol as the Rust harness / Lean driver: `<op> <arg>* | <program text>`, one result line
per case.

  pytapeops <ops>      drive tm.tape.Tape (the class tm.machine.Machine.run uses; blank tape built
                       the same way: `Tape()`) through `<L|R><colour><s|n>` triples with the REAL
                       `Tape.step`; after each step print `<stepped>:<observers>` joined by " # ",
                       the observer string being the one the Rust op `tapeops` prints
                       (display;m=;b=;eL=;eR=;n=;c=;sig=;u=), every field computed from the Python
                       tape's own properties / blocks.
  pytapeopsx <toks>    comma separated tokens: step triple, `s=<colour>` (assign tape.scan),
                       `cl<pos>=<val>` / `cr<pos>=<val>` (Tape.set_count, ignored out of range).
  pyrun <lim> | prog   tm.machine.Machine(prog).run(sim_lim=lim); prints
                       `<kind> steps= cycles= marks= rulapp= blanks=<q:n,..> last=<q,c|-> nonadd= sus= sdr= unk= cap=`
                       nonadd=1: some calculate_diff call of the run returned a non-int operation
                       (multiplicative pair or op sequence), whether or not the rule was applied.
                       sus/sdr/unk: number of SuspectedRule / SecondDiffRule / UnknownRule raised
                       by calculate_diff.  cap=1: Prover.run_simulator was asked for more than
                       90 000 steps, a delta the Rust prover refuses to simulate (src/prover.rs
                       try_rule: `delta > 90_000 => None`).  An exception escaping run() prints
                       `PYEXC:<type>`.
  extrun <lim> | prog  tm.rust_stuff.run_prover(prog, lim) -- the *release* extension the Makefile
                       ships -- in the same format (`EXTPANIC` when it panics).
"""
import os
import signal
import sys

RUST_DELTA_CAP = 90_000
CASE_TIMEOUT = int(os.environ.get("PYH_CASE_TIMEOUT", "120"))


class CaseTimeout(BaseException):
    pass


def _alarm(_sig, _frm):
    raise CaseTimeout


def lower(b):
    return "true" if b else "false"


def show_block(blk):
    color, count = blk.color, blk.count
    if count == 1:
        return f"{color}"
    if count == 0:
        return f"{color}.."
    return f"{color}^{count}"


def show_cc(cc):
    return f"[{cc[0]}]" if isinstance(cc, tuple) else f"{cc}"


def show_obs(tape):
    disp = " ".join(
        [show_block(b) for b in reversed(tape.lspan)]
        + [f"[{tape.scan}]"]
        + [show_block(b) for b in tape.rspan])
    lc, rc = tape.counts
    scan, lsig, rsig = tape.signature
    unroll = []
    for b in reversed(tape.lspan):
        unroll += [b.color] * b.count
    unroll.append(tape.scan)
    for b in tape.rspan:
        unroll += [b.color] * b.count
    ll, rl = tape.span_lens
    return (
        f"{disp};m={tape.marks};b={lower(tape.blank)}"
        f";eL={lower(tape.at_edge(False))};eR={lower(tape.at_edge(True))}"
        f";n={ll + rl};c={','.join(map(str, lc))}/{','.join(map(str, rc))}"
        f";sig={scan}|{','.join(map(show_cc, lsig))}|{','.join(map(show_cc, rsig))}"
        f";u={','.join(map(str, unroll))}")


def op_pytapeops(Tape, ops):
    tape = Tape()
    outs = []
    for i in range(0, len(ops) - 2, 3):
        d, c, k = ops[i], ops[i + 1], ops[i + 2]
        stepped = tape.step(d == "R", ord(c) - 48, k == "s")
        outs.append(f"{stepped}:{show_obs(tape)}")
    return " # ".join(outs)


def op_pytapeopsx(Tape, toks):
    tape = Tape()
    outs = []
    for tok in toks.split(","):
        if len(tok) == 3 and tok.startswith("s="):
            tape.scan = ord(tok[2]) - 48
            k = "-"
        elif tok.startswith("c") and len(tok) >= 2:
            parts = tok[2:].split("=")
            if len(parts) != 2:
                k = "?"
            else:
                pos, val = int(parts[0]), int(parts[1])
                side = tok[1] == "r"
                ll, rl = tape.span_lens
                if pos < (rl if side else ll):
                    tape.set_count((1 if side else 0, pos), val)
                k = "-"
        elif len(tok) == 3:
            k = str(tape.step(tok[0] == "R", ord(tok[1]) - 48, tok[2] == "s"))
        else:
            k = "?"
        outs.append(f"{k}:{show_obs(tape)}")
    return " # ".join(outs)


class DiffSpy:
    """replaces tm.rules.calculate_diff for the duration of one run"""

    def __init__(self, rules_mod):
        self.mod = rules_mod
        self.orig = rules_mod.calculate_diff
        self.reset()

    def reset(self):
        self.cap = 0
        self.nonadd = 0
        self.sus = 0
        self.sdr = 0
        self.unk = 0

    def __call__(self, *counts):
        try:
            res = self.orig(*counts)
        except self.mod.SuspectedRule:
            self.sus += 1
            raise
        except self.mod.SecondDiffRule:
            self.sdr += 1
            raise
        except self.mod.UnknownRule:
            self.unk += 1
            raise
        if res is not None and type(res) is not int:
            self.nonadd = 1
        if any(type(c) is not int for c in counts):
            self.nonadd = 1
        return res


def show_int(v):
    return str(v) if type(v) is int else "alg"


def op_pyrun(Machine, spy, lim, prog):
    spy.reset()
    try:
        m = Machine(prog).run(sim_lim=lim)
    except CaseTimeout:
        raise
    except Exception as exc:  # noqa: BLE001
        return f"PYEXC:{type(exc).__name__}"
    last = "-"
    if m.limrul is not None:
        kind = "limrul"
    elif m.cfglim is not None:
        kind = "cfglim"
    elif m.infrul is not None:
        kind = "infrul"
    elif m.undfnd is not None:
        kind = "undfnd"
        q, c = m.undfnd[1]
        last = f"{q},{c}"
    elif m.spnout is not None:
        kind = "spnout"
    elif m.xlimit is not None:
        kind = "xlimit"
    else:
        kind = "none"
    blanks = ",".join(f"{q}:{n}" for q, n in sorted(m.blanks.items()))
    nonadd = spy.nonadd or int(type(m.marks) is not int or type(m.rulapp) is not int)
    return (
        f"{kind} steps={m.steps} cycles={m.cycles} marks={show_int(m.marks)}"
        f" rulapp={show_int(m.rulapp)} blanks={blanks} last={last}"
        f" nonadd={nonadd} sus={spy.sus} sdr={spy.sdr} unk={spy.unk} cap={spy.cap}")


def op_extrun(run_prover, lim, prog):
    try:
        r = run_prover(prog, lim)
    except CaseTimeout:
        raise
    except BaseException:  # pyo3 PanicException derives from BaseException
        return "EXTPANIC"
    last = "-"
    if r.undfnd is not None:
        kind = "undfnd"
        q, c = r.undfnd[1]
        last = f"{q},{c}"
    elif r.spnout is not None:
        kind = "spnout"
    elif r.infrul is not None:
        kind = "infrul"
    elif r.xlimit is not None:
        kind = "xlimit"
    elif r.cfglim is not None:
        kind = "cfglim"
    else:
        kind = "mulrul"
    blanks = ",".join(f"{q}:{n}" for q, n in sorted(r.blanks.items()))
    return (f"{kind} steps={r.steps} cycles={r.cycles} marks={r.marks} rulapp={r.rulapp}"
            f" blanks={blanks} last={last}")


def main():
    root = sys.argv[1]
    sys.path.insert(0, root)
    sys.setrecursionlimit(10000)
    if hasattr(sys, "set_int_max_str_digits"):
        sys.set_int_max_str_digits(0)
    import tm.rules as rules_mod
    from tm.machine import Machine
    from tm.rust_stuff import run_prover
    from tm.tape import Tape
    import tm.machine as machine_mod
    assert machine_mod.Tape is Tape
    spy = DiffSpy(rules_mod)
    rules_mod.calculate_diff = spy

    import tm.prover as prover_mod
    orig_sim = prover_mod.Prover.run_simulator

    def run_simulator(self, steps, state, tape):
        if steps > RUST_DELTA_CAP:
            spy.cap = 1
        return orig_sim(self, steps, state, tape)

    prover_mod.Prover.run_simulator = run_simulator
    signal.signal(signal.SIGALRM, _alarm)

    out = sys.stdout
    for line in sys.stdin:
        line = line.rstrip("\n")
        head, _, text = line.partition(" | ")
        parts = head.split(" ")
        op, args = parts[0], parts[1:]
        try:
            try:
                signal.alarm(CASE_TIMEOUT)
                if op == "pytapeops" and len(args) == 1:
                    res = op_pytapeops(Tape, args[0])
                elif op == "pytapeopsx" and len(args) == 1:
                    res = op_pytapeopsx(Tape, args[0])
                elif op == "pyrun" and len(args) == 1:
                    res = op_pyrun(Machine, spy, int(args[0]), text)
                elif op == "extrun" and len(args) == 1:
                    res = op_extrun(run_prover, int(args[0]), text)
                else:
                    res = "BAD-OP"
            finally:
                signal.alarm(0)
        except CaseTimeout:
            # also reached when the alarm fires while the inner handlers are running
            res = "PYTIMEOUT"
        except Exception as exc:  # noqa: BLE001
            res = f"PYEXC:{type(exc).__name__}"
        out.write(res + "\n")
    out.flush()


if __name__ == "__main__":
    main()
