#!/usr/bin/env python3
"""Regenerate /verif/source_pins.json: sha256 of every source file a property is anchored in, as
committed at /repo's HEAD.  The pins are what the hand-written model was validated against; when a
file's working-tree content differs from its pin, check.py spends extra search effort on the
properties anchored there (more seeds) - it never changes a verdict by itself.  Run by hand after a
commit to /repo (hooks, fix: commits)."""
import hashlib, json, os, subprocess
V = os.path.dirname(os.path.dirname(os.path.abspath(__file__)))
files = set()
for l in open(os.path.join(V, "properties.jsonl")):
    files |= set(json.loads(l)["anchors"]["files"])
files |= {"src/wrappers.rs", "src/instrs.rs", "src/tape.rs"}
pins = {}
for f in sorted(files):
    blob = subprocess.run(["git", "-C", "/repo", "show", f"HEAD:{f}"], capture_output=True).stdout
    pins[f] = hashlib.sha256(blob).hexdigest()
head = subprocess.run(["git", "-C", "/repo", "rev-parse", "HEAD"], capture_output=True, text=True).stdout.strip()
json.dump({"repo_head": head, "files": pins}, open(os.path.join(V, "source_pins.json"), "w"), indent=1)
print(len(pins), "files pinned at", head[:8])
