#!/bin/bash
# tools/seedrun.sh <seed out dir e.g. /tmp/seed/C05_out/A> <name e.g. C05-A> <check ids...>
# confirm the seeded change in a scratch worktree, keep it under /verif/seeded/<name>, then run the
# named checks against it (applied to /repo, undone straight afterwards); result -> seeded/<name>/detect.json
D=$1; NAME=$2; shift 2
cd /verif
python3 tools/confirm_seed.py $D --keep-as $NAME > /tmp/confirm_$NAME.log 2>&1
if [ -d /verif/seeded/$NAME ]; then
  python3 tools/seedtest.py /verif/seeded/$NAME/patch.diff "$@" > /verif/seeded/$NAME/detect.json 2>&1
  cat /verif/seeded/$NAME/detect.json
else
  echo "NOT CONFIRMED $NAME"; tail -30 /tmp/confirm_$NAME.log
fi
