#!/usr/bin/env python3
"""tools/seedtest.py <patch.diff> <ID> [<ID> ...] [--tier quick]
Apply a seeded change to /repo, run the named checks, undo the change (always), print a summary.
Never commits anything in /repo.  Used only while building (DESIGN.md section 12)."""
import json, os, subprocess, sys, time

V = os.path.dirname(os.path.dirname(os.path.abspath(__file__)))


def sh(cmd, **kw):
    return subprocess.run(cmd, shell=True, capture_output=True, text=True, **kw)


def main():
    args = [a for a in sys.argv[1:] if not a.startswith("--")]
    tier = "quick"
    if "--tier" in sys.argv:
        tier = sys.argv[sys.argv.index("--tier") + 1]
        args = [a for a in args if a != tier]
    patch, ids = args[0], args[1:]
    import fcntl
    lk = open("/tmp/repo_apply.lock", "w")
    fcntl.flock(lk, fcntl.LOCK_EX)      # one seeded change in /repo at a time
    st = sh("git -C /repo status --porcelain").stdout.strip()
    if st:
        print("refusing: /repo is not clean:\n" + st)
        return 2
    r = sh(f"git -C /repo apply {patch}")
    if r.returncode != 0:
        print("patch does not apply:", r.stderr)
        return 2
    res = {}
    try:
        for pid in ids:
            t = time.time()
            # evidence and replay files of a run against a seeded tree go to .cache/slotseed/, never
            # to the registered /verif/evidence
            p = sh(f"VERIF_SLOT=seed python3 check.py {pid} --tier {tier}", cwd=V)
            lines = [l for l in p.stdout.splitlines() if l.startswith(("VIOLATION", "OK ", "KNOWN-FINDING"))]
            res[pid] = {"rc": p.returncode, "wall": round(time.time() - t, 1),
                        "lines": [l[:300] for l in lines if not l.startswith("KNOWN")][:3]}
            if p.returncode != 0:
                rp = os.path.join(V, ".cache", "slotseed", "replays", f"{pid}-{os.environ.get('VERIF_SEED', '0') or 0}.json")
                if os.path.exists(rp):
                    v = json.load(open(rp))["violations"]
                    res[pid]["kinds"] = sorted({x["kind"] for x in v})
                    res[pid]["first"] = json.dumps(v[0])[:500]
    finally:
        sh("git -C /repo checkout -- .")
        if "C18" in ids:
            # the C18 check rewrites lean/BB/Generated/* and lean/BB/Audit/C18.lean from tm/num.py:
            # regenerate them from the restored source so that a seeded table never stays behind
            sh("PYENV_VERSION=3.12.1 " + os.path.expanduser("~/.pyenv/versions/3.12.1/bin/python3") + " tools/extract_num.py", cwd=V)
    print(json.dumps(res, indent=1))
    return 0


if __name__ == "__main__":
    sys.exit(main())
