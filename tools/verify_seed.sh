#!/bin/bash
# usage: verify_seed.sh <seed dir with patch.diff + demo.rs> <file to append demo to (repo-relative)> <test filter> <result json>
# Confirms in a scratch worktree of /repo: (1) patch applies, suite passes (40), (2) demo fails with patch, (3) demo passes without.
set -u
DIR=$1; TARGET=$2; FILTER=$3; OUT=$4
WT=/tmp/vs_$$
export CARGO_TARGET_DIR=/tmp/vs_target CARGO_NET_OFFLINE=true
git -C /repo worktree add -q $WT HEAD || exit 2
cd $WT
git apply $DIR/patch.diff || { echo '{"error":"patch does not apply"}' > $OUT; cd /; git -C /repo worktree remove --force $WT; exit 2; }
SUITE=$(timeout 1500 cargo test --offline 2>&1 | grep "test result" | head -1)
cat $DIR/demo.rs >> $TARGET
WITH=$(timeout 900 cargo test --offline $FILTER 2>&1 | grep "test result" | head -1)
git checkout -q -- .
cat $DIR/demo.rs >> $TARGET
WITHOUT=$(timeout 900 cargo test --offline $FILTER 2>&1 | grep "test result" | head -1)
git checkout -q -- .
cd /
git -C /repo worktree remove --force $WT
python3 - "$SUITE" "$WITH" "$WITHOUT" "$OUT" <<'P'
import sys,json
suite,w,wo,out=sys.argv[1:5]
json.dump({"suite_with_patch":suite,"demo_with_patch":w,"demo_without_patch":wo,
 "confirmed": ("40 passed" in suite and "0 failed" in suite) and ("FAILED" in w or " 0 passed" not in w and "failed" in w and "0 failed" not in w) and ("ok." in wo and "0 failed" in wo and " 0 passed" not in wo)},open(out,"w"),indent=1)
P
cat $OUT
