#!/usr/bin/env python3
"""C18 `expmod` correspondence, real-code side: reads lines `expmod <base> <exp> <mod>` on stdin and
prints what tm/num.py's `Exp(base, exp).__mod__(mod)` returns (`<int>`), or `raise:<ExceptionClass>`.
    PYENV_VERSION=3.12.1 python3 expmod_harness.py [--num-py PATH] < cases > out
The module is loaded by file path (tm.num imports only the standard library)."""
import importlib.util
import os
import sys


def main():
    path = os.environ.get("NUM_PY_PATH", "/repo/tm/num.py")
    if "--num-py" in sys.argv:
        path = sys.argv[sys.argv.index("--num-py") + 1]
    spec = importlib.util.spec_from_file_location("tm_num_under_test", path)
    mod = importlib.util.module_from_spec(spec)
    sys.modules["tm_num_under_test"] = mod
    spec.loader.exec_module(mod)
    out = []
    for line in sys.stdin:
        parts = line.split()
        if len(parts) != 4 or parts[0] != "expmod":
            out.append("BAD-OP")
            continue
        b, e, m = int(parts[1]), int(parts[2]), int(parts[3])
        try:
            r = mod.Exp(b, e).__mod__(m)
            out.append(str(int(r)) if isinstance(r, int) and not isinstance(r, bool) else f"noint:{r!r}")
        except Exception as ex:          # noqa: BLE001  (an exception is an outcome)
            out.append("raise:" + type(ex).__name__)
    sys.stdout.write("\n".join(out) + ("\n" if out else ""))


if __name__ == "__main__":
    main()
