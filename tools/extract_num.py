#!/usr/bin/env python3
"""C18 translator: tm/num.py literal residue tables  ->  Lean theorems.

    extract_num.py [NUM_PY] [--lean-root DIR] [--quiet]

Parses NUM_PY (default: $NUM_PY_PATH, else /repo/tm/num.py) with `ast` and writes

  <lean-root>/BB/Generated/NumTables.lean   one theorem per literal special case / table entry of
                                            `Exp.__mod__` and `exp_mod_special_cases`
  <lean-root>/BB/Generated/NumTablesData.lean  the literal tables of `exp_mod_special_cases` as Lean DATA
                                            (import-free; consulted by the model BB/Model/NumModTree.lean)
  <lean-root>/BB/Audit/C18.lean             `#print axioms` for every generated theorem

and prints a JSON summary on stdout (theorem names, num.py lines, machine-readable claim, the Lean
line range of each theorem).  Each theorem states the universally quantified arithmetic fact the
Python code relies on at that line; its proof is an instance of a hand-written periodicity lemma
(BB/Lemmas/PowMod.lean) closed by `decide` on one finite computation, so a wrong literal in num.py
makes `lake build BB.Generated.NumTables` fail at the theorem named after that line.
The data file and the theorems are linked inside NumTables.lean: `specialTables_data` (the flattened
data IS the list of proved entries, by `decide`) and `specialTables_sound` (hence every entry of the
data is a true statement about every exponent >= 2 in its residue class).

Anything inside the `match base:` of `Exp.__mod__` or the tables of `exp_mod_special_cases` that
this script does not understand is an error (exit 2): a special case is never skipped silently.
Needs Python >= 3.12 to parse num.py (`type` statement); re-executes itself under
PYENV_VERSION=3.12.1 when started by an older interpreter.
"""
import ast
import hashlib
import json
import math
import os
import sys

if sys.version_info < (3, 12):
    if os.environ.get("_EXTRACT_NUM_REEXEC"):
        sys.stderr.write("extract_num.py: needs Python >= 3.12\n")
        sys.exit(2)
    env = dict(os.environ, PYENV_VERSION="3.12.1", _EXTRACT_NUM_REEXEC="1")
    # a pyenv shim puts the selected version's bin first on PATH: resolve 3.12 by path when possible
    exe = "python3"
    for root in (os.environ.get("PYENV_ROOT"), os.path.expanduser("~/.pyenv"), "/root/.pyenv"):
        cand = os.path.join(root, "versions", "3.12.1", "bin", "python3") if root else None
        if cand and os.path.exists(cand):
            exe = cand
            break
    else:
        for root in (os.environ.get("PYENV_ROOT"), os.path.expanduser("~/.pyenv")):
            if root and os.path.exists(os.path.join(root, "shims", "python3")):
                exe = os.path.join(root, "shims", "python3")
                break
    os.execvpe(exe, [exe] + sys.argv, env)

VERIF = os.path.dirname(os.path.dirname(os.path.abspath(__file__)))
DEFAULT_NUM = "/repo/tm/num.py"
EXP_PRE = 2                 # `assert 1 < exp` precedes the special cases: exponents are >= 2
POW2_FALLBACK_NS = range(2, 7)


class Unsupported(Exception):
    def __init__(self, node, why):
        super().__init__(f"num.py:{getattr(node, 'lineno', '?')}: {why}")


# ------------------------------------------------------------------ small AST helpers

def is_name(n, name):
    return isinstance(n, ast.Name) and n.id == name


def const_int(n):
    if isinstance(n, ast.Constant) and isinstance(n.value, int) and not isinstance(n.value, bool):
        return n.value
    if isinstance(n, ast.UnaryOp) and isinstance(n.op, ast.USub):
        v = const_int(n.operand)
        return None if v is None else -v
    return None


def eq_name_const(test, names=("mod", "base")):
    """`<name> == <int>` -> (name, int)"""
    if (isinstance(test, ast.Compare) and len(test.ops) == 1 and isinstance(test.ops[0], ast.Eq)
            and isinstance(test.left, ast.Name) and test.left.id in names):
        v = const_int(test.comparators[0])
        if v is not None:
            return test.left.id, v
    return None


def exp_mod_k(n):
    """`exp % K` -> K"""
    if isinstance(n, ast.BinOp) and isinstance(n.op, ast.Mod) and is_name(n.left, "exp"):
        return const_int(n.right)
    return None


def safe_eval(node, env):
    """evaluate a side-effect-free arithmetic expression of num.py with the given variables"""
    allowed = (ast.Expression, ast.BinOp, ast.UnaryOp, ast.Call, ast.Name, ast.Constant, ast.Load,
               ast.Add, ast.Sub, ast.Mult, ast.Pow, ast.FloorDiv, ast.Mod, ast.USub, ast.Div)
    for sub in ast.walk(node):
        if not isinstance(sub, allowed):
            raise Unsupported(node, f"expression uses {type(sub).__name__}")
        if isinstance(sub, ast.Call) and not (isinstance(sub.func, ast.Name)
                                               and sub.func.id in ("int", "max", "min", "round", "log", "log2")):
            raise Unsupported(node, "call to an unknown function in a table expression")
    scope = {"int": int, "max": max, "min": min, "round": round, "log": math.log, "log2": math.log2}
    scope.update(env)
    return eval(compile(ast.Expression(node), "<num.py expr>", "eval"), {"__builtins__": {}}, scope)


def true_period(b, m, s):
    """least p >= 1 with b^(s+p) = b^s (mod m)"""
    x0 = pow(b, s, m)
    x = x0
    for p in range(1, 4 * m + 8):
        x = x * b % m
        if x == x0:
            return p
    return 1


def rep_of(r, p, s):
    """least representative >= s of the residue class r mod p (p > 0, 0 <= r < p)"""
    if r >= s:
        return r
    k = -(-(s - r) // p)
    return r + k * p


# ------------------------------------------------------------------ theorem builders

class Out:
    def __init__(self):
        self.thms = []          # dicts
        self.notes = []
        self.unmodelled = []
        self.special = None     # {"base", "line", "tables": [(M, P, [(r, v, theorem name)])]}

    def add(self, name, line, kind, statement, proof, claim, src, pre=""):
        if any(t["name"] == name for t in self.thms):
            k = 2
            while any(t["name"] == f"{name}_dup{k}" for t in self.thms):
                k += 1
            name = f"{name}_dup{k}"
        self.thms.append({"name": name, "line": line, "kind": kind, "statement": statement,
                          "proof": proof, "claim": claim, "source": src, "pre": pre})
        return name


def entry_thm(out, name, line, b, m, cond, v, src, where):
    """claim: for every e >= 2 [with e % K = r] : b^e % m = v"""
    if not (isinstance(b, int) and b >= 0 and isinstance(m, int) and m >= 1):
        raise Unsupported(ast.Constant(lineno=line), f"base {b} / modulus {m} out of the modelled range")
    if not (isinstance(v, int) and v >= 0):
        # a negative literal can never be a residue: state it over Int so that it fails honestly
        stmt = f"∀ e : Nat, 1 < e → ((({b} ^ e % {m} : Nat) : Int) = {v})"
        out.add(name, line, "entry", stmt, "by decide", {"b": b, "m": m, "cond": cond, "v": v}, src)
        return
    if cond is None:
        p = true_period(b, m, EXP_PRE)
        stmt = f"∀ e : Nat, 1 < e → {b} ^ e % {m} = {v}"
        if p == 1:
            rep = rep_of(0, 1, EXP_PRE)
            proof = (f"fun e h => entry_of_ok (b := {b}) (m := {m}) (p := 1) (s := {EXP_PRE}) (rep := {rep}) "
                     f"(r := 0) (v := {v}) (by decide) e h (Nat.mod_one e)")
        else:
            # the true sequence has period p > 1: the (false or true) claim is split by residue class
            proof = split_proof(b, m, p, [(r, v) for r in range(p)])
        out.add(name, line, "entry", stmt, proof, {"b": b, "m": m, "cond": None, "v": v, "where": where}, src)
        return
    K, r = cond
    if K <= 0:
        raise Unsupported(ast.Constant(lineno=line), f"exp % {K}")
    stmt = f"∀ e : Nat, 1 < e → e % {K} = {r} → {b} ^ e % {m} = {v}"
    if not 0 <= r < K:
        proof = (f"fun e _ hr => absurd hr (by have := Nat.mod_lt e (by decide : 0 < {K}); omega)")
    else:
        rep = rep_of(r, K, EXP_PRE)
        proof = (f"fun e h hr => entry_of_ok (b := {b}) (m := {m}) (p := {K}) (s := {EXP_PRE}) (rep := {rep}) "
                 f"(r := {r}) (v := {v}) (by decide) e h hr")
    out.add(name, line, "entry", stmt, proof, {"b": b, "m": m, "cond": [K, r], "v": v, "where": where}, src)


def one_entry(b, m, K, r, v, hyp):
    rep = rep_of(r, K, EXP_PRE)
    return (f"entry_of_ok (b := {b}) (m := {m}) (p := {K}) (s := {EXP_PRE}) (rep := {rep}) "
            f"(r := {r}) (v := {v}) (by decide) e h {hyp}")


def split_proof(b, m, K, table):
    """tactic proof of a goal `b ^ e % m = v` (v the same for all residues) by residue classes"""
    alts = " ∨ ".join(f"e % {K} = {r}" for r, _ in table)
    pats = " | ".join("hr" for _ in table)
    lines = ["by", "  intro e h",
             f"  rcases (by omega : {alts}) with {pats}"]
    for r, v in table:
        lines.append(f"  · exact {one_entry(b, m, K, r, v, 'hr')}")
    return "\n".join(lines)


def ite_thm(out, name, line, b, m, K, R, A, B, src, where):
    """claim: for every e >= 2 : b^e % m = if e % K = R then A else B"""
    if K <= 0 or not (0 <= R < K) or min(A, B) < 0:
        raise Unsupported(ast.Constant(lineno=line), "conditional special case outside the modelled range")
    stmt = f"∀ e : Nat, 1 < e → {b} ^ e % {m} = if e % {K} = {R} then {A} else {B}"
    others = [r for r in range(K) if r != R]
    lines = ["by", "  intro e h", "  split",
             f"  · next hc => exact {one_entry(b, m, K, R, A, 'hc')}",
             "  · next hc =>"]
    if len(others) == 1:
        lines.append(f"    exact {one_entry(b, m, K, others[0], B, '(by omega)')}")
    else:
        alts = " ∨ ".join(f"e % {K} = {r}" for r in others)
        lines.append(f"    rcases (by omega : {alts}) with {' | '.join('hr' for _ in others)}")
        for r in others:
            lines.append(f"    · exact {one_entry(b, m, K, r, B, 'hr')}")
    out.add(name, line, "ite", stmt, "\n".join(lines),
            {"b": b, "m": m, "ite": [K, R, A, B], "where": where}, src)


# ------------------------------------------------------------------ walking Exp.__mod__

def src_line(lines, n):
    return lines[n - 1].strip() if 0 < n <= len(lines) else ""


def handle_return(out, node, env, cond, lines):
    b, m = env.get("base"), env.get("mod")
    val = node.value
    line = node.lineno
    src = src_line(lines, line)
    where = f"Exp.__mod__ base={b} mod={m}" + (f" exp%{cond[0]}=={cond[1]}" if cond else "")
    if b is None or m is None:
        raise Unsupported(node, "literal return with base or modulus not fixed by the enclosing cases")
    v = const_int(val)
    tag = f"exp_mod_b{b}_m{m}"
    if v is not None:
        name = f"{tag}_case{cond[1]}_L{line}" if cond else f"{tag}_L{line}"
        entry_thm(out, name, line, b, m, cond, v, src, where)
        return
    if isinstance(val, ast.IfExp) and cond is None:
        t = val.test
        if (isinstance(t, ast.Compare) and len(t.ops) == 1 and isinstance(t.ops[0], ast.Eq)):
            K = exp_mod_k(t.left)
            R = const_int(t.comparators[0])
            A, B = const_int(val.body), const_int(val.orelse)
            if None not in (K, R, A, B):
                ite_thm(out, f"{tag}_L{line}", line, b, m, K, R, A, B, src, where)
                return
    raise Unsupported(node, "return expression of a special case is not a literal / `A if exp % K == R else B`")


def is_log2_test(test):
    """`int(log_mod := log2(mod)) == log_mod` -> name of the bound variable"""
    for sub in ast.walk(test):
        if (isinstance(sub, ast.NamedExpr) and isinstance(sub.value, ast.Call)
                and is_name(sub.value.func, "log2") and len(sub.value.args) == 1
                and is_name(sub.value.args[0], "mod")):
            return sub.target.id
    return None


def handle_pow2(out, node, var, env, lines, ns):
    b = env.get("base")
    if b is None or env.get("mod") is not None:
        raise Unsupported(node, "power-of-two branch outside a `case <base>`")
    if not (len(node.body) == 1 and isinstance(node.body[0], ast.AugAssign)
            and is_name(node.body[0].target, "exp") and isinstance(node.body[0].op, ast.Mod)
            and not node.orelse):
        raise Unsupported(node, "power-of-two branch is not `exp %= <expr>`")
    aug = node.body[0]
    line = aug.lineno
    src = src_line(lines, line)
    for n in ns:
        M = 2 ** n
        if M in (1, 2) or M == b:
            continue            # returned before the match
        try:
            Q = safe_eval(aug.value, {var: float(n)})
        except Unsupported:
            raise
        except Exception as e:        # noqa: BLE001  (ZeroDivisionError etc. at this n)
            raise Unsupported(aug, f"reduction modulus not computable for log_mod={n}: {e!r}")
        if not isinstance(Q, int) or Q < 0:
            raise Unsupported(aug, f"reduction modulus {Q!r} for log_mod={n}")
        name = f"exp_mod_b{b}_pow2_n{n}_L{line}"
        if Q == 0:
            # `exp %= 0` raises in Python: no value is returned, nothing to prove
            out.notes.append(f"{name}: exponent reduced modulo 0 (ZeroDivisionError), no obligation")
            continue
        stmt = (f"∀ e e' : Nat, e % {Q} = e' % {Q} → {b} ^ e % {M} = {b} ^ e' % {M}")
        proof = f"depends_only_of_ok (b := {b}) (m := {M}) (p := {Q}) (by decide)"
        out.add(name, line, "reduce", stmt, proof,
                {"b": b, "m": M, "reduce": Q, "n": n, "where": f"Exp.__mod__ base={b} mod=2^{n}"}, src)


def walk(out, stmts, env, cond, lines, ns, strict):
    for st in stmts:
        if isinstance(st, ast.Return):
            if st.value is not None and (const_int(st.value) is not None or isinstance(st.value, ast.IfExp)):
                handle_return(out, st, env, cond, lines)
            elif strict:
                raise Unsupported(st, "unrecognised return inside the special-case match")
            else:
                out.unmodelled.append({"line": st.lineno, "text": src_line(lines, st.lineno)})
        elif isinstance(st, ast.If):
            nc = eq_name_const(st.test)
            var = is_log2_test(st.test)
            if nc is not None and env.get(nc[0]) is None and not st.orelse:
                walk(out, st.body, dict(env, **{nc[0]: nc[1]}), cond, lines, ns, True)
            elif var is not None and strict:
                handle_pow2(out, st, var, env, lines, ns)
            elif strict:
                raise Unsupported(st, "unrecognised `if` inside the special-case match")
            else:
                out.unmodelled.append({"line": st.lineno, "text": src_line(lines, st.lineno)})
        elif isinstance(st, ast.Match):
            subj = st.subject
            if isinstance(subj, ast.Name) and subj.id in ("base", "mod") and env.get(subj.id) is None:
                for c in st.cases:
                    if c.guard is not None or not isinstance(c.pattern, ast.MatchValue):
                        raise Unsupported(c.pattern, "case pattern is not an integer literal")
                    v = const_int(c.pattern.value)
                    if v is None:
                        raise Unsupported(c.pattern, "case pattern is not an integer literal")
                    walk(out, c.body, dict(env, **{subj.id: v}), cond, lines, ns, True)
            elif exp_mod_k(subj) is not None and cond is None:
                K = exp_mod_k(subj)
                for c in st.cases:
                    if c.guard is not None or not isinstance(c.pattern, ast.MatchValue):
                        raise Unsupported(c.pattern, "case pattern is not an integer literal")
                    r = const_int(c.pattern.value)
                    if r is None:
                        raise Unsupported(c.pattern, "case pattern is not an integer literal")
                    walk(out, c.body, env, (K, r), lines, ns, True)
            else:
                raise Unsupported(st, "match on an unmodelled subject")
        elif strict:
            raise Unsupported(st, f"unrecognised statement {type(st).__name__} inside the special-case match")
        else:
            out.unmodelled.append({"line": st.lineno, "text": src_line(lines, st.lineno)})


def generic_prefix(out, fn, lines):
    """the three early returns of Exp.__mod__ (any base): mod == 1, mod == base, mod == 2"""
    for st in fn.body:
        if not (isinstance(st, ast.If) and len(st.body) == 1 and isinstance(st.body[0], ast.Return)
                and not st.orelse and isinstance(st.test, ast.Compare) and len(st.test.ops) == 1
                and isinstance(st.test.ops[0], ast.Eq) and is_name(st.test.left, "mod")):
            continue
        rhs, ret = st.test.comparators[0], st.body[0]
        line = ret.lineno
        src = src_line(lines, line)
        if const_int(rhs) == 1 and const_int(ret.value) == 0:
            out.add(f"exp_mod_m1_L{line}", line, "generic", "∀ b e : Nat, b ^ e % 1 = 0",
                    "pow_mod_one", {"generic": "mod1"}, src)
        elif is_name(rhs, "base") and const_int(ret.value) == 0:
            out.add(f"exp_mod_mbase_L{line}", line, "generic", "∀ b e : Nat, 0 < e → b ^ e % b = 0",
                    "pow_mod_self", {"generic": "modbase"}, src)
        elif (const_int(rhs) == 2 and isinstance(ret.value, ast.BinOp) and isinstance(ret.value.op, ast.Mod)
              and is_name(ret.value.left, "base") and const_int(ret.value.right) == 2):
            out.add(f"exp_mod_m2_L{line}", line, "generic", "∀ b e : Nat, 0 < e → b ^ e % 2 = b % 2",
                    "pow_mod_two", {"generic": "mod2"}, src)


def find_fn(tree, cls, name):
    for n in tree.body:
        if cls is None and isinstance(n, ast.FunctionDef) and n.name == name:
            return n
        if cls is not None and isinstance(n, ast.ClassDef) and n.name == cls:
            for f in n.body:
                if isinstance(f, ast.FunctionDef) and f.name == name:
                    return f
    return None


def period_limit(tree):
    """`if mod >= 2 ** 24: raise PeriodLimit` in find_period -> 2**24"""
    fn = find_fn(tree, None, "find_period")
    if fn is None:
        return None
    for st in ast.walk(fn):
        if (isinstance(st, ast.If) and isinstance(st.test, ast.Compare) and is_name(st.test.left, "mod")
                and len(st.test.ops) == 1 and isinstance(st.test.ops[0], ast.GtE)
                and any(isinstance(x, ast.Raise) for x in st.body)):
            try:
                v = safe_eval(st.test.comparators[0], {})
            except Exception:     # noqa: BLE001
                return None
            if isinstance(v, int) and v > 4:
                return v
    return None


def find_period_sound(out, tree, lines):
    """`val *= base; val %= mod; if val == 1: return period` -> the general soundness lemma"""
    fn = find_fn(tree, None, "find_period")
    if fn is None:
        return
    for st in ast.walk(fn):
        if isinstance(st, ast.For) and is_name(st.target, "period"):
            for sub in st.body:
                if (isinstance(sub, ast.If) and isinstance(sub.test, ast.Compare) and is_name(sub.test.left, "val")
                        and const_int(sub.test.comparators[0]) == 1 and len(sub.body) == 1
                        and isinstance(sub.body[0], ast.Return) and is_name(sub.body[0].value, "period")):
                    line = sub.body[0].lineno
                    out.add(f"find_period_sound_L{line}", line, "generic",
                            "∀ b m p : Nat, 0 < p → b ^ p % m = 1 % m → ∀ e, b ^ e % m = b ^ (e % p) % m",
                            "period_sound", {"generic": "period"}, src_line(lines, line))
                    return
    out.notes.append("find_period: loop shape not recognised, general soundness lemma not instantiated")


# ------------------------------------------------------------------ exp_mod_special_cases

def special_cases(out, tree, lines):
    fn = find_fn(tree, None, "exp_mod_special_cases")
    if fn is None:
        out.notes.append("exp_mod_special_cases: not found")
        return
    base = None
    for st in fn.body:
        if isinstance(st, ast.If) and any(isinstance(x, ast.Raise) for x in st.body):
            for sub in ast.walk(st.test):
                if (isinstance(sub, ast.Compare) and is_name(sub.left, "base") and len(sub.ops) == 1
                        and isinstance(sub.ops[0], ast.NotEq) and const_int(sub.comparators[0]) is not None):
                    base = const_int(sub.comparators[0])
    if base is None:
        raise Unsupported(fn, "exp_mod_special_cases: guard `base != <int>` not found")
    per_expr = None
    for st in fn.body:
        if (isinstance(st, ast.Assign) and len(st.targets) == 1 and isinstance(st.targets[0], ast.Name)
                and isinstance(st.value, ast.BinOp) and isinstance(st.value.op, ast.Mod)
                and is_name(st.value.left, "exp")):
            per_var, per_expr = st.targets[0].id, st.value.right
    if per_expr is None:
        raise Unsupported(fn, "exp_mod_special_cases: `<var> = exp % <expr>` not found")
    matches = [st for st in fn.body if isinstance(st, ast.Match)]
    if len(matches) != 1 or not is_name(matches[0].subject, "mod"):
        raise Unsupported(fn, "exp_mod_special_cases: expected exactly one `match mod`")
    table_var = None
    tables = []
    for c in matches[0].cases:
        if isinstance(c.pattern, ast.MatchAs) and c.pattern.pattern is None:
            if not all(isinstance(x, ast.Raise) for x in c.body):
                raise Unsupported(c.pattern, "default case does something other than raise")
            continue
        if c.guard is not None or not isinstance(c.pattern, ast.MatchValue) or const_int(c.pattern.value) is None:
            raise Unsupported(c.pattern, "case pattern is not an integer literal")
        M = const_int(c.pattern.value)
        if not (len(c.body) == 1 and isinstance(c.body[0], ast.Assign) and len(c.body[0].targets) == 1
                and isinstance(c.body[0].targets[0], ast.Name) and isinstance(c.body[0].value, ast.Dict)):
            raise Unsupported(c.body[0], "case body is not `values = {literal table}`")
        tv = c.body[0].targets[0].id
        if table_var not in (None, tv):
            raise Unsupported(c.body[0], "tables assigned to different variables")
        table_var = tv
        P = safe_eval(per_expr, {"mod": M})
        if not isinstance(P, int) or P <= 0:
            raise Unsupported(c.body[0], f"period expression gives {P!r} for mod={M}")
        d = c.body[0].value
        if any(M == t[0] for t in tables):
            raise Unsupported(c.pattern, f"two `case {M}` tables (only the first is reachable)")
        rows = []
        for k, v in zip(d.keys, d.values):
            r, val = (const_int(k) if k is not None else None), const_int(v)
            if r is None or val is None:
                raise Unsupported(k or d, "table entry is not `int: int`")
            if any(r == row[0] for row in rows):
                raise Unsupported(k, f"key {r} twice in the table of mod={M} (the later one wins in Python)")
            line = k.lineno
            before = len(out.thms)
            entry_thm(out, f"special_b{base}_m{M}_r{r}_L{line}", line, base, M, (P, r), val,
                      src_line(lines, line), f"exp_mod_special_cases mod={M} exp%{P}=={r}")
            name = out.thms[before]["name"]
            if r < 0 or val < 0:
                # cannot be Nat data; the entry theorem above fails (val < 0) or is vacuous (r < 0)
                out.notes.append(f"{name}: negative key or value, not part of the data tables")
                continue
            rows.append((r, val, name))
        tables.append((M, P, rows))
    out.special = {"base": base, "line": fn.lineno, "tables": tables,
                   "source": src_line(lines, fn.lineno)}
    # the lookup `return <table_var>[<per_var>]`
    ok = False
    for st in ast.walk(fn):
        if (isinstance(st, ast.Return) and isinstance(st.value, ast.Subscript)
                and is_name(st.value.value, table_var or "") and is_name(st.value.slice, per_var)):
            ok = True
    if not ok:
        raise Unsupported(fn, "exp_mod_special_cases: `return values[period]` not found")
    link_data(out)


DATA_NS = "BB.NumTablesData"


def link_data(out):
    """the theorems that tie BB/Generated/NumTablesData.lean to the per-entry theorems"""
    sp = out.special
    pre = ["/-! ### the tables as data (BB/Generated/NumTablesData.lean) are exactly the proved entries -/\n\n",
           "/-- what one table entry `(modulus, period modulus, exp % period modulus, value)` claims -/\n",
           "def EntryClaim (t : Nat × Nat × Nat × Nat) : Prop :=\n",
           f"  ∀ e : Nat, 1 < e → e % t.2.1 = t.2.2.1 → {DATA_NS}.specialBase ^ e % t.1 = t.2.2.2\n\n",
           "/-- every entry of the data with the theorem (above) that proves it -/\n",
           "def provedEntries : List { t : Nat × Nat × Nat × Nat // EntryClaim t } := [\n"]
    rows = [f"  ⟨({M}, {P}, {r}, {v}), {name}⟩" for M, P, rs in sp["tables"] for r, v, name in rs]
    pre.append(",\n".join(rows) + ("\n" if rows else ""))
    pre.append("]\n\n")
    out.add("specialTables_data", sp["line"], "link",
            f"{DATA_NS}.specialFlat = provedEntries.map Subtype.val",
            "by decide +kernel", {"generic": "tables-data"}, sp["source"], pre="".join(pre))
    out.add("specialTables_sound", sp["line"], "link",
            f"∀ t, t ∈ {DATA_NS}.specialFlat → EntryClaim t",
            "by\n  intro t ht\n  rw [specialTables_data] at ht\n"
            "  obtain ⟨p, _, rfl⟩ := List.mem_map.mp ht\n  exact p.property",
            {"generic": "tables-sound"}, sp["source"])
    out.add("specialTables_per_pos", sp["line"], "link",
            f"∀ t, t ∈ {DATA_NS}.specialTables → 0 < t.2.1",
            "by decide +kernel", {"generic": "tables-period-positive"}, sp["source"])


def render_data(out, sha):
    sp = out.special
    s = ["/-\nGENERATED by /verif/tools/extract_num.py from tm/num.py — do not edit, it is rewritten on every check.\n"
         "The literal tables of `exp_mod_special_cases` as data, for the model BB/Model/NumModTree.lean.\n"
         "Import-free.  BB/Generated/NumTables.lean proves every entry (`specialTables_sound`).\n"
         f"num.py sha256 {sha}\n-/\n\n"
         f"namespace {DATA_NS}\n\n"
         "/-- the base of the guard `if base != <int> or ...: raise ExpModLimit` -/\n"
         f"def specialBase : Nat := {sp['base']}\n\n"
         "/-- one element per `case <mod>:`: (mod, `mod // 3` evaluated at that mod, the `values` table as\n"
         "    (key, value) pairs in source order) -/\n"
         "def specialTables : List (Nat × Nat × List (Nat × Nat)) := [\n"]
    tabs = []
    for M, P, rows in sp["tables"]:
        body = ", ".join(f"({r}, {v})" for r, v, _ in rows)
        tabs.append(f"  ({M}, {P}, [{body}])")
    s.append(",\n".join(tabs) + ("\n" if tabs else ""))
    s.append("]\n\n"
             "/-- all entries as (mod, period modulus, key, value) -/\n"
             "def specialFlat : List (Nat × Nat × Nat × Nat) :=\n"
             "  specialTables.flatMap fun t => t.2.2.map fun e => (t.1, t.2.1, e.1, e.2)\n\n"
             f"end {DATA_NS}\n")
    return "".join(s)


# ------------------------------------------------------------------ main

def build(path):
    text = open(path).read()
    lines = text.split("\n")
    tree = ast.parse(text, filename=path)
    out = Out()
    fn = find_fn(tree, "Exp", "__mod__")
    if fn is None:
        raise Unsupported(tree, "class Exp has no __mod__")
    # precondition `assert 1 < exp` before the special cases
    first_match = next((i for i, st in enumerate(fn.body) if isinstance(st, ast.Match)), None)
    if first_match is None:
        raise Unsupported(fn, "Exp.__mod__: `match base` not found")
    has_assert = False
    for st in fn.body[:first_match]:
        if (isinstance(st, ast.Assert) and isinstance(st.test, ast.Compare) and len(st.test.ops) == 1
                and isinstance(st.test.ops[0], ast.Lt) and const_int(st.test.left) == 1
                and is_name(st.test.comparators[0], "exp")):
            has_assert = True
    if not has_assert:
        raise Unsupported(fn, "Exp.__mod__: `assert 1 < exp` not found before the special cases "
                              "(the theorems take 1 < e as hypothesis)")
    lim = period_limit(tree)
    if lim is None:
        ns = list(POW2_FALLBACK_NS)
        out.notes.append("find_period limit not recognised: power-of-two reductions proved for n = 2..6 only")
    else:
        ns = [n for n in range(2, lim.bit_length() + 1) if 2 ** n < lim]
        out.notes.append(f"power-of-two reductions proved for every n with 2^n < {lim} (find_period raises "
                         f"PeriodLimit above): n = {ns[0]}..{ns[-1]}")
    generic_prefix(out, fn, lines)
    done = {t["line"] for t in out.thms}
    seen_match = False
    for st in fn.body:
        if isinstance(st, ast.Match) and is_name(st.subject, "base"):
            seen_match = True
            walk(out, [st], {"base": None, "mod": None}, None, lines, ns, True)
        elif isinstance(st, ast.Match):
            raise Unsupported(st, "Exp.__mod__: match on an unmodelled subject")
        elif not any(getattr(sub, "lineno", None) in done for sub in ast.walk(st)):
            # generic code (asserts, find_period call, square-and-multiply loop): listed, not modelled
            out.unmodelled.append({"line": st.lineno, "text": src_line(lines, st.lineno)})
    if not seen_match:
        raise Unsupported(fn, "Exp.__mod__: `match base` not found")
    find_period_sound(out, tree, lines)
    special_cases(out, tree, lines)
    return out, hashlib.sha256(text.encode()).hexdigest()


HEADER = """/-
GENERATED by /verif/tools/extract_num.py from tm/num.py — do not edit, it is rewritten on every check.
One theorem per literal special case of `Exp.__mod__` and per literal table entry of
`exp_mod_special_cases`; the name ends in the num.py line (`_L<line>`).  Every proof is an instance of
BB.PowMod.entry_of_ok / reduce_of_ok (periodicity of `e ↦ b^e % m`, proved once by hand) whose only
premise is a closed Boolean computed by `decide`: one finite check, labelled as such (DESIGN §4).
-/
import BB.Lemmas.PowMod
import BB.Generated.NumTablesData

namespace BB.NumTables
open BB.PowMod

"""


def render(out):
    parts = [HEADER]
    n = HEADER.count("\n") + 1          # 1-based line of the next line to be written
    for t in out.thms:
        doc = f"/-- num.py:{t['line']}  `{t['source'].replace('-/', '- /')}` -/\n"
        body = f"theorem {t['name']} :\n    {t['statement']} :=\n  {t['proof']}\n\n"
        t["lean_first"] = n
        blk = t.get("pre", "") + doc + body
        n += blk.count("\n")
        t["lean_last"] = n - 2
        parts.append(blk)
    parts.append("end BB.NumTables\n")
    return "".join(parts)


def render_audit(out):
    s = ["/- GENERATED by /verif/tools/extract_num.py: axiom audit of every C18 table theorem -/\n",
         "import BB.Generated.NumTables\n\n"]
    for t in out.thms:
        s.append(f"#print axioms BB.NumTables.{t['name']}\n")
    return "".join(s)


def write_if_changed(path, content):
    os.makedirs(os.path.dirname(path), exist_ok=True)
    if os.path.exists(path) and open(path).read() == content:
        return False
    tmp = path + ".tmp%d" % os.getpid()
    with open(tmp, "w") as f:
        f.write(content)
    os.replace(tmp, path)
    return True


def main(argv):
    args = [a for a in argv if not a.startswith("--")]
    lean_root = os.path.join(VERIF, "lean")
    if "--lean-root" in argv:
        lean_root = argv[argv.index("--lean-root") + 1]
        args = [a for a in args if a != lean_root]
    path = args[0] if args else os.environ.get("NUM_PY_PATH") or DEFAULT_NUM
    try:
        out, sha = build(path)
    except Unsupported as e:
        print(json.dumps({"error": str(e), "source": path}))
        sys.stderr.write(f"extract_num.py: {e}\n")
        return 2
    gen = os.path.join(lean_root, "BB", "Generated", "NumTables.lean")
    aud = os.path.join(lean_root, "BB", "Audit", "C18.lean")
    data = os.path.join(lean_root, "BB", "Generated", "NumTablesData.lean")
    changed = write_if_changed(data, render_data(out, sha))
    changed = write_if_changed(gen, render(out)) or changed
    write_if_changed(aud, render_audit(out))
    summary = {
        "source": path, "sha256": sha, "generated": gen, "data": data, "audit": aud, "changed": changed,
        "count": len(out.thms),
        "by_kind": {k: sum(1 for t in out.thms if t["kind"] == k) for k in sorted({t["kind"] for t in out.thms})},
        "theorems": [{k: t[k] for k in ("name", "line", "kind", "statement", "claim", "source",
                                        "lean_first", "lean_last")} for t in out.thms],
        "unmodelled_statements": out.unmodelled,
        "notes": out.notes,
    }
    if "--quiet" not in argv:
        print(json.dumps(summary))
    return 0


if __name__ == "__main__":
    sys.exit(main(sys.argv[1:]))
