#!/usr/bin/env python3
"""Regenerate /verif/MANIFEST.json from the table below (single source of truth)."""
import json
import os

V = os.path.dirname(os.path.dirname(os.path.abspath(__file__)))

# id -> (category, text, note, technique, design_ref)
CLAIMED = {
    "C01": ("proof",
            "Lean theorems (BB/Props/C01.lean): one compressed-tape step is k>=1 cell-by-cell steps ending in the unrolled new tape (step_refines), every cycle of run_quick_machine unrolls to the real configuration (every_cycle), and each field of the result record (steps, marks, undefined slot, spin-out, blank record, infrul => never halts, cycles) is the real machine's, for ALL programs and limits. The model is tied to the real code on every run by the correspondence check (full result record and per-cycle tapes through the guarded hook) and an L0 oracle judges the real answers.",
            "Trusted: Lean kernel + propext/Classical.choice/Quot.sound; the hand-written model BB/Model/{Tape,Machine,Instrs}.lean to the extent the correspondence samples it; Lean compiler for the driver; vlib orchestration; rustc. u64 overflow is an explicit outcome of the model (theorems are stated for result != overflow).",
            "Lean 4 proof (refinement to cell-level semantics) + differential correspondence + L0 oracle", "5/C01"),
    "C12": ("proof",
            "Lean theorems (BB/Props/C12.lean): canonical form is preserved by every step for every direction/colour/sweep flag, hence holds after every history from the blank tape; a canonical span is the run-length encoding of its cells, so equality of tapes is equality of cells; marks, blank, at_edge, counts, span_lens, blocks, signature and sig_compatible are characterised from the unrolled cells. Model tied to the real Tape by the correspondence check on exhaustive short and random long step sequences (all observers after every step), plus a cell-level replay oracle.",
            "Trusted: Lean kernel + standard axioms; hand-written model BB/Model/Tape.lean to the extent the correspondence samples it; Lean compiler for the driver; vlib orchestration (incl. the cell-level replay); rustc.",
            "Lean 4 proof (invariant by induction over histories) + differential correspondence", "5/C12"),
    "C13": ("proof",
            "Lean theorems (BB/Props/C13.lean) for ALL tables with 1..26 states x 1..10 colours and any subset of slots undefined: parsing the standard text puts every instruction at its row/column slot (from_slots), text -> table -> text is the identity (show_from), table -> text -> table is the identity, and every instruction / slot / state token round-trips. Model tied to the real tcompile/show_comp/read_*/show_* by the correspondence check on every token, random tables (judged against the generator's own table) and a malformed stream.",
            "Trusted: Lean kernel + standard axioms; hand-written model BB/Model/Instrs.lean to the extent the correspondence samples it; Lean compiler for the driver; vlib orchestration; rustc. Guard stated in the theorems: one-digit colours, letters A..Z (beyond that the real code stops round-tripping).",
            "Lean 4 proof (round-trip laws) + differential correspondence", "5/C13"),
    "C04": ("proof",
            "Lean theorems (BB/Props/C04.lean) about the model of the whole of reason.rs cant_reach: targets cover every halt / erase / spin-out configuration, one backward step is a sound predecessor filter (backstep_sound), the initial configuration is detected, and for the REPAIRED algorithm (model switches fixF1 = fixF2 = true) a 'refuted' answer at ANY depth means the event never happens, for every program without shadowed duplicate keys (cant_halt_sound, cant_blank_sound, cant_spin_out_sound; the blank-state pruning is justified by determinism). The real code equals the UNREPAIRED model (correspondence on every run) and is genuinely unsound through findings F1 and F2: Lean witnesses cant_halt_F1_witness / cant_halt_F2_witness, replayed on the real code, listed in known_findings.json; every contradicted refutation found by the L0 oracle is attributed by counterfactual re-run of the model with the repair switches, anything not explained is a VIOLATION.",
            "Trusted: Lean kernel + propext/Classical.choice/Quot.sound (audited by #print axioms on every run); the hand-written L1 model to the extent the correspondence check samples it; Lean compiler for the driver and oracle; vlib orchestration; rustc. The soundness theorems are about the repaired model; for the code as it is the property is false (F1, F2). Oracle budget 5e3 (quick) / 5e4 (thorough) base steps.",
            "Lean 4 proof (abstract-interpretation soundness, gamma concretisation) + differential correspondence + L0 oracle + counterfactual attribution", "5/C04"),
    "C05": ("proof",
            "Lean theorems (BB/Props/C05.lean) about the model of segment.rs for ALL programs, params and segment limits: a 'halt' / 'blank' / 'spinout' verdict means the machine does that (init-exact configurations are real configurations), 'repeat' means it never halts, 'refuted' for halt and spin-out means the event never happens provided the table size passed covers every state and colour the program mentions (decidable paramsCover); the blank goal is never refuted at all (seg_blank_never_refuted). The string wrapper infers the size from defined keys only (finding F2): seg_cant_halt_F2_witness, and py_segment_fixed_sound for the repaired wrapper. Model tied to the real wrapper and trait API by correspondence; every verdict of the real code judged by an L0 run; contradicted wrapper verdicts attributed to F2 by the model's repair switch.",
            "Trusted: Lean kernel + propext/Classical.choice/Quot.sound (audited by #print axioms on every run); the hand-written L1 model to the extent the correspondence check samples it; Lean compiler for the driver and oracle; vlib orchestration; rustc. Oracle budget 5e3/5e4 steps (positive verdicts not seen are re-run with 3e6).",
            "Lean 4 proof (simulation of the real run through every window placement) + differential correspondence + L0 oracle", "5/C05"),
    "C06": ("proof",
            "Lean theorems (BB/Props/C06.lean) about the model of cps.rs for ALL programs, radii, loop/depth limits and iteration orders that neither drop nor invent configurations: a true answer yields a closed triple (cps_true_closed), a closed triple covers the local view of every reachable configuration (closed_sound), hence 'cannot halt / blank / spin out' = true means the event never happens; cps_cant_halt needs the table size to cover the program (paramsCover) because of finding F2 (cps_cant_halt_F2_witness; unconditional for the repaired switch). Tied to the real py_cps_* by correspondence of the Boolean; every 'true' judged by an L0 run; contradictions attributed to F2.",
            "Trusted: Lean kernel + propext/Classical.choice/Quot.sound (audited by #print axioms on every run); the hand-written L1 model to the extent the correspondence check samples it; Lean compiler for the driver and oracle; vlib orchestration; rustc. cps.rs iterates a HashSet: the model takes the order as a parameter, the theorems hold for every order (OrderOK), only the Boolean is compared.",
            "Lean 4 proof (closed set => invariant of the real run) + differential correspondence + L0 oracle", "5/C06"),
    "C07": ("proof",
            "Lean theorems (BB/Props/C07.lean) for ALL normal-form programs and ALL cycle limits: 'undefined(slot)' means the machine halts exactly there, 'spinout' means it spins out, 'recur' means its slot sequence is eventually periodic, it never halts and never spins out (Lin-recurrence on the positional view). Model of quick_term_or_rec (HeadTape, compare_take, aligns_with, reset schedule) tied to the real code by correspondence on a limit ladder; 'recur' verdicts of the real code additionally confirmed by an independent brute-force translated-cycle certificate on L0 cells.",
            "Trusted: Lean kernel + propext/Classical.choice/Quot.sound (audited by #print axioms on every run); the hand-written L1 model to the extent the correspondence check samples it; Lean compiler for the driver and oracle; vlib orchestration; rustc.",
            "Lean 4 proof (Lin recurrence) + differential correspondence + L0 certificate search", "5/C07"),
    "C08": ("proof",
            "Lean theorems (BB/Props/C08.lean) for ALL base programs closed under their params, ALL block sizes k >= 1: a defined macro instruction is n >= 1 base steps inside the k-cell window ending with the exit on the stated side in the stated state with the decoded new block (block_instr_some); a macro slot is undefined exactly when the base machine halts inside the window or never leaves it (block_instr_none; the code's sim_lim equals the number of window configurations, pigeonhole proved by hand); never an error; hence every macro configuration reached from the blank tape decodes to a base configuration reached at strictly increasing step counts (block_macro_sim). The stateful object equals this pure function by C16. Tied to the real make_block_macro by correspondence of whole macro runs; every real macro configuration decoded and matched, in order, on the L0 trajectory.",
            "Trusted: Lean kernel + propext/Classical.choice/Quot.sound (audited by #print axioms on every run); the hand-written L1 model to the extent the correspondence check samples it; Lean compiler for the driver and oracle; vlib orchestration; rustc. closedB (the program prints only colours / enters only states below params) is a hypothesis; callers passing smaller params are outside the theorems.",
            "Lean 4 proof (simulation: one macro step = >= 1 base steps) + differential correspondence + L0 trajectory matching", "5/C08"),
    "C09": ("proof",
            "Lean theorems (BB/Props/C09.lean) for the backsymbol macro with the split index REPAIRED (model switch fixF3): defined instruction = run inside the (k+1)-cell window (backsym_instr_some_fixF3), macro run decodes to the base run with the tape mirrored (backsym_macro_sim_fixF3), never an error; 'undefined <=> halts inside or never leaves' is proved in full for k <= 1 (the only size the repository uses) and in one direction plus a weak converse for every k, because the code's sim_lim is smaller than the number of window configurations for k >= 2 (backsym_simLim_short; no wrongly undefined slot was found by search). PARTIAL in that sense. The real code has finding F3 (split_at(cells-1)): backsym_F3_witness and backsym_instr_some_F3_counterexample; real macro runs that leave the base trajectory are attributed to F3 by re-judging the repaired model's run.",
            "Trusted: Lean kernel + propext/Classical.choice/Quot.sound (audited by #print axioms on every run); the hand-written L1 model to the extent the correspondence check samples it; Lean compiler for the driver and oracle; vlib orchestration; rustc. For the code as it is the property is false (F3, known finding).",
            "Lean 4 proof (simulation, repaired model) + differential correspondence + L0 trajectory matching + counterfactual attribution", "5/C09"),
    "C11": ("proof",
            "Lean theorems (BB/Props/C11.lean), all counts, any number of blocks, all i32 differences: calculate_diff's additive answer reproduces the four counts exactly and is given iff they are such a progression (no 2^31 guard), make_rule's entries reproduce all four vectors and absent entries mean constant counts, count_apps returns the LARGEST number of applications keeping every decreasing block >= 1 (count_apps_largest, ties to the first in map order), apply_rule changes every named block by exactly difference x times and nothing else, keeps every block >= 1, and leaves the tape untouched when it returns None; exact panic characterisation. Model tied to the real rules.rs (after the three fix: commits F4-F6) by correspondence on exhaustive small and seeded extreme cases incl. the tape after a None; an independent big-integer oracle judges the real answers.",
            "Trusted: Lean kernel + propext/Classical.choice/Quot.sound (audited by #print axioms on every run); the hand-written L1 model to the extent the correspondence check samples it; Lean compiler for the driver and oracle; vlib orchestration; rustc. Hypothesis (keys rule).Nodup holds for every BTreeMap.",
            "Lean 4 proof (arithmetic laws) + differential correspondence + integer oracle", "5/C11"),
    "C14": ("proof",
            "Lean theorems (BB/Props/C14.lean) for ALL programs whose instructions mention only states < n: is_connected never panics, 'false' means some state has no exit to another state or the last state cannot reach state 0 (isConnected_false_cause), hence for n >= 2 the graph is not strongly connected and no machine using all its states forever is lost; the bounded search never runs out of fuel early; 'true' is characterised exactly, and for walk-generated (tree) programs true <=> strongly connected. For n = 1 the answer is always false (the single state has no way out, the property's own gloss; isConnected_one_state). Tied to the real py_is_connected by correspondence on every edge set on <= 3 states, sampled/all on 4, random on 5-6 and real tree leaves; transitive-closure oracle in the orchestrator.",
            "Trusted: Lean kernel + propext/Classical.choice/Quot.sound (audited by #print axioms on every run); the hand-written L1 model to the extent the correspondence check samples it; Lean compiler for the driver and oracle; vlib orchestration; rustc.",
            "Lean 4 proof (graph search invariant) + differential correspondence + transitive-closure oracle", "5/C14"),
    "C15": ("proof",
            "Lean theorems (BB/Props/C15.lean) for ALL programs and ALL l1 <= l2: backward reasoner (every answer except step_limit, incl. the same refuted k and incl. errors), segment analysis (every answer except segment_limit), CPS (true stays true; every outcome except false under rad >= 2) and quick recurrence (every answer except limit) are unchanged by a larger limit; inner fuels are shown not to depend on the limit. Only the entry assertions (segs < 2, rad <= 1) change from panic to an answer (counterexample theorems). Tied to the real code by correspondence on whole limit ladders; the real answers at consecutive limits are compared pairwise.",
            "Trusted: Lean kernel + propext/Classical.choice/Quot.sound (audited by #print axioms on every run); the hand-written L1 model to the extent the correspondence check samples it; Lean compiler for the driver and oracle; vlib orchestration; rustc.",
            "Lean 4 proof (fuel monotonicity) + differential correspondence on ladders + pairwise oracle", "5/C15"),
    "C16": ("proof",
            "Lean theorems (BB/Props/C16.lean): an invariant (memo within the graph of the pure instruction function, both colour caches within the positional encode/decode graph) holds initially and after every get_instr; for EVERY legal query sequence (each colour handed out before it is used; the illegal case is proved to panic) every answer of a fresh block macro equals the pure function of the slot - hence order, repetition and other objects are irrelevant - and every colour handed out decodes to the cells that produced it; lifted to nested macros built with the inner macro's own params. For the backsymbol macro this is proved with the split index repaired (fixF3) and refuted for the code as it is (get_instr_history_dependent_F3_witness = finding F3). Tied to the real objects by correspondence on run-order, repeated, permuted, interleaved two-object and single-slot query sequences; every real answer compared with the run-order answer.",
            "Trusted: Lean kernel + propext/Classical.choice/Quot.sound (audited by #print axioms on every run); the hand-written L1 model to the extent the correspondence check samples it; Lean compiler for the driver and oracle; vlib orchestration; rustc. Hypotheses: the table prints only colours below base_colors; nesting with macroColors(inner) <= baseColors(outer) (witness theorems show both are necessary: callers passing other params get history-dependent objects).",
            "Lean 4 proof (invariant by induction over query sequences) + differential correspondence + cross-history oracle", "5/C16"),
    "C17": ("proof",
            "Step clause, proved (BB/Props/C17.lean): the model of tm/tape.py Tape.step equals the model of Rust Tape::step on every tape without zero-count blocks, for every direction / colour / skip flag, hence on every history from the blank tape (py_run_eq), with the exact characterisation of where they differ on tapes stepping cannot reach (py_step_eq_iff). Run clause, NOT proved (partial): decided by three-way correspondence - real Rust run_prover, real Python Machine.run (CPython 3.12, extension rebuilt from /repo) and the Lean models - on tree leaves 2x2..4x2/2x4 and the named machines with the property's own exclusions (declared limits, non-additive Python rules) counted.",
            "Trusted: Lean kernel + propext/Classical.choice/Quot.sound (audited by #print axioms on every run); the hand-written L1 model to the extent the correspondence check samples it; Lean compiler for the driver and oracle; vlib orchestration; rustc; CPython 3.12.1; the release-profile extension wraps u64 silently (finding F9), detected through the overflow-checked harness run of the same program.",
            "Lean 4 proof (step clause) + three-way differential correspondence (run clause)", "5/C17"),
    "C18": ("translation_validation",
            "Translator + proof for the literal tables: tools/extract_num.py re-reads every residue table / special case of Exp.__mod__ and exp_mod_special_cases from tm/num.py on every run and emits one Lean theorem each (BB/Generated/NumTables.lean, 854 obligations, periodicity lemma + decide over one period), so a wrong table entry is a failed proof naming the entry (this is how F7/F8 were found; both repaired by fix: commits). The algebra itself is validated per answer: seeded expression trees built through num.py's own operators, every returned value judged by the Lean evaluator (BB/Model/NumEval.lean); wrong answers are keyed by the num.py return site; the 314 listed sites (comparison heuristics, Num.__eq__ identity, Div on inexact operands) are known findings, any other site is a VIOLATION. The unbounded algebraic claim is not proved.",
            "Trusted: Lean kernel + propext/Classical.choice/Quot.sound (audited by #print axioms on every run); the hand-written L1 model to the extent the correspondence check samples it; Lean compiler for the driver and oracle; vlib orchestration; rustc; CPython 3.12.1; tools/extract_num.py (translator) and tools/num_harness.py.",
            "Lean 4 proofs of translator-extracted tables + per-answer validation by a Lean evaluator", "5/C18"),
    "C02": ("translation_validation",
            "The rule prover generalises from four observations, so no universal soundness theorem is true of it; each ANSWER is validated instead. On every run the real run_prover (overflow-checked build) is compared with the Lean model of prover.rs + run_prover (full result record), and every undfnd / spnout / infrul verdict and every rule-free run of the real code is judged against the L0 machine: halting slot, marks, and - when no rule was applied - step count and blank-tape steps. An infrul verdict from a non-negative rule has no certificate in the code's output and is only falsifiable (counted). Lean theorems about a trace validator (BB/Props/C02.lean, when present in the audit) make the per-answer check itself verified.",
            "Trusted: Lean kernel + propext/Classical.choice/Quot.sound (audited by #print axioms on every run); the hand-written L1 model to the extent the correspondence check samples it; Lean compiler for the driver and oracle; vlib orchestration; rustc. Oracle budget 1e6 (quick) / 2e7 (thorough) base steps; later terminations are counted, not judged.",
            "per-answer validation against the L0 semantics + differential correspondence with a Lean model of the prover", "5/C02"),
    "C10": ("proof",
            "Lean theorems (BB/Props/C10.lean) about the model of tree.rs for ALL table sizes, both halt flags and ALL step limits: a successful call emits exactly the programs of the declarative generation process of the property's sentence (tree_complete_sound: run from the blank tape, fill each undefined slot reached within the limit with every instruction using at most one not-yet-used state and colour, until the slot budget is spent, restricted to programs mentioning the last state and colour), the code's availability counters agree with that declarative reading (avail_counters_declarative), no program is emitted twice (tree_nodup, also as printed tables: tree_table_inj), the leaf filter is exact, exactly when the call panics (tree_error_iff), and every interleaving of the per-task harvests is a permutation of the sequential harvest (schedule_indep). Tied to the real build_tree by correspondence (sorted list, count vs distinct, emission order, hash), an independently written reference enumerator (vlib/treeref.py) and runs under rayon pools of 1,2,3,5,8,16 threads.",
            "Trusted: Lean kernel + propext/Classical.choice/Quot.sound (audited by #print axioms on every run); the hand-written L1 model to the extent the correspondence check samples it; Lean compiler for the driver and oracle; vlib orchestration; rustc. Mutual exclusion of the harvester's push is Rust's Mutex (trusted): the theorem covers every interleaving of whole pushes, the absence of data races is the type system's, not a theorem.",
            "Lean 4 proof (soundness+completeness against a declarative enumerator, permutation under interleaving) + differential correspondence + reference enumerator + thread-count sweep", "5/C10"),
    "C03": ("translation_validation",
            "The rule prover generalises from four observations, so no universal theorem about its rules is true; each APPLICATION is validated. The real run_prover reports every rule application of its main loop (state, tape before, tape after, times) through the guarded on_rule hook; each is compared with the application the Lean model of prover.rs/rules.rs makes at the same place and re-validated by the Lean function checkApp, which re-runs the plain run-length simulator from the tape before until it stands on the tape after in the same state. Theorems (BB/Props/C03.lean): checkApp = ok IS a run of >= 1 steps of the cell-by-cell machine between the two configurations with a defined instruction at every step (check_app_sound), no spin-out configuration on the way and canonical tapes (check_app_no_spinout), the validator is complete for reachable targets within budget (check_app_complete), and apply_rule keeps every block >= 1 and the tape canonical (apply_rule_positive, apply_rule_canon). An application the budget cannot reach is counted, not judged.",
            "Trusted: Lean kernel + propext/Classical.choice/Quot.sound (audited by #print axioms on every run); the hand-written L1 model to the extent the correspondence check samples it; Lean compiler for the driver and validator; vlib orchestration; rustc; the guarded hook (reports the tape cloned just before apply_rule and the tape just after). Budget 1e5 (quick) / 2e6 (thorough) simulator cycles per application.",
            "per-application validation by a Lean-verified validator + differential correspondence with a Lean model of the prover", "5/C02-C03"),
}

ALL = ["C%02d" % i for i in range(1, 19)]

PENDING_REASON = "not claimed in this revision; see DESIGN.md section 11"


def main():
    checks = []
    for pid, (cat, text, note, tech, ref) in sorted(CLAIMED.items()):
        checks.append({
            "property_id": pid,
            "quick_cmd": f"python3 check.py {pid} --tier quick",
            "thorough_cmd": f"python3 check.py {pid} --tier thorough",
            "evidence_file": f"/verif/evidence/{pid}.json",
            "replay_cmd_template": f"python3 check.py {pid} --replay {{path}}",
            "engine": "lean-model-correspondence",
            "level_claimed": {"category": cat, "text": text, "design_ref": f"DESIGN.md section {ref}"},
            "level_note": note,
            "technique": tech,
        })
    man = {
        "version": 1,
        "setup_cmd": "python3 setup.py",
        "hooks": {
            "guard": "bbs_verif",
            "enable": "rustc --cfg bbs_verif, set in /verif/harness/.cargo/config.toml (harness build only)",
            "baseline_off_cmd": "cd /repo && cargo test --workspace --no-fail-fast --offline",
            "source_commits": ["dd389be"],
            "add_only": True,
        },
        "engines": [{
            "name": "lean-model-correspondence",
            "path": "/verif/check.py",
            "serves_properties": sorted(CLAIMED),
            "kind_free_text": "Lean 4 theorems about a hand-written executable model (lean/BB) + differential correspondence of the compiled model with the real Rust/Python code (harness/) + L0 oracle search for failing inputs",
        }],
        "checks": checks,
        "not_applicable": [{"property_id": p, "reason": PENDING_REASON} for p in ALL if p not in CLAIMED],
        "notes": "See DESIGN.md. known_findings.json lists genuine defects recorded rather than repaired.",
    }
    with open(os.path.join(V, "MANIFEST.json"), "w") as f:
        json.dump(man, f, indent=1)
    print("wrote MANIFEST.json with", len(checks), "checks")


if __name__ == "__main__":
    main()
