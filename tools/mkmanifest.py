#!/usr/bin/env python3
"""Regenerate /verif/MANIFEST.json from the table below (single source of truth)."""
import json
import os

V = os.path.dirname(os.path.dirname(os.path.abspath(__file__)))

# id -> (category, text, note, technique, design_ref)
CLAIMED = {
    "C01": ("proof",
            "Lean theorems (BB/Props/C01.lean): one compressed-tape step is k>=1 cell-by-cell steps ending in the unrolled new tape (step_refines), every cycle of run_quick_machine unrolls to the real configuration (every_cycle), and each field of the result record (steps, marks, undefined slot, spin-out, blank record, infrul => never halts, cycles) is the real machine's, for ALL programs and limits. The model is tied to the real code on every run by the correspondence check (full result record and per-cycle tapes through the guarded hook) and an L0 oracle judges the real answers.",
            "Trusted: Lean kernel + propext/Classical.choice/Quot.sound; the hand-written model BB/Model/{Tape,Machine,Instrs}.lean to the extent the correspondence samples it; Lean compiler for the driver; vlib orchestration; rustc. u64 overflow is an explicit outcome of the model (theorems are stated for result != overflow).",
            "Lean 4 proof (refinement to cell-level semantics) + differential correspondence + L0 oracle", "5/C01"),
    "C12": ("proof",
            "Lean theorems (BB/Props/C12.lean): canonical form is preserved by every step for every direction/colour/sweep flag, hence holds after every history from the blank tape; a canonical span is the run-length encoding of its cells, so equality of tapes is equality of cells; marks, blank, at_edge, counts, span_lens, blocks, signature and sig_compatible are characterised from the unrolled cells. Model tied to the real Tape by the correspondence check on exhaustive short and random long step sequences (all observers after every step), plus a cell-level replay oracle.",
            "Trusted: Lean kernel + standard axioms; hand-written model BB/Model/Tape.lean to the extent the correspondence samples it; Lean compiler for the driver; vlib orchestration (incl. the cell-level replay); rustc.",
            "Lean 4 proof (invariant by induction over histories) + differential correspondence", "5/C12"),
    "C13": ("proof",
            "Lean theorems (BB/Props/C13.lean) for ALL tables with 1..26 states x 1..10 colours and any subset of slots undefined: parsing the standard text puts every instruction at its row/column slot (from_slots), text -> table -> text is the identity (show_from), table -> text -> table is the identity, and every instruction / slot / state token round-trips. Model tied to the real tcompile/show_comp/read_*/show_* by the correspondence check on every token, random tables (judged against the generator's own table) and a malformed stream.",
            "Trusted: Lean kernel + standard axioms; hand-written model BB/Model/Instrs.lean to the extent the correspondence samples it; Lean compiler for the driver; vlib orchestration; rustc. Guard stated in the theorems: one-digit colours, letters A..Z (beyond that the real code stops round-tripping).",
            "Lean 4 proof (round-trip laws) + differential correspondence", "5/C13"),
    "C04": ("exploration",
            "Correspondence of the Lean model of reason.rs (whole cant_reach) with the real py_cant_halt/blank/spin_out over exhaustive 2x2, slices or all of 3x2/2x3, random and named programs on a depth ladder; every 'refuted' answer of the real code judged by an L0 run; violations attributed to findings F1/F2 by counterfactual re-run of the model with repair switches. Proof level pending BB/Props/C04.",
            "Trusted: Lean compiler for the driver, vlib orchestration, rustc; oracle budget (5e3 quick / 5e4 thorough base steps).",
            "Lean 4 model + differential correspondence + L0 oracle + counterfactual attribution", "5/C04"),
    "C07": ("exploration",
            "Correspondence of the Lean model of quick_term_or_rec (HeadTape, compare_take, aligns_with, reset schedule) with the real code on normal-form programs and a limit ladder; 'recur' verdicts confirmed by an independent brute-force translated-cycle certificate on L0 cells, 'spinout'/'undefined' by the L0 run. Proof level pending BB/Props/C07.",
            "Trusted: Lean compiler for the driver and oracle, vlib orchestration, rustc.",
            "Lean 4 model + differential correspondence + L0 certificate search", "5/C07"),
}

ALL = ["C%02d" % i for i in range(1, 19)]

PENDING_REASON = "check not built yet in this revision (work in progress; see DESIGN.md section 10)"


def main():
    checks = []
    for pid, (cat, text, note, tech, ref) in sorted(CLAIMED.items()):
        checks.append({
            "property_id": pid,
            "quick_cmd": f"python3 check.py {pid} --tier quick",
            "thorough_cmd": f"python3 check.py {pid} --tier thorough",
            "evidence_file": f"/verif/evidence/{pid}.json",
            "replay_cmd_template": f"python3 check.py {pid} --replay {{path}}",
            "engine": "lean-model-correspondence",
            "level_claimed": {"category": cat, "text": text, "design_ref": f"DESIGN.md section {ref}"},
            "level_note": note,
            "technique": tech,
        })
    man = {
        "version": 1,
        "setup_cmd": "python3 setup.py",
        "hooks": {
            "guard": "bbs_verif",
            "enable": "rustc --cfg bbs_verif, set in /verif/harness/.cargo/config.toml (harness build only)",
            "baseline_off_cmd": "cd /repo && cargo test --workspace --no-fail-fast --offline",
            "source_commits": ["dd389be"],
            "add_only": True,
        },
        "engines": [{
            "name": "lean-model-correspondence",
            "path": "/verif/check.py",
            "serves_properties": sorted(CLAIMED),
            "kind_free_text": "Lean 4 theorems about a hand-written executable model (lean/BB) + differential correspondence of the compiled model with the real Rust/Python code (harness/) + L0 oracle search for failing inputs",
        }],
        "checks": checks,
        "not_applicable": [{"property_id": p, "reason": PENDING_REASON} for p in ALL if p not in CLAIMED],
        "notes": "See DESIGN.md. known_findings.json lists genuine defects recorded rather than repaired.",
    }
    with open(os.path.join(V, "MANIFEST.json"), "w") as f:
        json.dump(man, f, indent=1)
    print("wrote MANIFEST.json with", len(checks), "checks")


if __name__ == "__main__":
    main()
