#!/usr/bin/env python3
"""tools/seedmatrix.py [NAME ...]: run, for every confirmed seeded change under /verif/seeded (or the
named ones), the quick check of its own property (plus related ones) against it, WITHOUT the
regression corpus (VERIF_NO_CORPUS=1: the corpus holds the seeds' own witnesses, so this is the honest
measure), and - when that run found no concrete failing input - once more with the corpus.
Results: seeded/<name>/detect.json {"without_corpus": {...}, "with_corpus": {...}}."""
import json, os, subprocess, sys
V = os.path.dirname(os.path.dirname(os.path.abspath(__file__)))
S = os.path.join(V, "seeded")
RELATED = {"C03": ["C02"], "C04": ["C15"], "C05": ["C15"], "C06": ["C15"], "C07": ["C15"], "C11": ["C03"],
           "C12": ["C02"], "C16": ["C08"], "C09": ["C16"], "C08": ["C16"]}


def run(name, ids, nocorpus):
    env = dict(os.environ)
    if nocorpus:
        env["VERIF_NO_CORPUS"] = "1"
    p = subprocess.run([sys.executable, os.path.join(V, "tools", "seedtest.py"),
                        os.path.join(S, name, "patch.diff")] + ids, capture_output=True, text=True, env=env)
    try:
        return json.loads(p.stdout[p.stdout.index("{"):])
    except Exception:
        return {"error": (p.stdout + p.stderr)[-500:]}


def found_input(res):
    return any(isinstance(r, dict) and r.get("rc") == 1 and "no-failing-input-found" not in " ".join(r.get("lines", []))
               for r in res.values())


names = sys.argv[1:] or sorted(d for d in os.listdir(S) if os.path.isdir(os.path.join(S, d)))
for name in names:
    pid = name.split("-")[0]
    ids = [pid] + RELATED.get(pid, [])
    out = {"without_corpus": run(name, ids, True)}
    if not found_input({pid: out["without_corpus"].get(pid, {})}):
        out["with_corpus"] = run(name, [pid], False)
    json.dump(out, open(os.path.join(S, name, "detect.json"), "w"), indent=1)
    def short(r):
        return {k: ("VIOLATION" + (" (input)" if "no-failing-input-found" not in " ".join(v.get("lines", [])) else " (no input)")
                    if v.get("rc") == 1 else "missed") for k, v in r.items() if isinstance(v, dict)}
    print(name, short(out["without_corpus"]), short(out.get("with_corpus", {})), flush=True)
