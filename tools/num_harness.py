#!/usr/bin/env python3
"""C18 harness: exercises tm/num.py (the real code) and writes one `numcheck` driver line per
operation, plus a sidecar JSON with, for every returned value, the num.py line that produced it.

    PYENV_VERSION=3.12.1 python3 num_harness.py --seed S --pairs N --out CASES --keys SIDECAR
                                                [--trace all|none] [--num-py PATH]
    ... num_harness.py --probe "<python expression over the module's names>"   (prints repr)
    ... num_harness.py --redo CASES --out NEW --keys SIDECAR    re-executes the operations of existing
        `numcheck` lines on the current code (operands rebuilt with the interning constructors)

The module under test is loaded from --num-py / $NUM_PY_PATH / /repo/tm/num.py by file path (tm.num
imports only the standard library; loading by path keeps tm/__init__ and the Rust extension out).

Generator (seeded): expression trees of construction depth <= 4 over Add/Mul/Div/Exp, one base in
2..7 per pair (10% of the pairs mix two bases), small integer leaves, literal exponents 2..40,
built ONLY through the library's own operators (`make_exp` for a literal exponent, `b ** x`,
`+ - * //`).  The harness keeps no value next to a tree: the meaning of an operand is what the
Lean model's `eval` says about its serialisation.  A private structural evaluator (`pyval`) is used
only to steer generation (exact divisors, size bound), never to judge.

Per operand pair (a, b): a+b, a-b, a*b, a//b when exact, the six comparisons, a**k (k = 2, 3),
base**a when 0 <= a <= 300, and a % m for m = 1..64 plus a sample of larger moduli (2^k, 3^k, 10^k,
2*3^k, primes ...).  An exception is an allowed outcome and is recorded as `!<ExceptionClass>`.

Return-site key of a result: (operator, qualname of the function, stripped source line, (type(a),
type(b))) of the INNERMOST frame of tm/num.py whose return value travelled unchanged to the caller
(sys.monitoring PY_RETURN events; the interning constructors make_add/mul/div/exp are not traced so
that the key does not depend on what is already cached).
"""
import argparse
import importlib.util
import json
import os
import random
import signal
import sys
import time

DEFAULT_NUM = "/repo/tm/num.py"
VAL_BITS_CAP = 6000          # operands above this many bits are not used
EXP_VAL_CAP = 2000           # value of an exponent subtree
OP_TIMEOUT_S = 300.0         # watchdog only: no operation on the unchanged tree comes near it
SMALL_MODS = list(range(1, 65))
LARGE_MODS = ([2 ** k for k in (7, 8, 10, 12, 16)] + [3 ** k for k in (4, 5, 6, 7, 9)]
              + [10 ** k for k in (2, 3, 4, 5)] + [2 * 3 ** k for k in (3, 4, 5, 6, 7, 8)]
              + [97, 101, 210, 1001, 4095, 65537, 100003, 2 ** 24, 2 ** 24 + 1, 6 ** 4, 7 ** 4, 5 ** 6, 720])
CONSTRUCTORS = {"make_add", "make_mul", "make_div", "make_exp"}


def load_num(path):
    spec = importlib.util.spec_from_file_location("tm_num_under_test", path)
    mod = importlib.util.module_from_spec(spec)
    sys.modules["tm_num_under_test"] = mod
    spec.loader.exec_module(mod)
    return mod


class OpTimeout(Exception):
    pass


class TooBig(Exception):
    pass


class Inexact(Exception):
    pass


# ------------------------------------------------------------------ return-site tracer

class Tracer:
    def __init__(self, mod, path):
        self.mon = sys.monitoring
        self.tool = self.mon.PROFILER_ID
        self.path = path
        text = open(path).read()
        self.lines = text.split("\n")
        # line -> (first, last) line of the enclosing `return` statement
        self.ret_range = {}
        import ast
        for node in ast.walk(ast.parse(text)):
            if isinstance(node, ast.Return):
                for ln in range(node.lineno, (node.end_lineno or node.lineno) + 1):
                    self.ret_range[ln] = (node.lineno, node.end_lineno or node.lineno)
        self.codes = set()
        self.events = []
        self.stack = []
        self.depth = 0
        self.pos = {}
        self.on = False
        self._collect(mod)

    def _collect(self, mod):
        import types
        todo = []
        for v in vars(mod).values():
            if isinstance(v, types.FunctionType) and v.__code__.co_filename == self.path:
                todo.append(v.__code__)
            elif isinstance(v, type) and v.__module__ == mod.__name__:
                for w in vars(v).values():
                    f = getattr(w, "fget", w)
                    f = getattr(f, "__wrapped__", f)
                    if isinstance(f, types.FunctionType) and f.__code__.co_filename == self.path:
                        todo.append(f.__code__)
            elif hasattr(v, "__wrapped__") and isinstance(v.__wrapped__, types.FunctionType):
                todo.append(v.__wrapped__.__code__)          # functools.cache
        while todo:
            c = todo.pop()
            if c in self.codes or c.co_name in CONSTRUCTORS:
                continue
            self.codes.add(c)
            for k in c.co_consts:
                if isinstance(k, types.CodeType):
                    todo.append(k)

    def start(self):
        E = self.mon.events
        self.mon.use_tool_id(self.tool, "c18")
        self.mon.register_callback(self.tool, E.PY_START, self._start)
        self.mon.register_callback(self.tool, E.PY_RETURN, self._return)
        self.mon.register_callback(self.tool, E.PY_UNWIND, self._unwind)
        for c in self.codes:
            self.mon.set_local_events(self.tool, c, E.PY_START | E.PY_RETURN)
        self.mon.set_events(self.tool, E.PY_UNWIND)
        self.on = True

    def stop(self):
        if self.on:
            self.mon.set_events(self.tool, 0)
            for c in self.codes:
                self.mon.set_local_events(self.tool, c, 0)
            self.mon.free_tool_id(self.tool)
            self.on = False

    def _start(self, code, off):
        back = sys._getframe(1).f_back       # the Python frame whose instruction made this call
        self.stack.append((back.f_code, back.f_lineno) if back is not None else (None, 0))
        self.depth += 1

    def _return(self, code, off, val):
        site = self.stack.pop() if self.stack else (None, 0)
        self.events.append((self.depth, code, off, val, site[0], site[1]))
        self.depth -= 1

    def _unwind(self, code, off, exc):
        if code in self.codes:
            if self.stack:
                self.stack.pop()
            self.depth -= 1

    def reset(self):
        self.events.clear()
        self.stack.clear()
        self.depth = 0

    def origin(self):
        """(qualname, line number, statement text) of the innermost pass-through return: starting
        from the last return event, step into the preceding event while it is one frame deeper, was
        called from inside the very `return` statement that is returning, and returned the
        identical object"""
        ev = self.events
        if not ev:
            return ("<no num.py frame>", 0, "")
        i = len(ev) - 1
        d, code, off, val = ev[i][:4]
        line = self._line(code, off)
        while i > 0:
            d2, c2, o2, v2, caller, call_line = ev[i - 1]
            rng = self.ret_range.get(line)
            if (d2 == d + 1 and v2 is val and caller is code and rng is not None
                    and rng[0] <= call_line <= rng[1]):
                i -= 1
                d, code, off = d2, c2, o2
                line = self._line(code, off)
            else:
                break
        rng = self.ret_range.get(line, (line, line))
        text = " ".join(self.lines[k - 1].strip() for k in range(rng[0], rng[1] + 1)) if line else ""
        return (code.co_qualname, rng[0], text)

    def outermost(self):
        """line of the last return event (the operator method itself), for the violation report"""
        if not self.events:
            return 0
        _, code, off = self.events[-1][:3]
        return self._line(code, off)

    def _line(self, code, off):
        p = self.pos.get(code)
        if p is None:
            p = self.pos[code] = [t[0] for t in code.co_positions()]
        k = off // 2
        return (p[k] if k < len(p) and p[k] else code.co_firstlineno)


# ------------------------------------------------------------------ serialisation / steering evaluator

class Ser:
    def __init__(self, mod):
        self.m = mod
        self.memo = {}

    def ser(self, x):
        m = self.m
        if isinstance(x, bool):
            return None
        if isinstance(x, int):
            return str(x)
        if isinstance(x, m.Add):
            l, r = self.ser(x.l), self.ser(x.r)
            return None if l is None or r is None else f"+ {l} {r}"
        if isinstance(x, m.Mul):
            l, r = self.ser(x.l), self.ser(x.r)
            return None if l is None or r is None else f"* {l} {r}"
        if isinstance(x, m.Div):
            n = self.ser(x.num)
            return None if n is None or not isinstance(x.den, int) or isinstance(x.den, bool) else f"/ {n} {x.den}"
        if isinstance(x, m.Exp):
            e = self.ser(x.exp)
            return None if e is None or not isinstance(x.base, int) or isinstance(x.base, bool) else f"^ {x.base} {e}"
        return None

    def result(self, x):
        s = self.ser(x)
        if s is not None:
            return s
        return "?" + type(x).__name__

    def pyval(self, x):
        """structural value (exact divisions, bounded size); raises TooBig / Inexact"""
        if isinstance(x, int):
            return x
        k = id(x)
        hit = self.memo.get(k)
        if hit is not None and hit[0] is x:
            if isinstance(hit[1], Exception):
                raise hit[1]
            return hit[1]
        try:
            v = self._pyval(x)
        except (TooBig, Inexact) as e:
            self.memo[k] = (x, e)
            raise
        self.memo[k] = (x, v)
        return v

    def _pyval(self, x):
        m = self.m
        if isinstance(x, m.Add):
            v = self.pyval(x.l) + self.pyval(x.r)
        elif isinstance(x, m.Mul):
            v = self.pyval(x.l) * self.pyval(x.r)
        elif isinstance(x, m.Div):
            n = self.pyval(x.num)
            if x.den == 0 or n % x.den != 0:
                raise Inexact()
            v = n // x.den
        elif isinstance(x, m.Exp):
            e = self.pyval(x.exp)
            if e < 0:
                raise Inexact()
            if e > EXP_VAL_CAP * 4 or abs(x.base).bit_length() * e > 8 * VAL_BITS_CAP:
                raise TooBig()
            v = x.base ** e
        else:
            raise TooBig()
        if v.bit_length() > 8 * VAL_BITS_CAP:
            raise TooBig()
        return v

    def kind(self, x):
        return "int" if isinstance(x, int) else type(x).__name__


# ------------------------------------------------------------------ the run

OPS = {
    "add": lambda a, b: a + b,
    "sub": lambda a, b: a - b,
    "mul": lambda a, b: a * b,
    "floordiv": lambda a, b: a // b,
    "mod": lambda a, b: a % b,
    "pow": lambda a, b: a ** b,
    "lt": lambda a, b: a < b,
    "le": lambda a, b: a <= b,
    "eq": lambda a, b: a == b,
    "ne": lambda a, b: a != b,
    "gt": lambda a, b: a > b,
    "ge": lambda a, b: a >= b,
}
CMP = ("lt", "le", "eq", "ne", "gt", "ge")


class Run:
    def __init__(self, mod, path, seed, trace):
        self.m = mod
        self.rng = random.Random(seed)
        self.S = Ser(mod)
        self.tr = Tracer(mod, path) if trace == "all" else None
        self.lines = []
        self.key_table = {}
        self.case_key = []
        self.case_line = []
        self.case_top = []
        self.stats = {"ops": {}, "exceptions": {}, "operand_kinds": {}, "operand_depths": {},
                      "result_kinds": {}, "construct_ops": 0, "pair_ops": 0, "pairs": 0,
                      "equal_value_pairs": 0, "mixed_base_pairs": 0, "regenerated": 0,
                      "nodes": {"Add": 0, "Mul": 0, "Div": 0, "Exp": 0, "int": 0}}
        self.pairs_seen = set()

    # -- one operation on the real code, recorded as a case
    def apply(self, op, a, b, phase="pair"):
        S = self.S
        sa, sb = S.ser(a), S.ser(b)
        f = OPS[op]
        tr = self.tr
        exc = None
        res = None
        if tr:
            tr.reset()
        try:
            res = f(a, b)
        except RecursionError:
            exc = "RecursionError"
        except OpTimeout:
            exc = "HarnessTimeout"
            signal.setitimer(signal.ITIMER_REAL, OP_TIMEOUT_S)
        except Exception as e:      # noqa: BLE001   an exception is an allowed outcome
            exc = type(e).__name__
        st = self.stats
        st["ops"][op] = st["ops"].get(op, 0) + 1
        st["construct_ops" if phase == "construct" else "pair_ops"] += 1
        if sa is None or sb is None:
            return res, exc
        ln = 0
        top = 0
        if exc is not None:
            st["exceptions"][exc] = st["exceptions"].get(exc, 0) + 1
            out = "!" + exc
            key = -1
        else:
            if op in CMP:
                out = "True" if res is True else "False" if res is False else "?" + type(res).__name__
            else:
                out = S.result(res)
            rk = "bool" if op in CMP else S.kind(res)
            st["result_kinds"][rk] = st["result_kinds"].get(rk, 0) + 1
            if tr:
                q, ln, text = tr.origin()
                top = tr.outermost()
                kt = (op, q, text, S.kind(a), S.kind(b))
                key = self.key_table.get(kt)
                if key is None:
                    key = self.key_table[kt] = len(self.key_table)
            else:
                key = -2
        modarg = str(b) if op == "mod" else "-"
        self.lines.append(f"numcheck {op} {modarg} | {sa} ; {sb} ; {out}")
        self.case_key.append(key)
        self.case_line.append(ln)
        self.case_top.append(top)
        return res, exc

    # -- generator
    def leaf(self):
        r = self.rng
        x = r.random()
        if x < 0.7:
            return r.choice([1, 2, 3, 4, 5, 6, 7, 8, 9, -1, -2, -3, -4, -5, -6, -7])
        if x < 0.95:
            return r.choice([10, 12, 15, 16, 24, 27, 30, 36, 48, 64, 81, 100, -10, -12, -16, -27, -100])
        return 0

    def ok_operand(self, x):
        try:
            v = self.S.pyval(x)
        except (TooBig, Inexact):
            return False
        return v.bit_length() <= VAL_BITS_CAP and self.S.ser(x) is not None

    def gen(self, depth, base):
        """a tree of construction depth <= depth; every step is a recorded operation"""
        r = self.rng
        m = self.m
        if depth <= 0 or r.random() < 0.08:
            return self.leaf()
        kind = r.choice(("exp", "exp", "exp", "add", "add", "mul", "mul", "div"))
        for _ in range(6):
            try:
                if kind == "exp":
                    if depth == 1 or r.random() < 0.55:
                        e = r.randint(2, 40)
                        x = m.make_exp(base, e)
                    else:
                        e = self.gen(depth - 1, base)
                        ev = self.S.pyval(e)
                        if not 2 <= ev <= EXP_VAL_CAP:
                            e = r.randint(2, 40)
                            x = m.make_exp(base, e)
                        elif isinstance(e, int):
                            x = m.make_exp(base, e)
                        else:
                            x, exc = self.apply("pow", base, e, "construct")
                            if exc:
                                raise Inexact()
                elif kind in ("add", "mul"):
                    l = self.gen(depth - 1, base)
                    rr = self.gen(depth - 1 if r.random() < 0.6 else max(depth - 2, 0), base)
                    if r.random() < 0.5:
                        l, rr = rr, l
                    if kind == "mul" and (l == 0 or rr == 0):
                        raise Inexact()
                    op = "add" if kind == "add" else "mul"
                    if kind == "add" and r.random() < 0.25:
                        op = "sub"
                    if isinstance(l, int) and isinstance(rr, int):
                        rr = m.make_exp(base, r.randint(2, 40))
                    x, exc = self.apply(op, l, rr, "construct")
                    if exc:
                        raise Inexact()
                else:
                    n = self.gen(depth - 1, base)
                    if isinstance(n, int):
                        n = m.make_exp(base, r.randint(2, 40)) + n
                    v = self.S.pyval(n)
                    k = r.choice((2, 3, 4, 5, 6, 7, 8, 9, 10, 12))
                    off = (-v) % k
                    if off:
                        n, exc = self.apply("add", n, off if r.random() < 0.7 else off - k, "construct")
                        if exc:
                            raise Inexact()
                        if isinstance(n, int):
                            raise Inexact()
                        if self.S.pyval(n) % k != 0:
                            raise Inexact()      # a wrong sum: recorded above as a case, not used as operand
                    x, exc = self.apply("floordiv", n, k, "construct")
                    if exc:
                        raise Inexact()
                if self.ok_operand(x):
                    return x
            except (TooBig, Inexact):
                pass
            self.stats["regenerated"] += 1
            kind = r.choice(("exp", "add", "mul"))
            depth = max(depth - 1, 1)
        return self.m.make_exp(base, r.randint(2, 40))

    def rebuild(self, a, base):
        """the same value built another way (for: equal values never compare unequal)"""
        r = self.rng
        how = r.randrange(6)
        try:
            if how == 0:
                c = self.gen(2, base)
                x, e1 = self.apply("add", a, c, "construct")
                if e1:
                    return None
                x, e2 = self.apply("sub", x, c, "construct")
                return None if e2 else x
            if how == 1:
                k = r.choice((2, 3, 5, 6, 7))
                x, e1 = self.apply("mul", a, k, "construct")
                if e1:
                    return None
                x, e2 = self.apply("floordiv", x, k, "construct")
                return None if e2 else x
            if how == 2:
                x, e1 = self.apply("add", a, a, "construct")
                if e1:
                    return None
                x, e2 = self.apply("sub", x, a, "construct")
                return None if e2 else x
            if how == 3:
                k = r.choice((1, 2, 3, 7, 10, -1, -4))
                x, e1 = self.apply("sub", a, k, "construct")
                if e1:
                    return None
                x, e2 = self.apply("add", k, x, "construct")
                return None if e2 else x
            if how == 4:
                k = r.choice((2, 3, 4))
                x, e1 = self.apply("mul", k, a, "construct")
                if e1:
                    return None
                for _ in range(k - 1):
                    x, e2 = self.apply("sub", x, a, "construct")
                    if e2:
                        return None
                return x
            c = self.m.make_exp(base, r.randint(2, 30))
            x, e1 = self.apply("mul", a, c, "construct")
            if e1:
                return None
            x, e2 = self.apply("floordiv", x, c, "construct")
            return None if e2 else x
        except (TooBig, Inexact):
            return None

    def count_nodes(self, x, d=0):
        m = self.m
        n = self.stats["nodes"]
        if isinstance(x, int):
            n["int"] += 1
        elif isinstance(x, (m.Add, m.Mul)):
            n[type(x).__name__] += 1
            self.count_nodes(x.l)
            self.count_nodes(x.r)
        elif isinstance(x, m.Div):
            n["Div"] += 1
            self.count_nodes(x.num)
        elif isinstance(x, m.Exp):
            n["Exp"] += 1
            self.count_nodes(x.exp)

    def parts(self, x, acc):
        """the sub-objects of a tree (the library's own objects, so that identity-keyed branches fire)"""
        m = self.m
        if isinstance(x, int):
            if x not in (0, 1, -1):
                acc.append(x)
            return acc
        acc.append(x)
        if isinstance(x, (m.Add, m.Mul)):
            self.parts(x.l, acc)
            self.parts(x.r, acc)
        elif isinstance(x, m.Div):
            self.parts(x.num, acc)
            acc.append(x.den)
        elif isinstance(x, m.Exp):
            self.parts(x.exp, acc)
        return acc

    def related(self, a, base):
        """a right operand structurally related to `a`: one of its own sub-terms (the same object),
        its negation, a small multiple, or a power of the same base with a neighbouring exponent -
        the simplification branches keyed on `other == self.l`, `self.r == other.r`, ... need these"""
        r = self.rng
        ps = self.parts(a, [])[1:] or [a]
        m = self.m
        kids = ([a.l, a.r] if isinstance(a, (m.Add, m.Mul)) else [a.num, a.den] if isinstance(a, m.Div)
                else [a.exp] if isinstance(a, m.Exp) else [])
        kids = [k for k in kids if not (isinstance(k, int) and k in (0, 1, -1))]
        x = r.choice(kids) if kids and r.random() < 0.5 else r.choice(ps)
        how = r.choice((0, 0, 0, 1, 2, 3, 4))
        try:
            if how == 1:
                x, exc = self.apply("sub", 0, x, "construct")
                if exc:
                    return None
            elif how == 2:
                x, exc = self.apply("mul", r.choice((2, 3, -1, 5)), x, "construct")
                if exc:
                    return None
            elif how == 3 and isinstance(x, self.m.Exp) and isinstance(x.exp, int):
                x = self.m.make_exp(x.base, max(2, x.exp + r.choice((-2, -1, 1, 2, 3))))
            elif how == 4:
                x, exc = self.apply("add", x, r.choice((1, -1, 2, base)), "construct")
                if exc:
                    return None
        except (TooBig, Inexact):
            return None
        return x

    def pair(self):
        r = self.rng
        S = self.S
        base = r.randint(2, 7)
        base_b = base
        if r.random() < 0.10:
            base_b = r.randint(2, 7)
            if base_b != base:
                self.stats["mixed_base_pairs"] += 1
        a = self.gen(r.choice((1, 2, 2, 3, 3, 4, 4)), base)
        if isinstance(a, int):
            a = self.gen(2, base)
        x = r.random()
        b = None
        if x < 0.15 and not isinstance(a, int):
            b = self.rebuild(a, base)
            if b is not None and self.ok_operand(b):
                self.stats["equal_value_pairs"] += 1
            else:
                b = None
        if b is None:
            if x < 0.30:
                # an int right operand; half of the time a divisor of the value
                try:
                    va = S.pyval(a)
                except (TooBig, Inexact):
                    va = 0
                divs = [k for k in (2, 3, 4, 5, 6, 7, 8, 9, 10, 12, 16, 27, base, base * base) if va % k == 0]
                b = r.choice(divs) if divs and r.random() < 0.6 else self.leaf()
            elif x < 0.45 and not isinstance(a, int):
                b = self.related(a, base)
                if b is not None and self.ok_operand(b):
                    self.stats["related_operand_pairs"] = self.stats.get("related_operand_pairs", 0) + 1
                else:
                    b = self.gen(r.choice((1, 1, 2, 2, 3, 3, 4)), base_b)
            else:
                b = self.gen(r.choice((1, 1, 2, 2, 3, 3, 4)), base_b)
        if r.random() < 0.12:
            a, b = b, a
        if isinstance(a, int) and isinstance(b, int):
            b = self.m.make_exp(base, r.randint(2, 40))
        if not (self.ok_operand(a) and self.ok_operand(b)):
            return False
        sa, sb = S.ser(a), S.ser(b)
        self.pairs_seen.add((sa, sb))
        st = self.stats
        st["pairs"] += 1
        for z in (a, b):
            k = S.kind(z)
            st["operand_kinds"][k] = st["operand_kinds"].get(k, 0) + 1
            d = str(0 if isinstance(z, int) else z.depth)
            st["operand_depths"][d] = st["operand_depths"].get(d, 0) + 1
            self.count_nodes(z)
        va, vb = S.pyval(a), S.pyval(b)
        for op in ("add", "sub", "mul"):
            self.apply(op, a, b)
        if vb != 0 and va % vb == 0:
            self.apply("floordiv", a, b)
        for op in CMP:
            self.apply(op, a, b)
        for z, vz in ((a, va), (b, vb)):
            if isinstance(z, int):
                continue
            for k in (2, 3):
                if vz.bit_length() * k <= 4 * VAL_BITS_CAP:
                    self.apply("pow", z, k)
            if 0 <= vz <= 300:
                self.apply("pow", r.randint(2, 7), z)
        z = a if not isinstance(a, int) else b
        mods = SMALL_MODS + r.sample(LARGE_MODS, 10)
        for mm in mods:
            self.apply("mod", z, mm)
        if z is a and not isinstance(b, int) and r.random() < 0.3:
            for mm in r.sample(SMALL_MODS, 12) + r.sample(LARGE_MODS, 4):
                self.apply("mod", b, mm)
        return True


def rebuild_from(mod, toks):
    """prefix serialisation -> object, through the library's interning constructors"""
    t = toks.pop(0)
    if t == "+":
        l = rebuild_from(mod, toks)
        r = rebuild_from(mod, toks)
        return mod.make_add(l, r)
    if t == "*":
        l = rebuild_from(mod, toks)
        r = rebuild_from(mod, toks)
        return mod.make_mul(l, r)
    if t == "/":
        n = rebuild_from(mod, toks)
        return mod.make_div(n, int(toks.pop(0)))
    if t == "^":
        b = int(toks.pop(0))
        e = rebuild_from(mod, toks)
        exps = mod.EXPS[b]            # make_exp would re-canonicalise the base
        if e not in exps:
            exps[e] = mod.Exp(b, e)
        return exps[e]
    return int(t)


def redo(run, path):
    for line in open(path):
        line = line.rstrip("\n")
        if not line.startswith("numcheck "):
            continue
        head, text = line.split(" | ", 1)
        op = head.split(" ")[1]
        sa, sb, _ = text.split(" ; ")
        try:
            a = rebuild_from(run.m, sa.split())
            b = rebuild_from(run.m, sb.split())
        except Exception as e:      # noqa: BLE001
            run.lines.append(f"numcheck {op} - | {sa} ; {sb} ; !Rebuild{type(e).__name__}")
            run.case_key.append(-1)
            run.case_line.append(0)
            run.case_top.append(0)
            continue
        if op in OPS:
            run.apply(op, a, b)


def on_alarm(signum, frame):
    raise OpTimeout()


def main():
    ap = argparse.ArgumentParser()
    ap.add_argument("--seed", type=int, default=0)
    ap.add_argument("--pairs", type=int, default=100)
    ap.add_argument("--out")
    ap.add_argument("--keys")
    ap.add_argument("--trace", default="all", choices=("all", "none"))
    ap.add_argument("--num-py", default=os.environ.get("NUM_PY_PATH") or DEFAULT_NUM)
    ap.add_argument("--probe", default=None)
    ap.add_argument("--redo", default=None)
    a = ap.parse_args()
    sys.setrecursionlimit(4000)
    mod = load_num(a.num_py)
    if a.probe is not None:
        try:
            print(repr(eval(a.probe, dict(vars(mod)))))      # noqa: S307  (our own expressions only)
        except Exception as e:      # noqa: BLE001
            print("!" + type(e).__name__)
        return 0
    t0 = time.time()
    run = Run(mod, a.num_py, a.seed, a.trace)
    signal.signal(signal.SIGALRM, on_alarm)
    if run.tr:
        run.tr.start()
    tries = 0
    try:
        if a.redo is not None:
            signal.setitimer(signal.ITIMER_REAL, 600.0)
            redo(run, a.redo)
            a.pairs = 0
        while run.stats["pairs"] < a.pairs and tries < 20 * a.pairs + 100:
            tries += 1
            signal.setitimer(signal.ITIMER_REAL, OP_TIMEOUT_S)
            try:
                run.pair()
            except OpTimeout:
                run.stats["exceptions"]["HarnessTimeout(pair)"] = run.stats["exceptions"].get("HarnessTimeout(pair)", 0) + 1
            except RecursionError:
                pass
    finally:
        signal.setitimer(signal.ITIMER_REAL, 0)
        if run.tr:
            run.tr.stop()
    run.stats["distinct_pairs"] = len(run.pairs_seen)
    run.stats["cases"] = len(run.lines)
    run.stats["wall_s"] = round(time.time() - t0, 2)
    with open(a.out, "w") as f:
        f.write("\n".join(run.lines) + ("\n" if run.lines else ""))
    keys = [None] * len(run.key_table)
    for k, i in run.key_table.items():
        keys[i] = {"op": k[0], "function": k[1], "line_text": k[2], "shape": [k[3], k[4]]}
    with open(a.keys, "w") as f:
        json.dump({"seed": a.seed, "num_py": a.num_py, "trace": a.trace, "key_table": keys,
                   "case_key": run.case_key, "case_line": run.case_line, "case_top_line": run.case_top,
                   "stats": run.stats}, f)
    return 0


if __name__ == "__main__":
    sys.exit(main())
