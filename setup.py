#!/usr/bin/env python3
"""MANIFEST.setup_cmd: build everything from files on disk (offline)."""
import os
import sys
sys.path.insert(0, os.path.dirname(os.path.abspath(__file__)))
from vlib import core

ok, msg = core.build_harness()
if not ok:
    print(msg)
    sys.exit(1)
import glob
props = sorted("BB.Props." + os.path.basename(f)[:-5] for f in glob.glob(os.path.join(core.LEAN, "BB", "Props", "*.lean")))
# BB.Props.C18 depends on BB/Generated/*.lean, which the C18 check regenerates from /repo's tm/num.py
# on every run (translator): build it last and do not let a stale or failing generated file take
# the whole setup down - the C18 check reports that itself.
strict = [p for p in props if p != "BB.Props.C18"]
ok, msg = core.build_lean(tuple(["BB", "bbdriver"] + strict))
if not ok:
    print(msg)
    sys.exit(1)
ok, msg = core.build_lean(("BB.Props.C18", "BB.Generated.NumTables"))
if not ok:
    print("note: BB.Props.C18 / BB.Generated.NumTables did not build at setup time; the C18 check regenerates and rebuilds them:\n" + msg[-1500:])
print("setup ok")
