#!/usr/bin/env python3
"""MANIFEST.setup_cmd: build everything from files on disk (offline)."""
import os
import sys
sys.path.insert(0, os.path.dirname(os.path.abspath(__file__)))
from vlib import core

ok, msg = core.build_harness()
if not ok:
    print(msg)
    sys.exit(1)
import glob
props = sorted("BB.Props." + os.path.basename(f)[:-5] for f in glob.glob(os.path.join(core.LEAN, "BB", "Props", "*.lean")))
ok, msg = core.build_lean(tuple(["BB", "bbdriver"] + props))
if not ok:
    print(msg)
    sys.exit(1)
print("setup ok")
