/-
C01 — Run-length simulator equals cell-by-cell Turing machine semantics.
Property theorems only; helper lemmas live in BB/Lemmas.
-/
import BB.Lemmas.Refine

namespace BB

/-- **step_refines.** One step of the compressed tape with instruction `(pr, d, q')` fired in state
    `q` (sweeping iff `q = q'`) is `k ≥ 1` steps of the cell-by-cell machine; during the first `k`
    configurations the machine is in state `q` scanning the same colour (so the same instruction
    fires), and the `k`-th configuration is the unrolled new tape in state `q'`. -/
theorem step_refines (p : ProgF) (t : Tape) (q pr : Nat) (d : Bool) (q' : Nat)
    (hpos : t.Pos) (hi : p q t.scan = some (pr, d, q')) :
    0 < (t.step d pr (q == q')).2 ∧
    (∀ j, j < (t.step d pr (q == q')).2 →
        ∃ c, stepN p j (t.toCfg q) = some c ∧ c.state = q ∧ c.scan = t.scan) ∧
    (∃ c', stepN p (t.step d pr (q == q')).2 (t.toCfg q) = some c' ∧
        c' ≈c (t.step d pr (q == q')).1.toCfg q') ∧
    (t.step d pr (q == q')).1.Pos := by
  sorry

/-- the loop state after `n` full iterations of `run_quick_machine`'s loop (none once it stopped) -/
def quickAfter (p : Prog) : Nat → Option QState
  | 0 => some QState.init
  | n + 1 => match quickAfter p n with
    | none => none
    | some s => match quickIter p s with
      | .cont s' => some s'
      | .done _ _ _ _ => none

/-- **every_cycle.** At every intermediate cycle the compressed tape unrolls to the real tape:
    the L0 machine after `s.steps` steps is the unrolled model configuration, and the tape is
    canonical. -/
theorem every_cycle (p : Prog) (n : Nat) (s : QState) (h : quickAfter p n = some s) :
    s.tape.Canon ∧ ∃ c, RunAt p.toF s.steps c ∧ c ≈c s.tape.toCfg s.state := by
  sorry

/-! ### The result record of `run_quick_machine` -/

/-- **Steps and marks.** Unless the run stopped on u64 overflow, the L0 machine run for `steps`
    base steps exists (so no undefined instruction was met before), and its tape holds exactly
    `marks` non-blank cells. -/
theorem run_quick_steps_marks (p : Prog) (lim : Nat) (h : (runQuick p lim).result ≠ .overflow) :
    ∃ c, RunAt p.toF (runQuick p lim).steps c ∧ c.marks = (runQuick p lim).marks := by
  sorry

/-- **Undefined instruction.** `undfnd` is reported exactly with the halting slot, at the real step. -/
theorem run_quick_undfnd (p : Prog) (lim : Nat) (h : (runQuick p lim).result = .undfnd) :
    ∃ q s, (runQuick p lim).lastSlot = some (q, s) ∧ HaltsAt p.toF (runQuick p lim).steps q s := by
  sorry

/-- **Spin-out.** -/
theorem run_quick_spnout (p : Prog) (lim : Nat) (h : (runQuick p lim).result = .spnout) :
    ∃ c, RunAt p.toF (runQuick p lim).steps c ∧ SpinOutCfg p.toF c := by
  sorry

/-- **Blank-tape record.** Every recorded (state, step) is a real blank tape in that state. -/
theorem run_quick_blanks (p : Prog) (lim : Nat) (q n : Nat) (h : (q, n) ∈ (runQuick p lim).blanks) :
    BlankAfter p.toF n q := by
  sorry

/-- **Return to blank.** `infrul` (only produced here by a repeated blank state, or a blank tape in
    the start state) means the machine never halts. -/
theorem run_quick_infrul (p : Prog) (lim : Nat) (h : (runQuick p lim).result = .infrul) :
    NeverHalts p.toF := by
  sorry

/-- **Step limit.** `xlimit` means all `lim` cycles were executed. -/
theorem run_quick_xlimit (p : Prog) (lim : Nat) (h : (runQuick p lim).result = .xlimit) :
    (quickAfter p lim).isSome ∧ (runQuick p lim).cycles = 0 := by
  sorry

/-- **Cycles.** When the run stops on an undefined instruction or a spin-out, `cycles` is the number
    of loop iterations completed before. -/
theorem run_quick_cycles (p : Prog) (lim : Nat)
    (h : (runQuick p lim).result = .undfnd ∨ (runQuick p lim).result = .spnout) :
    (quickAfter p (runQuick p lim).cycles).isSome ∧ (runQuick p lim).cycles < lim := by
  sorry

/- Non-vacuity: a concrete machine that exercises sweeps, halts, and meets every hypothesis. -/
example : (runQuick [((0,0),(1,true,1)), ((0,1),(1,false,1)), ((1,0),(1,false,0))] 100).result = .undfnd := by decide

end BB
