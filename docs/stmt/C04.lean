/-
C04 — the backward reasoner never refutes something the machine does.
Property theorems only; helper lemmas live in BB/Lemmas/Reason*.lean.
-/
import BB.Model.Reason

namespace BB.Reason

open BB

/-! ### Concretisation -/

/-- cell stream `f` matches the blocks followed by the end marker.
    A block with count 0 (indefinite) stands for `k ≥ 1` cells. -/
inductive SpanMatch : List Block → TapeEnd → (Nat → Nat) → Prop
  | nilBlanks {f : Nat → Nat} : (∀ i, f i = 0) → SpanMatch [] .blanks f
  | nilUnknown {f : Nat → Nat} : SpanMatch [] .unknown f
  | cons {c n : Nat} {bs : List Block} {e : TapeEnd} {f : Nat → Nat} (k : Nat) :
      (n ≠ 0 → k = n) → (n = 0 → 1 ≤ k) → (∀ i, i < k → f i = c) →
      SpanMatch bs e (fun i => f (i + k)) → SpanMatch (⟨c, n⟩ :: bs) e f

/-- the L0 configurations an abstract configuration stands for -/
def Gamma (cfg : Config) (c : Cfg) : Prop :=
  c.state = cfg.state ∧ c.scan = cfg.tape.scan ∧
  SpanMatch cfg.tape.lspan.span cfg.tape.lspan.end_ (cellAt c.left) ∧
  SpanMatch cfg.tape.rspan.span cfg.tape.rspan.end_ (cellAt c.right)

/-! ### The three events, as reachability of a target set -/

/-- the configuration just before a step that turns a non-blank tape blank -/
def ErasePoint (p : ProgF) (c : Cfg) : Prop :=
  ¬ c.Blank ∧ ∃ c', step1 p c = some c' ∧ c'.Blank

def HaltPoint (p : ProgF) (c : Cfg) : Prop := p c.state c.scan = none

/-! ### Targets cover the events -/

theorem targets_cover_halt (p : Prog) (n : Nat) (c : Cfg) (hrun : RunAt p.toF n c)
    (hh : HaltPoint p.toF c) :
    ∃ cfg ∈ haltConfigs p true, Gamma cfg c := by
  sorry

theorem targets_cover_erase (p : Prog) (c : Cfg) (he : ErasePoint p.toF c) :
    ∃ cfg ∈ eraseConfigs p, Gamma cfg c := by
  sorry

theorem targets_cover_spinout (p : Prog) (c : Cfg) (hs : SpinOutCfg p.toF c) :
    ∃ cfg ∈ zeroReflexiveConfigs p, Gamma cfg c := by
  sorry

/-! ### One backward step -/

/-- **backstep_sound.** If L0 steps `c → c'` by the instruction `(q, r) ↦ (pr, sh, q')` and `c'` is
    in γ of an abstract configuration whose pull side does not start with an indefinite block, then
    the predecessor filter accepts the step and `c` is in γ of the back-stepped configuration. -/
theorem backstep_sound (p : ProgF) (cfg : Config) (c c' : Cfg) (pr : Nat) (sh : Bool)
    (hi : p c.state c.scan = some (pr, sh, cfg.state)) (hstep : step1 p c = some c')
    (hg : Gamma cfg c') :
    cfg.tape.checkStep sh pr = true ∧
    (cfg.tape.pullsIndef sh = false →
      Gamma ⟨c.state, cfg.tape.backstep sh c.scan, 0, []⟩ c) := by
  sorry

/-- **init_detected.** The initial configuration is in γ of an abstract configuration only if that
    configuration is `blank` in state 0 (which makes `step_configs` answer `init`). -/
theorem init_detected (cfg : Config) (h : Gamma cfg Cfg.init) :
    cfg.state = 0 ∧ cfg.tape.blank = true := by
  sorry

/-! ### Soundness of `refuted` (repaired model) -/

/- The full statement (kept visible):

   theorem cant_halt_sound (p : Prog) (depth k : Nat) (h0 : (p.get (0,0)).isSome)
       (h : cantHalt p depth true true = .ok (.refuted k)) : ¬ Halts p.toF

   and likewise for erase and spin-out.  It is proved below under the extra hypothesis
   `noUnknownPrune`, see docs/C04_PROOF_NOTES.md: the blank-state pruning against a tape with an
   `unknown` end has no known justification. -/

/-- `true` when, in the run of `cant_reach` on these target configurations, no configuration was
    discarded by blank-state pruning while its tape had an `unknown` end.  (Defined by an
    instrumented copy of the loop in BB/Lemmas; the definition is part of the statement.) -/
def noUnknownPrune (fixF1 : Bool) (comp : Prog) (depth : Nat) (configs : Configs) : Bool :=
  sorry

theorem cant_halt_sound_partial (p : Prog) (depth k : Nat) (h0 : (p.get (0, 0)).isSome)
    (h : cantHalt p depth true true = .ok (.refuted k))
    (hp : noUnknownPrune true p depth (haltConfigs p true) = true) : ¬ Halts p.toF := by
  sorry

/-- erase targets have `blanks` ends, so no side condition is needed -/
theorem cant_blank_sound (p : Prog) (depth k : Nat)
    (h : cantBlank p depth true = .ok (.refuted k)) : ¬ ∃ n, ErasesAt p.toF n := by
  sorry

theorem cant_spin_out_sound_partial (p : Prog) (depth k : Nat)
    (h : cantSpinOut p depth true = .ok (.refuted k))
    (hp : noUnknownPrune true p depth (zeroReflexiveConfigs p) = true) : ¬ SpinsOut p.toF := by
  sorry

/-! ### Witnesses: the unrepaired model refutes reachable events (findings F1, F2) -/

def progF1 : Prog :=
  [((0,0),(1,true,1)), ((0,1),(1,false,0)), ((1,0),(0,true,2)), ((1,1),(1,true,2)), ((2,0),(1,false,0))]

theorem cant_halt_F1_witness :
    cantHalt progF1 10 false false = .ok (.refuted 9) ∧ HaltsAt progF1.toF 11 2 1 := by
  sorry

def progF2 : Prog := [((0,0),(1,true,1)), ((1,0),(1,false,0))]

theorem cant_halt_F2_witness :
    cantHalt progF2 1 false false = .ok (.refuted 0) ∧ HaltsAt progF2.toF 2 0 1 := by
  sorry

end BB.Reason
