/-
STATEMENTS to prove (C02 / C03 extension): soundness of the symbolic rule validator
BB/Model/SymRule.lean against the L0 machine.  To be placed as new sections of
BB/Props/C03.lean (validate_app_sound, sym_period_sound) and BB/Props/C02.lean (validate_inf_sound,
replaySym_*), with the proofs in new files BB/Lemmas/SymRule1.lean, SymRule2.lean, ...

Vocabulary already in the project: `RunVia`, `OnWay` (BB/Lemmas/Validate.lean), `Tape.Pos`,
`Tape.Canon`, `Tape.toCfg`, `plainStep`, `plainStep_sound`, `stepN`, `SpinOutCfg`, `≈c`.
-/
import BB.Model.SymRule
import BB.Lemmas.Validate

namespace BB.Sym

/-- **sym_step_sound** (the core).  If one symbolic cycle is determined, then for EVERY valuation
    of the variables the plain simulator, run on the instantiated tape, takes exactly that cycle:
    same next state, the instantiated next tape, the instantiated number of base steps. -/
theorem sym_step_sound (p : Prog) (q : Nat) (s : STape) (q' : Nat) (s' : STape) (k : Form)
    (hpos : s.posB = true) (h : symStep p q s = .next q' s' k) (v : Val) :
    plainStep p q (s.inst v) = .next q' (s'.inst v) (k.eval v) ∧ s'.posB = true := by
  sorry

/-- **sym_period_sound.**  A validated period holds for every valuation: from the instantiated
    tape in state `q` the L0 machine reaches, in exactly `f.eval v ≥ 1` steps, the same state on the
    instantiated shifted tape; every configuration on the way has a defined instruction, and - when
    the instantiated start tape is canonical - none is a spin-out configuration and the end tape is
    canonical again. -/
theorem sym_period_sound (p : Prog) (q : Nat) (s target : STape) (dl dr : List Int)
    (budget cycles : Nat) (f : Form) (h : symPeriod p q s dl dr budget = some (cycles, f))
    (ht : s.shift dl dr = some target) (v : Val) :
    1 ≤ f.eval v ∧ (s.inst v).Pos ∧ (target.inst v).Pos ∧
      RunVia p.toF (OnWay p.toF (s.inst v).Canon) ((s.inst v).toCfg q) (f.eval v)
        ((target.inst v).toCfg q) ∧
      ((s.inst v).Canon → (target.inst v).Canon) := by
  sorry

/-- **validate_app_sound.**  If the symbolic validator accepts a reported application
    `(q, before) → (q, after)` made `times` times and answers `n`, the L0 machine started on the
    cells of `before` in state `q` is, after exactly `n ≥ 1` steps, on the cells of `after` in state
    `q`; every configuration on the way has a defined instruction; if `before` is canonical none of
    them is a spin-out configuration and `after` is canonical.  No bound on `times`. -/
theorem validate_app_sound (p : Prog) (q : Nat) (before after : Tape) (times budget n : Nat)
    (h : validateApp p q before after times budget = some n) :
    1 ≤ n ∧ before.Pos ∧ after.Pos ∧
      RunVia p.toF (OnWay p.toF before.Canon) (before.toCfg q) n (after.toCfg q) ∧
      (before.Canon → after.Canon) := by
  sorry

/-- **validate_inf_sound.**  If `validateInf` accepts `(q, t)`, the L0 machine started on the cells
    of `t` in state `q` never reaches an undefined instruction (it runs for ever), and if `t` is
    canonical it never reaches a spin-out configuration either. -/
theorem validate_inf_sound (p : Prog) (q : Nat) (t : Tape) (budget : Nat)
    (h : validateInf p q t budget = true) :
    (∀ n, ∃ c, stepN p.toF n (t.toCfg q) = some c) ∧
      (t.Canon → ∀ n c, stepN p.toF n (t.toCfg q) = some c → ¬ SpinOutCfg p.toF c) := by
  sorry

end BB.Sym
