/-
C12 — the compressed tape stays canonical and its observers tell the truth.
Property theorems only; helper lemmas live in BB/Lemmas.
(`Tape.canon_init`, `Tape.canon_step`, `Tape.canon_runOps` are in BB/Lemmas/Canon.lean and are
re-exported here as the first half of the property.)
-/
import BB.Lemmas.Canon
import BB.Lemmas.Refine

namespace BB

/-- remove trailing blanks -/
def trimZ : List Nat → List Nat
  | [] => []
  | x :: xs => match trimZ xs with
    | [] => if x == 0 then [] else [x]
    | ys => x :: ys

/-- run-length encoding of a cell list -/
def rleCells : List Nat → Span
  | [] => []
  | x :: xs => match rleCells xs with
    | [] => [⟨x, 1⟩]
    | b :: bs => if b.color == x then ⟨x, b.count + 1⟩ :: bs else ⟨x, 1⟩ :: b :: bs

/-- **Canonical invariant over all histories** (re-export). -/
theorem C12_canon_reachable (ops : List (Bool × Nat × Bool)) : ((Tape.init 0).runOps ops).Canon :=
  Tape.canon_runOps (Tape.canon_init 0) ops

/-- A canonical span *is* the run-length encoding of its cells. -/
theorem rle_unroll (s : Span) (h : Span.Canon s) : rleCells (trimZ (Span.unroll s)) = s := by
  sorry

/-- **Equality is cell equality**: two canonical spans are equal exactly when they hold the same
    cells. -/
theorem canon_eq_iff (a b : Span) (ha : Span.Canon a) (hb : Span.Canon b) :
    a = b ↔ SameCells (Span.unroll a) (Span.unroll b) := by
  sorry

theorem tape_eq_iff (t u : Tape) (ht : t.Canon) (hu : u.Canon) (q : Nat) :
    t = u ↔ t.toCfg q ≈c u.toCfg q := by
  sorry

/-- **Observers.** `marks` is the number of non-blank cells (no hypothesis needed). -/
theorem marks_truth (t : Tape) (q : Nat) : t.marks = (t.toCfg q).marks := by
  sorry

theorem blank_truth (t : Tape) (h : t.Canon) (q : Nat) : t.blank = true ↔ (t.toCfg q).Blank := by
  sorry

theorem atEdge_truth (t : Tape) (h : t.Canon) (d : Bool) :
    t.atEdge d = true ↔
      t.scan = 0 ∧ AllZero (if d then Span.unroll t.rspan else Span.unroll t.lspan) := by
  sorry

/-- block counts, block number, span lengths and signature are what one reads off the cells -/
theorem counts_truth (t : Tape) (h : t.Canon) :
    t.counts = (Span.counts (rleCells (trimZ (Span.unroll t.lspan))),
                Span.counts (rleCells (trimZ (Span.unroll t.rspan)))) := by
  sorry

theorem spanLens_truth (t : Tape) (h : t.Canon) :
    t.spanLens = ((rleCells (trimZ (Span.unroll t.lspan))).length,
                  (rleCells (trimZ (Span.unroll t.rspan))).length)
    ∧ t.blocks = (rleCells (trimZ (Span.unroll t.lspan))).length
                 + (rleCells (trimZ (Span.unroll t.rspan))).length := by
  sorry

theorem signature_truth (t : Tape) (h : t.Canon) :
    t.signature = ⟨t.scan, Span.signature (rleCells (trimZ (Span.unroll t.lspan))),
                          Span.signature (rleCells (trimZ (Span.unroll t.rspan)))⟩ := by
  sorry

/-- `sig_compatible` is: same scan, at least as many blocks on each side, and the colours of the
    first blocks agree with the signature's. -/
theorem sigCompatible_iff (t : Tape) (sig : Signature) :
    t.sigCompatible sig = true ↔
      t.scan = sig.scan ∧ sig.lspan.length ≤ t.lspan.length ∧ sig.rspan.length ≤ t.rspan.length ∧
      (∀ i (hi : i < sig.lspan.length) (hj : i < t.lspan.length), (t.lspan[i]).color = (sig.lspan[i]).color) ∧
      (∀ i (hi : i < sig.rspan.length) (hj : i < t.rspan.length), (t.rspan[i]).color = (sig.rspan[i]).color) := by
  sorry

/- Non-vacuity: a reachable, non-trivial canonical tape. -/
example : ((Tape.init 0).runOps [(true, 1, false), (true, 1, false), (false, 2, false), (false, 0, true)]).Canon :=
  C12_canon_reachable _

end BB
