"""attach proof obligations (BB/Props/<id>.lean + BB/Audit/<id>.lean) to a report"""
import json
import os
from . import core


def required_theorems(pid):
    """the theorem list is the audit file's `#print axioms` lines: one obligation each"""
    import re
    path = os.path.join(core.LEAN, "BB", "Audit", pid + ".lean")
    if not os.path.exists(path):
        return []
    return re.findall(r"^#print axioms\s+(\S+)", open(path).read(), re.M)


def attach(rep, pid):
    req = required_theorems(pid)
    # the registry pins which theorems must exist (so deleting one from the audit file is noticed)
    reg_path = os.path.join(core.VERIF, "theorems.json")
    reg = json.load(open(reg_path)).get(pid, []) if os.path.exists(reg_path) else []
    missing = [t for t in reg if t not in req]
    ok = core.proof_obligations(rep, pid, sorted(set(req) | set(reg)))
    if missing:
        rep.violation("proof-obligation-missing", {"theorems": missing}, found_input=False)
    rep.cov["trusted_base"] = core.TRUSTED_BASE
    if ok and rep.tier == "thorough":
        # independent re-check of the compiled module (and, transitively, what it imports)
        with core.Lock("lean"):
            p = core.run(["lake", "env", "leanchecker", f"BB.Props.{pid}"], cwd=core.LEAN, check=False)
        rep.cov["leanchecker"] = "ok" if p.returncode == 0 else "failed"
        if p.returncode != 0:
            rep.violation("proof-obligation-failed",
                          {"theorems": [f"leanchecker BB.Props.{pid}: " + (p.stdout + p.stderr)[-1500:]]},
                          found_input=False)
            return False
    return ok
