"""Shared driver for the 'decider soundness' properties C04, C05, C06 (and the C15 ladders):
generate programs, ask the real code and the model, diff, judge refutations with the L0 oracle,
attribute violations to known findings by counterfactual re-run of the model."""
import random
from . import core
from .common import parse_kv

GOALS = ("halt", "blank", "spin_out")


def program_stream(tier, seed, quick_random=6000, thorough_random=60000, exhaustive_big=True):
    """yield lists (chunks) of program texts"""
    rng = random.Random(seed * 1000003 + 4)
    yield "2x2", list(core.all_progs(2, 2, first_defined=True))
    n = thorough_random if tier == "thorough" else quick_random
    progs = []
    for _ in range(n):
        s, c = rng.choice(core.SIZES[:-1])
        progs.append(core.rand_prog(rng, s, c, p_undef=rng.choice([0.0, 0.1, 0.3])))
    yield "random", progs
    yield "named", core.named_progs()
    # slices of the 3x2 / 2x3 tables: a different slice per seed; thorough = everything
    for (s, c) in ((3, 2), (2, 3)):
        if tier == "thorough" and exhaustive_big:
            nchunks = 12
            for k in range(nchunks):
                yield f"{s}x{c}-all-{k}", list(core.all_progs(s, c, first_defined=True, stride=nchunks, offset=k))
        else:
            stride = 97
            yield f"{s}x{c}-slice", list(core.all_progs(s, c, first_defined=True, stride=stride, offset=seed % stride))


def event_happens(goal, facts):
    """does the L0 run exhibit the event the decider refuted?"""
    if goal == "halt":
        return facts["halt"] != "none"
    if goal == "blank":
        return facts["erase"] != "none"
    if goal == "spin_out":
        return facts["spin"] != "none"
    raise ValueError(goal)


def judge_refutations(rep, items, budget):
    """items: list of (goal, prog, case_line, impl_answer) that claim 'the event never happens'.
    Returns list of violating items with the oracle output."""
    if not items:
        return []
    progs = sorted({it[1] for it in items})
    outs = core.run_driver([f"l0run {budget} | {p}" for p in progs])
    facts = {p: parse_kv("x " + o) for p, o in zip(progs, outs)}
    bad = []
    for it in items:
        f = facts[it[1]]
        if event_happens(it[0], f):
            bad.append((it, f))
    return bad
