"""Shared driver for the 'decider soundness' properties C04, C05, C06 (and the C15 ladders):
generate programs, ask the real code and the model, diff, judge refutations with the L0 oracle,
attribute violations to known findings by counterfactual re-run of the model."""
import random
from . import core
from .common import parse_kv

GOALS = ("halt", "blank", "spin_out")


def program_stream(tier, seed, quick_random=20000, thorough_random=60000, exhaustive_big=True):
    """yield lists (chunks) of program texts"""
    rng = random.Random(seed * 1000003 + 4)
    yield "2x2", list(core.all_progs(2, 2, first_defined=True))
    n = thorough_random if tier == "thorough" else quick_random
    progs = []
    for _ in range(n):
        s, c = rng.choice(core.SIZES[:-1])
        progs.append(core.rand_prog(rng, s, c, p_undef=rng.choice([0.0, 0.1, 0.3])))
    yield "random", progs
    yield "named", core.named_progs()
    # slices of the 3x2 / 2x3 tables: a different slice per seed; thorough = everything
    for (s, c) in ((3, 2), (2, 3)):
        if tier == "thorough" and exhaustive_big:
            nchunks = 12
            for k in range(nchunks):
                yield f"{s}x{c}-all-{k}", list(core.all_progs(s, c, first_defined=True, stride=nchunks, offset=k))
        else:
            stride = 37
            yield f"{s}x{c}-slice", list(core.all_progs(s, c, first_defined=True, stride=stride, offset=seed % stride))


def event_happens(goal, facts):
    """does the L0 run exhibit the event the decider refuted?"""
    if goal == "halt":
        return facts["halt"] != "none"
    if goal == "blank":
        return facts["erase"] != "none"
    if goal == "spin_out":
        return facts["spin"] != "none"
    raise ValueError(goal)


def judge_refutations(rep, items, budget):
    """items: list of (goal, prog, case_line, impl_answer) that claim 'the event never happens'.
    Returns list of violating items with the oracle output."""
    if not items:
        return []
    progs = sorted({it[1] for it in items})
    outs = core.run_driver([f"l0run {budget} | {p}" for p in progs])
    facts = {p: parse_kv("x " + o) for p, o in zip(progs, outs)}
    bad = []
    for it in items:
        f = facts[it[1]]
        if event_happens(it[0], f):
            bad.append((it, f))
    return bad


# ---------------------------------------------------------------- search after a broken correspondence

def neighbours(prog, rng, cap=400, keep_first=False):
    """programs one slot away from `prog` (same table size): every slot set to every other
    instruction of the table's alphabet or left undefined; sampled down to `cap`"""
    rows = [r.split(" ") for r in prog.split("  ")]
    S, C = len(rows), len(rows[0])
    ins = core.all_instrs(S, C)
    out = []
    for i in range(S):
        for j in range(len(rows[i])):
            if (i, j) == (0, 0) and keep_first:
                continue
            if (i, j) == (0, 0):
                alts = [x for x in ins if x != "..."]
            else:
                alts = ins
            for x in alts:
                if x != rows[i][j]:
                    r2 = [list(r) for r in rows]
                    r2[i][j] = x
                    out.append(core.prog_text(r2))
    if len(out) > cap:
        out = rng.sample(out, cap)
    return out


def escalate(rep, mism, is_claim, refuted_by, seed, budget=60000, time_cap=150, label="", keep_first=False):
    """A correspondence mismatch says the code no longer computes the model's function, not that the
    property fails.  Search for a concrete failing input: take the mismatching cases and their
    one-slot neighbours (the rare branch a change needs is usually shared by neighbours), keep the
    cases on which the REAL answer (a) differs from the model's and (b) is a claim about the
    machine, and judge each such claim by an L0 run.  `is_claim(out)` selects answers that assert
    something; `refuted_by(line, out, facts)` is True when the L0 facts contradict the answer.
    Only runs when `mism` is non-empty, so the unchanged tree never pays for it."""
    import time
    if not mism:
        return 0
    t0 = time.time()
    rng = random.Random(seed * 7919 + 99)
    seeds = []
    for m in mism:
        c = m["case"]
        if " | " in c and c not in seeds:
            seeds.append(c)
    rng.shuffle(seeds)
    found = 0
    tried = 0
    seen = set()
    rounds = 0
    frontier = seeds[:60]
    while frontier and time.time() - t0 < time_cap and found < 5 and rounds < 4:
        rounds += 1
        cand = []
        for c in frontier:
            head, prog = c.split(" | ", 1)
            for p2 in ([prog] if rounds == 1 else []) + neighbours(prog, rng, cap=300 if rounds == 1 else 60, keep_first=keep_first):
                l = f"{head} | {p2}"
                if l not in seen:
                    seen.add(l)
                    cand.append(l)
        if not cand:
            break
        cand = cand[:40000]
        impl = core.run_harness(cand)
        model = core.run_driver(cand)
        tried += len(cand)
        dev = [(l, i, m) for l, i, m in zip(cand, impl, model) if i != m]
        claims = [(l, i, m) for l, i, m in dev if is_claim(i)]
        progs = sorted({l.split(" | ", 1)[1] for l, _, _ in claims})
        facts = dict(zip(progs, [parse_kv("x " + o) for o in core.run_driver([f"l0run {budget} | {p}" for p in progs])]))
        for l, i, m in claims:
            f = facts[l.split(" | ", 1)[1]]
            if refuted_by(l, i, f):
                found += 1
                rep.violation("oracle", {"case": l, "impl": i, "model": m,
                                         "l0": {k: f.get(k) for k in ("halt", "spin", "erase", "blanks", "steps")},
                                         "found_by": f"neighbourhood search after a broken correspondence{label} (round {rounds})"})
                if found >= 5:
                    break
        # next round: neighbours of the cases that deviate from the model (closest to the changed branch)
        frontier = [l for l, _, _ in dev][:150]
    rep.cov["escalation_cases_tried"] = rep.cov.get("escalation_cases_tried", 0) + tried
    rep.cov["escalation_failing_inputs_found"] = rep.cov.get("escalation_failing_inputs_found", 0) + found
    return found


def cps_order_sensitive(mism):
    """cps.rs iterates a HashSet, whose order differs from run to run; the Boolean answer does not
    depend on it EXCEPT when the search ends within reach of MAX_LOOPS / MAX_DEPTH (the number of
    passes to the fixed point depends on the order).  A cps mismatch is therefore kept only when the
    model's own answer is stable under the reversed order and under halved and doubled limits;
    otherwise the case is order-sensitive and is not compared (returned separately, counted)."""
    keep, dropped = [], []
    q, idx = [], []
    for m in mism:
        c = m["case"]
        op = c.split(" ")[0]
        if op.startswith("cps_") and op.split("_", 1)[1] in ("halt", "blank", "spin_out") and m["impl"] in ("true", "false") and m["model"] in ("true", "false"):
            g, rad, prog = op.split("_", 1)[1], c.split(" ")[1], c.split(" | ", 1)[1]
            for ml, md, rev in ((1000, 100000, 0), (1000, 100000, 1), (2000, 200000, 0), (500, 50000, 1)):
                q.append(f"cps_lim {g} {rad} {ml} {md} {rev} | {prog}")
            idx.append(m)
        else:
            keep.append(m)
    if q:
        outs = core.run_driver(q)
        for k, m in enumerate(idx):
            vs = set(outs[4 * k: 4 * k + 4])
            (keep if len(vs) == 1 else dropped).append(m)
    return keep, dropped
