"""C03: every rule application performed by run_prover is a run of real machine steps.

The real run reports each application of its main loop through the guarded on_rule hook
(`ptrace`).  Two things are decided on every run:

* correspondence: the Lean model of prover.rs / rules.rs performs the same applications (cycle,
  state, tape before, tape after, times) and ends in the same result record;
* validation of the REAL applications: each reported (state, before, after) is handed to the Lean
  validator `checkApp` (BB/Model/Validate.lean), which re-runs the plain run-length simulator from
  `before` until it stands on `after` in the same state.  `checkApp = ok` IS a run of the
  cell-by-cell machine with no halt and no spin-out on the way and no block at zero
  (theorems check_app_sound / check_app_no_spinout of BB/Props/C03.lean).  An application whose
  validation meets an undefined instruction, a spin-out or a zero block is a failing input; one the
  budget cannot reach is counted, not judged (the property's own quantifier)."""
import os
from . import core
from .common import diff_streams, parse_kv
from . import c02

LEVEL = "translation_validation"


def enc(t):
    return t.replace(" ", "_")


def check(rep, tier, seed, replay):
    budget = 200_000 if tier == "thorough" else 50_000     # plain simulator cycles per application (the symbolic validator takes over beyond)
    napps = 60 if tier == "thorough" else 25                     # applications taken per run
    cases = c02.corpus(tier, seed)
    rich, ncand = c02.rule_rich(tier, seed, cases)
    cases = cases + rich
    rep.cov["rule_applying_programs_added"] = len(rich)
    rep.cov["candidates_screened_for_rule_applications"] = ncand
    lines = core.corpus_lines("C03") + [f"ptrace {lim} {napps} | {p}" for lim, p in cases]
    impl = core.run_harness(lines)
    # the Lean model of the prover keeps its tables as association lists: at cycle limits above
    # MODEL_LIM it can take minutes on a single program, so those cases are judged on the real code
    # only (replay / validators / L0), not compared with the model
    MODEL_LIM = 3000
    m_idx = [k for k, l in enumerate(lines) if int(l.split(" ")[1]) <= MODEL_LIM]
    m_out = core.run_driver([lines[k] for k in m_idx])
    model = list(impl)
    for k, o in zip(m_idx, m_out):
        model[k] = o
    rep.cov["cases_compared_with_model"] = len(m_idx)
    mism = diff_streams(rep, lines, impl, model)

    v_lines, v_meta = [], []
    kinds = {}
    runs_with_apps = 0
    times_hist = {"1": 0, "2-9": 0, "10-99": 0, "100-9999": 0, ">=10000": 0}
    for line, out in zip(lines, impl):
        parts = out.split(" # ")
        head = parts[0].split(" ")[0]
        kinds[head] = kinds.get(head, 0) + 1
        prog = line.split(" | ", 1)[1]
        if len(parts) > 1:
            runs_with_apps += 1
        for a in parts[1:]:
            f = a.split(";")
            if len(f) != 5:
                rep.violation("hook-format", {"case": line, "impl": a}, found_input=False)
                continue
            cyc, q, before, after, times = f
            t = int(times)
            times_hist["1" if t == 1 else "2-9" if t < 10 else "10-99" if t < 100 else
                       "100-9999" if t < 10000 else ">=10000"] += 1
            if t < 1:
                rep.violation("oracle", {"case": line, "application": a,
                                         "what": "an application reported with times < 1"})
            v_lines.append(f"checkapp {q} {budget} {enc(before)} {enc(after)} | {prog}")
            v_meta.append((line, a))
    seen = {}
    uniq = []
    for l in v_lines:
        if l not in seen:
            seen[l] = len(uniq)
            uniq.append(l)
    res_u = core.run_driver(uniq)
    ok = over = 0
    distinct = set()
    outcome = {}
    for l, (line, a) in zip(v_lines, v_meta):
        o = res_u[seen[l]]
        k = o.split(" ")[0]
        outcome[k] = outcome.get(k, 0) + 1
        if k == "ok":
            r = parse_kv(o)
            if r.get("canon") != "true":
                rep.violation("oracle", {"case": line, "application": a, "validator": o,
                                         "what": "the tape before the application is not canonical"})
                continue
            ok += 1
            distinct.add(l)
        elif k == "overBudget":
            over += 1
        else:
            what = {"undefinedOnWay": "the real machine meets an undefined instruction before reaching the tape after the application",
                    "spinoutOnWay": "the real machine spins out before reaching the tape after the application",
                    "notCanon": "the application drove a block to zero"}.get(k, "validator could not read the reported tapes")
            rep.violation("oracle", {"case": line, "application": a, "validator": o, "what": what},
                          found_input=(k != "BAD-TAPE"))
    # applications the step-by-step validator cannot reach within its budget: validate the RULE
    # symbolically (Sym.validateApp, theorem validate_app_sound: any number of times)
    ob_all = [(l, m) for l, m in zip(v_lines, v_meta) if res_u[seen[l]] == "overBudget"]
    sym_lines = {}
    for l, (line, a) in ob_all:
        f = a.split(";")
        head, prog = l.split(" | ", 1)
        _, q, _, b, af = head.split(" ")
        sym_lines[l] = f"validateapp {q} 5000 {f[4]} {b} {af} | {prog}"
    su = sorted(set(sym_lines.values()))
    so = dict(zip(su, core.run_driver(su)))
    sym_ok = 0
    for l, (line, a) in ob_all:
        o = so[sym_lines[l]]
        if o.startswith("ok"):
            if parse_kv(o).get("canon") == "true":
                sym_ok += 1
                distinct.add(l)
                res_u[seen[l]] = "symok"
    over -= sym_ok
    rep.cov["applications_validated_symbolically"] = sym_ok
    # an application the budget cannot reach: is the machine back at the start configuration first?
    # (then, by determinism, the reported tape is never reached: a definite failing input)
    ob = [(l, m) for l, m in zip(v_lines, v_meta) if res_u[seen[l]] == "overBudget"]
    ob_u = sorted({l for l, _ in ob})[:3000]
    cyc = dict(zip(ob_u, core.run_driver([l.replace("checkapp ", "appcycle ", 1).replace(f" {budget} ", " 20000 ", 1) for l in ob_u])))
    cyc_found = 0
    model_of = dict(zip(lines, model))
    impl_of = dict(zip(lines, impl))
    for l, (line, a) in ob:
        o = cyc.get(l, "open")
        if o.startswith("cycle"):
            cyc_found += 1
            if model_of.get(line) == impl_of.get(line) and int(line.split(" ")[1]) <= MODEL_LIM:
                # the model of the prover AS IT IS makes the same (false) application: finding F10,
                # the heuristic infers rules from four observations without proof
                rep.known("F10", f"{line}  application {a}  ({o}: unreachable)")
                continue
            rep.violation("oracle", {"case": line, "application": a, "validator": o,
                                     "what": "the real machine returns to the configuration before the application without ever "
                                             "passing through the tape after it: the reported application is unreachable"})
    rep.cov["applications_beyond_budget_shown_unreachable"] = cyc_found
    for m in mism[:100]:
        rep.violation("correspondence", m, found_input=False)
    rep.add_counts(len(lines) + len(v_lines), len(distinct))
    rep.cov["programs"] = len({c[1] for c in cases})
    rep.cov["runs_with_applications"] = runs_with_apps
    rep.cov["applications_reported"] = len(v_lines)
    rep.cov["applications_validated_ok"] = ok
    rep.cov["applications_beyond_budget"] = over
    rep.cov["applications_beyond_both_validators"] = over
    rep.cov["validator_outcomes"] = outcome
    rep.cov["times_distribution"] = times_hist
    rep.cov["outcome_kinds"] = kinds
    rep.cov["correspondence_mismatches"] = len(mism)
    rep.cov["rule"] = ("the programs and cycle limits of C02 (tree leaves 2x2..2x4 strided, seeded random normal-form completions, named machines); "
                       f"run_prover of the real code with the guarded on_rule hook, first {napps} applications of each run; each compared with the Lean model's "
                       f"application at the same place and re-validated by the verified checkApp (budget {budget} plain cycles). "
                       "Distinct non-trivial = distinct (program, state, before, after) validated ok.")
    rep.cov["samples"] = [lines[0], lines[len(lines) // 2]] + v_lines[:2]
    rep.assumptions.append(f"validator budget {budget} plain simulator cycles per application; applications beyond it are counted, not judged")
    rep.assumptions.append("only applications of run_prover's main loop are reported by the hook (those inside the prover's own replay are not)")
    rep.assumptions.append("no universal theorem about the rule prover exists (it generalises from four observations): the theorems make the per-application validator trustworthy")
    if os.path.exists(os.path.join(core.LEAN, "BB", "Props", "C03.lean")):
        from . import proofs
        proofs.attach(rep, "C03")
