"""C02: the rule-accelerated run reports the true outcome of the machine.
   (C03, every rule application, is vlib/c03.py; they share the corpus below.)"""
import os
import random
from . import core
from .common import diff_streams, parse_kv

LEVEL = "translation_validation"


def corpus(tier, seed):
    """(limit, program) pairs: tree leaves 2x2..2x4, random normal-form completions, named machines"""
    rng = random.Random(seed * 7907 + 2)
    specs = [("2 2 0 20", 1), ("3 2 0 20", 4), ("2 3 0 20", 4), ("4 2 1 25", 300), ("2 4 1 25", 200)]
    if tier == "thorough":
        specs = [("2 2 0 20", 1), ("3 2 0 20", 1), ("2 3 0 20", 1), ("4 2 1 25", 20), ("2 4 1 25", 15), ("4 2 0 10", 150)]
    outs = core.run_harness([f"treelist {a}" for a, _ in specs])
    progs = []
    for (a, stride), o in zip(specs, outs):
        if o in ("PANIC", "BAD-OP", "limit:overflow"):
            raise RuntimeError("treelist " + o)
        leaves = [p for p in o.split(";") if p]
        progs += leaves[seed % stride::stride]
    n = 6000 if tier == "thorough" else 600
    for _ in range(n):
        s, c = rng.choice([(5, 2), (3, 3), (2, 5), (6, 2), (4, 2), (2, 4)])
        progs.append(core.rand_prog(rng, s, c, p_undef=rng.choice([0.0, 0.1, 0.2]), normal=True))
    named = core.named_progs()
    ladder = [1, 5, 20, 100, 500, 2000, 10000] if tier == "thorough" else [20, 200, 2000]
    cases = []
    for p in progs:
        for lim in (ladder if tier == "thorough" else [rng.choice(ladder), 2000]):
            cases.append((lim, p))
    for p in named:
        for lim in ([100, 2000, 10000] if tier == "thorough" else [2000]):
            cases.append((lim, p))
    seen, out = set(), []
    for c in cases:
        if c not in seen:
            seen.add(c)
            out.append(c)
    return out


def check(rep, tier, seed, replay):
    budget = 20_000_000 if tier == "thorough" else 1_000_000
    cases = corpus(tier, seed)
    lines = core.corpus_lines("C02") + [f"runprover {lim} | {p}" for lim, p in cases]
    impl = core.run_harness(lines)
    model = core.run_driver(lines)
    mism = diff_streams(rep, lines, impl, model)
    kinds = {}
    or_lines, or_meta = [], []
    for line, out in zip(lines, impl):
        r = parse_kv(out)
        k = r["result"] + (":rules" if r.get("rulapp", "0") != "0" else "")
        kinds[k] = kinds.get(k, 0) + 1
        if r["result"] in ("PANIC", "limit:overflow", "BAD-OP"):
            continue
        prog = line.split(" | ", 1)[1]
        norule = r["rulapp"] == "0"
        if r["result"] in ("undfnd", "spnout", "infrul") or norule:
            steps = int(r["steps"])
            b = steps if (norule and r["result"] != "infrul" and steps <= budget) else budget
            if norule and r["result"] == "infrul":
                b = min(budget, 3 * steps + 1000)
            or_lines.append(f"l0run {b} | {prog}")
            or_meta.append((line, out, r, norule))
    orc = core.run_driver(or_lines)
    judged = unjudged = 0
    distinct = set()
    conf_inf = 0
    for (line, out, r, norule), o in zip(or_meta, orc):
        f = parse_kv("x " + o)
        res = r["result"]
        bad = []
        if res == "undfnd":
            if f["halt"] == "none":
                if f["spin"] != "none":
                    bad.append("the real machine spins out, it does not halt")
                else:
                    unjudged += 1
                    continue
            else:
                if not f["halt"].endswith(":" + r["last"]):
                    bad.append("halting slot")
                if f["marks"] != r["marks"]:
                    bad.append("marks at the halt")
                if norule and f["halt"].split(":")[0] != r["steps"]:
                    bad.append("steps (no rule applied)")
        elif res == "spnout":
            if f["spin"] == "none":
                if f["halt"] != "none":
                    bad.append("the real machine halts, it does not spin out")
                else:
                    unjudged += 1
                    continue
            else:
                if f["marks"] != r["marks"]:
                    bad.append("marks at the spin-out")
                if norule and f["spin"] != r["steps"]:
                    bad.append("steps (no rule applied)")
        elif res == "infrul":
            if f["halt"] != "none" or f["spin"] != "none":
                bad.append("claimed never to stop, but the real machine terminates")
            else:
                conf_inf += 1
        else:
            # limit outcomes with no rule applied: steps and blanks are the real ones
            if f["halt"] != "none" and int(f["halt"].split(":")[0]) < int(r["steps"]):
                bad.append("L0 halts before the reported step count")
        if norule and res != "infrul" and not bad:
            if f["blanks"] != r["blanks"]:
                bad.append("blank-tape steps (no rule applied)")
        if bad:
            rep.violation("oracle", {"case": line, "impl": out, "l0": o, "fields": bad})
        else:
            judged += 1
            distinct.add(line.split(" | ", 1)[1] + "|" + res)
    # known finding F9 is about the release build of the Python extension, not reachable here
    for m in mism[:100]:
        rep.violation("correspondence", m, found_input=False)
    rep.add_counts(len(lines), len(distinct))
    rep.cov["programs"] = len({c[1] for c in cases})
    rep.cov["disagreements_checked"] = len(mism)
    rep.cov["rule"] = ("normal-form programs: tree leaves 2x2, 3x2, 2x3, 4x2, 2x4 (strided), seeded random completions 5x2/3x3/2x5/6x2/4x2/2x4, the named machines of "
                       "test/prog_data.py; cycle-limit ladder. run_prover of the real code (overflow-checked build) vs the Lean model of prover.rs (full result record); "
                       f"every undfnd / spnout / infrul verdict and every rule-free run judged by an L0 run (budget {budget} base steps): slot, marks, and - when no rule was "
                       "applied - steps and blank-tape steps. Distinct non-trivial = distinct (program, verdict) judged true.")
    rep.cov["samples"] = [lines[0], lines[len(lines) // 2], lines[-1]]
    rep.cov["outcome_kinds"] = kinds
    rep.cov["verdicts_judged_by_L0"] = judged
    rep.cov["verdicts_beyond_oracle_budget"] = unjudged
    rep.cov["infrul_not_falsified_in_budget"] = conf_inf
    rep.cov["correspondence_mismatches"] = len(mism)
    rep.assumptions.append(f"L0 oracle budget {budget} base steps; terminations later than that are counted, not judged (the property's own quantifier)")
    rep.assumptions.append("an 'infrul' verdict from an all-non-negative rule has no certificate in the code's output: it is only falsifiable")
    if os.path.exists(os.path.join(core.LEAN, "BB", "Props", "C02.lean")):
        from . import proofs
        proofs.attach(rep, "C02")
