"""C02: the rule-accelerated run reports the true outcome of the machine.
   (C03, every rule application, is vlib/c03.py; they share the corpus below.)"""
import os
import random
from . import core
from .common import diff_streams, parse_kv

LEVEL = "translation_validation"


def corpus(tier, seed):
    """(limit, program) pairs: tree leaves 2x2..2x4, random normal-form completions, named machines"""
    rng = random.Random(seed * 7907 + 2)
    specs = [("2 2 0 20", 1), ("3 2 0 20", 4), ("2 3 0 20", 4), ("4 2 1 25", 300), ("2 4 1 25", 200)]
    if tier == "thorough":
        specs = [("2 2 0 20", 1), ("3 2 0 20", 1), ("2 3 0 20", 1), ("4 2 1 25", 40), ("2 4 1 25", 30), ("4 2 0 10", 300)]
    outs = core.run_harness([f"treelist {a}" for a, _ in specs])
    progs = []
    for (a, stride), o in zip(specs, outs):
        if o in ("PANIC", "BAD-OP", "limit:overflow"):
            raise RuntimeError("treelist " + o)
        leaves = [p for p in o.split(";") if p]
        progs += leaves[seed % stride::stride]
    n = 6000 if tier == "thorough" else 600
    for _ in range(n):
        s, c = rng.choice([(5, 2), (3, 3), (2, 5), (6, 2), (4, 2), (2, 4)])
        progs.append(core.rand_prog(rng, s, c, p_undef=rng.choice([0.0, 0.1, 0.2]), normal=True))
    named = core.named_progs()
    ladder = [1, 5, 20, 100, 500, 2000] if tier == "thorough" else [20, 200, 2000]
    cases = []
    for k, p in enumerate(progs):
        for lim in (rng.sample(ladder, 3) + ([10000] if k % 40 == 0 else []) if tier == "thorough" else [rng.choice(ladder), 2000]):
            cases.append((lim, p))
    for p in named:
        for lim in ([100, 2000, 10000] if tier == "thorough" else [2000]):
            cases.append((lim, p))
    seen, out = set(), []
    for c in cases:
        if c not in seen:
            seen.add(c)
            out.append(c)
    return out


def enc(t):
    return t.replace(" ", "_")


def rule_rich(tier, seed, have):
    """extra (limit, program) pairs on which the real run_prover APPLIES rules: tree leaves (whole
    4x2 / 2x4 / 3x3 trees at small limits) and seeded random normal-form programs are run once and
    those with rulapp > 0 are kept (generator-side filter only: what is kept is then judged like
    every other case)."""
    rng = random.Random(seed * 104729 + 23)
    cand = []
    specs = ["4 2 1 25", "2 4 1 25", "4 2 0 12", "2 4 0 12"]
    outs = core.run_harness([f"treelist {a}" for a in specs])
    for o in outs:
        if o in ("PANIC", "BAD-OP", "limit:overflow"):
            continue
        leaves = [p for p in o.split(";") if p]
        rng.shuffle(leaves)
        cand += [(rng.choice([300, 1000, 3000]), p) for p in leaves[:30000 if tier == "thorough" else 5000]]
    for _ in range(20000 if tier == "thorough" else 2000):
        s, c = rng.choice([(5, 2), (3, 3), (2, 5), (6, 2), (3, 4), (4, 3)])
        cand.append((rng.choice([300, 1000, 3000]), core.rand_prog(rng, s, c, p_undef=rng.choice([0.0, 0.1]), normal=True)))
    # screening at a short limit (long runs of rule-free programs are slow and teach nothing here)
    outs = core.run_harness([f"runprover 250 | {p}" for lim, p in cand])
    keep = []
    seen = set(have)
    cap = 6000 if tier == "thorough" else 1200
    for c, o in zip(cand, outs):
        if o in ("PANIC", "limit:overflow", "BAD-OP") or c in seen:
            continue
        if parse_kv(o).get("rulapp", "0") != "0":
            keep.append(c)
            seen.add(c)
            if len(keep) >= cap:
                break
    return keep, len(cand)


CERT = {"inf": set()}


def replay_pass(rep, tier, cases, first):
    """whole-run validation by the Lean-verified `replay` (BB/Model/ValidateTrace.lean): the real
    run's reported rule applications are re-validated one by one and the run is re-played with the
    plain simulator in between; whatever the replay ends in is TRUE of the L0 machine
    (BB/Props/C02.lean), with the true step count - no step budget, only a per-application one."""
    budget = 60_000 if tier == "thorough" else 20_000
    napps = 400 if tier == "thorough" else 150
    # applications are needed only for runs that applied a rule (known from the first pass)
    sel = list(cases)
    if len(sel) > 40000:
        # thorough corpus: replay every run that applied a rule and a fixed tenth of the others
        keep = [k for k, o in enumerate(first) if parse_kv(o).get("rulapp", "0") != "0" or k % 10 == 0]
        sel = [sel[k] for k in keep]
        first = [first[k] for k in keep]
    need = [k for k, (c, o) in enumerate(zip(sel, first)) if parse_kv(o).get("rulapp", "0") != "0"]
    traced = core.run_harness([f"ptrace {sel[k][0]} {napps} | {sel[k][1]}" for k in need])
    impl = list(first)
    for k, o in zip(need, traced):
        impl[k] = o
    r_lines, r_meta = [], []
    truncated = 0
    for (lim, prog), out in zip(sel, impl):
        parts = out.split(" # ")
        if parts[0] in ("PANIC", "limit:overflow", "BAD-OP"):
            continue
        r = parse_kv(parts[0])
        apps = parts[1:]
        if len(apps) >= napps:
            truncated += 1
            continue
        kind = r["result"]
        blankrec = kind == "infrul" and r["cycles"] == "0"
        rl = lim if (kind == "xlimit" or blankrec) else int(r["cycles"]) + (1 if kind in ("undfnd", "spnout") else 0)
        if rl > 20000:
            truncated += 1
            continue
        enc_apps = "#".join(";".join(enc(x) for x in a.split(";")[:5]) for a in apps) or "-"
        r_lines.append(f"replay {budget} {rl} {enc_apps} | {prog}")
        r_meta.append((lim, prog, r, blankrec, len(apps)))
    outs = core.run_driver(r_lines)
    agree = over = 0
    with_apps = 0
    ends = {}
    for (lim, prog, r, blankrec, na), line, o in zip(r_meta, r_lines, outs):
        f = parse_kv(o)
        k = f["result"]
        ends[k] = ends.get(k, 0) + 1
        kind = r["result"]
        norule = r["rulapp"] == "0"
        bad = []
        if k == "badapp" and f.get("why") == "overBudget":
            over += 1
            continue
        if k in ("badapp", "appmismatch", "BAD-TAPE"):
            bad.append(f"the replay refuses a reported rule application: {o}")
        elif kind == "undfnd":
            if k != "undfnd":
                bad.append(f"reported a halt, the real machine does: {o[:120]}")
            else:
                if f["slot"] != r["last"]:
                    bad.append("halting slot")
                if f["marks"] != r["marks"]:
                    bad.append("marks at the halt")
                if f["cycle"] != r["cycles"]:
                    bad.append("cycle count")
                if norule and f["steps"] != r["steps"]:
                    bad.append("steps (no rule applied)")
        elif kind == "spnout":
            if k != "spnout":
                bad.append(f"reported a spin-out, the real machine does: {o[:120]}")
            else:
                if f["marks"] != r["marks"]:
                    bad.append("marks at the spin-out")
                if f["cycle"] != r["cycles"]:
                    bad.append("cycle count")
                if norule and f["steps"] != r["steps"]:
                    bad.append("steps (no rule applied)")
        elif blankrec:
            if k != "blankrec":
                bad.append(f"reported a repeated blank tape, the real machine does: {o[:120]}")
        else:
            # xlimit / cfglim / mulrul / infrul by rule: the configuration it was given in is reached
            if k != "limit":
                bad.append(f"the run is reported to continue, the real machine does: {o[:120]}")
            else:
                if f["marks"] != r["marks"]:
                    bad.append("marks")
                if norule and f["steps"] != r["steps"]:
                    bad.append("steps (no rule applied)")
        if not bad and k in ("undfnd", "spnout", "blankrec", "limit"):
            rb = sorted(x for x in r["blanks"].split(",") if x)
            fb = sorted(x for x in f["blanks"].split(",") if x)
            if norule:
                if rb != fb:
                    bad.append("blank-tape steps (no rule applied)")
            elif [x.split(":")[0] for x in rb] != [x.split(":")[0] for x in fb]:
                bad.append("states of the blank-tape record")
        if bad:
            rep.violation("replay", {"case": f"runprover {lim} | {prog}", "impl": " ".join(f"{a}={b}" for a, b in r.items()),
                                     "replay": o[:300], "fields": bad, "replay_line": line[:1500]})
        else:
            agree += 1
            if na:
                with_apps += 1
    # 'infrul' given by a rule: the replay stands in the configuration the verdict was given in;
    # Sym.validateInf (theorem replaySym_limit_inf) certifies from there that the machine never
    # halts and never spins out - a proof-backed certificate the code's own output does not contain
    inf_lines, inf_idx = [], []
    for k, ((lim, prog, r, blankrec, na), o) in enumerate(zip(r_meta, outs)):
        if r["result"] == "infrul" and not blankrec and o.startswith("limit "):
            f = parse_kv(o)
            inf_lines.append(f"validateinf {f['state']} 3000 {f['tape']} | {prog}")
            inf_idx.append(k)
    inf_out = core.run_driver(inf_lines)
    rep.cov["infrul_by_rule_replayed"] = len(inf_lines)
    rep.cov["infrul_by_rule_certified_by_symbolic_rule"] = sum(1 for o in inf_out if o == "true")
    CERT["inf"] = {r_meta[k][1] for k, o in zip(inf_idx, inf_out) if o == "true"}
    rep.cov["replay_runs"] = len(r_lines)
    rep.cov["replay_agree"] = agree
    rep.cov["replay_agree_runs_with_applications"] = with_apps
    rep.cov["replay_beyond_application_budget"] = over
    rep.cov["replay_skipped_too_many_applications_or_cycles"] = truncated
    rep.cov["replay_ends"] = ends
    rep.assumptions.append(f"replay: per-application validation budget {budget} plain cycles; runs with >= {napps} applications or > 20000 cycles are not replayed (counted)")


def confirm_infrul(rep, tier, lines, impl):
    """An `infrul` verdict given by a rule has no certificate in the code's output.  Where one of the
    Lean-VERIFIED deciders (repaired backward reasoner C04, closed-position-set analysis C06 with
    repaired table size, quick recurrence C07 - all run as the Lean model, all proved sound) shows
    that the program never halts AND never spins out, the verdict is confirmed by proof; the rest
    stays falsifiable only.  Counts go to the evidence; nothing here can raise an alarm."""
    progs = []
    for line, out in zip(lines, impl):
        r = parse_kv(out)
        if r["result"] == "infrul" and r.get("cycles", "0") != "0":
            pr = line.split(" | ", 1)[1]
            if pr not in progs:
                progs.append(pr)
    progs = progs[:4000 if tier == "thorough" else 1200]
    q = []
    for pr in progs:
        q += [f"rec 3000 | {pr}", f"cant_halt_fix 1 1 30 | {pr}", f"cant_spin_out_fix 1 1 30 | {pr}",
              f"cps_halt_fix 5 | {pr}", f"cps_spin_out 5 | {pr}"]
    outs = core.run_driver(q)
    by = {"recurrence (C07)": 0, "backward reasoner, repaired (C04)": 0, "closed position set (C06)": 0}
    conf = 0
    confirmed_progs = []
    for i, pr in enumerate(progs):
        rec, ch, cs, ph, ps = outs[5 * i:5 * i + 5]
        ok = False
        if rec == "recur":
            by["recurrence (C07)"] += 1
            ok = True
        nh = ch.startswith("refuted") or ph == "true"
        ns = cs.startswith("refuted") or ps == "true"
        if nh and ns:
            if ch.startswith("refuted") and cs.startswith("refuted"):
                by["backward reasoner, repaired (C04)"] += 1
            if ph == "true" and ps == "true":
                by["closed position set (C06)"] += 1
            ok = True
        conf += ok
        if ok:
            confirmed_progs.append(pr)
    rep.cov["infrul_by_rule_programs"] = len(progs)
    rep.cov["infrul_by_rule_confirmed_by_decider_or_symbolic_rule"] = len({p_ for i, p_ in enumerate(progs) if p_ in CERT["inf"]} | set(confirmed_progs))
    rep.cov["infrul_by_rule_confirmed_by_a_verified_decider"] = conf
    rep.cov["infrul_by_rule_confirmed_by"] = by


def check(rep, tier, seed, replay):
    budget = 20_000_000 if tier == "thorough" else 1_000_000
    cases = corpus(tier, seed)
    rich, ncand = rule_rich(tier, seed, cases)
    cases = cases + rich
    rep.cov["rule_applying_programs_added"] = len(rich)
    rep.cov["candidates_screened_for_rule_applications"] = ncand
    lines = core.corpus_lines("C02") + [f"runprover {lim} | {p}" for lim, p in cases]
    impl = core.run_harness(lines)
    # the Lean model of the prover keeps its tables as association lists: at cycle limits above
    # MODEL_LIM it can take minutes on a single program, so those cases are judged on the real code
    # only (replay / validators / L0), not compared with the model
    MODEL_LIM = 3000
    m_idx = [k for k, l in enumerate(lines) if int(l.split(" ")[1]) <= MODEL_LIM]
    m_out = core.run_driver([lines[k] for k in m_idx])
    model = list(impl)
    for k, o in zip(m_idx, m_out):
        model[k] = o
    rep.cov["cases_compared_with_model"] = len(m_idx)
    mism = diff_streams(rep, lines, impl, model)
    kinds = {}
    or_lines, or_meta = [], []
    for line, out in zip(lines, impl):
        r = parse_kv(out)
        k = r["result"] + (":rules" if r.get("rulapp", "0") != "0" else "")
        kinds[k] = kinds.get(k, 0) + 1
        if r["result"] in ("PANIC", "limit:overflow", "BAD-OP"):
            continue
        prog = line.split(" | ", 1)[1]
        norule = r["rulapp"] == "0"
        if r["result"] in ("undfnd", "spnout", "infrul") or norule:
            steps = int(r["steps"])
            b = steps if (norule and r["result"] != "infrul" and steps <= budget) else budget
            if norule and r["result"] == "infrul":
                b = min(budget, 3 * steps + 1000)
            elif r["result"] == "infrul":
                # a never-halting machine always costs the whole budget: a tenth of it suffices to
                # falsify (the proof-backed certificates come from the replay / validateInf pass)
                b = budget // 10
            or_lines.append(f"l0run {b} | {prog}")
            or_meta.append((line, out, r, norule))
    orc = core.run_driver(or_lines)
    judged = unjudged = 0
    distinct = set()
    conf_inf = 0
    for (line, out, r, norule), o in zip(or_meta, orc):
        f = parse_kv("x " + o)
        res = r["result"]
        bad = []
        if res == "undfnd":
            if f["halt"] == "none":
                if f["spin"] != "none":
                    bad.append("the real machine spins out, it does not halt")
                else:
                    unjudged += 1
                    continue
            else:
                if not f["halt"].endswith(":" + r["last"]):
                    bad.append("halting slot")
                if f["marks"] != r["marks"]:
                    bad.append("marks at the halt")
                if norule and f["halt"].split(":")[0] != r["steps"]:
                    bad.append("steps (no rule applied)")
        elif res == "spnout":
            if f["spin"] == "none":
                if f["halt"] != "none":
                    bad.append("the real machine halts, it does not spin out")
                else:
                    unjudged += 1
                    continue
            else:
                if f["marks"] != r["marks"]:
                    bad.append("marks at the spin-out")
                if norule and f["spin"] != r["steps"]:
                    bad.append("steps (no rule applied)")
        elif res == "infrul":
            if f["halt"] != "none" or f["spin"] != "none":
                bad.append("claimed never to stop, but the real machine terminates")
            else:
                conf_inf += 1
        else:
            # limit outcomes with no rule applied: steps and blanks are the real ones
            if f["halt"] != "none" and int(f["halt"].split(":")[0]) < int(r["steps"]):
                bad.append("L0 halts before the reported step count")
        if norule and res != "infrul" and not bad:
            if f["blanks"] != r["blanks"]:
                bad.append("blank-tape steps (no rule applied)")
        if bad:
            rep.violation("oracle", {"case": line, "impl": out, "l0": o, "fields": bad})
        else:
            judged += 1
            distinct.add(line.split(" | ", 1)[1] + "|" + res)
    core.log(f"[C02] correspondence + L0 oracle done, {len(lines)} cases")
    replay_pass(rep, tier, cases, impl[len(lines) - len(cases):])
    core.log("[C02] replay pass done")
    confirm_infrul(rep, tier, lines, impl)
    core.log("[C02] infrul confirmation done")
    # known finding F9 is about the release build of the Python extension, not reachable here
    for m in mism[:100]:
        rep.violation("correspondence", m, found_input=False)
    rep.add_counts(len(lines), len(distinct))
    rep.cov["programs"] = len({c[1] for c in cases})
    rep.cov["disagreements_checked"] = len(mism)
    rep.cov["rule"] = ("normal-form programs: tree leaves 2x2, 3x2, 2x3, 4x2, 2x4 (strided), seeded random completions 5x2/3x3/2x5/6x2/4x2/2x4, the named machines of "
                       "test/prog_data.py; cycle-limit ladder. run_prover of the real code (overflow-checked build) vs the Lean model of prover.rs (full result record); "
                       f"every undfnd / spnout / infrul verdict and every rule-free run judged by an L0 run (budget {budget} base steps): slot, marks, and - when no rule was "
                       "applied - steps and blank-tape steps. Distinct non-trivial = distinct (program, verdict) judged true.")
    rep.cov["samples"] = [lines[0], lines[len(lines) // 2], lines[-1]]
    rep.cov["outcome_kinds"] = kinds
    rep.cov["verdicts_judged_by_L0"] = judged
    rep.cov["verdicts_beyond_oracle_budget"] = unjudged
    rep.cov["infrul_not_falsified_in_budget"] = conf_inf
    rep.cov["correspondence_mismatches"] = len(mism)
    rep.assumptions.append(f"L0 oracle budget {budget} base steps; terminations later than that are counted, not judged (the property's own quantifier)")
    rep.assumptions.append("an 'infrul' verdict from an all-non-negative rule has no certificate in the code's output: it is only falsifiable")
    if os.path.exists(os.path.join(core.LEAN, "BB", "Props", "C02.lean")):
        from . import proofs
        proofs.attach(rep, "C02")
