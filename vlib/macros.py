"""Shared code for the macro properties C08, C09, C16: decoding macro configurations into base
configurations, case generation, F3 attribution."""
import random
from . import core
from .common import unroll_display


def decode_colour(c, base, k):
    cells = []
    for _ in range(k):
        cells.append(c % base)
        c //= base
    if c:
        return None          # not a code of k cells over this base
    cells.reverse()
    return cells


def decode_level(cfg, kind, k, base_states, base_colors):
    """cfg = (macro state, left nearest-first, scan, right nearest-first) -> config one level down"""
    ms, left, scan, right = cfg
    if kind == "block":
        st, edge = ms // 2, ms % 2
        blk = decode_colour(scan, base_colors, k)
        if blk is None:
            return None
        pos = k - 1 if edge == 1 else 0
        nl = list(reversed(blk[:pos]))
        nr = blk[pos + 1:]
        for c in left:
            d = decode_colour(c, base_colors, k)
            if d is None:
                return None
            nl += list(reversed(d))
        for c in right:
            d = decode_colour(c, base_colors, k)
            if d is None:
                return None
            nr += d
        return (st, nl, blk[pos], nr)
    else:
        B = base_colors ** k
        at_right, st_co = ms % 2, ms // 2
        st, code = st_co // B, st_co % B
        back = decode_colour(code, base_colors, k)
        if back is None:
            return None
        # the macro tape is stored mirrored
        if at_right == 0:
            return (st, list(reversed(back)) + right, scan, list(left))
        return (st, list(right), scan, back + list(left))


def level_params(states, colors, spec):
    """params seen by each level under proper nesting: list of (kind, k, base_states, base_colors)"""
    res = []
    s, c = states, colors
    for kind, k in spec:
        res.append((kind, k, s, c))
        if kind == "block":
            s, c = 2 * s, c ** k
        else:
            s, c = 2 * s * (c ** k), c
    return res


def parse_spec(spec):
    out = []
    for lv in spec.replace("+", ",").split(","):
        kind, k = lv.split(":")
        out.append(("block" if kind == "block" else "back", int(k)))
    return out


def decode_chain(cfg, states, colors, spec):
    for kind, k, bs, bc in reversed(level_params(states, colors, parse_spec(spec))):
        cfg = decode_level(cfg, kind, k, bs, bc)
        if cfg is None:
            return None
    return cfg


def trim(l):
    l = list(l)
    while l and l[-1] == 0:
        l.pop()
    return l


def show_cfg(cfg):
    st, l, sc, r = cfg
    return f"{st}:{','.join(map(str, trim(l)))}|{sc}|{','.join(map(str, trim(r)))}"


def parse_mrun(out):
    """'state;tape;steps/... => stop' -> (list of (state, left, scan, right), stop)"""
    if " => " not in out:
        return None, out
    body, stop = out.rsplit(" => ", 1)
    cfgs = []
    for ent in body.split("/"):
        st, tape, _steps = ent.split(";")
        l, sc, r = unroll_display(tape)
        cfgs.append((int(st), l, sc, r))
    return cfgs, stop


def dims(prog):
    rows = prog.split("  ")
    return len(rows), len(rows[0].split(" "))


def base_programs(tier, seed, n_rand_quick=300, n_rand_thorough=4000):
    rng = random.Random(seed * 65537 + 8)
    progs = list(core.all_progs(2, 2, first_defined=True))
    if tier != "thorough":
        progs = rng.sample(progs, 1200)
    n = n_rand_thorough if tier == "thorough" else n_rand_quick
    for _ in range(n):
        s, c = rng.choice([(3, 2), (2, 3), (4, 2), (2, 4), (3, 3)])
        progs.append(core.rand_prog(rng, s, c, p_undef=rng.choice([0.0, 0.1])))
    progs += [p for p in core.NAMED if dims(p)[0] * dims(p)[1] <= 9]
    return progs, rng


def window_fate(prog_table, state, window, pos, states, colors):
    """run the base machine inside a window: 'halt', 'loop' or ('exit', side)"""
    seen = set()
    w = list(window)
    while True:
        key = (state, pos, tuple(w))
        if key in seen:
            return "loop"
        seen.add(key)
        ins = prog_table.get((state, w[pos]))
        if ins is None:
            return "halt"
        pr, sh, nxt = ins
        w[pos] = pr
        pos += 1 if sh else -1
        state = nxt
        if pos < 0:
            return ("exit", 0)
        if pos >= len(w):
            return ("exit", 1)


def table_of(prog):
    tab = {}
    for s, row in enumerate(prog.split("  ")):
        for c, cell in enumerate(row.split(" ")):
            if "." not in cell:
                tab[(s, c)] = (int(cell[0]), cell[1] == "R", ord(cell[2]) - 65)
    return tab
