"""C08 / C09: a macro machine simulates the base machine exactly."""
from . import core
from . import macros as M
from .common import diff_streams, parse_kv

CAP = {"quick": 300_000, "thorough": 5_000_000}


def step_bound(st, co, spec):
    """upper bound on base steps per macro step (product over nesting levels of sim_lim x window)"""
    b = 1
    for kind, k, bs, bc in M.level_params(st, co, M.parse_spec(spec)):
        if kind == "block":
            b *= max(1, bs * k * bc ** k) * max(1, k)
        else:
            b *= max(1, 2 * bs * bc ** k * bc) * (k + 1)
    return b


def specs_for(pid, tier, colors):
    if pid == "C08":
        ks = [1, 2, 3, 4, 5, 6] if tier == "thorough" else [1, 2, 3, 4]
        specs = [f"block:{k}" for k in ks if colors ** k <= 4096]
        specs += ["block:2+block:2"] if colors ** 4 <= 4096 else []
        specs += ["block:4+block:2", "block:3+block:2"] if colors ** 4 <= 256 else []
        return specs
    ks = [1, 2, 3]
    specs = [f"back:{k}" for k in ks]
    specs += [f"block:2+back:{k}" for k in ks[:2] if colors ** 2 <= 64]
    return specs


def judge_runs(lines, outs, only=None, tier="quick"):
    """decode each mrun output and match it against the L0 trajectory.
    returns dict line -> (verdict, detail); verdict in ok / bad / unjudged"""
    or_lines, meta, res = [], [], {}
    for line, out in zip(lines, outs):
        if only is not None and line not in only:
            continue
        head, prog = line.split(" | ", 1)
        _, st, co, spec, n = head.split(" ")
        st, co = int(st), int(co)
        if out in ("PANIC", "limit:overflow", "BAD-ARGS"):
            res[line] = ("bad", {"why": "panic during macro run", "impl": out})
            continue
        cfgs, stop = M.parse_mrun(out)
        dec = [M.decode_chain(c, st, co, spec) for c in cfgs]
        if any(d is None for d in dec):
            k = [d is None for d in dec].index(True)
            res[line] = ("bad", {"why": "macro colour/state does not decode", "cycle": k, "impl_cfg": str(cfgs[k])})
            continue
        macro_steps = int(out.rsplit(" => ", 1)[0].rsplit("/", 1)[-1].split(";")[2])
        bound = (macro_steps + 1) * step_bound(st, co, spec) + 10
        budget = min(bound, CAP[tier])
        or_lines.append(f"l0match {budget} {'/'.join(M.show_cfg(d) for d in dec)} | {prog}")
        meta.append((line, dec, stop, st, co, spec, prog, cfgs, budget < bound))
    outs2 = core.run_driver(or_lines)
    for (line, dec, stop, st, co, spec, prog, cfgs, capped), o in zip(meta, outs2):
        f = parse_kv("x " + o)
        m, tot = map(int, f["matched"].split("/"))
        if m < tot:
            if f["end"] == "budget" and capped:
                res[line] = ("unjudged", {})
            else:
                res[line] = ("bad", {"why": "decoded macro configuration is not on the base trajectory (in order)",
                                     "cycle": m, "decoded": M.show_cfg(dec[m]), "l0": o[:200]})
            continue
        # the stop reason: undefined macro instruction <=> base machine halts in / never leaves the window
        if stop.startswith("undfnd"):
            ms, mc = map(int, stop[len("undfnd("):-1].split(","))
            levels = M.level_params(st, co, M.parse_spec(spec))
            if len(levels) == 1:
                kind, k, bs, bc = levels[0]
                tab = M.table_of(prog)
                if kind == "block":
                    win = M.decode_colour(mc, bc, k)
                    pos = k - 1 if ms % 2 else 0
                    state = ms // 2
                else:
                    B = bc ** k
                    back = M.decode_colour((ms // 2) % B, bc, k)
                    state = (ms // 2) // B
                    if ms % 2 == 1:
                        win, pos = [mc] + back, 0
                    else:
                        win, pos = back + [mc], k
                fate = M.window_fate(tab, state, win, pos, bs, bc)
                if isinstance(fate, tuple):
                    res[line] = ("bad", {"why": "no macro instruction although the base machine leaves the window",
                                         "slot": [ms, mc], "window": win, "fate": str(fate)})
                    continue
        res[line] = ("ok", {"cycles": tot})
    return res


def check_sim(rep, pid, tier, seed):
    progs, rng = M.base_programs(tier, seed, n_rand_quick=5000, n_rand_thorough=12000)
    n_cycles = 200 if tier == "thorough" else 80
    lines = core.corpus_lines(pid)
    for p in progs:
        st, co = M.dims(p)
        specs = specs_for(pid, tier, co)
        for spec in (specs if tier == "thorough" else rng.sample(specs, min(2, len(specs)))):
            lines.append(f"mrun {st} {co} {spec} {n_cycles} | {p}")
    # long runs over many distinct block contents (the property: "every macro configuration reached
    # in up to 10^4 macro steps"): 3- and 4-colour programs, 5- and 6-cell blocks
    if pid == "C08":
        for _ in range(1200 if tier == "thorough" else 240):
            st, co = rng.choice([(2, 3), (2, 4), (3, 3)])
            p = core.rand_prog(rng, st, co, p_undef=rng.choice([0.0, 0.0, 0.1]))
            k = rng.choice([5, 6] if co == 4 else [6])
            lines.append(f"mrun {st} {co} block:{k} {10000 if tier == 'thorough' else 2500} | {p}")
    # a few long runs of named machines
    for p in core.NAMED[:8]:
        st, co = M.dims(p)
        if st * co <= 9:
            for spec in specs_for(pid, "quick", co)[:2]:
                lines.append(f"mrun {st} {co} {spec} {2000 if tier == 'thorough' else 400} | {p}")
    impl = core.run_harness(lines)
    model = core.run_driver(lines)
    mism = diff_streams(rep, lines, impl, model)
    # decoding 10^3..10^4 configurations per run is the expensive part: every short run is judged,
    # of the long ones every eighth - and every run on which the real code and the model disagree
    long_ = [l for l in lines if int(l.split(" | ")[0].split(" ")[4]) >= 1000]
    only = (set(lines) - set(long_)) | set(long_[::8]) | {m["case"] for m in mism}
    res = judge_runs(lines, impl, only=only, tier=tier)
    bad = [l for l, (v, _) in res.items() if v == "bad"]
    # attribution to F3 (backsymbol split index): same case under the repaired model
    known = 0
    if bad:
        impl_of = dict(zip(lines, impl))
        model_of = dict(zip(lines, model))
        fix_lines = [l.replace("mrun ", "mrun_fix ", 1) for l in bad]
        fix_out = core.run_driver(fix_lines)
        # judge the repaired model's run with the same oracle
        fix_as_mrun = [l for l in bad]
        res_fix = judge_runs(fix_as_mrun, fix_out, tier=tier)
        for l in bad:
            uses_back = "back" in l.split(" ")[3]
            if pid == "C09" and uses_back and impl_of[l] == model_of[l] and res_fix.get(l, ("bad",))[0] == "ok":
                rep.known("F3", l)
                known += 1
            else:
                rep.violation("oracle", {"case": l, "impl": impl_of[l][:400], **res[l][1]})
    for m in mism[:100]:
        rep.violation("correspondence", {k: v[:600] for k, v in m.items()}, found_input=False)
    ok = [l for l, (v, _) in res.items() if v == "ok"]
    cyc = sum(d.get("cycles", 0) for v, d in res.values() if v == "ok")
    rep.add_counts(len(lines), len([l for l in ok if res[l][1]["cycles"] >= 3]))
    rep.cov["rule"] = (f"base programs: 2x2 tables (first instruction defined; {'all' if tier == 'thorough' else 'seeded sample'}), seeded random "
                       "3x2/2x3/4x2/2x4/3x3, named machines; macro chains " + ("block:1..6, block:2+block:2" if pid == "C08" else "back:1..3, block:2+back:k (proper nesting)")
                       + f"; each run for {n_cycles} macro cycles through the real get_instr; every macro configuration decoded to base cells and looked up, in order, on the L0 trajectory; "
                       "undefined macro slots checked against the base machine's fate inside the window. Non-trivial = runs with >= 3 decoded cycles on the trajectory.")
    rep.cov["samples"] = lines[:2] + lines[-2:]
    rep.cov["runs_ok"] = len(ok)
    rep.cov["runs_unjudged_over_budget"] = len([1 for v, _ in res.values() if v == "unjudged"])
    rep.cov["macro_cycles_matched_on_L0"] = cyc
    rep.cov["correspondence_mismatches"] = len(mism)
    rep.assumptions.append(f"L0 trajectory search capped at {CAP[tier]} base steps (runs whose own step bound exceeds the cap and do not match are counted unjudged)")
    import os
    if os.path.exists(os.path.join(core.LEAN, "BB", "Props", pid + ".lean")):
        from . import proofs
        proofs.attach(rep, pid)
