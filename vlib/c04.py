"""C04: backward reasoner never refutes something the machine does."""
from . import core
from .common import diff_streams, parse_kv
from .deciders import GOALS, program_stream, judge_refutations, escalate, event_happens

LEVEL = "proof"
OPS = {"halt": "cant_halt", "blank": "cant_blank", "spin_out": "cant_spin_out"}


def depths_for(tier, name):
    if name.endswith("slice") or "-all-" in name:
        return [10, 50] if tier == "thorough" else [10]
    if tier == "thorough":
        return [0, 1, 2, 3, 5, 10, 20, 50, 100, 300]
    return [0, 1, 3, 10, 50]


def attribute(rep, bad):
    """counterfactual re-run of the model with the repair switches"""
    if not bad:
        return
    lines, meta = [], []
    for (goal, prog, case, ans), f in bad:
        depth = case.split(" ")[1]
        for f1, f2 in ((0, 0), (1, 0), (0, 1), (1, 1)):
            lines.append(f"{OPS[goal]}_fix {f1} {f2} {depth} | {prog}")
        meta.append(((goal, prog, case, ans), f))
    outs = core.run_driver(lines)
    for k, (it, f) in enumerate(meta):
        goal, prog, case, ans = it
        o00, o10, o01, o11 = outs[4 * k: 4 * k + 4]
        detail = {"case": case, "impl": ans, "l0": {k_: f[k_] for k_ in ("halt", "spin", "erase", "steps")},
                  "model_fix": {"00": o00, "10": o10, "01": o01, "11": o11}}
        refuted = lambda o: o.startswith("refuted")
        if o00 == ans and not refuted(o01):
            rep.known("F2", case)
        elif o00 == ans and not refuted(o10):
            rep.known("F1", case)
        elif o00 == ans and not refuted(o11):
            rep.known("F1+F2", case)
        else:
            rep.violation("oracle", detail)


def check(rep, tier, seed, replay):
    budget = 50000 if tier == "thorough" else 5000
    total = nontrivial = refuted_n = certified = cert_tried = 0
    kinds = {}
    samples = []
    all_mism = []
    corpus = core.corpus_lines("C04")
    for name, progs in [("corpus", None)] + list(program_stream(tier, seed)):
        if name == "corpus":
            lines = corpus
        else:
            lines = [f"{OPS[g]} {d} | {p}" for p in progs for g in GOALS for d in depths_for(tier, name)]
        if not lines:
            continue
        impl = core.run_harness(lines)
        model = core.run_driver(lines)
        all_mism += diff_streams(rep, lines, impl, model, what=f"correspondence[{name}]")
        items = []
        for line, out in zip(lines, impl):
            kind = out.split("(")[0]
            kinds[kind] = kinds.get(kind, 0) + 1
            if out.startswith("refuted"):
                op = line.split(" ")[0]
                goal = [g for g in GOALS if OPS[g] == op][0]
                items.append((goal, line.split(" | ", 1)[1], line, out))
        refuted_n += len(items)
        nontrivial += len({(it[0], it[1]) for it in items})
        bad = judge_refutations(rep, items, budget)
        attribute(rep, bad)
        # refutations of the REAL code certified by theorem: the repaired model (for which
        # cant_*_sound are proved) refutes too, hence the event never happens - no step budget
        cert_items = items if tier == "thorough" else items[:4000]
        co = core.run_driver([f"{OPS[g]}_fix 1 1 {c.split(' ')[1]} | {pr}" for g, pr, c, a in cert_items])
        certified += sum(1 for o in co if o.startswith("refuted"))
        cert_tried += len(cert_items)
        total += len(lines)
        samples += lines[:1]
        core.log(f"[C04] {name}: {len(lines)} cases, {len(items)} refutations, {len(bad)} contradicted by L0")
    if all_mism and not any(v.get("found_input") for v in rep.violations):
        def refuted_by(line, out, f):
            op = line.split(" ")[0]
            return event_happens([g for g in GOALS if OPS[g] == op][0], f)
        escalate(rep, all_mism, lambda o: o.startswith("refuted"), refuted_by, seed)
    for m in all_mism[:200]:
        rep.violation("correspondence", m, found_input=False)
    rep.add_counts(total, nontrivial)
    rep.cov["rule"] = ("programs with first instruction defined: every 2x2 table, a seed-dependent slice (quick) or all (thorough) of the "
                       "3x2 and 2x3 tables, seeded random tables up to 6x2/4x3/2x6, named machines; goals halt/blank/spin_out; depth ladder. "
                       "Every 'refuted' answer of the real code is checked against an L0 run (budget %d steps). "
                       "Distinct non-trivial = distinct (goal, program) with a 'refuted' answer." % budget)
    rep.cov["samples"] = samples[:6]
    rep.cov["answer_kinds"] = kinds
    rep.cov["refutations_judged"] = refuted_n
    rep.cov["refutations_checked_against_repaired_model"] = cert_tried
    rep.cov["refutations_certified_by_theorem"] = certified
    rep.cov["explanation"] = ("a 'refuted' answer of the real code is certified by theorem when the repaired model (fixF1 = fixF2 = true), "
                              "for which cant_halt_sound / cant_blank_sound / cant_spin_out_sound are proved for every depth, refutes the same "
                              "event for the same program and depth: then the event never happens, with no step budget involved. The others "
                              "are judged by the budgeted L0 run only.")
    rep.cov["correspondence_mismatches"] = len(all_mism)
    rep.assumptions.append(f"L0 oracle budget {budget} base steps: an event later than that is not seen")
    import os
    if os.path.exists(os.path.join(core.LEAN, "BB", "Props", "C04.lean")):
        from . import proofs
        proofs.attach(rep, "C04")
