"""C06: closed-position-set analysis never claims a reachable event unreachable."""
from . import core
from .common import diff_streams, parse_kv
from .deciders import GOALS, program_stream, judge_refutations, escalate, event_happens

LEVEL = "proof"


def rads_for(tier, name):
    if name.endswith("slice") or "-all-" in name:
        return [3, 5] if tier == "thorough" else [4]
    if tier == "thorough":
        return [2, 3, 4, 5, 6, 7, 8, 9]
    return [2, 3, 5, 7]


def check(rep, tier, seed, replay):
    budget = 50000 if tier == "thorough" else 5000
    total = 0
    kinds = {}
    distinct = set()
    samples = []
    all_mism = []
    cert = {"halt_checked": 0, "halt_certified": 0, "blank_spinout_certified": 0}
    for name, progs in [("corpus", None)] + list(program_stream(tier, seed, quick_random=12000, thorough_random=40000)):
        if name == "corpus":
            lines = core.corpus_lines("C06")
        else:
            lines = [f"cps_{g} {r} | {p}" for p in progs for g in GOALS for r in rads_for(tier, name)]
        if not lines:
            continue
        impl = core.run_harness(lines)
        model = core.run_driver(lines)
        all_mism += diff_streams(rep, lines, impl, model, what=f"correspondence[{name}]")
        items = []
        for line, out in zip(lines, impl):
            kinds[out] = kinds.get(out, 0) + 1
            if out == "true":
                goal = line.split(" ")[0].split("_", 1)[1]
                items.append((goal, line.split(" | ", 1)[1], line, out))
        distinct |= {(it[0], it[1]) for it in items}
        # 'true' answers certified by theorem: blank / spin-out unconditionally (cps_cant_blank_sound,
        # cps_cant_spin_out_sound), halt when the model with the repaired table size answers true too
        halts = [it for it in items if it[0] == "halt"]
        hs = halts if tier == "thorough" else halts[:4000]
        ho = core.run_driver([it[2].replace("cps_halt ", "cps_halt_fix ", 1) for it in hs])
        cert["halt_checked"] += len(hs)
        cert["halt_certified"] += sum(1 for o in ho if o == "true")
        cert["blank_spinout_certified"] += len(items) - len(halts)
        bad = judge_refutations(rep, items, budget)
        if bad:
            model_of = dict(zip(lines, model))
            fl = [it[2].replace("cps_halt ", "cps_halt_fix ", 1) for it, f in bad if it[0] == "halt"]
            fo = iter(core.run_driver(fl)) if fl else iter([])
            for it, f in bad:
                goal, prog, line, out = it
                detail = {"case": line, "impl": out, "l0": {k: f[k] for k in ("halt", "spin", "erase", "steps")}}
                if goal == "halt":
                    fixed = next(fo)
                    detail["model_fixF2"] = fixed
                    if model_of[line] == out and fixed != "true":
                        rep.known("F2", line)
                        continue
                rep.violation("oracle", detail)
        total += len(lines)
        samples += lines[:1]
        core.log(f"[C06] {name}: {len(lines)} cases, {len(items)} 'true' answers, {len(bad)} contradicted by L0")
    if all_mism:
        from .deciders import cps_order_sensitive
        all_mism, dropped = cps_order_sensitive(all_mism)
        rep.cov["mismatches_not_compared_order_sensitive_near_limit"] = len(dropped)
    if all_mism and not any(v.get("found_input") for v in rep.violations):
        escalate(rep, all_mism, lambda o: o == "true",
                 lambda line, out, f: event_happens(line.split(" ")[0].split("_", 1)[1], f), seed)
    for m in all_mism[:200]:
        rep.violation("correspondence", m, found_input=False)
    rep.add_counts(total, len(distinct))
    rep.cov["rule"] = ("programs with first instruction defined: every 2x2 table, a seed-dependent slice (quick) or all (thorough) of the 3x2 and 2x3 "
                       "tables, seeded random tables up to 6x2/4x3/2x6, named machines; goals halt/blank/spin_out; radius ladder within 2..9. "
                       "Every 'true' (cannot ...) answer of the real code is judged against an L0 run (budget %d steps). "
                       "Distinct non-trivial = distinct (goal, program) answered true." % budget)
    rep.cov["samples"] = samples[:6]
    rep.cov["answer_kinds"] = kinds
    rep.cov["true_answers_certified_by_theorem"] = cert
    rep.cov["explanation"] = ("a 'true' answer of the real code (= the model's, by the correspondence) is certified by theorem: for blank and spin-out "
                              "unconditionally (cps_cant_blank_sound, cps_cant_spin_out_sound), for halt when the model with the repaired table size "
                              "(paramsCover) also answers true (cps_cant_halt_sound). Certified answers need no step budget; the L0 run judges all.")
    rep.cov["correspondence_mismatches"] = len(all_mism)
    rep.assumptions.append(f"L0 oracle budget {budget} base steps: an event later than that is not seen")
    rep.assumptions.append("cps.rs iterates a HashSet: only the Boolean answer is compared (order-independent except within MAX_LOOPS)")
    import os
    if os.path.exists(os.path.join(core.LEAN, "BB", "Props", "C06.lean")):
        from . import proofs
        proofs.attach(rep, "C06")
