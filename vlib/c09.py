"""C09: backsymbol macro machine simulates the base machine exactly (finding F3)."""
from .macrosim import check_sim
LEVEL = "proof"


def check(rep, tier, seed, replay):
    check_sim(rep, "C09", tier, seed)
