"""C10: tree generation enumerates exactly the normal-form programs, once each."""
import random
from . import core
from . import treeref
from .common import diff_streams

LEVEL = "proof"
LIMITS = [1, 2, 3, 5, 8, 13, 25, 99, 300]
THREADS = [1, 2, 3, 5, 8, 16]


def configs(tier, seed):
    rng = random.Random(seed * 271 + 10)
    small = [(2, 2), (3, 2), (2, 3)]
    out = []          # (S, C, halt, lim, how)   how in list / hash
    for S, C in small:
        for h in (0, 1):
            lims = LIMITS if tier == "thorough" else sorted(rng.sample(LIMITS, 3) + [rng.randrange(1, 301)])
            for l in lims:
                out.append((S, C, h, l, "list"))
    for S, C in ((4, 2), (2, 4)):
        for h in (0, 1):
            lims = [1, 2, 3, 5, 8, 13, 25, 30] if tier == "thorough" else [rng.choice([1, 2, 3, 5]), rng.choice([8, 13, 25, 30])]
            for l in lims:
                out.append((S, C, h, l, "list" if (tier == "thorough" or l <= 5) and h == 1 else "hash"))
    out.append((3, 3, 1, 1, "hash"))
    if tier == "thorough":
        out += [(3, 3, 1, 2, "hash"), (3, 3, 0, 1, "hash"), (5, 2, 1, 2, "hash")]
    # degenerate sizes: the slot budget underflows (outside the property's quantifier; compared only)
    for S, C, h in ((1, 1, 0), (1, 2, 1), (2, 1, 0), (1, 3, 1), (3, 1, 0)):
        out.append((S, C, h, 3, "list"))
    return out


def check(rep, tier, seed, replay):
    cfgs = configs(tier, seed)
    lines = core.corpus_lines("C10")
    idx = {}
    for S, C, h, l, how in cfgs:
        a = f"{S} {C} {h} {l}"
        if how == "list":
            for op in ("treelist", "treecount", "treeseq"):
                idx[(op, a)] = len(lines)
                lines.append(f"{op} {a}")
        idx[("treehash", a)] = len(lines)
        lines.append(f"treehash {a}")
    # schedule independence: the real generator under rayon pools of different sizes
    th_lines = []
    rng = random.Random(seed + 1010)
    th_cfgs = [c for c in cfgs if c[4] == "list" and c[0] * c[1] >= 4]
    for S, C, h, l, how in (th_cfgs if tier == "thorough" else rng.sample(th_cfgs, min(8, len(th_cfgs)))):
        for t in THREADS:
            th_lines.append(f"treethreads {t} {S} {C} {h} {l}")
    # every pool size 1..16 on the smallest trees (each top-level fan-out width: 8 second
    # instructions for 2x2, 12 for 3x2 / 2x3), where a run costs nothing
    for S, C, h, l, how in [c for c in cfgs if c[4] == "list" and (c[0], c[1]) in ((2, 2), (3, 2), (2, 3))][:: (1 if tier == "thorough" else 2)]:
        for t in range(1, 17):
            tl = f"treethreads {t} {S} {C} {h} {l}"
            if tl not in th_lines:
                th_lines.append(tl)
    # ... and on 3x3 (18 second instructions) by hash: harness only, compared with the default-pool hash
    hash_threads = []
    for a in (["3 3 1 2", "3 3 0 1"] if tier == "thorough" else ["3 3 1 2"]):
        idx[("treehash", a)] = idx.get(("treehash", a), None)
        if idx[("treehash", a)] is None:
            idx[("treehash", a)] = len(lines)
            lines.append(f"treehash {a}")
        for t in range(1, 17):
            hash_threads.append((a, f"treethreadshash {t} {a}"))
    # 5x2 by sub-tree (the only size within the quantifier on which availability has to grow twice):
    # two seeded second instructions per run, compared with the model task by task
    sub_lines = []
    for h in (0, 1):
        for i in rng.sample(range(12), 1 if tier != "thorough" else 4):
            sub_lines.append(f"treehashtask 5 2 {h} {2 if tier != 'thorough' else 3} {i}")
    lines += sub_lines
    all_lines = lines + th_lines
    impl = core.run_harness(all_lines, seq=True)       # one case at a time: each case uses the whole pool itself
    model = core.run_driver(all_lines)
    mism = diff_streams(rep, all_lines, impl, model)
    progs_total = 0
    distinct = set()
    ref_checked = 0
    for S, C, h, l, how in cfgs:
        a = f"{S} {C} {h} {l}"
        if how != "list":
            out = impl[idx[("treehash", a)]]
            if out not in ("PANIC", "limit:overflow"):
                progs_total += int(out.split(" ")[0])
            continue
        out = impl[idx[("treelist", a)]]
        if out in ("PANIC", "limit:overflow"):
            continue
        real = [p for p in out.split(";") if p]
        progs_total += len(real)
        cnt = impl[idx[("treecount", a)]].split(" ")
        if S >= 2 and C >= 2 and cnt[0] != cnt[1]:
            rep.violation("oracle", {"case": f"treecount {a}", "impl": " ".join(cnt), "why": "a program was emitted more than once"})
        if S * C >= 4 and S >= 2 and C >= 2:
            try:
                ref = sorted(treeref.enumerate_tree(S, C, h, l))
            except OverflowError:
                continue
            ref_checked += 1
            if ref != real:
                missing = sorted(set(ref) - set(real))[:3]
                extra = sorted(set(real) - set(ref))[:3]
                rep.violation("oracle", {"case": f"treelist {a}", "why": "emitted set differs from the reference enumerator",
                                         "emitted": len(real), "reference": len(ref), "missing_e.g.": missing, "extra_e.g.": extra})
            else:
                distinct.update((a, p) for p in real[:50])
                distinct.add((a, len(real)))
    for tl, out in zip(th_lines, impl[len(lines):]):
        a = tl.split(" ", 2)[2]
        base = impl[idx[("treelist", a)]]
        if out != base:
            rep.violation("oracle", {"case": tl, "why": "emitted programs depend on the number of worker threads",
                                     "emitted": out.count(";") + 1, "with_default_pool": base.count(";") + 1})
    ho = core.run_harness([l for _, l in hash_threads], seq=True)
    for (a, l), out in zip(hash_threads, ho):
        base = impl[idx[("treehash", a)]]
        if out != base:
            rep.violation("oracle", {"case": l, "why": "emitted programs depend on the number of worker threads (count / hash of the harvest differ)",
                                     "with_this_pool": out, "with_default_pool": base})
    # a sub-tree whose hash differs from the model's: list it on both sides and name a program that
    # is emitted but not in the model's tree (or the other way round); the model's tree is the
    # declarative one (tree_complete_sound), so such a program is a concrete failing output
    for m in mism:
        if m["case"].startswith("treehashtask ") and not any(v.get("found_input") for v in rep.violations):
            a = m["case"].split(" ", 1)[1]
            try:
                real = set(core.run_harness([f"treelisttask {a}"], seq=True)[0].split(";"))
                mod = set(core.run_driver([f"treelisttask {a}"])[0].split(";"))
            except Exception as e:          # too large to list: keep the hash mismatch only
                core.log("[C10] sub-tree listing failed:", str(e)[:200])
                continue
            extra, missing = sorted(real - mod)[:3], sorted(mod - real)[:3]
            if extra or missing:
                rep.violation("oracle", {"case": f"treelisttask {a}", "why": "the emitted sub-tree differs from the declarative tree (Lean model, tree_complete_sound)",
                                         "emitted": len(real), "declarative": len(mod), "emitted_but_not_in_the_tree_e.g.": extra,
                                         "in_the_tree_but_not_emitted_e.g.": missing})
    for m in mism[:50]:
        rep.violation("correspondence", {k: v[:600] for k, v in m.items()}, found_input=False)
    rep.add_counts(len(all_lines), len(distinct))
    rep.cov["rule"] = ("build_tree of the real code through wrappers::tree_progs (collecting harvester) for table sizes 2x2, 3x2, 2x3 (both halt flags, step limits from "
                       "{1,2,3,5,8,13,25,99,300} and a random one), 4x2 and 2x4 (listed for small limits, order-independent hash of the emitted texts beyond), 3x3"
                       + (", 5x2 at limit 2" if tier == "thorough" else "") + " (hash), 5x2 at limit 2 by sub-tree (the programs under a seeded second instruction per halt flag, hash), plus degenerate sizes; compared with the Lean model as sorted list, count/distinct, "
                       "single-thread emission order and hash; the sorted list is also compared with an independently written sequential reference enumerator "
                       "(vlib/treeref.py: cell-level tape, availability recomputed from the table) and the run is repeated under rayon pools of 1,2,3,5,8,16 threads. "
                       "Distinct non-trivial = distinct (configuration, program) pairs (first 50 per configuration) of configurations whose emitted set equals the reference.")
    rep.cov["samples"] = [lines[0], lines[len(lines) // 2], th_lines[0] if th_lines else lines[-1]]
    rep.cov["configurations"] = len(cfgs)
    rep.cov["configurations_compared_with_reference"] = ref_checked
    rep.cov["programs_emitted_total"] = progs_total
    rep.cov["thread_runs"] = len(th_lines) + len(hash_threads)
    rep.cov["correspondence_mismatches"] = len(mism)
    rep.assumptions.append("mutual exclusion of the harvester's push is Rust's Mutex (trusted); schedule independence is explored over thread counts, not proved of the runtime")
    import os
    if os.path.exists(os.path.join(core.LEAN, "BB", "Props", "C10.lean")):
        from . import proofs
        proofs.attach(rep, "C10")
