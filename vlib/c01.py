"""C01: run-length simulator == cell-by-cell semantics."""
import itertools
import random
from . import core
from .common import diff_streams, unroll_display, parse_cfg, parse_kv

LEVEL = "proof"
THEOREMS = []

ORACLE_BUDGET = 20_000_000


def gen(tier, seed):
    rng = random.Random(seed * 1000003 + 1)
    progs = list(core.all_progs(2, 2))
    limits = [0, 1, 2, 7, 100, 5000]
    cases = []
    for p in progs:
        for lim in (limits if tier == "thorough" else [rng.choice(limits), 300]):
            cases.append((lim, p))
    n_rand = 40000 if tier == "thorough" else 4000
    for _ in range(n_rand):
        s, c = rng.choice(core.SIZES)
        p = core.rand_prog(rng, s, c, p_undef=rng.choice([0.0, 0.1, 0.3]))
        cases.append((rng.choice([3, 17, 100, 1000, 5000, rng.randrange(1, 3000)]), p))
    for p in core.named_progs():
        for lim in (50, 2000, 20000):
            cases.append((lim, p))
    if tier == "thorough":
        stride = 29
        for (s, c) in ((3, 2), (2, 3)):
            for p in core.all_progs(s, c, stride=stride, offset=seed % stride):
                cases.append((rng.choice([40, 400]), p))
    return cases


def check(rep, tier, seed, replay):
    cases = gen(tier, seed)
    lines = core.corpus_lines("C01")
    lines += [f"runquick {lim} | {p}" for lim, p in cases]
    trace_n = 60
    tlines = [f"qtrace {min(lim, trace_n)} | {p}" for lim, p in cases[::3] if lim > 0]
    all_lines = lines + tlines
    impl = core.run_harness(all_lines)
    model = core.run_driver(all_lines)
    mism = diff_streams(rep, all_lines, impl, model)

    # ---- oracle pass on the implementation's own answers
    or_lines, or_idx = [], []
    skipped = 0
    kinds = {}
    for k, line in enumerate(lines):
        r = parse_kv(impl[k])
        kinds[r["result"]] = kinds.get(r["result"], 0) + 1
        if r["result"] in ("PANIC", "limit:overflow", "BAD-OP"):
            continue
        steps = int(r["steps"])
        if steps > ORACLE_BUDGET:
            skipped += 1
            continue
        prog = line.split(" | ", 1)[1]
        or_lines.append(f"l0run {steps} | {prog}")
        or_idx.append(k)
        if r["result"] == "infrul":
            or_lines.append(f"l0run {3 * steps + 1000} | {prog}")
            or_idx.append(-k - 1)
    orc = core.run_driver(or_lines)
    nontrivial = set()
    viol = 0
    for oline, o, k in zip(or_lines, orc, or_idx):
        f = parse_kv("x " + o)
        if k < 0:
            # infrul: no termination in 3x the steps
            if f["halt"] != "none" or f["spin"] != "none":
                rep.violation("infrul-but-terminates", {"case": lines[-k - 1], "impl": impl[-k - 1], "l0": o})
                viol += 1
            continue
        r = parse_kv(impl[k])
        steps = int(r["steps"])
        bad = []
        if r["result"] == "undfnd":
            if f["halt"] != f"{steps}:{r['last']}":
                bad.append("halt step/slot")
        elif f["halt"] != "none" and not f["halt"].startswith(f"{steps}:"):
            bad.append("L0 halts earlier")
        if r["result"] == "spnout":
            if f["spin"] != str(steps):
                bad.append("spin-out step")
        elif f["spin"] != "none" and f["spin"] != str(steps):
            bad.append("L0 spins out earlier")
        if r["result"] == "undfnd" and f["spin"] != "none":
            bad.append("L0 spins out before halt")
        if f["marks"] != r["marks"]:
            bad.append("marks")
        if f["blanks"] != r["blanks"]:
            bad.append("blanks")
        if bad:
            rep.violation("oracle", {"case": lines[k], "impl": impl[k], "l0": o, "fields": bad})
            viol += 1
        if int(r.get("cycles", 0) or 0) >= 2 or steps >= 3:
            nontrivial.add(lines[k])

    # ---- per-cycle traces against L0 configurations
    t_or, t_meta = [], []
    for j, tl in enumerate(tlines):
        out = impl[len(lines) + j]
        if out in ("PANIC", "limit:overflow") or not out:
            continue
        ents = [e.split(";") for e in out.split("/")]
        ns = [int(e[2]) for e in ents]
        if ns[-1] > ORACLE_BUDGET:
            continue
        t_or.append(f"l0cfgs {','.join(map(str, ns))} | {tl.split(' | ', 1)[1]}")
        t_meta.append((tl, ents))
    t_out = core.run_driver(t_or)
    cyc_checked = 0
    for (tl, ents), o in zip(t_meta, t_out):
        cfgs = o.split("/")
        for e, c in zip(ents, cfgs):
            cyc_checked += 1
            if c == "halted":
                rep.violation("oracle-cycle", {"case": tl, "impl_cycle": e, "l0": c})
                break
            q, l, sc, r_ = parse_cfg(c)
            il, isc, ir = unroll_display(e[1])
            if (int(e[0]), il, isc, ir) != (q, l, sc, r_):
                rep.violation("oracle-cycle", {"case": tl, "impl_cycle": e, "l0": c})
                break

    for m in mism:
        # a correspondence break whose case the oracle judged fine has no failing input
        rep.violation("correspondence", m, found_input=False)

    rep.add_counts(len(all_lines), len(nontrivial))
    rep.cov["rule"] = ("programs: exhaustive 2x2, seeded random 2x2..6x6 (undefined-slot rate 0/0.1/0.3), named machines"
                       + ("; stride-29 slice of 3x2 and 2x3" if tier == "thorough" else "")
                       + "; each with a cycle limit. Distinct non-trivial = distinct (limit, program) whose run made >=2 cycles or >=3 base steps.")
    rep.cov["samples"] = lines[:2] + lines[len(lines) // 2: len(lines) // 2 + 2] + tlines[:1]
    rep.cov["outcome_kinds"] = kinds
    rep.cov["oracle_runs"] = len(or_lines)
    rep.cov["oracle_skipped_over_budget"] = skipped
    rep.cov["cycles_checked_against_L0"] = cyc_checked
    rep.cov["correspondence_mismatches"] = len(mism)
    rep.assumptions += ["oracle budget %d base steps" % ORACLE_BUDGET]
    finalize_level(rep)


def finalize_level(rep):
    import os
    if os.path.exists(os.path.join(core.LEAN, "BB", "Props", "C01.lean")):
        from . import proofs
        proofs.attach(rep, "C01")
