"""C07: quick recurrence check: every verdict is true."""
import re
import random
from . import core
from .common import diff_streams, parse_kv

LEVEL = "proof"


def normal_progs(tier, seed):
    rng = random.Random(seed * 31337 + 7)
    progs = [p for p in core.all_progs(2, 2) if p.startswith("1RB")]
    stride = 7 if tier == "thorough" else 37
    for (s, c) in ((3, 2), (2, 3)):
        progs += [p for p in core.all_progs(s, c, stride=stride, offset=seed % stride) if p.startswith("1RB")]
        # all_progs varies slot A0 fastest: take also a dedicated normal-form enumeration
    n = 60000 if tier == "thorough" else 50000
    for _ in range(n):
        s, c = rng.choice([(2, 2), (3, 2), (2, 3), (4, 2), (2, 4), (3, 3), (5, 2), (2, 5), (6, 2)])
        progs.append(core.rand_prog(rng, s, c, p_undef=rng.choice([0.0, 0.1, 0.2]), normal=True))
    progs += [p for p in core.named_progs() if p.startswith("1RB")]
    try:
        progs += tree_leaves(tier)
    except Exception as e:  # tree op not available
        core.log("[C07] no tree leaves:", e)
    return progs


def tree_leaves(tier):
    lines = ["treelist 2 2 1 20", "treelist 3 2 1 20", "treelist 2 3 1 20"]
    if tier == "thorough":
        lines += ["treelist 4 2 1 30", "treelist 2 4 1 30"]
    outs = core.run_harness(lines)
    res = []
    for o in outs:
        if o in ("BAD-OP", "PANIC"):
            raise RuntimeError(o)
        res += [p for p in o.split(";") if p]
    return res


def check(rep, tier, seed, replay):
    rng = random.Random(seed + 70)
    progs = normal_progs(tier, seed)
    ladder = [1, 2, 3, 5, 10, 30, 100, 300, 1000, 3000, 20000] if tier == "thorough" else [2, 10, 100, 1000]
    lines = core.corpus_lines("C07")
    for p in progs:
        lims = [rng.choice(ladder), ladder[-1]] if tier != "thorough" else rng.sample(ladder, 4)
        # a limit of the program's own (the property: all cycle limits): log-uniform, or just above
        # a power of two - the reference snapshot is retaken at doubling intervals, so a limit-
        # dependent slip shows only in such a band (seeded change C15-E)
        if rng.random() < 0.5:
            lims.append(max(1, min(ladder[-1], int(2 ** rng.uniform(0, ladder[-1].bit_length())))))
        else:
            k = rng.randrange(2, ladder[-1].bit_length())
            lims.append(min(ladder[-1], (1 << k) + rng.randrange(1, max(2, (1 << k) // 4))))
        for lim in lims:
            lines.append(f"rec {lim} | {p}")
    # the Python-facing wrapper py_quick_term_or_rec (Boolean) on a fifth of the cases
    wl = [l.replace("rec ", "recpy ", 1) for l in lines[::5] if l.startswith("rec ")]
    impl_all = core.run_harness(lines + wl)
    model_all = core.run_driver(lines + wl)
    impl, model = impl_all[:len(lines)], model_all[:len(lines)]
    mism = diff_streams(rep, lines + wl, impl_all, model_all)
    by_line = dict(zip(lines, impl))
    for l, o in zip(wl, impl_all[len(lines):]):
        r = by_line[l.replace("recpy ", "rec ", 1)]
        want = "true" if r in ("recur", "spinout") else "false"
        if o in ("true", "false") and o != want:
            rep.violation("oracle", {"case": l, "impl": o, "why": f"the wrapper's Boolean contradicts the verdict {r} of quick_term_or_rec on the same input"})
    rep.cov["wrapper_cases"] = len(wl)
    kinds = {}
    # --- oracle
    steps_q = [l.replace("rec ", "rec_steps ", 1) for l, o in zip(lines, impl)
               if o == "recur" or o == "spinout" or o.startswith("undefined")]
    steps_o = dict(zip(steps_q, core.run_driver(steps_q)))
    or_lines, or_meta = [], []
    CERT_MAX = 6000
    TERM_MAX = 200_000_000
    unjudged = 0
    term_unjudged = 0
    for line, out in zip(lines, impl):
        kind = out.split("(")[0]
        kinds[kind] = kinds.get(kind, 0) + 1
        prog = line.split(" | ", 1)[1]
        if out == "recur":
            so = steps_o[line.replace("rec ", "rec_steps ", 1)]
            st = int(parse_kv(so).get("steps", "0")) if so.startswith("recur") else CERT_MAX
            if st + 2 > CERT_MAX:
                # too long for the quadratic certificate search: only check that it does not terminate
                or_lines.append(f"l0run {min(st * 3 + 1000, 2_000_000)} | {prog}")
                or_meta.append((line, out, "noterm"))
                unjudged += 1
            else:
                or_lines.append(f"l0linrec {st + 2} | {prog}")
                or_meta.append((line, out, "cert"))
        elif out == "spinout" or out.startswith("undefined"):
            # A termination claim carries no step number, so a cell-by-cell run that has not
            # terminated within SOME budget refutes nothing by itself (lim run-length cycles can
            # cover far more base steps: `1RB 1LC ...  1LA 1LC 2RB  1RB 2LC 1RC` halts at step
            # 3 932 963 within 20 000 cycles).  The budget is therefore the step count of the model's
            # own run when the model gives the same verdict (then the L0 run must show exactly that
            # event); when the model gives ANOTHER definite verdict, that verdict is true of the
            # machine by theorem (rec_undefined / rec_spinout / rec_recur), the claim is false and the
            # L0 run is the illustration; when the model says `limit`, an unconfirmed claim stays
            # unjudged (the correspondence mismatch is reported on its own).
            so = steps_o[line.replace("rec ", "rec_steps ", 1)]
            mv = so.split(" ")[0]
            m_st = re.search(r"steps=(\d+)", so)
            st = int(m_st.group(1)) if m_st else 0
            if mv == out:
                if st > TERM_MAX:
                    term_unjudged += 1
                    continue
                or_lines.append(f"l0run {st + 10} | {prog}")
                or_meta.append((line, out, "term"))
            elif mv == "recur" or mv == "spinout" or mv.startswith("undefined"):
                or_lines.append(f"l0run 2000000 | {prog}")
                or_meta.append((line, out, "term"))
            else:
                or_lines.append(f"l0run 2000000 | {prog}")
                or_meta.append((line, out, "term_soft"))
    orc = core.run_driver(or_lines)
    confirmed = 0
    distinct = set()
    for (line, out, how), o in zip(or_meta, orc):
        if how == "cert":
            if o.startswith("cert="):
                confirmed += 1
                distinct.add(line.split(" | ", 1)[1])
            elif o.startswith("term="):
                rep.violation("oracle", {"case": line, "impl": out, "l0": o, "why": "recurrence claimed but the machine terminates"})
            else:
                rep.violation("oracle", {"case": line, "impl": out, "l0": o,
                                         "why": "no translated-cycle certificate exists within the steps the check itself ran"})
        elif how == "noterm":
            f = parse_kv("x " + o)
            if f["halt"] != "none" or f["spin"] != "none":
                rep.violation("oracle", {"case": line, "impl": out, "l0": o, "why": "recurrence claimed but the machine terminates"})
        else:
            f = parse_kv("x " + o)
            if how == "term_soft" and f["spin"] == "none" and f["halt"] == "none":
                term_unjudged += 1  # neither confirmed nor refutable by a finite run
                continue
            if out == "spinout":
                if f["spin"] == "none":
                    rep.violation("oracle", {"case": line, "impl": out, "l0": o})
                else:
                    distinct.add(line.split(" | ", 1)[1])
            else:
                q, s = out[len("undefined("):-1].split(",")
                if not f["halt"].endswith(f":{q},{s}"):
                    rep.violation("oracle", {"case": line, "impl": out, "l0": o})
                else:
                    distinct.add(line.split(" | ", 1)[1])
    if mism and not any(v.get("found_input") for v in rep.violations):
        from .deciders import escalate

        def refuted_by(line, out, f):
            if out == "recur":
                return f["halt"] != "none" or f["spin"] != "none"
            if out == "spinout":
                return f["spin"] == "none" and f["halt"] != "none"
            q, s = out[len("undefined("):-1].split(",")
            return (f["halt"] != "none" and not f["halt"].endswith(f":{q},{s}")) or (f["halt"] == "none" and f["spin"] != "none")
        escalate(rep, [m for m in mism if m["case"].split(" | ", 1)[1].startswith("1RB")],
                 lambda o: o == "recur" or o == "spinout" or o.startswith("undefined"), refuted_by, seed, budget=300000, keep_first=True)
    for m in mism[:100]:
        rep.violation("correspondence", m, found_input=False)
    rep.add_counts(len(lines), len(distinct))
    rep.cov["rule"] = ("normal-form programs (A0 = 1RB): all 2x2, slices of 3x2/2x3, tree leaves, seeded random completions up to 6x2/3x3/2x5, "
                       "named machines; limits from a ladder plus, per program, one log-uniform or just-above-a-power-of-two limit. 'recur' is confirmed by an independent brute-force translated-cycle certificate on L0 "
                       "cells, 'spinout'/'undefined' by the L0 run. Distinct non-trivial = distinct programs with a confirmed non-limit verdict.")
    rep.cov["samples"] = lines[:3] + lines[-2:]
    rep.cov["verdict_kinds"] = kinds
    rep.cov["recurrences_confirmed_by_certificate"] = confirmed
    rep.cov["recurrences_too_long_for_certificate_search"] = unjudged
    rep.cov["termination_claims_unjudged"] = term_unjudged
    rep.cov["correspondence_mismatches"] = len(mism)
    import os
    if os.path.exists(os.path.join(core.LEAN, "BB", "Props", "C07.lean")):
        from . import proofs
        proofs.attach(rep, "C07")
